#!/usr/bin/env python3
"""prints a core-model replay file: watcher configs, behaviours, and the steps around the failure"""
import json, sys
d = json.load(open(sys.argv[1]))
back = int(sys.argv[2]) if len(sys.argv) > 2 else 6
print(d.get("failure"))
sc = d["case"]
for w in sc["watchers"]:
    print("W", {k: v for k, v in w.items() if v not in (False, None, 0) or k in ("np",)})
print("B", sc.get("behav"), "arb", sc.get("arb"))
n = (d.get("failure") or {}).get("step", 0)
for i, o in enumerate(d["impl_obs"]["steps"]):
    if i < n - back or i > n + 1:
        continue
    print(i, o["op"])
    for l in o["lines"]:
        print("    ", l)
    print("   ", o["snap"])
