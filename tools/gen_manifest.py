#!/usr/bin/env python3
"""Regenerates /verif/MANIFEST.json from the table below (keeps it schema-valid at all times)."""
import json, os, sys
HERE = os.path.dirname(os.path.dirname(os.path.abspath(__file__)))
BASELINE = json.load(open("/root/.vp/BASELINE.json"))["cmd"] if os.path.exists("/root/.vp/BASELINE.json") else \
    "cd /repo && /venv/bin/python -m pytest -ra -q -p no:cacheprovider --timeout=900 --continue-on-collection-errors"
BASELINE = BASELINE.replace(" --junitxml=<file>", "")

NOTE_COMMON = ("Trusted: Lean 4.33.0 kernel; axioms propext/Classical.choice/Quot.sound only (audited every run); "
               "the hand-written model is tied to /repo only by the run's correspondence check (differential "
               "testing against the real code), so the theorems speak about circus exactly as far as that check reaches. ")

# id -> (technique, text, design_ref, extra note)
CLAIMED = {
 "C20": ("Lean 4 theorems (induction over the write list / the rollover loop) about a model of FileStream + "
         "differential correspondence with the real FileStream on scratch files",
         "C20_size, C20_count, C20_tail, C20_prefix, C20_plain_append, C20_reopen are proved for every max_bytes, "
         "backup_count, initial directory (gaps allowed) and write sequence; each run re-checks the proofs, audits "
         "axioms and diffs the model against the implementation on several hundred generated directories/write sequences, "
         "with a property oracle on the implementation's files for the failing-input search.",
         "DESIGN.md 5 (C20)",
         "ASCII payloads; strftime is a parameter; TimedRotatingFileStream/WatchedFileStream not modelled."),
 "C13": ("Lean 4 theorems (structural induction over texts, option tables and wid histories) about models of "
         "replace_gnu_args (regex scanner), shlex.split/quote, Process.format_args/spawn, the Watcher env assembly and "
         "_nextwid + differential correspondence with the real functions and with Watcher.spawn_process driving a "
         "recording Popen",
         "C13_list_args_kept(+_noshell,_boundaries), C13_quote_roundtrip (every argument list), C13_shell_line, "
         "C13_unknown_verbatim(2), C13_literal_unchanged, C13_literal_prefix, C13_unclosed_verbatim, C13_wid, "
         "C13_wid_format_args, C13_env_exact(_nocopy,_copy), C13_nextwid(_raise,_first), C13_wid_unique are proved for "
         "all texts, tables, environments and histories; each run re-checks the proofs, audits axioms and diffs the "
         "models against replace_gnu_args, shlex, Process.format_args and Watcher.spawn_process on several thousand "
         "generated inputs, with a property oracle on the implementation's Popen arguments for the failing-input search.",
         "DESIGN.md 5 (C13)",
         "ASCII for \\w / re.I / lower(); str() of option values, os.environ, sys.path and working_dir are parameters; "
         "wid uniqueness is proved for histories of spawn/death/numprocesses changes over _nextwid, not yet over the "
         "full watcher coroutine state machine; Watcher ignores the configured executable (observed, outside the property text)."),
}
NOT_YET = "not decided by the machinery in this revision (model layer not built yet); not claimed"
NOT_APPLICABLE = {}

def main():
    props = [json.loads(l)["id"] for l in open(os.path.join(HERE, "properties.jsonl"))]
    checks = []
    for pid in props:
        if pid not in CLAIMED:
            continue
        tech, text, ref, note = CLAIMED[pid]
        checks.append({
            "property_id": pid,
            "quick_cmd": "./check %s --tier quick" % pid,
            "thorough_cmd": "./check %s --tier thorough" % pid,
            "evidence_file": "evidence/%s.json" % pid,
            "replay_cmd_template": "./check %s --replay {path}" % pid,
            "engine": "lean4-proof+correspondence",
            "level_claimed": {"category": "proof", "text": text, "design_ref": ref},
            "level_note": NOTE_COMMON + note,
            "technique": tech,
        })
    man = {
        "version": 1,
        "setup_cmd": "cd lean && lake build",
        "hooks": {"guard": "CIRCUS_VERIF", "enable": "no hook in /repo is needed: the harness patches module attributes "
                  "(circus.process.Popen, os.waitpid, time, tornado_sleep) at run time; the guard name is reserved",
                  "baseline_off_cmd": BASELINE, "source_commits": [], "add_only": True},
        "engines": [{"name": "lean4-proof+correspondence", "path": "lean/ , harness/ , check",
                     "serves_properties": [c["property_id"] for c in checks],
                     "kind_free_text": "Lean 4 model + theorems (lake project, no Mathlib in the model); Python harness runs "
                                       "the real circus code and the native model driver on the same inputs and diffs them"}],
        "checks": checks,
        "not_applicable": [{"property_id": p, "reason": NOT_APPLICABLE.get(p, NOT_YET)} for p in props if p not in CLAIMED],
        "notes": "See DESIGN.md. known_findings.json lists genuine defects of the pinned tree (open or fixed).",
    }
    json.dump(man, open(os.path.join(HERE, "MANIFEST.json"), "w"), indent=1)
    print("MANIFEST.json: %d checks, %d not claimed" % (len(checks), len(man["not_applicable"])))

if __name__ == "__main__":
    main()
