#!/usr/bin/env python3
"""Regenerates /verif/MANIFEST.json from the table below (keeps it schema-valid at all times)."""
import json, os, sys
HERE = os.path.dirname(os.path.dirname(os.path.abspath(__file__)))
BASELINE = json.load(open("/root/.vp/BASELINE.json"))["cmd"] if os.path.exists("/root/.vp/BASELINE.json") else \
    "cd /repo && /venv/bin/python -m pytest -ra -q -p no:cacheprovider --timeout=900 --continue-on-collection-errors"
BASELINE = BASELINE.replace(" --junitxml=<file>", "")

CORE_NOTE = ('the core state machine (Arbiter/Watcher/Process/Controller/commands as tornado coroutines over a simulated kernel) is modelled in lean/CircusModel/Core; real kernel scheduling, zmq, on_demand sockets, stream redirection and regex matching are outside it; liveness is proved only in finite form.')
NOTE_COMMON = ("Trusted: Lean 4.33.0 kernel; axioms propext/Classical.choice/Quot.sound only (audited every run); "
               "the hand-written model is tied to /repo only by the run's correspondence check (differential "
               "testing against the real code), so the theorems speak about circus exactly as far as that check reaches. ")

# id -> (technique, text, design_ref, extra note)
CLAIMED = {
 "C20": ("Lean 4 theorems (induction over the write list / the rollover loop) about a model of FileStream + "
         "differential correspondence with the real FileStream on scratch files",
         "C20_size, C20_count, C20_tail, C20_prefix, C20_plain_append, C20_reopen are proved for every max_bytes, "
         "backup_count, initial directory (gaps allowed) and write sequence; each run re-checks the proofs, audits "
         "axioms and diffs the model against the implementation on several hundred generated directories/write sequences, "
         "with a property oracle on the implementation's files for the failing-input search.",
         "DESIGN.md 5 (C20)",
         "ASCII payloads; strftime is a parameter; TimedRotatingFileStream/WatchedFileStream not modelled."),
 "C13": ("Lean 4 theorems (structural induction over texts, option tables and wid histories) about models of "
         "replace_gnu_args (regex scanner), shlex.split/quote, Process.format_args/spawn, the Watcher env assembly and "
         "_nextwid + differential correspondence with the real functions and with Watcher.spawn_process driving a "
         "recording Popen",
         "C13_list_args_kept(+_noshell,_boundaries), C13_quote_roundtrip (every argument list), C13_shell_line, "
         "C13_unknown_verbatim(2), C13_literal_unchanged, C13_literal_prefix, C13_unclosed_verbatim, C13_wid, "
         "C13_wid_format_args, C13_env_exact(_nocopy,_copy), C13_nextwid(_raise,_first), C13_wid_unique are proved for "
         "all texts, tables, environments and histories; each run re-checks the proofs, audits axioms and diffs the "
         "models against replace_gnu_args, shlex, Process.format_args and Watcher.spawn_process on several thousand "
         "generated inputs, with a property oracle on the implementation's Popen arguments for the failing-input search.",
         "DESIGN.md 5 (C13)",
         "ASCII for \\w / re.I / lower(); str() of option values, os.environ, sys.path and working_dir are parameters; "
         "wid uniqueness is proved for histories of spawn/death/numprocesses changes over _nextwid, not yet over the "
         "full watcher coroutine state machine; Watcher ignores the configured executable (observed, outside the property text)."),
 "C01": ('Lean 4: generic invariant preservation over the whole coroutine interpreter (per-writer lemmas + aesop-discharged composition), instantiated for the numprocesses bounds; separate theorems for oldest-first removal and for the converged state being a fixpoint of manage_processes; differential correspondence of the core model with the real code on a simulated kernel',
         'C01_bounds (every reachable state, any op list), C01_oldest_first, C01_sort_perm, C01_fixpoint are proved; convergence after a calm check and freshness after restart/reload are not theorems (finite liveness over several timer steps): they are checked on the implementation by the oracle on every run, and every step of every generated scenario is diffed against the model (kernel calls, events, replies, snapshots).',
         'DESIGN.md 5 (C01)', 'the core state machine (Arbiter/Watcher/Process/Controller/commands as tornado coroutines over a simulated kernel) is modelled in lean/CircusModel/Core; real kernel scheduling, zmq, on_demand sockets, stream redirection and regex matching are outside it; liveness is proved only in finite form.'),
 "C15": ('Lean 4: directory invariant DirInv proved for every reachable state by generic preservation over the coroutine interpreter; lookup / rm / add theorems; differential correspondence of the core model with the real code',
         'C15_dir_inv (list and lower-cased dict describe the same watcher objects, no duplicates, in every reachable state), C15_unique_ignoring_case, C15_list_numwatchers_agree, C15_case_insensitive_lookup, C15_rm_gone, C15_rm_name_reusable, C15_add_ok_exists, C15_add_refused_noop.',
         'DESIGN.md 5 (C15)', 'the core state machine (Arbiter/Watcher/Process/Controller/commands as tornado coroutines over a simulated kernel) is modelled in lean/CircusModel/Core; real kernel scheduling, zmq, on_demand sockets, stream redirection and regex matching are outside it; liveness is proved only in finite form. Names over ASCII + Latin-1 (pyLower).'),
 "C16": ('Lean 4 theorems about a model of get_config (ini reader, typing loop, env layering, env:PATTERN pass with fnmatch, expansion) + differential correspondence with the real get_config on generated ini files',
         'C16_option_typing, C16_env_precedence, C16_comma_and_wildcards, C16_expansion(+lookup, collision, env, late_options), C16_conversions, C16_deterministic (rfl in the model; for the code only the correspondence) and reader theorems; four genuine deviations from the documentation are listed as known findings (C16-F1..F4) with counter-example theorems.',
         'DESIGN.md 5 (C16)', 'ASCII texts; [circus] options, include, [DEFAULT] not modelled; to_signum is a parameter.'),
 "C17": ('Lean 4 theorems (invariants by induction over op lists) about a model of the Redirector over a pipe kernel with lowest-free fd reuse + differential correspondence with the real Redirector/Process on real pipes',
         'C17_stream_refinement, C17_accounting, C17_handlers_labelled, C17_no_spin, C17_no_leak(_bounded) proved for all op lists; completeness holds only under NoLossAtClose (C17_complete_partial) — the real code drops bytes still queued when Process.stop() closes the pipe (known finding F17, counter-example theorem).',
         'DESIGN.md 5 (C17)', 'epoll readiness, pipe capacity and several Redirectors sharing a loop are not modelled.'),
 "C10": ("Lean 4: SlotInv (slot taken iff exactly one release callback pending, never two) proved for every reachable state by generic preservation over the coroutine interpreter with bespoke lemmas for util.synchronized, future completion and the event-loop step; refusal/no-effect and outcome-independence of the release as separate theorems; differential correspondence of the core model with the real code",
         "C10_slot_inv, C10_refused_no_effect(_plain), C10_accepted_takes_slot, C10_release_whatever_outcome_sync/_async, C10_taken_means_pending, C10_free_when_nothing_pending are proved. That every registered future eventually completes (no lost continuation) is not a theorem; the oracle looks for a wedged slot at every quiescent point of every generated scenario, with requests injected at every progress point of a first operation that succeeds, raises synchronously or fails asynchronously (hooks, exec failures).",
         "DESIGN.md 5 (C10)", CORE_NOTE),
 "C02": ("Lean 4: theorems about the model of Watcher._stop / reap_processes / manage_processes / spawn_processes (every listed pid is popped by the reap loop; a stopped watcher's manage/reap/spawn are no-ops; stop is idempotent; per-watcher properties are stable under everything that does not write them, by generic preservation) + differential correspondence of the core model with the real code on a simulated kernel",
         "C02_reap_processes_clears, C02_stop_completes, C02_stopped_no_spawn, C02_stopped_manage_noop, C02_stopped_reap_noop, C02_stop_idempotent and the helper invariants are proved; that a stopped watcher stays without workers across whole histories is checked on the implementation by the oracle at every quiescent point of every generated scenario.",
         "DESIGN.md 5 (C02)", CORE_NOTE),
 "C03": ("Lean 4: theorems about the model of Watcher.kill_process (poll count bounds from graceful_timeout, stop signal first, wait while alive, SIGKILL exactly at the timeout and never to a worker that exited, escalation signal is SIGKILL, 100 ms polling) + differential correspondence of the core model with the real code on a simulated kernel with virtual time",
         "C03_polls_bounds, C03_waits_while_alive, C03_no_sigkill_to_exited, C03_finish_plain, C03_stop_dead_is_silent, C03_sigkill_at_timeout, C03_escalation_is_sigkill, C03_sleep_is_100ms, C03_stop_signal_first are proved for every graceful_timeout and kernel state; signal timing windows and stop_children delivery are additionally checked on the implementation's signal log by the oracle. Known finding F20 (children lost when the signal kills the worker at once).",
         "DESIGN.md 5 (C03)", CORE_NOTE + " graceful_timeout values for which the float loop `waited += 0.1` and ceil(T/100ms) agree."),
 "C06": ("Lean 4: daemon side — a reply counter on the ghost log, preserved by every writer except Controller.send_response (generic preservation over the coroutine interpreter), at most one reply per handle_message for every frame, exact replies for malformed frames, the deferred reply of a waiting request; client side — theorems about a model of CircusClient.call / AsyncCircusClient (id filter) + differential correspondence of both models with the real code",
         "C06_at_most_one_reply, C06_execute_writes_no_reply, C06_waiting_reply, C06_other_callbacks_silent, C06_invalid_json, C06_not_an_object, C06_command_not_a_string, sendReply_exact / _cast_silent; C06_client_* (only own id, first match, timeout, foreign discarded, duplicates ignored, reorder, pending_iff, errors, async same filter). The oracle counts replies per request id on the implementation's control stream in every generated scenario (valid, corrupted and raw frames).",
         "DESIGN.md 5 (C06)", CORE_NOTE + " zmq framing and socket identities are parameters."),
 "C14": ("Lean 4: theorems about the model of Watcher.call_hook and its call sites (outcome table incl. ignore-failure, one event per call, before_signal veto never blocks SIGKILL, before_start / before_spawn / after_spawn / after_start gates, stop and after_stop ungated) + differential correspondence of the core model with the real code with scripted hooks",
         "C14_call_hook_absent, C14_call_hook, C14_outcome_table, C14_signal_vetoed, C14_sigkill_always_sent, C14_before_start_gate, C14_before_spawn_gate, C14_spawn_false_stops, C14_after_start_gate, C14_no_worker_aborts, C14_stop_ungated, C14_after_stop_ungated are proved; the oracle checks hook/event/gate consistency on the implementation's event stream in every generated scenario.",
         "DESIGN.md 5 (C14)", CORE_NOTE + " Hooks are scripted outcome lists (true / false / raise); the hook body itself is a parameter."),
 "C04": ("Lean 4: pid-accounting invariant PidInv (listed pids are below the kernel's pid counter, are processes of the kernel table, have a Process object, are listed once, and by one watcher object only; uids distinct) proved for every reachable state by generic preservation over the coroutine interpreter (every kernel call keeps the pid counter and the pid list: KStep); local theorems for numprocesses/list/status, reap, the dead-pid drop of manage_processes and spawn_process's register-before-hooks / keep-until-killed; differential correspondence of the core model with the real code on a simulated kernel",
         "C04_pid_inv (any configuration, any op list), C04_no_pid_under_two_watchers(_getW), C04_no_pid_listed_twice, C04_listed_pids_are_kernel_processes, C04_fresh_pid_never_listed, C04_total_listed_nodup, C04_numprocesses_counts_listed, C04_numprocesses_total, C04_list_reports_active_listed, C04_status_reports_field, C04_reap_pops, C04_manage_drops_dead, C04_dead_pid_dropped_by_check, C04_spawnAdopt_registers, C04_spawn_registers_before_hooks, C04_execfail_registers_nothing, C04_veto_keeps_listed_until_callback, C04_popProc_pops are proved. 'stopped implies no listed process' in every non-hanging reachable state and 'no transient status once the operation has ended' are not theorems yet (Hoare-style facts, not per-writer invariants): they are checked on the implementation by the oracle at every quiescent point of every generated scenario, as are zombies outliving a check.",
         "DESIGN.md 5 (C04)", CORE_NOTE),
 "C18": ("Lean 4: confinement — a small Hoare logic over the ghost signal log (every appended kernel signal carries the designated number and goes to a listed pid of the named watcher or to a kernel descendant of one; parent links only disappear under kernel calls) for Watcher.send_signal, Process.send_signal_child, send_signal_process and the whole `signal` command in all modes, the pid filter of `kill`, refusal of bad designations; designation language — theorems about a model of util.to_signum over all strings; differential correspondence of both models with the real code",
         "C18_send_signal_only_own, C18_send_signal_target, C18_send_signal_vetoed_no_signal, C18_send_signal_delivers, C18_send_signal_child_only_current_children, C18_send_signal_process_confined, C18_signal_cmd_targets (every mode, with or without pid), C18_signal_request_targets, C18_signal_cmd_targets_log, C18_signal_never_reaches_others, C18_signal_unknown_watcher, C18_signal_foreign_pid_no_signal / _request, C18_signal_own_pid_plain / _childpid / _children, C18_active_procs_subset, C18_kill_cmd_filters, C18_kill_cmd_only_listed, C18_kill_unknown_watcher, C18_kill_pid_zero_addresses_nobody, C18_bad_designation_no_signal; C18_designation_* (Props/C18Designation.lean). Not a theorem: that the pid is still listed when the asynchronous SIGKILL escalation of a kill fires (cross-step fact; the oracle checks every kernel signal of every generated scenario against watcher membership and kernel ancestry at that instant).",
         "DESIGN.md 5 (C18)", CORE_NOTE),
 "C19": ("Lean 4: theorems about the model of Arbiter.iter_watchers / _start_watchers / Watcher.spawn_processes (the sort is a stable descending sort for every list; which list each entry point hands to the start loop; the loop awaits one watcher's _start, whose spawn loop has finished, before the continuation touches the next; exact timers for the global and per-watcher warmup, with the arithmetic of the truncated subtraction) + differential correspondence of the core model with the real code on a simulated kernel with virtual time",
         "C19_sorted_desc / _asc, C19_sort_perm, C19_sort_stable(_pair), C19_iter_watchers_sorted / _perm, C19_sort_uids_sorted, C19_start_uses_priority_order, C19_start_watchers_is_loop, C19_start_cmd_uses_priority_order, C19_restart_cmd_all, C19_start_cmd_several, C19_restart_several_then_start, C19_sequential(_exception), C19_start_awaits_spawn, C19_autostart_false_skipped(_exec), C19_start_watchers_done, C19_global_warmup_between_watchers, C19_spawn_pacing(_exact,_stopped), C19_spawn_started_now, C19_all_spawned_before_return. The end-to-end order and spacing of spawn calls over whole start sequences (with deaths in between) is checked on the implementation's kernel log by the oracle.",
         "DESIGN.md 5 (C19)", CORE_NOTE),
 "C05": ("Lean 4: theorems about the model of the controller dispatch and the waits of the coroutines — read-only commands are independent of the exclusive slot, never return a future, change nothing but kernel read ticks and are answered inside handle_message; non-waiting accepted requests are answered before the operation has run; kill_process / spawn_processes / the start loop wait only through timers (the kernel's `slept` counter and the `blocked` flag are untouched); reap_process's waitpid loop is the only blocking wait and does not sleep for a zombie or a non-child; a kill suspends at most pollsOf(graceful_timeout) times of 100 ms — plus differential correspondence of the core model with the real code, where a spinning reap loop is observed as `blocked`",
         "C05_readonly_independent_of_slot, C05_readonly_changes_nothing, C05_readonly_never_conflicts, C05_readonly_replies_in_same_step, C05_nonwaiting_replies_at_once, C05_nonwaiting_reply_is_written, C05_kill_wait_is_nonblocking(_top), C05_spawn_wait_is_nonblocking, C05_arb_warmup_is_a_sleeper, C05_only_reap_sleeps, C05_blocked_only_from_reap_wait, C05_reap_wait_sleeps_only_while_running, C05_reap_zombie_does_not_sleep, C05_reap_echild_does_not_sleep, C05_kill_timer_reenters_loop, C05_kill_bounded, C05_kill_ends_at_polls, C05_kill_total_wait. Not a theorem: that every accepted request finishes within the sum of the applicable timeouts along every schedule (finite liveness over many timer steps) and that reap_process is never entered for a live worker: the oracle checks on every generated scenario that no step hangs (`blocked`), that read-only requests are answered in their own step also while an operation is in flight, and that waiting requests are answered within graceful_timeout + warmup bounds of virtual time.",
         "DESIGN.md 5 (C05)", CORE_NOTE),
 "C08": ("Lean 4: shutdown state machine — a termination signal dispatches quit when the slot is free and otherwise re-arms a 100 ms timer that runs the same handler again (never dropped); an accepted quit sets `stopping` for ever (invariant along all runs), stops a permutation of all registered watchers, sets loop-stop, and the loop's exit closes both sockets for ever; nothing is published or answered after the close; no stimulus other than the loop exit closes anything (generic preservation with the close writer removed); the ok reply of quit precedes the close. Pid file — theorems about a model of Pidfile.create/validate/unlink and the circusd epilogue. Differential correspondence of both models with the real code",
         "C08_sigquit_dispatches_when_free, C08_sigquit_retries_when_busy, C08_sigquit_timer_fires, C08_sigquit_resume_queues_callback, C08_sigquit_callback_retries, C08_stopping_is_forever, C08_quit_sets_stopping, C08_no_respawn_when_stopping, C08_no_reload_when_stopping, C08_stop_targets_every_watcher, C08_stop_starts_every_stop, C08_stop_tail_sets_loop_stop, C08_step_tail_closes, C08_step_tail_keeps_running, C08_loop_stop_closes_everything, C08_close_is_idempotent, C08_closed_is_forever, C08_nothing_published_after_close, C08_stimulus_never_closes, C08_dispatch_never_closes, C08_quit_reply_before_close; C08_pidfile_* (Props/C08Pidfile.lean). Not a theorem: the end-to-end statement 'after quit the run ends with no worker alive' over all schedules (local chain + C02_stop_completes proved; the oracle checks survivors, zombies and closed sockets at the end of every generated scenario that shuts down, with the signal arriving at every point of in-flight operations). Managed sockets, unix-socket files and the process exit status are outside the core model (C07 layer / not modelled).",
         "DESIGN.md 5 (C08)", CORE_NOTE),
 "C09": ("Lean 4: theorems about the model of the event publications — wait-status decoding for all exit codes and signals; reap_process pops the pid before it publishes, publishes exactly one reap event carrying the decoded status, nothing for an unlisted pid, and is idempotent; spawn_process publishes exactly one spawn event for exactly the adopted pid iff it reports a started worker (none on veto, exec failure, retries exhausted); start/stop events are adjacent to the status writes — plus differential correspondence of the core model with the real code (every published event of every step is diffed)",
         "C09_exit_code_of_exit, C09_exit_code_of_signal(_zero), C09_exit_code_of_exit_nonneg, C09_reap_event_carries_exit_code(_waited), C09_reap_event_after_poll, C09_poll_caches_exit_code, C09_no_reap_event_for_unlisted, C09_reap_pops_first, C09_reap_at_most_once_per_call, C09_reap_process_publishes_only_its_pid, C09_spawn_event_exactly_one, C09_no_spawn_event_unless_started, C09_no_spawn_event_on_veto, C09_start_event_agrees_with_status, C09_stop_event_agrees_with_status, C09_start_stop_events_agree_with_status. Not a theorem: the run-level statements (at most one reap event per pid along every run; the spawn-without-reap set equals the live set at every quiescent point): the oracle reconstructs the live set from the event stream of every generated scenario and compares it with the kernel table.",
         "DESIGN.md 5 (C09)", CORE_NOTE),
}
NOT_YET = "not decided by the machinery in this revision (model layer not built yet); not claimed"
NOT_APPLICABLE = {}

def main():
    props = [json.loads(l)["id"] for l in open(os.path.join(HERE, "properties.jsonl"))]
    checks = []
    for pid in props:
        if pid not in CLAIMED:
            continue
        tech, text, ref, note = CLAIMED[pid]
        checks.append({
            "property_id": pid,
            "quick_cmd": "./check %s --tier quick" % pid,
            "thorough_cmd": "./check %s --tier thorough" % pid,
            "evidence_file": "evidence/%s.json" % pid,
            "replay_cmd_template": "./check %s --replay {path}" % pid,
            "engine": "lean4-proof+correspondence",
            "level_claimed": {"category": "proof", "text": text, "design_ref": ref},
            "level_note": NOTE_COMMON + note,
            "technique": tech,
        })
    man = {
        "version": 1,
        "setup_cmd": "cd lean && lake build",
        "hooks": {"guard": "CIRCUS_VERIF", "enable": "no hook in /repo is needed: the harness patches module attributes "
                  "(circus.process.Popen, os.waitpid, time, tornado_sleep) at run time; the guard name is reserved",
                  "baseline_off_cmd": BASELINE, "source_commits": [], "add_only": True},
        "engines": [{"name": "lean4-proof+correspondence", "path": "lean/ , harness/ , check",
                     "serves_properties": [c["property_id"] for c in checks],
                     "kind_free_text": "Lean 4 model + theorems (lake project, no Mathlib in the model); Python harness runs "
                                       "the real circus code and the native model driver on the same inputs and diffs them"}],
        "checks": checks,
        "not_applicable": [{"property_id": p, "reason": NOT_APPLICABLE.get(p, NOT_YET)} for p in props if p not in CLAIMED],
        "notes": "See DESIGN.md. known_findings.json lists genuine defects of the pinned tree (open or fixed).",
    }
    json.dump(man, open(os.path.join(HERE, "MANIFEST.json"), "w"), indent=1)
    print("MANIFEST.json: %d checks, %d not claimed" % (len(checks), len(man["not_applicable"])))

if __name__ == "__main__":
    main()
