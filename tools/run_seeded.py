#!/usr/bin/env python3
"""Runs the registered checks against the seeded breaking changes kept in /verif/seeded/<id>/.

usage: tools/run_seeded.py [--in-repo] [--tier quick|thorough] [--all-props] [--jobs N] [id ...]

Default: every patch is applied to a scratch git worktree of /repo under $VERIF_SCRATCH (default
/dev/shm) and the checks run with VERIF_REPO pointing there, so /repo itself is never touched and
other work can go on.  --in-repo applies the patch to /repo (git -C /repo apply), runs the checks and
undoes it straight afterwards (git -C /repo checkout -- .), refusing to start on a dirty tree.
Writes seeded/RESULTS.json and prints one line per (change, property)."""
import json, os, subprocess, sys, tempfile, shutil

HERE = os.path.dirname(os.path.dirname(os.path.abspath(__file__)))
REPO = "/repo"


def sh(cmd, **kw):
    return subprocess.run(cmd, shell=True, stdout=subprocess.PIPE, stderr=subprocess.STDOUT, text=True, **kw)


def run_checks(props, tier, env):
    out = {}
    for p in props:
        r = subprocess.run(["./check", p, "--tier", tier], cwd=HERE, env=env, stdout=subprocess.PIPE,
                           stderr=subprocess.STDOUT, text=True)
        lines = [l for l in r.stdout.splitlines() if l.startswith(("VIOLATION", "KNOWN-FINDING"))]
        viol = [l for l in lines if l.startswith("VIOLATION")]
        out[p] = {"exit": r.returncode, "violation": viol[0] if viol else None,
                  "kind": ("failing-input" if viol and "no-failing-input-found" not in viol[0] else
                           "no-failing-input-found" if viol else None),
                  "tail": r.stdout.splitlines()[-1][:300] if r.stdout else ""}
    return out


def main(argv):
    in_repo = "--in-repo" in argv
    all_props = "--all-props" in argv
    tier = "quick"
    if "--tier" in argv:
        tier = argv[argv.index("--tier") + 1]
    ids = [a for a in argv if not a.startswith("--") and a != tier and not (a.isdigit() and "--jobs" in argv)]
    sdir = os.path.join(HERE, "seeded")
    if not ids:
        ids = sorted(d for d in os.listdir(sdir) if os.path.isfile(os.path.join(sdir, d, "patch.diff")))
    claimed = [c["property_id"] for c in json.load(open(os.path.join(HERE, "MANIFEST.json")))["checks"]]
    results = {}
    rpath = os.path.join(sdir, "RESULTS.json")
    if os.path.exists(rpath):
        results = json.load(open(rpath))
    def one(sid):
        d = os.path.join(sdir, sid)
        meta = json.load(open(os.path.join(d, "meta.json")))
        props = claimed if all_props else [p for p in meta.get("check_with", [meta["property"]]) if p in claimed]
        patch = os.path.join(d, "patch.diff")
        env = dict(os.environ)
        outdir = tempfile.mkdtemp(prefix="seeded_out_", dir=os.environ.get("VERIF_SCRATCH", "/dev/shm"))
        env["VERIF_OUT"] = outdir
        if in_repo:
            if sh("git -C %s status --porcelain --untracked-files=no" % REPO).stdout.strip():
                print("refusing: /repo is dirty"); return 2
            try:
                a = sh("git -C %s apply %s" % (REPO, patch))
                if a.returncode != 0:
                    print(sid, "patch does not apply:", a.stdout[-300:]); return None
                res = run_checks(props, tier, env)
            finally:
                sh("git -C %s checkout -- ." % REPO)
        else:
            scratch = os.environ.get("VERIF_SCRATCH", "/dev/shm")
            wt = tempfile.mkdtemp(prefix="seeded_wt_", dir=scratch)
            os.rmdir(wt)
            try:
                a = sh("git -C %s worktree add --detach %s HEAD -q" % (REPO, wt))
                if a.returncode != 0:
                    print("worktree failed", a.stdout); return 2
                a = sh("git -C %s apply %s" % (wt, patch))
                if a.returncode != 0:
                    print(sid, "patch does not apply:", a.stdout[-300:]); return None
                env["VERIF_REPO"] = wt
                res = run_checks(props, tier, env)
            finally:
                sh("git -C %s worktree remove --force %s" % (REPO, wt))
                shutil.rmtree(wt, ignore_errors=True)
        for p, r in res.items():          # keep the replay of the catch next to the change
            if r["violation"] and "replay=" in r["violation"]:
                rp = r["violation"].split("replay=")[1].split()[0]
                src = os.path.join(outdir, rp)
                if os.path.exists(src):
                    shutil.copy(src, os.path.join(d, "caught-by-%s.replay.json" % p))
        shutil.rmtree(outdir, ignore_errors=True)
        results[sid] = {"property": meta["property"], "tier": tier, "checks": res,
                        "caught_by": sorted(p for p, r in res.items() if r["exit"] == 1)}
        for p, r in sorted(res.items()):
            print("%-28s %s exit=%d %s" % (sid, p, r["exit"], r["kind"] or "-"))
    jobs = 1
    if "--jobs" in argv:
        jobs = int(argv[argv.index("--jobs") + 1])
    if in_repo or jobs <= 1:
        for sid in ids:
            one(sid)
    else:
        from concurrent.futures import ThreadPoolExecutor
        with ThreadPoolExecutor(max_workers=jobs) as ex:
            list(ex.map(one, ids))
    json.dump(results, open(rpath, "w"), indent=1, sort_keys=True)
    return 0


if __name__ == "__main__":
    sys.exit(main(sys.argv[1:]))
