#!/usr/bin/env python3
"""Confirms a candidate breaking change produced by a fresh sub-agent and files it under seeded/.

usage: tools/confirm_seeded.py <property> <candidate dir with patch.diff demo.py [README.md]> <slug> [--check-with C01,C04]

In a scratch git worktree of /repo (under $VERIF_SCRATCH, default /dev/shm; removed afterwards):
  1. the patch applies to the current /repo HEAD,
  2. demo.py exits 0 on the original tree,
  3. demo.py exits 1 with the patch,
  4. the pinned test suite still passes with the patch (only the baseline always-fail / flaky tests may fail).
Only then the candidate is copied to seeded/<property>-<slug>/ with a meta.json recording these results."""
import json, os, shutil, subprocess, sys, tempfile

HERE = os.path.dirname(os.path.dirname(os.path.abspath(__file__)))
ALLOWED_FAIL = {"tests/test_process.py::TestProcess::test_streams", "tests/test_watcher.py::TestWatcher::test_max_age"}


def sh(cmd, cwd=None, env=None, timeout=1500):
    return subprocess.run(cmd, shell=True, cwd=cwd, env=env, stdout=subprocess.PIPE, stderr=subprocess.STDOUT,
                          text=True, timeout=timeout)


def main(argv):
    prop, cand, slug = argv[0], argv[1], argv[2]
    check_with = [prop]
    if "--check-with" in argv:
        check_with = argv[argv.index("--check-with") + 1].split(",")
    scratch = os.environ.get("VERIF_SCRATCH", "/dev/shm")
    wt = tempfile.mkdtemp(prefix="confirm_wt_", dir=scratch)
    os.rmdir(wt)
    res = {}
    try:
        a = sh("git -C /repo worktree add --detach %s HEAD -q" % wt)
        assert a.returncode == 0, a.stdout
        env = dict(os.environ, PYTHONPATH=wt)
        demo = os.path.join(cand, "demo.py")
        # the demos were written against /tmp/mut_<prop>: point them at this worktree
        src = open(demo).read()
        local_demo = os.path.join(wt, "_demo_seeded.py")
        open(local_demo, "w").write(src.replace("/tmp/mut5_%s" % prop, wt).replace("/tmp/mut4_%s" % prop, wt).replace("/tmp/mut3_%s" % prop, wt).replace("/tmp/mut2_%s" % prop, wt).replace("/tmp/mut_%s" % prop, wt))
        r0 = sh("unshare -n sh -c 'ip link set lo up; exec /venv/bin/python %s'" % local_demo, cwd=wt, env=env, timeout=300)
        res["demo_exit_original"] = r0.returncode
        a = sh("git -C %s apply %s" % (wt, os.path.join(cand, "patch.diff")))
        res["applies"] = a.returncode == 0
        if not res["applies"]:
            print("patch does not apply:", a.stdout[-500:])
            return 1
        r1 = sh("unshare -n sh -c 'ip link set lo up; exec /venv/bin/python %s'" % local_demo, cwd=wt, env=env, timeout=300)
        res["demo_exit_changed"] = r1.returncode
        res["demo_tail_changed"] = r1.stdout[-600:]
        os.remove(local_demo)
        # own network namespace: the suite binds fixed ports (5555/5556), concurrent runs would collide
        t = sh("unshare -n sh -c 'ip link set lo up; exec /venv/bin/python -m pytest -ra -q -p no:cacheprovider --timeout=900 "
               "--continue-on-collection-errors -p no:hypothesispytest'", cwd=wt, env=env, timeout=1800)
        failed = sorted(set(l.split(" ")[1] for l in t.stdout.splitlines() if l.startswith(("FAILED ", "ERROR "))))
        res["suite_failed"] = failed
        res["suite_summary"] = [l for l in t.stdout.splitlines() if " passed" in l or " failed" in l][-1:]
        extra = sorted(set(failed) - ALLOWED_FAIL)
        if extra and len(extra) <= 8:
            # timing-sensitive tests fail under machine load: each must pass when re-run on its own (twice at most)
            still = []
            for tid in extra:
                okk = False
                for _ in range(2):
                    r = sh("unshare -n sh -c 'ip link set lo up; exec /venv/bin/python -m pytest -q -p no:cacheprovider "
                           "--timeout=900 -p no:hypothesispytest \"%s\"'" % tid, cwd=wt, env=env, timeout=900)
                    if r.returncode == 0:
                        okk = True
                        break
                if not okk:
                    still.append(tid)
            res["suite_failed_under_load_passed_alone"] = [t for t in extra if t not in still]
            failed = sorted((set(failed) & ALLOWED_FAIL) | set(still))
            res["suite_failed"] = failed
        res["suite_ok"] = set(failed) <= ALLOWED_FAIL and bool(res["suite_summary"])
    finally:
        sh("git -C /repo worktree remove --force %s" % wt)
        shutil.rmtree(wt, ignore_errors=True)
    ok = res.get("applies") and res.get("demo_exit_original") == 0 and res.get("demo_exit_changed") == 1 and res.get("suite_ok")
    print(json.dumps(res, indent=1)[:1500])
    if not ok:
        print("NOT CONFIRMED")
        return 1
    dest = os.path.join(HERE, "seeded", "%s-%s" % (prop, slug))
    os.makedirs(dest, exist_ok=True)
    for fn in ("patch.diff", "demo.py", "README.md"):
        if os.path.exists(os.path.join(cand, fn)):
            shutil.copy(os.path.join(cand, fn), os.path.join(dest, fn))
    head = sh("git -C /repo rev-parse --short HEAD").stdout.strip()
    meta = {"property": prop, "check_with": check_with, "slug": slug, "source": "fresh sub-agent given only the property text and a scratch worktree",
            "base_commit": head, "confirmed": res,
            "note": "demo.py refers to the sub-agent's worktree path /tmp/mut_%s; run it with that path replaced by the tree under test "
                    "(tools/confirm_seeded.py does so)" % prop}
    json.dump(meta, open(os.path.join(dest, "meta.json"), "w"), indent=1)
    print("CONFIRMED ->", dest)
    return 0


if __name__ == "__main__":
    sys.exit(main(sys.argv[1:]))
