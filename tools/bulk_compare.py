import sys, json, subprocess, random, time, collections, os
ROOT = os.path.dirname(os.path.dirname(os.path.abspath(__file__)))
sys.path.insert(0, ROOT)
if os.environ.get("VERIF_REPO"):
    sys.path.insert(0, os.environ["VERIF_REPO"])       # compare against another tree, as ./check does
from harness import sim, coreenc, coregen
seed = int(sys.argv[1]) if len(sys.argv) > 1 else 0
N = int(sys.argv[2]) if len(sys.argv) > 2 else 100
rng = random.Random(seed)
scs = []
t0 = time.time()
crashes = 0
for i in range(N):
    try:
        sc, steps = coregen.gen_scenario(rng, profile=json.loads(os.environ.get("BULK_PROFILE", "{}")))
    except Exception as e:
        crashes += 1
        import traceback; traceback.print_exc()
        continue
    scs.append((sc, steps))
print("gen", time.time() - t0, "crashes", crashes)
lines = [coreenc.enc_scenario(sc) for sc, _ in scs]
t0 = time.time()
out = subprocess.run([os.path.join(ROOT, 'lean/.lake/build/bin/circusdrv')], input="\n".join(lines) + "\n", capture_output=True, text=True)
print("model", time.time() - t0, out.stderr[:500])
outs = out.stdout.split("\n")
bad = 0
kinds = collections.Counter()
shown = 0
for (sc, steps), o in zip(scs, outs):
    m = coreenc.parse_model(o)
    if not coreenc.steps_match(m, steps):
        bad += 1
        d = coreenc.first_diff(m, coreenc.impl_steps_view(steps))
        op = sc["ops"][d["step"]] if d and "step" in d and d["step"] < len(sc["ops"]) else None
        key = (op[0] if op else None, (op[1].get("command") if op and op[0] == "req" and isinstance(op[1], dict) else None))
        kinds[key] += 1
        if shown < int(sys.argv[3]) if len(sys.argv) > 3 else 3:
            shown += 1
            print("=== scenario", json.dumps({k: v for k, v in sc.items() if k != "ops"}))
            print("ops:", json.dumps(sc["ops"][: (d.get("step", 0) + 1)]))
            print(json.dumps(d, indent=1)[:3000])
print("mismatch", bad, "of", len(scs), kinds.most_common(12))
