import re
G=open('CircusProofs/Core/Generic.lean').read()
F=open('CircusProofs/Core/SlotFree.lean').read()

# --- pieces of Generic
i_interp=G.index("/-! ### Interp -/")
i_settle=G.index("theorem settle_pres")
i_stepop=G.index("theorem stepOp_pres")
i_steptail=G.index("theorem stepTail_pres")
body=G[i_interp:i_settle]+G[i_stepop:i_steptail]
# drop stopController_pres
body=re.sub(r"@\[aesop[^\n]*\]\ntheorem stopController_pres.*?\n\n", "\n", body, flags=re.S)
# LeafW-level lemma names with aesop attribute (before Interp)
head=G[G.index("/-! ### kernel wrappers -/"):i_interp]
lowNames=re.findall(r"@\[aesop safe apply \(rule_sets := \[Pres\]\)\]\ntheorem (\w+)", head)

# Leaf fields
m=re.search(r"structure Leaf \(I : State → Prop\) : Prop extends LeafW I where\n(.*?)\n\n", G, flags=re.S)
leafFields=[l for l in m.group(1).split("\n") if not l.strip().startswith("setClosed")]
fieldNames=[l.strip().split(" ")[0] for l in leafFields]
m=re.search(r"structure SpecCore \(I : State → Prop\) : Prop extends Leaf I where\n(.*?)\n\n", G, flags=re.S)
specFields=m.group(1)

# --- pieces of SlotFree
j0=F.index("theorem newTop_pres")
j1=F.index("theorem runReady1_pres")
sf=F[j0:j1]
j2=F.index("theorem SpecCore.ofLeafY")
j3=F.index("theorem Spec.ofLeafX")
sf2=F[F.rfind("/--",0,j2):j3]
# helper lemmas in SlotFree between setOptBody and addCore (e.g. applyAddOptions_pids) stay imported

def xf(t):
    t=re.sub(r"\bLeaf\b","LeafC",t)
    t=re.sub(r"toLeaf\b","toLeafC",t)
    t=re.sub(r"\bSpecCore\b","SpecCoreC",t)
    t=re.sub(r"toSpecCore\b","toSpecCoreC",t)
    t=re.sub(r"\bSpec\b","SpecC",t)
    t=re.sub(r"\bLeafY\b","LeafYC",t)
    t=re.sub(r"\bLeafX\b","LeafXC",t)
    t=re.sub(r"toLeafY\b","toLeafYC",t)
    t=re.sub(r"ofLeafY\b","ofLeafYC",t)
    t=t.replace("rule_sets := [Pres]","rule_sets := [NoClose]")
    t=re.sub(r"\bpresx\b","presc",t)
    t=re.sub(r"(?<![\w.])pres\b","presc",t)
    return t

allbody=body+"\n--@@ATTR@@\n"+sf+"\n"+sf2
defined=re.findall(r"^theorem ([\w.]+)", allbody, flags=re.M)
allbody=xf(allbody)
for n in sorted(set(defined), key=len, reverse=True):
    if n.startswith("SpecCore.") : continue
    allbody=re.sub(r"(?<![\w.])"+re.escape(n)+r"\b", n+"C", allbody)

out=[]
out.append('''import CircusProofs.Core.SlotFree
import CircusProofs.Core.NarrowAttr
/-!
The composition proofs of Generic.lean / SlotFree.lean once more, over writer structures *without*
`setClosed`: invariants such as "the control socket is open" are broken by `stopController`, which
is reachable only from the event loop (`stepTail`, `runReady1 … .closeCtl`), never from a coroutine
or from `dispatch`.  Everything up to `LeafW` (all of Watcher.lean) is reused as is; the rest is
GENERATED from Generic.lean/SlotFree.lean by renaming (`Leaf` → `LeafC`, `SpecCore` → `SpecCoreC`,
`Spec` → `SpecC`, `LeafY` → `LeafYC`, `LeafX` → `LeafXC`, theorem names get the suffix `C`, rule set
`NoClose`), minus `stopController_pres` and the event-loop part (`settle`, `stepTail`, `stepM`, `run`).
Result: `exec_presC`, `validateExecute_presC`, `handleMessage_presC`, `sigQuit_presC`, `stepOp_presC`.
-/
namespace Circus.Core

structure LeafC (I : State → Prop) : Prop extends LeafW I where
''')
out.append("\n".join(leafFields)+"\n\n")
out.append("structure SpecCoreC (I : State → Prop) : Prop extends LeafC I where\n"+xf(specFields)+"\n\n")
out.append('''structure SpecC (I : State → Prop) : Prop extends SpecCoreC I where
  emitRep : ∀ c i a b d, Pres I (emitRep c i a b d)

structure LeafYC (I : State → Prop) : Prop extends LeafC I where
  setSlot : ∀ v, Pres I (setSlot v)
  pushTop : ∀ t, Pres I (pushTop t)
  finishTop : ∀ t v, Pres I (finishTop t v)
  topAddCb : ∀ t cb, Pres I (topAddCb t cb)
  enqueue : ∀ r, Pres I (enqueue r)
  dequeue : Pres I dequeue

structure LeafXC (I : State → Prop) : Prop extends LeafYC I where
  emitRep : ∀ c i a b d, Pres I (emitRep c i a b d)

attribute [aesop safe apply (rule_sets := [NoClose])] Pres.pure Pres.getS Pres.getK Pres.getA Pres.getW Pres.getO Pres.nowMs
attribute [aesop safe apply (rule_sets := [NoClose])] Pres.bind Pres.ite Pres.for_in
attribute [aesop safe apply (rule_sets := [NoClose])] LeafK.emit LeafW.popPid LeafW.bumpHook LeafW.setObjStopping LeafW.setRc
  LeafW.markBlocked LeafW.emitEv
''')
projs=[f for f in fieldNames if f not in ("registerNew",)]
out.append("attribute [aesop safe apply (rule_sets := [NoClose])] "+" ".join("LeafC."+f for f in projs)+"\n")
out.append("attribute [aesop safe apply (rule_sets := [NoClose])] SpecCoreC.deliverTop SpecCoreC.syncSetOpt SpecCoreC.syncAdd\n")
out.append("attribute [aesop safe apply (rule_sets := [NoClose])] LeafW.toLeafK LeafC.toLeafW SpecCoreC.toLeafC SpecC.toSpecCoreC\n")
ATTR="attribute [aesop safe apply (rule_sets := [NoClose])] LeafXC.emitRep LeafYC.setSlot LeafYC.pushTop LeafYC.finishTop LeafYC.topAddCb\n  LeafYC.enqueue LeafYC.dequeue LeafXC.toLeafYC LeafYC.toLeafC\n"
out.append("attribute [aesop safe apply (rule_sets := [NoClose])] "+" ".join(lowNames)+"\n\n")
out.append('''macro "presc" : tactic => `(tactic| aesop (rule_sets := [NoClose]) (config := { terminal := true, useDefaultSimpSet := false, useSimpAll := false, maxRuleApplications := 3000 }))

section
variable {I : State → Prop}

''')
out.append(allbody.replace('--@@ATTR@@', ATTR))
out.append('''
theorem SpecC.ofLeafXC (X : LeafXC I) : SpecC I where
  toSpecCoreC := SpecCoreC.ofLeafYC X.toLeafYC
  emitRep := X.emitRep

end
end Circus.Core
''')
open('CircusProofs/Core/NoClose.lean','w').write("".join(out))
print(len(defined), "theorems;", lowNames[:5], fieldNames)
