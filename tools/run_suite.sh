#!/bin/sh
# runs the pinned suite in /repo (or $1) and prints the set of failing tests + summary
cd "${1:-/repo}" && /venv/bin/python -m pytest -ra -q -p no:cacheprovider --timeout=900 --continue-on-collection-errors 2>&1 | grep -E "^(FAILED|ERROR)|passed|failed" | head -20
