import CircusProofs.Core.SlotFree
/-!
# C06 — every control request gets exactly one well-formed reply bearing its id (daemon side)

`handleMessage cid msg` is `Controller.handle_message` + `dispatch`; `msg = none` stands for a
frame that is empty or that `json.loads` rejects, `some j` for any JSON value.  Replies are the
`Obs.rep` entries of the ghost log, written only by `emitRep` (`Controller.send_response`).
The client side is in `C06Client.lean`.
-/
namespace Circus.Core

def repCount (s : State) : Nat := s.log.countP Obs.isRep
def RepIs (n : Nat) (s : State) : Prop := repCount s = n

theorem rep_same {n : Nat} {m : M α} (h : ∀ s, repCount (m s).2 = repCount s) : Pres (RepIs n) m := by
  intro s hs; unfold RepIs; rw [h s]; exact hs

macro "rep_same_tac" : tactic =>
  `(tactic| (apply rep_same; intro s; first
      | (simp only [repCount, modS, modA, modO, modW, emit, emitEv]; done)
      | (simp only [repCount, modS, modA, modO, modW, emit, emitEv]; split <;> simp [List.countP_append, Obs.isRep])
      | (simp [repCount, modS, modA, modO, modW, emit, emitEv, List.countP_append, Obs.isRep]; done)))

theorem rep_emit (n : Nat) (o : Obs) : Pres (RepIs n) (emit o) := by
  apply rep_same; intro s
  simp only [emit, modS, repCount]
  by_cases h : (s.blocked || o.isRep || o.isEv) = true
  · simp [h]
  · have h' := Bool.eq_false_iff.mpr h
    simp only [h', Bool.false_eq_true, if_false, List.countP_append]
    simp only [Bool.or_eq_false_iff] at h'
    simp [List.countP_cons, h'.1.2]

theorem repLeafY (n : Nat) : LeafY (RepIs n) where
  emit := rep_emit n
  runK := fun f _ => by apply rep_same; intro s; rfl
  emitEv := fun w t p x => by
    apply rep_same; intro s; simp only [emitEv, modS, repCount]
    split <;> simp [List.countP_append, Obs.isRep]
  setStatus := fun u st => by unfold setStatus; rep_same_tac
  trySetNp := fun u k => by
    apply rep_same; intro s; unfold trySetNp; simp only
    generalize (if k < 0 then 0 else k) = k'
    split <;> simp [repCount]
  spawnAdopt := fun u w => by
    apply rep_same; intro s; unfold spawnAdopt; simp only
    cases h : s.k.spawn with
    | mk k' r =>
      cases r <;> (simp only [repCount]; split <;> simp [List.countP_append, Obs.isRep])
  popPid := fun u p => by unfold popPid; rep_same_tac
  bumpHook := fun u h i => by unfold bumpHook; rep_same_tac
  setWOpt := fun u c => by unfold setWOpt; rep_same_tac
  setObjStopping := fun p b => by unfold setObjStopping; rep_same_tac
  setRc := fun p rc => by unfold setRc; rep_same_tac
  markBlocked := by unfold markBlocked; rep_same_tac
  freshId := by apply rep_same; intro s; rfl
  pushFrame := fun f => by unfold pushFrame; rep_same_tac
  removeFrame := fun f => by unfold removeFrame; rep_same_tac
  setFrameK := fun f k => by unfold setFrameK; rep_same_tac
  armFrame := fun f => by unfold armFrame; rep_same_tac
  pushSleeper := fun sl => by unfold pushSleeper; rep_same_tac
  armTop := fun t => by unfold armTop; rep_same_tac
  setClosed := by unfold setClosed; rep_same_tac
  setStopping := by unfold setStopping; rep_same_tac
  setRestarting := by unfold setRestarting; rep_same_tac
  clearRestarting := fun b => by unfold clearRestarting; rep_same_tac
  setLoopStop := fun b => by unfold setLoopStop; rep_same_tac
  setSocketEvent := fun b => by unfold setSocketEvent; rep_same_tac
  setSockReady := fun b => by unfold setSockReady; rep_same_tac
  clearDone := by unfold clearDone; rep_same_tac
  unregister := fun u => by unfold unregisterWatcher; rep_same_tac
  registerNew := fun w _ => by
    apply rep_same; intro s; unfold registerNew registerChecked; simp only
    split
    · rfl
    · split <;> rfl
  fireSleeper := fun sl => by unfold fireSleeper; rep_same_tac
  enqueueResume := fun k v w => by unfold enqueue; rep_same_tac
  enqueueCallback := fun k => by unfold enqueue; rep_same_tac
  setSlot := fun v => by unfold setSlot; rep_same_tac
  pushTop := fun t => by unfold pushTop; rep_same_tac
  finishTop := fun t v => by unfold finishTop; rep_same_tac
  topAddCb := fun t cb => by unfold topAddCb; rep_same_tac
  enqueue := fun r => by unfold enqueue; rep_same_tac
  dequeue := by unfold dequeue; rep_same_tac

/-- **executing a command never writes a reply by itself**: whatever the command, its properties,
    the daemon state and the coroutines it starts — only `dispatch` answers. -/
theorem C06_execute_writes_no_reply (cmd : String) (props : JVal) (s : State) :
    repCount (validateExecute cmd props s).2 = repCount s :=
  validateExecute_pres (SpecCore.ofLeafY (repLeafY (repCount s))) cmd props s rfl

/-- `send_response` writes at most one reply … -/
theorem sendReply_le (cid : Option String) (id : JVal) (c : Bool) (a b d : String) (s : State) :
    repCount (sendReply cid id c a b d s).2 ≤ repCount s + 1 := by
  unfold sendReply
  simp only [bind, getA]
  cases cid with
  | none => simp [pure]
  | some x =>
    simp only
    by_cases h : (c || s.a.ctlClosed) = true
    · erw [if_pos h]; simp [pure]
    · erw [if_neg h]
      simp only [emitRep, modS, repCount]
      split <;> simp [List.countP_append, Obs.isRep]

/-- … and exactly one, carrying the request's id, when there is somebody to answer (a client
    identity, not a cast) and the control stream is open -/
theorem sendReply_exact (cid : String) (id : JVal) (a b d : String) (s : State)
    (ho : s.a.ctlClosed = false) (hb : s.blocked = false) :
    (sendReply (some cid) id false a b d s).2.log = s.log ++ [Obs.rep cid id a b d] := by
  unfold sendReply
  simp only [bind, getA]
  erw [if_neg (by simp [ho])]
  simp [emitRep, modS, hb]

theorem sendReply_cast_silent (cid : Option String) (id : JVal) (a b d : String) (s : State) :
    sendReply cid id true a b d s = ((), s) := by
  unfold sendReply
  simp only [bind, getA]
  cases cid with
  | none => rfl
  | some x => simp only; erw [if_pos (by simp)]; rfl

theorem rep_addDone (tid : Nat) (cb : TopCb) (s : State) : repCount (addDoneCallback tid cb s).2 = repCount s :=
  addDoneCallback_pres (repLeafY (repCount s)) tid cb s rfl

/-- **invalid JSON / empty frame**: exactly one error reply (errno INVALID_JSON, id null) -/
theorem C06_invalid_json (cid : String) (s : State) (ho : s.a.ctlClosed = false) (hb : s.blocked = false) :
    (handleMessage (some cid) none s).2.log = s.log ++ [Obs.rep cid .null "error" "1" "-"] := by
  unfold handleMessage
  exact sendReply_exact cid _ _ _ _ s ho hb

/-- **any JSON value that is not an object** (`5`, `null`, `"s"`, `[1,2]`, …): one error reply -/
theorem C06_not_an_object (cid : String) (j : JVal) (s : State) (hj : j.isObj = false)
    (ho : s.a.ctlClosed = false) (hb : s.blocked = false) :
    (handleMessage (some cid) (some j) s).2.log = s.log ++ [Obs.rep cid .null "error" "1" "-"] := by
  unfold handleMessage
  simp only
  erw [if_pos (by simp [hj])]
  exact sendReply_exact cid _ _ _ _ s ho hb

/-- **missing, null or non-string command**: one error reply (UNKNOWN_COMMAND) bearing the id -/
theorem C06_command_not_a_string (cid : String) (j : JVal) (s : State) (hj : j.isObj = true)
    (hc : ∀ n, j.get? "command" ≠ some (.str n)) (hcast : j.get? "msg_type" ≠ some (.str "cast"))
    (ho : s.a.ctlClosed = false) (hb : s.blocked = false) :
    (handleMessage (some cid) (some j) s).2.log =
      s.log ++ [Obs.rep cid ((j.get? "id").getD .null) "error" "2" "-"] := by
  unfold handleMessage
  simp only
  erw [if_neg (by simp [hj])]
  have hcast' : (match j.get? "msg_type" with | some (JVal.str "cast") => true | _ => false) = false := by
    split
    · rename_i h; exact absurd h hcast
    · rfl
  exact sendReply_exact cid _ _ _ _ s ho hb

theorem sendReply_le_of_eq (cid : Option String) (id : JVal) (c : Bool) (a b d : String) (s s0 : State)
    (h : repCount s = repCount s0) : repCount (sendReply cid id c a b d s).2 ≤ repCount s0 + 1 := by
  have := sendReply_le cid id c a b d s; omega

/-- **never more than one reply while a request is being dispatched**: for every frame — any
    client identity, any JSON value or garbage, any command and properties — in every daemon state,
    `handle_message` writes at most one reply.  (For a `waiting` request whose operation is still
    running it writes none now; the single reply is then written by the future's done-callback,
    `C06_waiting_reply`.) -/
theorem C06_at_most_one_reply (cid : Option String) (msg : Option JVal) (s : State) :
    repCount (handleMessage cid msg s).2 ≤ repCount s + 1 := by
  unfold handleMessage
  cases msg with
  | none => exact sendReply_le _ _ _ _ _ _ s
  | some j =>
    simp only
    by_cases hobj : (!j.isObj) = true
    · erw [if_pos hobj]; exact sendReply_le _ _ _ _ _ _ s
    · erw [if_neg hobj]
      cases hcmd : j.get? "command" with
      | none => exact sendReply_le _ _ _ _ _ _ s
      | some v =>
        cases v with
        | null => exact sendReply_le _ _ _ _ _ _ s
        | bool b => exact sendReply_le _ _ _ _ _ _ s
        | int i => exact sendReply_le _ _ _ _ _ _ s
        | real t => exact sendReply_le _ _ _ _ _ _ s
        | arr xs => exact sendReply_le _ _ _ _ _ _ s
        | obj kvs => exact sendReply_le _ _ _ _ _ _ s
        | str name =>
          simp only
          by_cases hkn : (!commandNames.contains (pyLower name)) = true
          · erw [if_pos hkn]; exact sendReply_le _ _ _ _ _ _ s
          · erw [if_neg hkn]
            by_cases hpo : (!((j.get? "properties").getD (JVal.obj [])).isObj) = true
            · erw [if_pos hpo]; exact sendReply_le _ _ _ _ _ _ s
            · erw [if_neg hpo]
              simp only [bind]
              have h0 : repCount (clearDone s).2 = repCount s := rfl
              have h1 := C06_execute_writes_no_reply (pyLower name) ((j.get? "properties").getD (JVal.obj [])) (clearDone s).2
              rw [h0] at h1
              generalize hve : validateExecute (pyLower name) ((j.get? "properties").getD (JVal.obj [])) (clearDone s).2 = ve at h1
              obtain ⟨r, s1⟩ := ve
              simp only at h1 ⊢
              cases r with
              | error e => exact sendReply_le_of_eq _ _ _ _ _ _ s1 s h1
              | ok res =>
                cases res with
                | value body => exact sendReply_le_of_eq _ _ _ _ _ _ s1 s h1
                | statusPayload st => exact sendReply_le_of_eq _ _ _ _ _ _ s1 s h1
                | unmodelled => exact sendReply_le_of_eq _ _ _ _ _ _ s1 s h1
                | future tid xform =>
                  simp only
                  by_cases hf : xform.startsWith "failed:" = true
                  · erw [if_pos hf]
                    split <;> exact sendReply_le_of_eq _ _ _ _ _ _ s1 s h1
                  · erw [if_neg hf]
                    have h2 := rep_addDone tid (TopCb.reply cid ((j.get? "id").getD JVal.null)
                      (match j.get? "msg_type" with | some (JVal.str "cast") => true | _ => false) (pyLower name)
                      ((Option.map JVal.truthy (((j.get? "properties").getD (JVal.obj [])).get? "waiting")).getD false) xform) s1
                    split
                    · exact sendReply_le_of_eq _ _ _ _ _ _ _ s (h2.trans h1)
                    · exact Nat.le_succ_of_le (Nat.le_of_eq (h2.trans h1))

/-- **the deferred reply of a `waiting` request**: when the operation's future completes, its
    done-callback writes at most one reply — and none at all if the request was not `waiting`
    (its `ok` was already sent by `handle_message`). -/
theorem C06_waiting_reply (v : Val) (cid : Option String) (id : JVal) (cast : Bool) (cmd : String)
    (send : Bool) (xform : String) (s : State) :
    repCount (runTopCb v (.reply cid id cast cmd send xform) s).2 ≤ repCount s + (if send then 1 else 0) := by
  unfold runTopCb
  cases send <;> cases v <;> first | exact Nat.le_refl _ | exact sendReply_le _ _ _ _ _ _ s

/-- **an operation that fails part-way still gets its one reply**: when the future of a `waiting` request
    completes with an exception — whatever the class: the `psutil.AccessDenied` of a worker the daemon is not
    permitted to signal, a `KeyError`, … — the done-callback (`_dispatch_callback_future`) writes exactly one
    reply for a connected client that did not send a cast: status error, the request's own id, errno 6
    (BAD_MSG_DATA_ERROR, "server error"); nothing else is written. -/
theorem C06_failed_operation_one_error_reply (e : Exc) (cid : String) (id : JVal) (cmd xform : String) (s : State)
    (ho : s.a.ctlClosed = false) (hb : s.blocked = false) :
    (runTopCb (.exc e) (.reply (some cid) id false cmd true xform) s).2.log =
      s.log ++ [Obs.rep cid id "error" "6" "-"] := by
  unfold runTopCb
  simp only [if_true]
  exact sendReply_exact cid _ _ _ _ s ho hb

/-- … and the same failure of a request that was **not** `waiting` writes nothing: its `ok` went out when the
    request was accepted, the failure is only logged -/
theorem C06_failed_operation_not_waiting_silent (e : Exc) (cid : Option String) (id : JVal) (cast : Bool)
    (cmd xform : String) (s : State) :
    runTopCb (.exc e) (.reply cid id cast cmd false xform) s = ((), s) := by
  unfold runTopCb
  simp only [Bool.false_eq_true, if_false]
  rfl

/-- no other done-callback writes a reply: releasing the slot, logging a watcher-start failure,
    popping a reaped pid -/
theorem C06_other_callbacks_silent (v : Val) (cb : TopCb) (s : State)
    (h : ∀ cid id cast cmd send xform, cb ≠ .reply cid id cast cmd send xform) :
    repCount (runTopCb v cb s).2 = repCount s := by
  cases cb with
  | reply cid id cast cmd send xform => exact (h cid id cast cmd send xform rfl).elim
  | release => rfl
  | watch => unfold runTopCb; cases v <;> first | rfl | exact rep_emit (repCount s) _ s rfl
  | popProc wuid pid => rfl

/-- **whatever a registered command raises** from `validate`/`execute` — any exception class; the
    ladder of `dispatch` ends in a bare `except:`, so SystemExit, KeyboardInterrupt and GeneratorExit
    are no exception — a request that is not a cast, from a connected client, gets exactly one
    reply: status error, the request's own id, errno 3 / 5 / 4 for MessageError / ConflictError /
    OSError and 5 for everything else; nothing else is observable -/
theorem C06_raised_exactly_one_reply (cid : String) (j : JVal) (e : Exc) (s : State)
    (ho : s.a.ctlClosed = false) (hb : s.blocked = false)
    (hc : j.get? "msg_type" ≠ some (.str "cast")) :
    (dispatchRaised (some cid) j e s).2.log =
      s.log ++ [Obs.rep cid ((j.get? "id").getD .null) "error" (errnoOf e) "-"] := by
  unfold dispatchRaised
  have hcast : (match j.get? "msg_type" with | some (.str "cast") => true | _ => false) = false := by
    split
    · rename_i h; exact (hc h).elim
    · rfl
  simp only [hcast]
  exact sendReply_exact cid _ _ _ _ s ho hb

/-- … a cast stays unanswered and no reply is ever written twice, whatever was raised -/
theorem C06_raised_at_most_one_reply (cid : Option String) (j : JVal) (e : Exc) (s : State) :
    repCount (dispatchRaised cid j e s).2 ≤ repCount s + 1 := by
  unfold dispatchRaised
  exact sendReply_le _ _ _ _ _ _ s

/-- the errno of the reply by exception class: only the three classes `dispatch` names get their
    own number, every other class — inside or outside `Exception` — is a command error -/
theorem C06_raised_errno (n : String) :
    errnoOf (excOfClass "MessageError") = "3" ∧ errnoOf (excOfClass "ConflictError") = "5" ∧
    errnoOf (excOfClass "OSError") = "4" ∧ errnoOf (excOfClass "SystemExit") = "5" ∧
    errnoOf (excOfClass "KeyboardInterrupt") = "5" ∧
    (errnoOf (excOfClass n) = "3" ∨ errnoOf (excOfClass n) = "4" ∨ errnoOf (excOfClass n) = "5" ∨ n = "unmodelled") := by
  refine ⟨rfl, rfl, rfl, rfl, rfl, ?_⟩
  unfold excOfClass
  split <;> simp [errnoOf]
  split <;> simp_all

-- the hypotheses of `C06_raised_exactly_one_reply` on a concrete request
example : (dispatchRaised (some "c0") (.obj [("id", .str "r2"), ("command", .str "set")]) (excOfClass "SystemExit")
            (initState [] [] 0)).2.log = [Obs.rep "c0" (.str "r2") "error" "5" "-"] := by rfl


/-! operations that fail part-way, evaluated: watcher "a" whose worker 100 the daemon may not signal (EPERM) -/
def c06e : State := run (initState [{ name := "a" }] [{ eperm := true }] 0) [.start, .wake, .wake, .wake]
def c06eReq (cmd : String) (props : List (String × JVal)) : Op :=
  .req "c0" (some (.obj [("command", .str cmd), ("id", .str "r"), ("properties", .obj (("name", .str "a") :: props))]))
-- `stop --waiting`: the stop fails in the request step, one reply: error, errno 6; the daemon goes on serving: the
-- next request (`numprocesses`) is answered as well
example : ((run c06e [c06eReq "stop" [("waiting", .bool true)], c06eReq "numprocesses" []]).log.drop c06e.log.length).map showObs =
    ["o sig 100 15 r!", "o rep c0 s114 error 6 -", "o rep c0 s114 ok - numprocesses=1"] := by decide +kernel
-- `stop` without waiting: the `ok` of the accepted request is the one reply, the failure adds none
example : ((run c06e [c06eReq "stop" [], .wake, .check]).log.drop c06e.log.length).map showObs =
    ["o sig 100 15 r!", "o rep c0 s114 ok - -", "o nosleeper"] := by decide +kernel
-- `signal` (synchronous): the AccessDenied escapes from `execute` into the bare `except:` of dispatch: errno 5
example : ((run c06e [c06eReq "signal" [("signum", .int 10)]]).log.drop c06e.log.length).map showObs =
    ["o sig 100 10 r!", "o rep c0 s114 error 5 -"] := by decide +kernel
example := C06_failed_operation_one_error_reply (.other "AccessDenied") "c0" (.str "r") "stop" "none" c06e (by decide +kernel)
  (by decide +kernel)

end Circus.Core
