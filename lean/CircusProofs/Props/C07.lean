import CircusProofs.Lemmas.Sockets
/-
C07 — Managed sockets reach every worker generation and are never rebound.

The theorems speak about `Circus.Sockets` (CircusModel/Model/Sockets.lean): the daemon's descriptor
table with lowest-free numbering, the `CircusSockets` dict, `Process._get_sockets_fds`,
`format_args`, `Popen(close_fds=not use_fds)` and the inheritance rule of PEP 446.  They hold for
every initial descriptor table `t0` in which stdio is open, every set `f0` of unix-socket paths that
exist beforehand, every list of sockets `specs` (inet or unix; stream, seqpacket or datagram;
`so_reuseport`, `replace`), every list of watchers `ws` (with or without `use_sockets`, with or
without `stdin_socket`) and every history `pre` / `ops` (lists of `Op`: initialize, spawn, death,
restart, reload of a watcher, incr, decr, opening and closing of unrelated files, stop, in any
order).  `NoReload`: the history contains no `reloadconfig` that changes the socket sections — C07
does not quantify over those; what they leave behind is the subject of Props/C08Sockets.lean.

`s1` below is any state of a running daemon (`initialize` done, `stop` not yet) reached from
`setup t0 specs ws`; "startup" in the docstrings is that state.
-/
namespace Circus.Sockets
open Circus.GnuArgs Circus.Shlex

/-- The dict the daemon works with holds, at any time, exactly the configured sockets in the
    configured order (name, `so_reuseport`, address); only their descriptors ever change. -/
theorem C07_dict_is_configuration (t0 : FdTable) (f0 : List Nat) (specs : List Spec) (ws : List Watcher)
    (pre : List Op) (hn : NoReload pre) :
    (run (setup t0 specs ws f0) pre).socks.map (·.toSpec) = specs := by
  rw [socks_spec_run _ _ hn, socks_spec_setup]

/-- In every reachable state of a running daemon every managed socket that is not `so_reuseport`
    is open under a descriptor number above stdio, is a socket, inheritable, bound to its own
    address, and listening exactly when its type is connection oriented (`SOCK_STREAM`,
    `SOCK_SEQPACKET`; a `SOCK_DGRAM` socket is bound only) — whatever happened to the workers and to
    other descriptors before. -/
theorem C07_open_and_listening (t0 : FdTable) (f0 : List Nat) (specs : List Spec) (ws : List Watcher) (pre : List Op)
    (h0 : Stdio t0) (hn : NoReload pre) (hrun : (run (setup t0 specs ws f0) pre).phase = .running) :
    ∀ k ∈ (run (setup t0 specs ws f0) pre).socks, k.reuseport = false →
      ∃ fd d, k.fd = some fd ∧ 3 ≤ fd ∧ (run (setup t0 specs ws f0) pre).fdt.get fd = some d ∧
        d.kind = .sock ∧ d.inheritable = true ∧ d.listening = k.typ.listens ∧ d.addr = some k.addr ∧
        d.bindSer ≠ 0 := by
  intro k hk hr
  have g := good_run pre (good_setup t0 specs ws f0 h0) hn
  obtain ⟨fd, d, hfd, hd, hb, hl, ha⟩ := g.bound hrun k hk hr
  obtain ⟨h3, d', hd', hkind, hinh⟩ := g.sockDesc k hk fd hfd
  rw [hd] at hd'
  cases hd'
  exact ⟨fd, d, hfd, h3, hd, hkind, hinh, hl, ha, hb⟩

/-- The descriptor number of a managed socket (`so_reuseport` or not) never changes while the
    daemon lives: between any two states of the running daemon the dict is the same, numbers included. -/
theorem C07_fd_stable (t0 : FdTable) (f0 : List Nat) (specs : List Spec) (ws : List Watcher) (pre ops : List Op) (h0 : Stdio t0)
    (hn : NoReload pre) (hn' : NoReload ops)
    (h1 : (run (setup t0 specs ws f0) pre).phase = .running)
    (h2 : (run (run (setup t0 specs ws f0) pre) ops).phase = .running) :
    (run (run (setup t0 specs ws f0) pre) ops).socks = (run (setup t0 specs ws f0) pre).socks := by
  have g := good_run pre (good_setup t0 specs ws f0 h0) hn
  exact ((along_run ops (along_refl g h1) hn').frame h2).1

/-- No managed socket is ever re-created, rebound, closed or otherwise altered while the daemon
    lives: between any two states of the running daemon its descriptor denotes the same open file
    (identity `id`), bound by the same `bind` call (`bindSer`), with the same flags. -/
theorem C07_never_rebound (t0 : FdTable) (f0 : List Nat) (specs : List Spec) (ws : List Watcher) (pre ops : List Op) (h0 : Stdio t0)
    (hn : NoReload pre) (hn' : NoReload ops)
    (h1 : (run (setup t0 specs ws f0) pre).phase = .running)
    (h2 : (run (run (setup t0 specs ws f0) pre) ops).phase = .running) :
    ∀ k ∈ (run (setup t0 specs ws f0) pre).socks, ∀ fd, k.fd = some fd →
      (run (run (setup t0 specs ws f0) pre) ops).fdt.get fd = (run (setup t0 specs ws f0) pre).fdt.get fd := by
  intro k hk fd hfd
  have g := good_run pre (good_setup t0 specs ws f0 h0) hn
  exact ((along_run ops (along_refl g h1) hn').frame h2).2 fd (Or.inr ⟨k, hk, hfd⟩)

/-
Full statement of "same socket for every generation" (NOT a theorem, see
`C07_counterexample_names_differing_by_case`): as below without the hypothesis `hci`.
-/
/-- Every worker a `use_sockets` watcher spawns while the daemon runs — first, respawned,
    restarted, reloaded, added by incr — is started with `close_fds=False`, and for every managed
    socket `k` that is not `so_reuseport`: every reference `circus.sockets.NAME` (any letter case)
    in its command line is replaced by the number `fd` the socket has had since startup, and
    descriptor `fd` of the child is the very open file the daemon has under `fd` at startup (same
    identity, same bind, listening).  Extra hypothesis `hci`: no two socket names differ only by
    letter case. -/
theorem C07_same_socket_every_generation_partial (t0 : FdTable) (f0 : List Nat) (specs : List Spec) (ws : List Watcher)
    (pre ops : List Op) (h0 : Stdio t0) (hn : NoReload pre) (hn' : NoReload ops)
    (h1 : (run (setup t0 specs ws f0) pre).phase = .running)
    (hci : NamesCI (run (setup t0 specs ws f0) pre).socks) :
    ∃ new, (run (run (setup t0 specs ws f0) pre) ops).log = new ++ (run (setup t0 specs ws f0) pre).log ∧
      ∀ r ∈ new, r.phase = .running → r.useSockets = true →
        r.closeFds = false ∧
        ∀ k ∈ (run (setup t0 specs ws f0) pre).socks, k.reuseport = false →
          ∃ fd d, k.fd = some fd ∧ (run (setup t0 specs ws f0) pre).fdt.get fd = some d ∧
            d.listening = k.typ.listens ∧ d.addr = some k.addr ∧ d.bindSer ≠ 0 ∧
            r.inherited.get fd = some d ∧
            ∀ g m, lowerStr g = socketsDot ++ lowerStr k.name →
              repl (fmtOptions (socketsKw r.socketsFds)) g m = FormatArgs.decimal fd := by
  have g := good_run pre (good_setup t0 specs ws f0 h0) hn
  obtain ⟨new, hnew, hrec⟩ := (along_run ops (along_refl g h1) hn').log
  refine ⟨new, hnew, ?_⟩
  intro r hr hph hu
  have ok := hrec r hr hph
  refine ⟨by rw [ok.closeFds, hu]; rfl, ?_⟩
  intro k hk hreuse
  obtain ⟨fd, d, hfd, hd, hb, hl, ha⟩ := g.bound h1 k hk hreuse
  obtain ⟨h3, d', hd', _, hinh⟩ := g.sockDesc k hk fd hfd
  rw [hd] at hd'
  cases hd'
  refine ⟨fd, d, hfd, hd, hl, ha, hb, ?_, ?_⟩
  · rw [ok.keeps hu fd (Or.inr ⟨k, hk, hfd⟩) h3, hd]
    simp [Option.filter, hinh]
  · intro gr m hg
    rw [repl_socket ok.fds hci hk hreuse gr m hg, hfd]
    rfl

/-- The same for the argument vector itself, for the usual way of writing it: an element
    `pre$(circus.sockets.NAME)post` of an `args` list (head `pre` without `$` and `(`, any letter
    case of the reference) arrives in `argv`, behind the words of `cmd`, as `pre`, the number `fd`,
    and `post` with its own references replaced. -/
theorem C07_argv_carries_fd (r : Rec) (xs : List Str) (hargs : r.args = .list xs)
    (hargv : formatArgv r.socketsFds r.cmd r.args = .ok r.argv)
    (i : Nat) (pre o g post : Str) (hx : xs[i]? = some (pre ++ (o ++ g ++ 41 :: post)))
    (hpre : ∀ c ∈ pre, c ≠ 36 ∧ c ≠ 40) (ho : lowerStr o = open1) (hne : g ≠ []) (hg : g.all isSect = true)
    (fd : Nat) (hrepl : repl (fmtOptions (socketsKw r.socketsFds)) g (o ++ g ++ [41]) = FormatArgs.decimal fd) :
    ∃ c, split (replaceGnuArgs (socketsKw r.socketsFds) r.cmd) = .ok c ∧
      r.argv[c.length + i]? =
        some (pre ++ (FormatArgs.decimal fd ++ replaceGnuArgs (socketsKw r.socketsFds) post)) := by
  rw [hargs] at hargv
  obtain ⟨c, hc, he⟩ := formatArgv_list hargv
  refine ⟨c, hc, ?_⟩
  rw [he, List.getElem?_append_right (by omega)]
  simp only [Nat.add_sub_cancel_left, List.getElem?_map, hx, Option.map_some]
  rw [replace_ref _ _ _ _ _ hpre ho hne hg, hrepl]

/-- Every `Popen` record of a run satisfies the premise `hargv` of `C07_argv_carries_fd`: its
    `argv` is `format_args` of its own `cmd`, `args` and sockets table. -/
theorem C07_argv_is_format_args (t0 : FdTable) (f0 : List Nat) (specs : List Spec) (ws : List Watcher) (pre ops : List Op)
    (h0 : Stdio t0) (hn : NoReload pre) (hn' : NoReload ops)
    (h1 : (run (setup t0 specs ws f0) pre).phase = .running) :
    ∃ new, (run (run (setup t0 specs ws f0) pre) ops).log = new ++ (run (setup t0 specs ws f0) pre).log ∧
      ∀ r ∈ new, r.phase = .running → formatArgv r.socketsFds r.cmd r.args = .ok r.argv := by
  have g := good_run pre (good_setup t0 specs ws f0 h0) hn
  obtain ⟨new, hnew, hrec⟩ := (along_run ops (along_refl g h1) hn').log
  exact ⟨new, hnew, fun r hr hph => (hrec r hr hph).argv⟩

/-- `stdin_socket`: every worker of a watcher with `stdin_socket = NAME` spawned while the daemon
    runs — whether the watcher has `use_sockets` or not — has on descriptor 0 the very open file the
    daemon has had since startup under the descriptor of the socket called exactly `NAME`; a worker
    of a watcher without `stdin_socket` has no daemon descriptor there.  (When no socket is called
    `NAME`, or it is closed, `preexec_fn` fails in the child, `Popen` raises and there is no worker.) -/
theorem C07_stdin_socket (t0 : FdTable) (f0 : List Nat) (specs : List Spec) (ws : List Watcher) (pre ops : List Op)
    (h0 : Stdio t0) (hn : NoReload pre) (hn' : NoReload ops)
    (h1 : (run (setup t0 specs ws f0) pre).phase = .running) :
    ∃ new, (run (run (setup t0 specs ws f0) pre) ops).log = new ++ (run (setup t0 specs ws f0) pre).log ∧
      ∀ r ∈ new, r.phase = .running →
        (r.stdinSocket = none → r.fd0 = none) ∧
        (∀ n, r.stdinSocket = some n →
          ∃ k ∈ (run (setup t0 specs ws f0) pre).socks, k.name = n ∧
            ∃ fd d, k.fd = some fd ∧ (run (setup t0 specs ws f0) pre).fdt.get fd = some d ∧ r.fd0 = some d) := by
  have g := good_run pre (good_setup t0 specs ws f0 h0) hn
  obtain ⟨new, hnew, hrec⟩ := (along_run ops (along_refl g h1) hn').log
  refine ⟨new, hnew, ?_⟩
  intro r hr hph
  have ok := hrec r hr hph
  refine ⟨ok.stdinNone, ?_⟩
  intro n hsn
  obtain ⟨k, hk, hname, fd, d, hfd, h0', hp⟩ := ok.stdinSock n hsn
  exact ⟨k, hk, hname, fd, d, hfd, hp (Or.inr ⟨k, hk, hfd⟩), h0'⟩

/-- A worker of a watcher without `use_sockets` — with or without `stdin_socket` — is started with
    `close_fds=True` and inherits no daemon descriptor above stdio, whatever is open and inheritable
    in the daemon; without `stdin_socket` it has no daemon descriptor on 0 either (with it: the one
    socket `C07_stdin_socket` names).  No hypothesis on `t0`, on the history (socket reloads
    included) or on the phase. -/
theorem C07_no_leak_without_use_sockets (t0 : FdTable) (f0 : List Nat) (specs : List Spec) (ws : List Watcher) (ops : List Op) :
    ∀ r ∈ (run (setup t0 specs ws f0) ops).log, r.useSockets = false →
      r.closeFds = true ∧ (∀ fd, r.inherited.get fd = none) ∧ (r.stdinSocket = none → r.fd0 = none) := by
  apply noLeak_run
  intro r hr
  have : (setup t0 specs ws f0).log = [] := by
    have h : ∀ (l : List Spec) (s : State), (l.foldl mkSocket s).log = s.log := by
      intro l
      induction l with
      | nil => intro s; rfl
      | cons k l ih => intro s; rw [List.foldl_cons, ih]; rfl
    unfold setup
    rw [h]
  rw [this] at hr
  simp at hr

/-- `stop` closes every managed socket: the dict holds closed objects only and the descriptor
    numbers they had are free. -/
theorem C07_stop_closes (s : State) :
    (∀ k ∈ (step s .stop).socks, k.fd = none) ∧
    (∀ k ∈ s.socks, ∀ fd, k.fd = some fd → (step s .stop).fdt.get fd = none) ∧
    (step s .stop).phase = .stopped := by
  refine ⟨?_, ?_, rfl⟩
  · intro k hk
    simp only [step, closeAllSocks] at hk
    obtain ⟨k0, _, rfl⟩ := List.mem_map.1 hk
    rfl
  · intro k hk fd hfd
    simp only [step, closeAllSocks]
    exact get_foldl_closeObj_mem _ _ _ ⟨k, hk, hfd⟩

/-! ## `so_reuseport` sockets: excepted by design — what actually happens -/

/-- `Process._get_sockets_fds`, one `so_reuseport` socket `k`.  When the text
    `circus.sockets.<name>` occurs in the watcher's `cmd` (compared as it is: same letter case,
    `cmd` only, not `args`), the worker gets a socket of its own: a descriptor number that was free,
    a new open file, bound by a new `bind` to the address of `k`, listening (for the connection
    oriented types), inheritable, and the
    table handed to `format_args` names that number for `k`.  Otherwise nothing is created and the
    table keeps the number of the daemon's own socket object. -/
theorem C07_reuseport_excepted (cmd : Str) (a : Attempt) (k : Sock) :
    (isInfix (socketsRef k.name) cmd = true →
      let b := reuseStep cmd a k
      let fd := a.s.fdt.lowestFree
      a.s.fdt.get fd = none ∧ b.temp = a.temp ++ [fd] ∧ b.fds = setFd a.fds k.name (some fd) ∧
      b.s.fdt.get fd = some { id := a.s.nextId, kind := .sock, inheritable := true,
                              listening := k.typ.listens, addr := some k.addr, bindSer := a.s.nextBind } ∧
      b.s.nextId = a.s.nextId + 1 ∧ b.s.nextBind = a.s.nextBind + 1) ∧
    (isInfix (socketsRef k.name) cmd = false → reuseStep cmd a k = a) := by
  constructor
  · intro h
    have e : reuseStep cmd a k =
        { s := (newBoundSocket a.s k.toSpec).1,
          fds := setFd a.fds k.name (some (newBoundSocket a.s k.toSpec).2),
          temp := a.temp ++ [(newBoundSocket a.s k.toSpec).2] } := by simp [reuseStep, h]
    simp only [e]
    exact ⟨FdTable.get_lowestFree _, rfl, rfl,
      FdTable.get_put_self _ _ _ (FdTable.lowestFree_le_length _), rfl, rfl⟩
  · intro h
    simp [reuseStep, h]

/-- The daemon's own `so_reuseport` socket object is skipped by `bind_and_listen_all`: a dict of
    `so_reuseport` sockets only leaves the state as it is. -/
theorem C07_reuseport_never_bound_by_initialize (s : State) (l : List Sock) (h : ∀ k ∈ l, k.reuseport = true) :
    bindAndListenAll s l = (s, none) := by
  induction l with
  | nil => rfl
  | cons k l ih =>
    unfold bindAndListenAll
    simp only [h k (by simp), if_true]
    exact ih (fun k' hk' => h k' (by simp [hk']))

/-! ## concrete runs: the hypotheses are satisfiable, and what the exceptions look like -/

private def s (x : String) : Str := x.toList.map Char.toNat

private def stdio : Desc := { id := 0, kind := .other, inheritable := true, listening := false, addr := none, bindSer := 0 }
private def t3 : FdTable := [some stdio, some stdio, some stdio]

private def wWeb : Watcher :=
  { useSockets := true, cmd := s "srv --rp $(circus.sockets.rp)", args := .list [s "--fd=$(CIRCUS.Sockets.WEB)"],
    numprocesses := 1, pipeOut := true, pipeErr := false, maxRetry := 1 }
private def wPlain : Watcher :=
  { useSockets := false, cmd := s "job $(circus.sockets.web)", args := .none,
    numprocesses := 1, pipeOut := false, pipeErr := false, maxRetry := 1 }
private def wArgsOnly : Watcher :=
  { useSockets := true, cmd := s "srv", args := .list [s "$(circus.sockets.rp)", s "$(circus.sockets.nosuch)"],
    numprocesses := 1, pipeOut := false, pipeErr := false, maxRetry := 1 }

private def specs2 : List Spec := [{ name := s "web", reuseport := false, addr := 0 },
                                  { name := s "rp", reuseport := true, addr := 1 }]
private def started : State := run (setup t3 specs2 [wWeb, wPlain, wArgsOnly]) [.initialize]
private def later : State :=
  run started [.spawn 0, .openOther true, .die 0, .spawn 0, .spawn 1, .restart 0, .reload 0, .incr 0 1, .spawn 2]

example : Stdio t3 := by
  intro i hi
  match i, hi with
  | 0, _ => exact ⟨stdio, rfl⟩
  | 1, _ => exact ⟨stdio, rfl⟩
  | 2, _ => exact ⟨stdio, rfl⟩

example : started.phase = .running ∧ later.phase = .running := by decide
example : started.socks = [{ name := s "web", reuseport := false, addr := 0, fd := some 3 },
                           { name := s "rp", reuseport := true, addr := 1, fd := some 4 }] ∧
    later.socks = started.socks := by
  decide
example : NamesCI started.socks := by
  intro k hk k' hk' h
  have e : started.socks = [{ name := s "web", reuseport := false, addr := 0, fd := some 3 },
                            { name := s "rp", reuseport := true, addr := 1, fd := some 4 }] := by decide
  rw [e] at hk hk'
  simp only [List.mem_cons, List.not_mem_nil, or_false] at hk hk'
  rcases hk with rfl | rfl <;> rcases hk' with rfl | rfl <;> first | rfl | (revert h; decide)

/-- five workers (first, respawn, restart, reload, incr) of the `use_sockets` watcher, descriptor numbers of pipes and of the unrelated
    file moving around: the argument vector always carries 3 for `web`, and descriptor 3 of every
    child is the open file bound at startup; the `so_reuseport` socket is a different descriptor
    and a different open file for each worker -/
example : (later.log.reverse.filter (fun r => r.w == 0)).map (fun r => (r.argv, r.closeFds, r.inherited.get 3, r.temp)) =
    let web : Option Desc := some { id := 1, kind := .sock, inheritable := true, listening := true, addr := some 0, bindSer := 1 }
    [ ([s "srv", s "--rp", s "5", s "--fd=3"], false, web, [5]),
      ([s "srv", s "--rp", s "6", s "--fd=3"], false, web, [6]),
      ([s "srv", s "--rp", s "6", s "--fd=3"], false, web, [6]),
      ([s "srv", s "--rp", s "6", s "--fd=3"], false, web, [6]),
      ([s "srv", s "--rp", s "6", s "--fd=3"], false, web, [6]) ] := by
  decide

example : (later.log.reverse.filter (fun r => r.w == 0)).map (fun r => (r.temp.map r.inherited.get)) =
    [ [some { id := 3, kind := .sock, inheritable := true, listening := true, addr := some 1, bindSer := 2 }],
      [some { id := 7, kind := .sock, inheritable := true, listening := true, addr := some 1, bindSer := 3 }],
      [some { id := 10, kind := .sock, inheritable := true, listening := true, addr := some 1, bindSer := 4 }],
      [some { id := 13, kind := .sock, inheritable := true, listening := true, addr := some 1, bindSer := 5 }],
      [some { id := 16, kind := .sock, inheritable := true, listening := true, addr := some 1, bindSer := 6 }] ] := by
  decide

/-- the watcher without `use_sockets`: the number is substituted all the same, but the child has
    nothing under it -/
example : (later.log.filter (fun r => r.w == 1)).map (fun r => (r.argv, r.closeFds, r.inherited.get 3, r.inherited.get 5)) =
    [ ([s "job", s "3"], true, none, none) ] := by decide

/-- `so_reuseport` socket referred to in `args` only: no socket of its own is made, the worker is
    handed the daemon's own socket object, which is not bound and does not listen; a reference
    to a socket that does not exist stays as it is -/
example : (later.log.filter (fun r => r.w == 2)).map (fun r => (r.argv, r.temp, r.inherited.get 4)) =
    [ ([s "srv", s "4", s "$(circus.sockets.nosuch)"], [],
       some { id := 2, kind := .sock, inheritable := true, listening := false, addr := none, bindSer := 0 }) ] := by
  decide

/-- socket types and `stdin_socket`: after `initialize` the stream and the seqpacket socket listen,
    the datagram socket is bound only; the worker of the watcher with `stdin_socket = web` and
    without `use_sockets` is started with `close_fds=True`, keeps nothing above 2 and has the `web`
    socket on descriptor 0; the watcher whose `stdin_socket` does not exist gets no worker -/
example :
    let inetd : Watcher := { useSockets := false, cmd := s "in.srv", args := .none, numprocesses := 1, pipeOut := true,
                             pipeErr := false, maxRetry := 1, stdinSocket := some (s "web") }
    let lost : Watcher := { inetd with stdinSocket := some (s "Web") }
    let st := run (setup t3 [{ name := s "web", reuseport := false, addr := 0 },
                             { name := s "seq", reuseport := false, addr := 1, typ := .seqpacket, unix := true },
                             { name := s "dg", reuseport := false, addr := 2, typ := .dgram, unix := true }] [inetd, lost])
                  [.initialize, .spawn 0, .spawn 1, .die 0, .spawn 0]
    [3, 4, 5].map (fun fd => (st.fdt.get fd).map (fun d => (d.listening, d.addr))) =
      [some (true, some 0), some (true, some 1), some (false, some 2)] ∧
    st.files = [2, 1] ∧
    st.log.map (fun r => (r.w, r.closeFds, r.inherited.all (· == none), r.fd0.map (fun d => (d.id, d.addr)))) =
      [(0, true, true, some (1, some 0)), (0, true, true, some (1, some 0))] := by
  decide

/-- **counter-example to the full statement** — two sockets `Web` and `web` (names differing only by
    letter case; both bound and listening, descriptors 3 and 4).  A `use_sockets` worker started
    with `--fd $(circus.sockets.Web)` — the exact name of the first one — is handed 4, the descriptor
    of the *other* socket (`replace_gnu_args` files both under the key `circus.sockets.web`, the
    later one wins).  The same for the spelling `$(circus.sockets.WEB)`, which names neither. -/
theorem C07_counterexample_names_differing_by_case :
    let w : Watcher := { useSockets := true, cmd := s "srv", args := .list [s "--fd", s "$(circus.sockets.Web)"],
                         numprocesses := 1, pipeOut := false, pipeErr := false, maxRetry := 1 }
    let st := run (setup t3 [{ name := s "Web", reuseport := false, addr := 0 },
                             { name := s "web", reuseport := false, addr := 1 }] [w]) [.initialize, .spawn 0]
    st.phase = .running ∧
    st.socks = [{ name := s "Web", reuseport := false, addr := 0, fd := some 3 },
                { name := s "web", reuseport := false, addr := 1, fd := some 4 }] ∧
    (st.fdt.get 3).map (·.addr) = some (some 0) ∧ (st.fdt.get 4).map (·.addr) = some (some 1) ∧
    st.log.map (fun r => (r.argv, (r.inherited.get 4).map (·.addr))) = [([s "srv", s "--fd", s "4"], some (some 1))] := by
  decide

end Circus.Sockets
