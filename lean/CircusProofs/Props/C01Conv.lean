import CircusProofs.Core.Conv
/-!
# C01 — convergence: the check and the timers it schedules bring the count up to numprocesses

Props/C01.lean has the bounds, oldest-first and the fixpoint theorem.  Here is the finite-liveness
part, by symbolic execution of whole steps (`stepM`: begin of step, the stimulus, the event loop
until the ready queue is empty) — Core/Conv.lean.

Setting (`Idle u s`, `Dat u N m s`):
* one watcher object `w` (identity `u`), the only registered one: `s.ws = [w]`, `s.a.watchers = [u]`;
  `active`, `respawn`, `numprocesses = N`, no `max_age`, not on-demand, no hooks, `max_retry ≠ 0`
  (`WOk u N w`); `warmup_delay`, priority, signals … arbitrary;
* it lists `m` pids, each found running in the process table;
* the kernel is *still* (`Kernel.Still`): nothing armed or pending, no process doomed, no zombie, every
  configured behaviour execs (`execFail = false`), pids below the counter; spawn duration
  (`spawnMs`), number of forked children (`kids`) and all reactions to signals are arbitrary;
* nothing is in flight: no frame, timer, future, ready callback; the exclusive slot is free; the
  arbiter is neither stopping nor restarting; the daemon does not hang.

Results:
* `C01_check_spawns_first_missing` — with `m < N` the check reaps nothing, spawns one worker and
  parks in `spawn_processes` (`Parked`: the four frames `manage_watchers → gen.multi →
  manage_processes → spawn_processes`, exactly one timer, the future of the check with its
  `release` + `watch` callbacks, the slot taken);
* `C01_wake_spawns_next` — a timer firing in a parked state with `r + 1` spawns to go spawns exactly one
  worker and parks again with `r` to go; `C01_last_wake_completes` — with `0` to go the firing
  unwinds the four frames through the ready queue, completes the future and frees the slot;
* **`C01_converges_after_check`** — `check` followed by exactly `N - m` timer firings ends idle with
  `N` running workers, status still `active`; `C01_converged_stays` — any number of further checks
  keeps it there (each completes within its step).

Generalisations — deaths before the check, a surplus of workers, several watchers — are in Props/C01Conv2.lean
(Core/ConvReap.lean, Core/ConvSurplus.lean, Core/ConvMulti.lean); Core/Conv.lean proves the lemmas here in a
pid-tracking form (`DatL`) and after an arbitrary `Arbiter.reap_processes` (`check_parks_gen`, `check_done_gen`).
Still excluded by `Still`: deaths *during* the convergence (C01's other clauses, checked by the oracle).
-/
namespace Circus.Core

/-- **the check spawns the first missing worker and leaves exactly one timer** -/
theorem C01_check_spawns_first_missing (u N m : Nat) (s : State) (hi : Idle u s) (hd : Dat u N m s) (hm : m < N) :
    Parked u s.nextId (s.nextId + 4) (N - m - 1) (step s .check) ∧ Dat u N (m + 1) (step s .check) :=
  check_parks u N m s hi hd hm

/-- **a timer of the parked loop fires, workers still missing**: one more worker, one new timer -/
theorem C01_wake_spawns_next (u N m i j r : Nat) (s : State) (hp : Parked u i j (r + 1) s) (hd : Dat u N m s)
    (hm : m < N) : Parked u i (j + 2) r (step s .wake) ∧ Dat u N (m + 1) (step s .wake) :=
  wake_spawns u N m i j r s hp hd hm

/-- **the last timer fires**: the check completes, nothing stays in flight, the slot is free -/
theorem C01_last_wake_completes (u N i j : Nat) (s : State) (hp : Parked u i j 0 s) (hd : Dat u N N s) :
    Idle u (step s .wake) ∧ Dat u N N (step s .wake) :=
  wake_done u N i j s hp hd

/-- **convergence**: from an idle state in which the (only) watcher is active with `m ≤ N` running
    workers, in a still kernel, the periodic check followed by exactly `N - m` timer firings ends in
    an idle state — no frame, timer, future or ready callback, the slot free — in which the watcher
    is still active and lists exactly `N = numprocesses` pids, all running. -/
theorem C01_converges_after_check (u N m : Nat) (s : State) (hi : Idle u s) (hd : Dat u N m s) (hm : m ≤ N) :
    let s' := run s (.check :: List.replicate (N - m) .wake)
    (∃ w, s'.ws = [w] ∧ w.uid = u ∧ w.status = .active ∧ w.np = (N : Int) ∧ w.pids.length = N ∧
        ∀ pid ∈ w.pids, ∃ p, s'.k.find pid = some p ∧ p.st = .run) ∧
    s'.frames = [] ∧ s'.sleepers = [] ∧ s'.tops = [] ∧ s'.ready = [] ∧ s'.a.slot = none ∧ s'.blocked = false ∧
    s'.k.Still := by
  intro s'
  obtain ⟨hi', w, h1, h2, h3, h4, h5, h6⟩ := check_converges u N m s hi hd hm
  exact ⟨⟨w, h1, h2.uid, h2.status, h2.np, h3, h6⟩, hi'.frames, hi'.sleepers, hi'.tops, hi'.ready, hi'.slot, h4, h5⟩

/-- the same as an invariant pair, for chaining -/
theorem C01_converges_idle (u N m : Nat) (s : State) (hi : Idle u s) (hd : Dat u N m s) (hm : m ≤ N) :
    Idle u (run s (.check :: List.replicate (N - m) .wake)) ∧
    Dat u N N (run s (.check :: List.replicate (N - m) .wake)) :=
  check_converges u N m s hi hd hm

/-- **converged stays converged**: any number of further periodic checks leaves the watcher with its
    `N` running workers and nothing in flight -/
theorem C01_converged_stays (u N n : Nat) (s : State) (hi : Idle u s) (hd : Dat u N N s) :
    Idle u (run s (List.replicate n .check)) ∧ Dat u N N (run s (List.replicate n .check)) :=
  checks_stay u N n s hi hd

/-! non-vacuity: a concrete idle state with no worker yet; workers fork a child and take 20 ms to spawn -/

def c01Cfg : List Watcher := [{ name := "a", np := 3, status := .active, warmup := 700 }]
def c01s0 : State := initState c01Cfg [{ spawnMs := 20, kids := 1 }] 0

theorem c01s0_idle : Idle 1 c01s0 := ⟨rfl, rfl, rfl, rfl, rfl, rfl, rfl, rfl, rfl⟩

theorem c01s0_still : c01s0.k.Still := by
  have hnil : c01s0.k.procs = [] := rfl
  refine ⟨rfl, rfl, ?_, ?_, ?_, ?_⟩
  · intro p hp; rw [hnil] at hp; cases hp
  rotate_left
  · intro p hp; rw [hnil] at hp; cases hp
  · intro p hp; rw [hnil] at hp; cases hp
  intro b hb
  have : c01s0.k.behavs = [{ spawnMs := 20, kids := 1 }] := rfl
  rw [this] at hb
  simp only [List.mem_cons, List.mem_nil_iff, or_false] at hb
  subst hb
  rfl

theorem c01s0_dat : Dat 1 3 0 c01s0 :=
  ⟨{ name := "a", np := 3, status := .active, warmup := 700, uid := 1 }, rfl,
   ⟨rfl, rfl, rfl, rfl, rfl, rfl, rfl, by decide⟩, rfl, rfl, c01s0_still, fun pid hp => by cases hp⟩

example : ∃ w, (run c01s0 (.check :: List.replicate 3 .wake)).ws = [w] ∧ w.pids.length = 3 :=
  let ⟨h, _⟩ := C01_converges_after_check 1 3 0 c01s0 c01s0_idle c01s0_dat (by decide)
  let ⟨w, h1, _, _, _, h5, _⟩ := h
  ⟨w, h1, h5⟩

-- the same run evaluated: three workers (each with one forked child: pids 100/101, 102/103, 104/105), nothing in flight
example : (run c01s0 [.check, .wake, .wake, .wake]).ws.map (fun w => (w.pids, w.status)) = [([100, 102, 104], .active)] ∧
    (run c01s0 [.check, .wake, .wake, .wake]).frames.length = 0 ∧
    (run c01s0 [.check, .wake, .wake, .wake]).sleepers.length = 0 ∧
    (run c01s0 [.check, .wake, .wake, .wake]).a.slot = none ∧
    (run c01s0 [.check, .wake, .wake]).ws.map (·.pids) = [[100, 102, 104]] ∧
    (run c01s0 [.check, .wake, .wake]).sleepers.length = 1 ∧
    (run c01s0 [.check, .wake, .wake]).a.slot = some "manage_watchers" := by decide +kernel

end Circus.Core
