import CircusProofs.Core.Generic
/-!
# C02 — stop leaves no survivor and no zombie; stopped stays stopped

Theorems about `stopAfterKill` (the tail of `Watcher._stop`), `reapProcesses` and the guards that
keep a stopped watcher stopped (`spawnProcess`, `manageProcesses`, `reapProcesses`).
That the workers are really *dead and waited for* when `_stop` ends is established for the model
by C03's escalation theorems together with `reapWait` (which returns only once `waitpid` has
collected the process, or marks the daemon blocked); on the implementation it is the job of the
oracle `survivor-after-stop`.
-/
namespace Circus.Core

/-- the `processes` dict of watcher `u` only holds pids from `L` -/
def PidsSub (u : Nat) (L : List Nat) (s : State) : Prop := ∀ x ∈ (getW u s).1.pids, x ∈ L

theorem pidsSub_same {u : Nat} {L : List Nat} {m : M α} (h : ∀ s, (m s).2.ws = s.ws) : Pres (PidsSub u L) m := by
  intro s hs
  unfold PidsSub getW
  rw [h s]; exact hs

theorem pidsSub_modW (u : Nat) (L : List Nat) (u' : Nat) (f : Watcher → Watcher)
    (hf : ∀ w, (f w).uid = w.uid ∧ ∀ x ∈ (f w).pids, x ∈ w.pids) : Pres (PidsSub u L) (modW u' f) := by
  intro s hs x hx
  simp only [PidsSub, getW, modW, modS] at hs hx ⊢
  -- find? over the mapped list
  have key : ∀ l : List Watcher,
      ∀ x ∈ ((l.map fun w => if w.uid = u' then f w else w).find? (fun w => decide (w.uid = u))).getD defaultWatcher |>.pids,
        x ∈ ((l.find? (fun w => decide (w.uid = u))).getD defaultWatcher).pids := by
    intro l
    induction l with
    | nil => intro x hx; exact hx
    | cons w ws ih =>
      intro x hx
      simp only [List.map_cons, List.find?_cons] at hx ⊢
      by_cases hu' : w.uid = u'
      · simp only [hu', if_true] at hx
        have huid : (f w).uid = w.uid := (hf w).1
        by_cases hu : w.uid = u
        · have h1 : decide ((f w).uid = u) = true := by simp [huid, hu]
          have h2 : decide (w.uid = u) = true := by simp [hu]
          simp only [h1, h2] at hx ⊢
          exact (hf w).2 x hx
        · have h1 : decide ((f w).uid = u) = false := by simp [huid, hu]
          have h2 : decide (w.uid = u) = false := by simp [hu]
          simp only [h1, h2] at hx ⊢
          exact ih x hx
      · simp only [hu', if_false] at hx
        by_cases hu : w.uid = u
        · have h2 : decide (w.uid = u) = true := by simp [hu]
          simp only [h2] at hx ⊢; exact hx
        · have h2 : decide (w.uid = u) = false := by simp [hu]
          simp only [h2] at hx ⊢; exact ih x hx
  exact hs x (key s.ws x hx)

theorem pidsSubLeafW (u : Nat) (L : List Nat) : LeafW (PidsSub u L) where
  emit := fun o => by apply pidsSub_same; intro s; simp only [emit, modS]; split <;> rfl
  runK := fun f _ => by apply pidsSub_same; intro s; rfl
  emitEv := fun w t p x => by apply pidsSub_same; intro s; simp only [emitEv, modS]; split <;> rfl
  popPid := fun u' p => pidsSub_modW u L u' _ (fun w => ⟨rfl, fun x hx => (List.mem_filter.mp hx).1⟩)
  bumpHook := fun u' h i => pidsSub_modW u L u' _ (fun w => ⟨rfl, fun x hx => hx⟩)
  setObjStopping := fun p b => by apply pidsSub_same; intro s; rfl
  setRc := fun p rc => by apply pidsSub_same; intro s; rfl
  markBlocked := by apply pidsSub_same; intro s; rfl

theorem getW_popPid (u pid : Nat) (s : State) :
    (getW u (popPid u pid s).2).1.pids = (getW u s).1.pids.filter (· ≠ pid) := by
  simp only [getW, popPid, modW, modS]
  induction s.ws with
  | nil => rfl
  | cons w ws ih =>
    simp only [List.map_cons, List.find?_cons]
    by_cases hu : w.uid = u
    · simp [hu]
    · simp only [hu, if_false, decide_false]
      exact ih

/-- after `reap_process(pid)` the pid is no longer listed, and nothing else was added -/
theorem reapProcess_removes (u pid : Nat) (L : List Nat) (st : Option Nat) (s : State) (h : PidsSub u L s) :
    PidsSub u (L.filter (· ≠ pid)) (reapProcess u pid st s).2 := by
  unfold reapProcess
  simp only [bind]
  by_cases hc : (!(getW u s).fst.pids.contains pid) = true
  · erw [if_pos hc]
    intro x hx
    have hx' : x ∈ (getW u s).1.pids := hx
    refine List.mem_filter.mpr ⟨h x hx', ?_⟩
    simp only [ne_eq, decide_eq_true_eq]
    intro hxe; subst hxe
    simp only [Bool.not_eq_true', List.contains_eq_mem, decide_eq_false_iff_not] at hc
    exact hc hx'
  · erw [if_neg hc]
    have h0 : PidsSub u L (callHook u "before_reap" s).2 := callHook_pres (pidsSubLeafW u L) u _ s h
    have h1 : PidsSub u (L.filter (· ≠ pid)) (popPid u pid (callHook u "before_reap" s).2).2 := by
      intro x hx
      rw [getW_popPid] at hx
      obtain ⟨hx1, hx2⟩ := List.mem_filter.mp hx
      exact List.mem_filter.mpr ⟨h0 x hx1, hx2⟩
    exact reapTail_pres (pidsSubLeafW u _) u pid st _ h1

/-- the body of the loop in `reap_processes` -/
def reapBody (u : Nat) : Nat → PUnit → M (ForInStep PUnit) := fun pid _ => do
  let st ← getS
  if st.blocked then pure (ForInStep.yield PUnit.unit)
  else do
    reapProcess u pid none
    pure (ForInStep.yield PUnit.unit)

theorem reapBody_blocked (u pid : Nat) (s : State) (hb : s.blocked = true) :
    reapBody u pid PUnit.unit s = (ForInStep.yield PUnit.unit, s) := by
  unfold reapBody
  simp only [bind, getS]
  erw [if_pos hb]
  rfl

theorem reapBody_open (u pid : Nat) (s : State) (hb : ¬ s.blocked = true) :
    reapBody u pid PUnit.unit s = (ForInStep.yield PUnit.unit, (reapProcess u pid none s).2) := by
  unfold reapBody
  simp only [bind, getS]
  erw [if_neg hb]
  rfl

theorem reapLoop_blocked (u : Nat) (l : List Nat) (s : State) (hb : s.blocked = true) :
    (forIn l PUnit.unit (reapBody u) : M PUnit) s = (PUnit.unit, s) := by
  induction l with
  | nil => rfl
  | cons pid rest ih =>
    rw [List.forIn_cons]
    simp only [bind]
    rw [reapBody_blocked u pid s hb]
    exact ih

/-- the loop of `reap_processes`: every pid of the list it walks over is gone from the dict
    afterwards (or the daemon is blocked) -/
theorem reapLoop_clears (u : Nat) (l : List Nat) (L : List Nat) (s : State) (h : PidsSub u L s) :
    ((forIn l PUnit.unit (reapBody u) : M PUnit) s).2.blocked = true ∨
    PidsSub u (L.filter (fun x => !l.contains x)) ((forIn l PUnit.unit (reapBody u) : M PUnit) s).2 := by
  induction l generalizing s L with
  | nil =>
    right
    intro x hx
    exact List.mem_filter.mpr ⟨h x hx, by simp⟩
  | cons pid rest ih =>
    rw [List.forIn_cons]
    simp only [bind]
    by_cases hb : s.blocked = true
    · rw [reapBody_blocked u pid s hb]
      simp only
      rw [reapLoop_blocked u rest s hb]
      left; exact hb
    · rw [reapBody_open u pid s hb]
      simp only
      have h1 := reapProcess_removes u pid L none s h
      rcases ih (L.filter (· ≠ pid)) (reapProcess u pid none s).2 h1 with hbl | hok
      · left; exact hbl
      · right
        intro x hx
        have := hok x hx
        obtain ⟨hx1, hx2⟩ := List.mem_filter.mp this
        obtain ⟨hx3, hx4⟩ := List.mem_filter.mp hx1
        refine List.mem_filter.mpr ⟨hx3, ?_⟩
        simp only [ne_eq, decide_eq_true_eq] at hx4
        simp only [Bool.not_eq_true', List.contains_eq_mem, decide_eq_false_iff_not] at hx2
        simp only [Bool.not_eq_true', List.contains_eq_mem, decide_eq_false_iff_not]
        intro hmem
        rcases List.mem_cons.mp hmem with rfl | hm
        · exact hx4 rfl
        · exact hx2 hm

/-- **`reap_processes` empties the dict**: for a watcher that is not stopped, afterwards no process
    is listed any more — unless the daemon hangs in `reap_process` (which C05 excludes). -/
theorem C02_reap_processes_clears (u : Nat) (s : State) (hst : (getW u s).1.status ≠ .stopped) :
    (reapProcesses u s).2.blocked = true ∨ (getW u (reapProcesses u s).2).1.pids = [] := by
  have hbody : reapProcesses u s = (forIn (getW u s).1.pids PUnit.unit (reapBody u) : M PUnit) s := by
    unfold reapProcesses
    simp only [bind]
    erw [if_neg (by simpa using hst)]
    rfl
  rw [hbody]
  rcases reapLoop_clears u (getW u s).1.pids (getW u s).1.pids s (fun x hx => hx) with hb | hok
  · left; exact hb
  · right
    apply List.eq_nil_iff_forall_not_mem.mpr
    intro x hx
    have := hok x hx
    obtain ⟨h1, h2⟩ := List.mem_filter.mp this
    simp at h2
    exact h2 h1

/-! ### the tail of `_stop` -/

/-- a property of watcher `u` that survives dropping pids and counting hook calls -/
def WProp (u : Nat) (Q : Watcher → Prop) (s : State) : Prop := Q (getW u s).1

structure QStable (Q : Watcher → Prop) : Prop where
  shrink : ∀ (w : Watcher) (l : List Nat), (∀ x ∈ l, x ∈ w.pids) → Q w → Q { w with pids := l }
  hooks : ∀ (w : Watcher) hc, Q w → Q { w with hookCalls := hc }

theorem find_map_upd (u u' : Nat) (f : Watcher → Watcher) (hf : ∀ w, (f w).uid = w.uid) (ws : List Watcher) :
    (ws.map fun w => if w.uid = u' then f w else w).find? (fun x => decide (x.uid = u)) =
      (ws.find? (fun x => decide (x.uid = u))).map (fun w => if u = u' then f w else w) := by
  induction ws with
  | nil => rfl
  | cons w ws ih =>
    rw [List.map_cons, List.find?_cons, List.find?_cons]
    by_cases hu' : w.uid = u'
    · rw [if_pos hu']
      by_cases hu : w.uid = u
      · have h1 : decide ((f w).uid = u) = true := by rw [hf w]; simp [hu]
        have h2 : decide (w.uid = u) = true := by simp [hu]
        have huu : u = u' := by rw [← hu, hu']
        rw [h1, h2]
        simp only [Option.map_some]
        rw [if_pos huu]
      · have h1 : decide ((f w).uid = u) = false := by rw [hf w]; simp [hu]
        have h2 : decide (w.uid = u) = false := by simp [hu]
        rw [h1, h2]
        exact ih
    · rw [if_neg hu']
      by_cases hu : w.uid = u
      · have h2 : decide (w.uid = u) = true := by simp [hu]
        have huu : ¬ u = u' := fun h => hu' (hu.trans h)
        rw [h2]
        simp only [Option.map_some]
        rw [if_neg huu]
      · have h2 : decide (w.uid = u) = false := by simp [hu]
        rw [h2]
        exact ih

/-- a property of the watcher object `u` is kept by an update of watcher `u'` that keeps it -/
theorem wprop_modW (u u' : Nat) (Q : Watcher → Prop) (f : Watcher → Watcher) (hf : ∀ w, (f w).uid = w.uid)
    (hQ : ∀ w, Q w → Q (f w)) : Pres (WProp u Q) (modW u' f) := by
  intro s hs
  simp only [WProp, getW, modW, modS] at hs ⊢
  rw [find_map_upd u u' f hf]
  cases hfind : s.ws.find? (fun x => decide (x.uid = u)) with
  | none => simpa [hfind] using hs
  | some w =>
    simp only [hfind, Option.getD_some, Option.map_some] at hs ⊢
    split
    · exact hQ w hs
    · exact hs

/-- when the watcher exists its new value is the updated one -/
theorem getW_modW_self (u : Nat) (f : Watcher → Watcher) (hf : ∀ w, (f w).uid = w.uid) (hd : f defaultWatcher = defaultWatcher)
    (s : State) : (getW u (modW u f s).2).1 = f (getW u s).1 := by
  simp only [getW, modW, modS]
  rw [find_map_upd u u f hf]
  cases hfind : s.ws.find? (fun x => decide (x.uid = u)) with
  | none => simp [hd]
  | some w => simp

theorem wprop_same {u : Nat} {Q : Watcher → Prop} {m : M α} (h : ∀ s, (m s).2.ws = s.ws) : Pres (WProp u Q) m := by
  intro s hs
  unfold WProp getW
  rw [h s]; exact hs

theorem wpropLeafW (u : Nat) (Q : Watcher → Prop) (S : QStable Q) : LeafW (WProp u Q) where
  emit := fun o => by apply wprop_same; intro s; simp only [emit, modS]; split <;> rfl
  runK := fun f _ => by apply wprop_same; intro s; rfl
  emitEv := fun w t p x => by apply wprop_same; intro s; simp only [emitEv, modS]; split <;> rfl
  popPid := fun u' p => wprop_modW u u' Q _ (fun _ => rfl)
    (fun w hw => S.shrink w _ (fun x hx => (List.mem_filter.mp hx).1) hw)
  bumpHook := fun u' h i => wprop_modW u u' Q _ (fun _ => rfl) (fun w hw => S.hooks w _ hw)
  setObjStopping := fun p b => by apply wprop_same; intro s; rfl
  setRc := fun p rc => by apply wprop_same; intro s; rfl
  markBlocked := by apply wprop_same; intro s; rfl

theorem blockedLeafW : LeafW (fun s : State => s.blocked = true) where
  emit := fun o => by intro s hs; simp only [emit, modS]; split <;> exact hs
  runK := fun f _ => by intro s hs; exact hs
  emitEv := fun w t p x => by intro s hs; simp only [emitEv, modS]; split <;> exact hs
  popPid := fun u p => by intro s hs; exact hs
  bumpHook := fun u h i => by intro s hs; exact hs
  setObjStopping := fun p b => by intro s hs; exact hs
  setRc := fun p rc => by intro s hs; exact hs
  markBlocked := by intro s _; rfl

/-- **when `_stop` has run its course the watcher reports `stopped` with zero processes** (unless the
    daemon hung inside `reap_process`): the state handed to whoever waited for the stop has status
    `stopped` and an empty `processes` dict — whatever the stop hooks returned or raised. -/
theorem C02_stop_completes (rec : Rec) (u : Nat) (close : Bool) (wt : Waiter) (s : State)
    (hst : (getW u s).1.status ≠ .stopped) :
    ∃ s1, stopAfterKill rec u close wt s = deliver rec wt .unit s1 ∧
      (getW u s1).1.status = .stopped ∧ (s1.blocked = true ∨ (getW u s1).1.pids = []) := by
  refine ⟨(callHook u "after_stop" (setStatus u .stopped (notify u "stop" none "-" (reapProcesses u s).2).2).2).2, rfl, ?_, ?_⟩
  · -- status
    have hQ : QStable (fun w : Watcher => w.status = .stopped) := ⟨fun _ _ _ h => h, fun _ _ h => h⟩
    apply callHook_pres (wpropLeafW u _ hQ) u "after_stop"
    show (getW u (setStatus u .stopped _).2).1.status = .stopped
    unfold setStatus
    rw [getW_modW_self u (fun w => { w with status := .stopped }) (fun _ => rfl) (by simp [defaultWatcher])]
  · rcases C02_reap_processes_clears u s hst with hb | hp
    · left
      have h1 := notify_pres blockedLeafW u "stop" none "-" _ hb
      have h2 : (setStatus u Status.stopped (notify u "stop" none "-" (reapProcesses u s).2).2).2.blocked = true := h1
      exact callHook_pres blockedLeafW u "after_stop" _ h2
    · right
      have hQ : QStable (fun w : Watcher => w.pids = []) := by
        refine ⟨?_, fun _ _ h => h⟩
        intro w l hl h
        simp only at h ⊢
        apply List.eq_nil_iff_forall_not_mem.mpr
        intro x hx
        have hm := hl x hx
        rw [h] at hm
        exact absurd hm (List.not_mem_nil)
      apply callHook_pres (wpropLeafW u _ hQ) u "after_stop"
      show (getW u (setStatus u .stopped _).2).1.pids = []
      unfold setStatus
      rw [getW_modW_self u (fun w => { w with status := .stopped }) (fun _ => rfl) (by simp [defaultWatcher])]
      exact notify_pres (wpropLeafW u _ hQ) u "stop" none "-" _ hp

/-! ### stopped stays stopped -/

/-- `spawn_process` on a stopped watcher does nothing at all -/
theorem C02_stopped_no_spawn (rec : Rec) (u : Nat) (s : State) (hst : (getW u s).1.status = .stopped) :
    spawnProcess rec u s = (.rTrue, s) := by
  unfold spawnProcess
  simp only [bind]
  erw [if_pos hst]
  rfl

/-- the periodic `manage_processes` leaves a stopped watcher alone (no respawn after a check,
    a worker death, incr/decr/set) -/
theorem C02_stopped_manage_noop (rec : Rec) (u : Nat) (wt : Waiter) (s : State) (hst : (getW u s).1.status = .stopped) :
    manageProcesses rec u wt s = deliver rec wt .unit s := by
  unfold manageProcesses
  simp only [bind]
  erw [if_pos hst]
  rfl

/-- `reap_processes` does not touch a stopped watcher -/
theorem C02_stopped_reap_noop (u : Nat) (s : State) (hst : (getW u s).1.status = .stopped) :
    reapProcesses u s = ((), s) := by
  unfold reapProcesses
  simp only [bind]
  erw [if_pos hst]
  rfl

/-- stopping a stopped watcher is a no-op as well -/
theorem C02_stop_idempotent (rec : Rec) (u : Nat) (close : Bool) (wt : Waiter) (s : State)
    (hst : (getW u s).1.status = .stopped) : stopW rec u close wt s = deliver rec wt .unit s := by
  unfold stopW
  simp only [bind]
  erw [if_pos hst]
  rfl

/-! ### on-demand watchers: only a socket event starts them -/

/-- **an on-demand watcher is not started by a start request, a check or a restart**: while no socket
    event is being handled (`Arbiter.socket_event` false) `_start` returns at once — no hook, no
    status change, no spawn -/
theorem C02_on_demand_start_waits (rec : Rec) (u : Nat) (wt : Waiter) (s : State)
    (hod : (getW u s).1.onDemand = true) (hse : s.a.socketEvent = false) :
    startW rec u wt s = deliver rec wt .unit s := by
  unfold startW
  simp only [bind]
  have hp : (pendingSocketEvent u s).1 = true := by
    simp only [pendingSocketEvent, bind, pure, getA]
    simp only [hod, Bool.true_and, Bool.not_eq_eq_eq_not, Bool.not_true]
    exact hse
  erw [if_pos hp]
  rfl

/-- **… and its dead workers are not replaced until the next connection**: `spawn_processes` spawns
    nothing while the watcher waits for its socket event; it marks the watcher stopped only when no
    worker is left (as repaired) -/
theorem C02_on_demand_respawn_waits (rec : Rec) (u : Nat) (wt : Waiter) (s : State)
    (hod : (getW u s).1.onDemand = true) (hse : s.a.socketEvent = false) :
    spawnProcesses rec u wt s =
      deliver rec wt .unit (if (getW u s).1.pids.isEmpty then (setStatus u .stopped s).2 else s) := by
  unfold spawnProcesses
  simp only [bind]
  have hp : (pendingSocketEvent u s).1 = true := by
    simp only [pendingSocketEvent, bind, pure, getA]
    simp only [hod, Bool.true_and, Bool.not_eq_eq_eq_not, Bool.not_true]
    exact hse
  erw [if_pos hp]
  have hs0 : (pendingSocketEvent u s).2 = s := rfl
  simp only [hs0]
  have hs1 : (getW u s).2 = s := rfl
  simp only [hs1]
  by_cases he : (getW u s).1.pids.isEmpty = true
  · rw [if_pos he]; erw [if_pos he]
  · rw [if_neg he]; erw [if_neg he]

/-- **without a waiting connection the periodic check starts nobody** — the tail of `manage_watchers`
    only acts when an on-demand watcher is stopped *and* `select()` reports a managed socket readable -/
theorem C02_no_socket_event_no_start (rec : Rec) (need : Bool) (wt : Waiter) (s : State)
    (h : need = false ∨ s.a.sockReady = false) :
    manageWatchersTail rec need wt s = deliver rec wt .unit s := by
  unfold manageWatchersTail
  simp only [bind, getA]
  have hc : ¬ ((need && s.a.sockReady) = true) := by
    cases h with
    | inl h => simp [h]
    | inr h => simp [h]
  erw [if_neg hc]

end Circus.Core
