import CircusProofs.Core.Init
import CircusProofs.Core.OptionsCmd
/-!
# C15 — the watcher directory stays coherent; names are unique ignoring case

All statements are about the core model `Circus.Core` (`run (initState cfg …) ops` for any
operation list `ops`: requests of every kind, periodic checks, timer wake-ups, deaths, faults).
Helper lemmas: `Core/Generic.lean` (generic preservation), `Core/DirInv.lean`, `Core/Init.lean`.
-/
namespace Circus.Core

/-- **directory invariant in every reachable state**: the watcher list and the lower-cased name
    dict describe the same watcher objects (same identities, as multisets), both without
    duplicates, every dict key is the lower-cased name of the object it maps to. -/
theorem C15_dir_inv (cfg : List Watcher) (bs : List Behav) (aw : Nat) (hwf : WellFormed cfg) (ops : List Op) :
    DirInv (run (initState cfg bs aw) ops) :=
  dirInv_run _ ops (dirInv_init cfg bs aw hwf)

theorem mem_same_uid {l : List Watcher} (hnd : (l.map (·.uid)).Nodup) {w w' : Watcher}
    (hw : w ∈ l) (hw' : w' ∈ l) (he : w'.uid = w.uid) : w' = w := by
  induction l with
  | nil => cases hw
  | cons x xs ih =>
    simp only [List.map_cons, List.nodup_cons] at hnd
    rcases List.mem_cons.mp hw with a1 | a2
    · rcases List.mem_cons.mp hw' with b1 | b2
      · rw [a1, b1]
      · exact (hnd.1 (List.mem_map.mpr ⟨w', b2, by rw [he, a1]⟩)).elim
    · rcases List.mem_cons.mp hw' with b1 | b2
      · exact (hnd.1 (List.mem_map.mpr ⟨w, a2, by rw [← he, b1]⟩)).elim
      · exact ih hnd.2 a2 b2

theorem entry_unique {l : List (String × Nat)} (hnd : (l.map (·.1)).Nodup) {k : String} {u1 u2 : Nat}
    (h1 : (k, u1) ∈ l) (h2 : (k, u2) ∈ l) : u1 = u2 := by
  induction l with
  | nil => cases h1
  | cons x xs ih =>
    simp only [List.map_cons, List.nodup_cons] at hnd
    rcases List.mem_cons.mp h1 with a1 | a2
    · rcases List.mem_cons.mp h2 with b1 | b2
      · have := a1.trans b1.symm
        exact (Prod.mk.inj this).2
      · exact (hnd.1 (List.mem_map.mpr ⟨(k, u2), b2, by rw [← a1]⟩)).elim
    · rcases List.mem_cons.mp h2 with b1 | b2
      · exact (hnd.1 (List.mem_map.mpr ⟨(k, u1), a2, by rw [← b1]⟩)).elim
      · exact ih hnd.2 a2 b2

/-- the object behind a registered identity -/
theorem obj_of_uid {s : State} (h : DirInv s) {w : Watcher} (hw : w ∈ s.ws) {k : String} (hk : (k, w.uid) ∈ s.a.names) :
    k = pyLower w.name := by
  obtain ⟨_, _, _, h4, h5, _⟩ := h
  obtain ⟨e, he, he1, he2⟩ := h5 k w.uid hk
  simp only [dirView] at he h4
  obtain ⟨w', hw', rfl⟩ := List.mem_map.mp he
  simp only at he1 he2
  have hnd : (s.ws.map (·.uid)).Nodup := by simpa [List.map_map, Function.comp_def] using h4
  have := mem_same_uid hnd hw hw' he1
  rw [← he2, this]

/-- **names are unique ignoring case**: two registered watchers whose names agree up to letter
    case are the same watcher. -/
theorem C15_unique_ignoring_case {s : State} (h : DirInv s) {w1 w2 : Watcher}
    (h1 : w1 ∈ s.ws) (h2 : w2 ∈ s.ws) (r1 : w1.uid ∈ s.a.watchers) (r2 : w2.uid ∈ s.a.watchers)
    (heq : pyLower w1.name = pyLower w2.name) : w1.uid = w2.uid := by
  have hperm := h.1
  have hkeys := h.2.1
  simp only [dirView] at hperm hkeys
  have m1 : w1.uid ∈ s.a.names.map (·.2) := (List.Perm.mem_iff hperm).mpr r1
  have m2 : w2.uid ∈ s.a.names.map (·.2) := (List.Perm.mem_iff hperm).mpr r2
  obtain ⟨⟨k1, u1⟩, hk1, e1⟩ := List.mem_map.mp m1
  obtain ⟨⟨k2, u2⟩, hk2, e2⟩ := List.mem_map.mp m2
  simp only at e1 e2; subst e1; subst e2
  have hk1' := obj_of_uid h h1 hk1
  have hk2' := obj_of_uid h h2 hk2
  have hkk : k1 = k2 := by rw [hk1', hk2', heq]
  subst hkk
  exact entry_unique hkeys hk1 hk2

/-- **list / numwatchers / status describe the same set**: `list` prints the dict keys,
    `numwatchers` the length of the list, `status` walks the list — the dict has exactly one key
    per list entry. -/
theorem C15_list_numwatchers_agree {s : State} (h : DirInv s) :
    (s.a.names.map (·.1)).length = s.a.watchers.length ∧ (s.a.names.map (·.2)).Perm s.a.watchers := by
  have := h.1
  simp only [dirView] at this
  exact ⟨by simpa using this.length_eq, this⟩

theorem lookup_of_mem_nodup {l : List (String × Nat)} {k : String} {u : Nat}
    (hnd : (l.map (·.1)).Nodup) (h : (k, u) ∈ l) : l.lookup k = some u := by
  induction l with
  | nil => cases h
  | cons x xs ih =>
    obtain ⟨a, b⟩ := x
    simp only [List.map_cons, List.nodup_cons] at hnd
    rcases List.mem_cons.mp h with hx | hx
    · obtain ⟨rfl, rfl⟩ := Prod.mk.inj hx
      simp [List.lookup]
    · have : k ≠ a := fun hka => hnd.1 (hka ▸ List.mem_map.mpr ⟨_, hx, rfl⟩)
      have : (k == a) = false := by simp [this]
      simp only [List.lookup, this]
      exact ih hnd.2 hx

/-- **a request naming a watcher in any letter case reaches that watcher**: for a registered
    watcher `w`, every spelling `n` with `lower n = lower w.name` is resolved by
    `Command._get_watcher` to `w`'s identity. -/
theorem C15_case_insensitive_lookup {s : State} (h : DirInv s) {w : Watcher} (hw : w ∈ s.ws)
    (hr : w.uid ∈ s.a.watchers) (n : String) (hn : pyLower n = pyLower w.name) :
    (getWatcherCmd (.str n) s).1 = .ok w.uid := by
  have hperm := h.1
  simp only [dirView] at hperm
  have m : w.uid ∈ s.a.names.map (·.2) := (List.Perm.mem_iff hperm).mpr hr
  obtain ⟨⟨k, u⟩, hk, e⟩ := List.mem_map.mp m
  simp only at e; subst e
  have hk' := obj_of_uid h hw hk
  subst hk'
  have hl := lookup_of_mem_nodup (by simpa [dirView] using h.2.1) hk
  simp only [getWatcherCmd, lookupWatcher, getA, bind, pure, hn, hl]

/-- the heap holds one object per identity: looking a registered watcher's identity up gives that object -/
theorem getW_of_mem_dir {s : State} (h : DirInv s) {w : Watcher} (hw : w ∈ s.ws) : (getW w.uid s).1 = w := by
  have hnd : (s.ws.map (·.uid)).Nodup := by
    have h4 := h.2.2.2.1
    simpa [dirView, List.map_map, Function.comp_def] using h4
  simp only [getW]
  cases hf : s.ws.find? (·.uid = w.uid) with
  | none =>
    have := List.find?_eq_none.mp hf w hw
    simp at this
  | some w' =>
    have hm := List.mem_of_find?_eq_some hf
    have hp := List.find?_some hf
    simp only [decide_eq_true_eq] at hp
    simp only [Option.getD_some]
    exact mem_same_uid hnd hw hm hp

/-- **`options` / `get` in any letter case read that watcher and no other**: for a registered watcher `w`, an
    `options` request whose name is any spelling `n` with `lower n = lower w.name` is answered with the options of
    `w` itself (the body is a function of `w`'s record), and a `get` request with the named options of `w`; the state
    is left as it was. -/
theorem C15_options_any_letter_case {s : State} (h : DirInv s) {w : Watcher} (hw : w ∈ s.ws)
    (hr : w.uid ∈ s.a.watchers) (n : String) (hn : pyLower n = pyLower w.name) (props : JVal)
    (hp : props.get? "name" = some (.str n)) :
    validateExecute "options" props s = (.ok (.value (optionsBody w)), s) ∧
    (∀ keys, props.get? "keys" = some keys → validateExecute "get" props s = (getBody w keys, s)) := by
  have hl := C15_case_insensitive_lookup h hw hr n hn
  have hg := getW_of_mem_dir h hw
  constructor
  · rw [validateExecute_options props s (has_of_get_some hp), execOptions_eq, hp]
    simp only [Option.getD_some, hl, hg]
  · intro keys hk
    rw [validateExecute_get props s (has_of_get_some hp) (has_of_get_some hk), execGet_eq, hp, hk]
    simp only [Option.getD_some, hl, hg]

/-- **a removed watcher disappears from both structures** -/
theorem C15_rm_gone (s : State) (u : Nat) :
    let s' := (unregisterWatcher u s).2
    u ∉ s'.a.watchers ∧ ∀ k, (k, u) ∉ s'.a.names := by
  simp only [unregisterWatcher, modA, modS]
  constructor
  · simp [List.mem_filter]
  · intro k; simp [List.mem_filter]

theorem lookup_filter_none {l : List (String × Nat)} {k : String} {u : Nat}
    (hnd : (l.map (·.1)).Nodup) (h : (k, u) ∈ l) :
    (l.filter fun x => decide (x.2 ≠ u)).lookup k = none := by
  induction l with
  | nil => cases h
  | cons x xs ih =>
    obtain ⟨a, b⟩ := x
    simp only [List.map_cons, List.nodup_cons] at hnd
    have hnone : ∀ l : List (String × Nat), k ∉ l.map (·.1) → (l.filter fun x => decide (x.2 ≠ u)).lookup k = none := by
      intro l hl
      induction l with
      | nil => rfl
      | cons y ys ihy =>
        simp only [List.map_cons, List.mem_cons, not_or] at hl
        simp only [List.filter_cons]
        split
        · have : (k == y.1) = false := by simp [hl.1]
          simp only [List.lookup, this]; exact ihy hl.2
        · exact ihy hl.2
    rcases List.mem_cons.mp h with hx | hx
    · obtain ⟨rfl, rfl⟩ := Prod.mk.inj hx
      simp only [List.filter_cons, ne_eq, not_true_eq_false, decide_false, Bool.false_eq_true, if_false]
      exact hnone xs hnd.1
    · have hne : k ≠ a := fun hka => hnd.1 (hka ▸ List.mem_map.mpr ⟨_, hx, rfl⟩)
      simp only [List.filter_cons]
      split
      · have : (k == a) = false := by simp [hne]
        simp only [List.lookup, this]; exact ih hnd.2 hx
      · exact ih hnd.2 hx

/-- **and its name can be used again**: after the removal, looking the name up finds nothing -/
theorem C15_rm_name_reusable {s : State} (h : DirInv s) {w : Watcher} (hw : w ∈ s.ws) (hr : w.uid ∈ s.a.watchers) :
    ((unregisterWatcher w.uid s).2.a.names.lookup (pyLower w.name)) = none := by
  have hperm := h.1
  simp only [dirView] at hperm
  have hkeys : (s.a.names.map (·.1)).Nodup := by simpa [dirView] using h.2.1
  have m : w.uid ∈ s.a.names.map (·.2) := (List.Perm.mem_iff hperm).mpr hr
  obtain ⟨⟨k, u⟩, hk, e⟩ := List.mem_map.mp m
  simp only at e; subst e
  have hk' := obj_of_uid h hw hk
  subst hk'
  simp only [unregisterWatcher, modA, modS]
  exact lookup_filter_none hkeys hk

/-- **an `add` that reports success has created the watcher**: `Arbiter.add_watcher` returns the new
    identity only after entering it into the list and, under its lower-cased name, into the dict
    (`addCore`, the body of the command, reports ok exactly with what `registerNew` returns). -/
theorem C15_add_ok_exists (w : Watcher) (s : State) (uid : Nat) (h : (registerNew w s).1 = some uid) :
    uid ∈ (registerNew w s).2.a.watchers ∧ (pyLower w.name, uid) ∈ (registerNew w s).2.a.names := by
  unfold registerNew registerChecked at h ⊢
  simp only at h ⊢
  split at h
  · simp at h
  · split at h
    · simp at h
    · rename_i h1 h2
      simp only [Option.some.injEq] at h
      subst h
      simp only [h1, h2, if_false]
      simp [clampNp]

/-- a refused `add` (name taken ignoring case, or constructor error) changes nothing -/
theorem C15_add_refused_noop (w : Watcher) (s : State) (h : (registerNew w s).1 = none) :
    (registerNew w s).2 = s := by
  unfold registerNew registerChecked at h ⊢
  simp only at h ⊢
  split
  · rfl
  · split
    · rfl
    · rename_i h1 h2
      have h1' := Bool.eq_false_iff.mpr h1
      have h2' := Bool.eq_false_iff.mpr h2
      simp only [h1', h2', Bool.false_eq_true, if_false] at h
      cases h

/-! non-vacuity: a concrete configuration is well formed, so the invariant holds along all its runs -/
example : WellFormed [{ name := "a" }, { name := "B" }, { name := "c c" }] := by unfold WellFormed; decide +kernel
example : ¬ WellFormed [{ name := "a" }, { name := "A" }] := by unfold WellFormed; decide +kernel
/-- `options` asked for `b` reaches the watcher `B` (identity 2, numprocesses 3) of a three-watcher daemon -/
example : validateExecute "options" (.obj [("name", .str "b")])
      (initState [{ name := "a" }, { name := "B", np := 3 }, { name := "c c" }] [{}] 0) =
    (.ok (.value (optionsBody { name := "B", np := 3, uid := 2 })),
     initState [{ name := "a" }, { name := "B", np := 3 }, { name := "c c" }] [{}] 0) :=
  (C15_options_any_letter_case
    (C15_dir_inv [{ name := "a" }, { name := "B", np := 3 }, { name := "c c" }] [{}] 0 (by unfold WellFormed; decide +kernel) [])
    (w := { name := "B", np := 3, uid := 2 }) (by simp [run, initState, assignUids]) (by simp [run, initState, assignUids])
    "b" (by decide +kernel) _ rfl).1

end Circus.Core
