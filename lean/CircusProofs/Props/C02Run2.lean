import CircusProofs.Core.StopRunG
import CircusProofs.Props.C02Run
/-!
# C02 — completion of `rm`: the watcher is unregistered at once, stopped after the graceful timeout

The same completion claim as `C02_stop_terminates_stubborn` (Props/C02Run.lean) for
`Arbiter.rm_watcher` (`rm`, `nostop` absent), by the generic polling phase of Core/StopRunG.lean.
-/
namespace Circus.Core

/-- **`rm` terminates although every worker ignores the stop signal.**

    Setting as in `C02_stop_terminates_stubborn`; the request is `rm` for that watcher by name, `waiting` or not.

    Claim: the request followed by exactly `n = m * ⌈graceful_timeout / 100 ms⌉` timer firings ends with nothing
    in flight and the slot free; the watcher object is `stopped` with an empty process list, every one of the `m`
    workers is gone from the process table (killed and reaped), exactly `m` SIGKILLs were sent, exactly one reply
    was written (if the control socket is open) — with `waiting` in the last step and not earlier.  The watcher
    left the arbiter's list and dict in the request step already (`rm_watcher` unregisters before it stops) and
    stays out. -/
theorem C02_rm_terminates_stubborn (cid name : String) (waiting : Bool) (u : Nat) (w : Watcher) (s : State)
    (hi : Idle u s) (hd : Stubborn u w s) (hn : s.a.names.lookup (pyLower name) = some u)
    (hne : w.pids ≠ []) (hgt : 0 < w.graceful) :
    let n := w.pids.length * pollsOf w.graceful
    let ops := fun j => Op.req cid (some (rmReq name waiting)) :: List.replicate j Op.wake
    let s' := run s (ops n)
    s'.frames = [] ∧ s'.sleepers = [] ∧ s'.tops = [] ∧ s'.ready = [] ∧ s'.a.slot = none ∧ s'.blocked = false ∧
    s'.a.watchers = [] ∧ s'.a.names = s.a.names.filter (·.2 ≠ u) ∧
    s'.ws = [{ w with pids := [], status := .stopped }] ∧
    (∀ pid ∈ w.pids, ∃ p, s'.k.find pid = some p ∧ p.st = .gone) ∧
    killCount s'.log = killCount s.log + w.pids.length ∧
    (s.a.ctlClosed = false → repCount s' = repCount s + 1) ∧
    (waiting = true → ∀ j < n, repCount (run s (ops j)) = repCount s) ∧
    (∀ j < n, (run s (ops j)).a.watchers = [] ∧ (run s (ops j)).a.slot = some "arbiter_rm_watcher") ∧
    ((∀ p ∈ s.k.procs, p.st ≠ .zombie) → ∀ p ∈ s'.k.procs, p.st ≠ .zombie) := by
  intro n ops s'
  have hpolls : 0 < pollsOf w.graceful := by unfold pollsOf; omega
  obtain ⟨hD, hbefore, harb⟩ := rm_run_stubborn (∀ p ∈ s.k.procs, p.st ≠ .zombie) cid name waiting u w s hi hd hn hne hpolls id
  have hwat : s.a.watchers.filter (· ≠ u) = [] := by rw [hi.watchers]; simp
  refine ⟨hD.frames, hD.sleepers, hD.tops, hD.ready, ?_, hD.blocked, ?_, ?_, hD.ws, hD.gone, hD.kills, ?_, ?_, ?_, hD.nz⟩
  · rw [hD.arb]
  · rw [hD.arb]; exact hwat
  · rw [hD.arb]; rfl
  · intro ho
    have := hD.reps
    rw [if_pos ho] at this
    exact this
  · intro hw j hj
    have := hbefore j hj
    rw [if_neg (by simp [hw])] at this
    exact this
  · intro j hj
    rw [harb j hj]
    exact ⟨hwat, rfl⟩

-- the concrete daemon of Props/C02Run.lean: `rm` needs the same four firings; the watcher is unregistered at once
example : let s' := run c02s0 (.req "c" (some (rmReq "a" true)) :: List.replicate 4 .wake)
    s'.ws.map (fun w => (w.pids, w.status)) = [([], .stopped)] ∧ s'.a.watchers = [] ∧
    killCount s'.log = killCount c02s0.log + 2 ∧ repCount s' = repCount c02s0 + 1 := by
  have h := C02_rm_terminates_stubborn "c" "a" true 1 c02w c02s0 c02s0_idle c02s0_stubborn (by decide +kernel)
    (by decide +kernel) (by decide +kernel)
  have hl : c02w.pids.length * pollsOf c02w.graceful = 4 := by decide +kernel
  simp only [hl] at h
  obtain ⟨_, _, _, _, _, _, h7, _, h9, _, h11, h12, _⟩ := h
  refine ⟨by rw [h9]; rfl, h7, ?_, h12 (by decide +kernel)⟩
  rw [h11]; congr 1

example : (run c02s0 (.req "c" (some (rmReq "a" true)) :: List.replicate 4 .wake)).ws.map (fun w => (w.pids, w.status))
      = [([], .stopped)] ∧
    (run c02s0 (.req "c" (some (rmReq "a" true)) :: List.replicate 3 .wake)).ws.map (fun w => (w.pids, w.status))
      = [([100, 101], .stopping)] ∧
    (run c02s0 [.req "c" (some (rmReq "a" true))]).a.watchers = [] ∧
    (run c02s0 [.req "c" (some (rmReq "a" true))]).a.names = [] ∧
    repCount (run c02s0 (.req "c" (some (rmReq "a" true)) :: List.replicate 3 .wake)) = 0 ∧
    repCount (run c02s0 (.req "c" (some (rmReq "a" true)) :: List.replicate 4 .wake)) = 1 ∧
    (run c02s0 (.req "c" (some (rmReq "a" true)) :: List.replicate 4 .wake)).k.procs.map (fun p => (p.pid, p.st))
      = [(100, .gone), (101, .gone)] := by decide +kernel

/-- **`rm` terminates within the request step when every worker obeys the stop signal** (setting of
    `C02_stop_terminates_obedient`): nothing in flight, the slot free, the watcher unregistered, its object `stopped`
    with an empty list, the workers dead and reaped, no SIGKILL, exactly one reply. -/
theorem C02_rm_terminates_obedient (cid name : String) (waiting : Bool) (u : Nat) (w : Watcher) (s : State)
    (hi : Idle u s) (hd : Obedient u w s) (hn : s.a.names.lookup (pyLower name) = some u)
    (hne : w.pids ≠ []) (hgt : 0 < w.graceful) :
    let s' := run s [Op.req cid (some (rmReq name waiting))]
    s'.frames = [] ∧ s'.sleepers = [] ∧ s'.tops = [] ∧ s'.ready = [] ∧ s'.a.slot = none ∧ s'.blocked = false ∧
    s'.a.watchers = [] ∧ s'.a.names = s.a.names.filter (·.2 ≠ u) ∧
    s'.ws = [{ w with pids := [], status := .stopped }] ∧
    (∀ pid ∈ w.pids, ∃ p, s'.k.find pid = some p ∧ p.st = .gone) ∧
    killCount s'.log = killCount s.log ∧
    (s.a.ctlClosed = false → repCount s' = repCount s + 1) ∧
    ((∀ p ∈ s.k.procs, p.st ≠ .zombie) → ∀ p ∈ s'.k.procs, p.st ≠ .zombie) := by
  intro s'
  have hpolls : 0 < pollsOf w.graceful := by unfold pollsOf; omega
  have hD : StopDone (∀ p ∈ s.k.procs, p.st ≠ .zombie) w (unreg s.a u) (killCount s.log)
      (repC s.log + (if s.a.ctlClosed = false then 1 else 0)) s' :=
    rm_run_obedient _ cid name waiting u w s hi hd hn hne hpolls id
  have hwat : s.a.watchers.filter (· ≠ u) = [] := by rw [hi.watchers]; simp
  refine ⟨hD.frames, hD.sleepers, hD.tops, hD.ready, ?_, hD.blocked, ?_, ?_, hD.ws, hD.gone, hD.kills, ?_, hD.nz⟩
  · rw [hD.arb]
  · rw [hD.arb]; exact hwat
  · rw [hD.arb]; rfl
  · intro ho
    have := hD.reps
    rw [if_pos ho] at this
    exact this

example : let s' := run c02t0 [.req "c" (some (rmReq "a" true))]
    s'.ws.map (fun w => (w.pids, w.status)) = [([], .stopped)] ∧ s'.a.watchers = [] ∧
    killCount s'.log = killCount c02t0.log ∧ repCount s' = repCount c02t0 + 1 := by
  have h := C02_rm_terminates_obedient "c" "a" true 1 c02v c02t0 c02t0_idle c02t0_obedient (by decide +kernel)
    (by decide +kernel) (by decide +kernel)
  obtain ⟨_, _, _, _, _, _, h7, _, h9, _, h11, h12, _⟩ := h
  exact ⟨by rw [h9]; rfl, h7, h11, h12 (by decide +kernel)⟩

example : (run c02t0 [.req "c" (some (rmReq "a" true))]).ws.map (fun w => (w.pids, w.status)) = [([], .stopped)] ∧
    (run c02t0 [.req "c" (some (rmReq "a" true))]).a.watchers = [] ∧
    (run c02t0 [.req "c" (some (rmReq "a" true))]).a.slot = none ∧
    (run c02t0 [.req "c" (some (rmReq "a" true))]).sleepers.length = 0 ∧
    repCount (run c02t0 [.req "c" (some (rmReq "a" true))]) = 1 ∧
    (run c02t0 [.req "c" (some (rmReq "a" true))]).k.procs.map (fun p => (p.pid, p.st)) = [(100, .gone), (101, .gone)] := by
  decide +kernel

end Circus.Core
