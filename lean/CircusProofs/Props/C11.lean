import CircusProofs.Props.C10
import CircusProofs.Props.C15
import CircusProofs.Core.OptionsCmd
/-!
# C11 — a request refused as invalid or conflicting changes nothing

Theorems about `validateExecute cmd props` (= `cmd.validate(props)` then `cmd.execute(arbiter, props)`)
and `handleMessage cid msg` (= `Controller.handle_message` + `dispatch`) of the core model, for
**every** state `s` and every JSON value `props`.

"Changes nothing" is, at the level of `validateExecute`, equality of the whole model state
(`… = (.error e, s)`), and at the level of `handleMessage` the relation `sameDaemon s s'`: every
component of the state is the same except that at most one reply was appended to the ghost log and
that the request-local table `doneVals` may have been reset.

Forward direction, class by class (what is refused, and that it is refused without effect):
* `C11_missing_required` — a required property is missing;
* `C11_set_invalid_option_noop`, `C11_add_invalid_option_noop` (`…_anywhere`: first, middle, last) —
  every option is validated before any is applied;
* `C11_unknown_watcher_noop`, `…_named_noop`, `…_simple_noop`, `…_glob_noop`, `…_kill_noop`,
  `C11_get_watcher_reads` — unknown watcher;
* `C11_bad_signal_noop`, `C11_signal_childpid_without_pid_noop`, `C11_kill_bad_signal_noop`,
  `C11_incr_bad_nb_noop` — bad signal, bad `nb`;
* `C11_conflict_*_noop`, `C11_busy_refuses_noop`, `C11_busy_incr_decr_noop`,
  `C11_incr_decr_singleton_noop` — the exclusive slot is taken / the arbiter restarts;
* `C11_add_duplicate_noop`, `C11_add_bad_name_noop`, `C11_add_rejected_options_noop`.
Converse direction (whatever the reason, an error of the class means no effect):
* `C11_error_noop` (all commands but `set`, `signal`: *any* error), `C11_add_error_noop`,
  `C11_set_refusal_noop`, `C11_signal_refusal_noop`, and the one-line form **`C11_refusal_noop`**:
  for every registered command, a validation-class error ⇒ identical state.
Frames: `C11_invalid_json_only_replies`, `C11_not_an_object_only_replies`,
`C11_unknown_command_only_replies`, `C11_bad_properties_only_replies`, `C11_refused_only_replies`,
`C11_refused_no_signal`, `C11_message_*_only_replies`, `C11_message_refusal_only_replies`.

Observability of "the options exactly as they were": `C11_options_reply`, `C11_get_reply` (the answers of `options` /
`get` are computed from the watcher's record alone), `C11_options_function_of_records`, `C11_refusal_same_options`,
`C11_sameDaemon_same_options` (after a refusal every `options` / `get` request is answered as before),
`C11_get_unknown_key_noop`, `C11_readonly_options_noop`, `C11_message_readonly_options_only_replies`.

Known finding F4 (kept, not repaired): `set` applies its options one after the other at *execution*
time; an option that passes `validate_option` but is refused by `Watcher.set_opt` (e.g. an unknown
user name) makes the request fail after the earlier options were already applied:
`C11_counterexample_set_partial`; `C11_set_exec_error_partial` is the part that holds (the first
option failing), `C11_set_refusal_noop` shows that this `ValueError` is the only leak.
-/
namespace Circus.Core
open JVal

/-! helper definitions and lemmas of this file live in `Circus.Core.C11` (no clash with other files) -/
namespace C11
end C11
open C11

/-! ## vocabulary -/

/-- the exclusive slot is taken, or the arbiter is restarting: `util.synchronized` refuses -/
def C11.busy (s : State) : Prop := s.a.restarting = true ∨ s.a.slot.isSome = true

/-- `name` does not designate a registered watcher: it is not a string, or its lower-cased form is
    not a key of the arbiter's name dict -/
def C11.unknownWatcher (name : JVal) (s : State) : Prop :=
  ∀ n, name = .str n → s.a.names.lookup (pyLower n) = none

/-- the exception `_get_watcher` raises for such a name: MessageError for a string,
    AttributeError (`.lower()` of a non-string) otherwise -/
def C11.nameErr : JVal → Exc
  | .str _ => .message
  | _ => .other "AttributeError"

/-- the validation-class errors: what `validate` / `_get_watcher` / `synchronized` / `add_watcher`
    raise to refuse a request — MessageError, ConflictError, the AttributeError of a non-string
    name, the ArgumentError of `signal`, AlreadyExist.  (Not in the class: `ValueError`, raised by
    `Watcher.set_opt` while `set` executes — finding F4 —, NoSuchProcess / AccessDenied / KeyError raised while
    `signal` executes, OSError.) -/
def Exc.isRefusal : Exc → Bool
  | .message => true
  | .conflict => true
  | .other "AttributeError" => true
  | .other "ArgumentError" => true
  | .other "AlreadyExist" => true
  | _ => false

theorem C11.lookup_none_of_not_key {l : List (String × Nat)} {k : String} (h : k ∉ l.map (·.1)) :
    l.lookup k = none := by
  induction l with
  | nil => rfl
  | cons x xs ih =>
    obtain ⟨a, b⟩ := x
    simp only [List.map_cons, List.mem_cons, not_or] at h
    have : (k == a) = false := by simp [h.1]
    simp only [List.lookup, this]
    exact ih h.2

/-- a string whose lower-cased form is not a key of the dict is an unknown watcher -/
theorem C11.unknownWatcher_of_not_key (n : String) (s : State) (h : pyLower n ∉ s.a.names.map (·.1)) :
    unknownWatcher (.str n) s := by
  intro m hm
  cases hm
  exact lookup_none_of_not_key h

theorem C11.unknownWatcher_of_not_str (name : JVal) (s : State) (h : name.isStr = false) :
    unknownWatcher name s := by
  intro m hm; subst hm; cases h

/-! ## `_get_watcher` only reads -/

theorem C11.getWatcherCmd_reads (name : JVal) (s : State) : (getWatcherCmd name s).2 = s := by
  unfold getWatcherCmd
  cases name <;> try rfl
  simp only [bind, lookupWatcher, getA, pure]
  cases List.lookup (pyLower _) s.a.names <;> rfl

theorem C11.getWatcherCmd_unknown (name : JVal) (s : State) (h : unknownWatcher name s) :
    getWatcherCmd name s = (.error (nameErr name), s) := by
  unfold getWatcherCmd
  cases name <;> try rfl
  rename_i n
  simp only [bind, lookupWatcher, getA, pure, h n rfl]
  rfl

theorem C11.getWatcherCmd_known (n : String) (u : Nat) (s : State)
    (h : s.a.names.lookup (pyLower n) = some u) : getWatcherCmd (.str n) s = (.ok u, s) := by
  unfold getWatcherCmd
  simp only [bind, lookupWatcher, getA, pure, h]

/-- **`Command._get_watcher` only reads**: whatever the name and the state, the lookup leaves the
    state identical -/
theorem C11_get_watcher_reads (name : JVal) (s : State) : (getWatcherCmd name s).2 = s :=
  getWatcherCmd_reads name s

/-- whatever the name: `_get_watcher` answers and leaves the state alone -/
theorem C11.getWatcherCmd_cases (name : JVal) (s : State) :
    (∃ e, getWatcherCmd name s = (.error e, s)) ∨ (∃ u, getWatcherCmd name s = (.ok u, s)) := by
  have h := getWatcherCmd_reads name s
  generalize getWatcherCmd name s = r at h
  obtain ⟨r, s1⟩ := r
  simp only at h; subst h
  cases r with
  | error e => exact .inl ⟨e, rfl⟩
  | ok u => exact .inr ⟨u, rfl⟩

/-! ## `util.synchronized`: an error is always the ConflictError raised before anything else -/

theorem C11.not_busy_iff (s : State) : ¬ busy s ↔ s.a.restarting = false ∧ s.a.slot = none := by
  unfold busy
  cases s.a.restarting <;> cases s.a.slot <;> simp

theorem C11.syncCoroutine_busy (name : String) (c : Call) (extra : List TopCb) (s : State) (h : busy s) :
    syncCoroutine name c extra s = (.error .conflict, s) := C10_refused_no_effect name c extra s h

theorem C11.syncPlain_busy {α : Type} (name : String) (body : M (R α)) (s : State) (h : busy s) :
    syncPlain name body s = (.error .conflict, s) := C10_refused_no_effect_plain name body s h

theorem C11.syncCoroutine_free (name : String) (c : Call) (extra : List TopCb) (s : State) (h : ¬ busy s) :
    ∃ tid, (syncCoroutine name c extra s).1 = .ok tid := by
  obtain ⟨h1, h2⟩ := (not_busy_iff s).mp h
  unfold syncCoroutine
  simp only [bind, getA]
  erw [if_neg (by simp [h1]), if_neg (by simp [h2])]
  exact ⟨_, rfl⟩

/-- **a refused synchronized coroutine did nothing**: whenever `util.synchronized` answers with an
    error, it is ConflictError and the state is identical -/
theorem C11.syncCoroutine_error (name : String) (c : Call) (extra : List TopCb) (s : State) (e : Exc)
    (h : (syncCoroutine name c extra s).1 = .error e) :
    syncCoroutine name c extra s = (.error .conflict, s) := by
  by_cases hb : busy s
  · exact syncCoroutine_busy name c extra s hb
  · obtain ⟨tid, ht⟩ := syncCoroutine_free name c extra s hb
    rw [ht] at h; cases h

/-- a synchronized coroutine either starts (some future) or is refused with the state untouched -/
theorem C11.syncCoroutine_cases (name : String) (c : Call) (extra : List TopCb) (s : State) :
    (∃ tid s1, syncCoroutine name c extra s = (.ok tid, s1)) ∨
    syncCoroutine name c extra s = (.error .conflict, s) := by
  cases h : syncCoroutine name c extra s with
  | mk r s1 =>
    cases r with
    | ok t => exact .inl ⟨t, s1, rfl⟩
    | error e =>
      right
      have := syncCoroutine_error name c extra s e (by rw [h])
      rw [← h, this]

theorem C11.state_slot_eta (s : State) (h : s.a.slot = none) :
    { s with a := { s.a with slot := none } } = s := by
  obtain ⟨k, a, objs, ws, fr, sl, tops, ready, dv, nid, log, bl⟩ := s
  obtain ⟨w, n, slot, st, rs, wu, pc, cc, ls⟩ := a
  simp only at h
  subst h
  rfl

/-- `synchronized` around a plain function whose body fails without touching the state: the slot
    is taken and released, the final state is the initial one -/
theorem C11.syncPlain_body_noop {α : Type} (name : String) (body : M (R α)) (s : State) (hb : ¬ busy s)
    (r : R α) (h : body (setSlot (some name) s).2 = (r, (setSlot (some name) s).2)) :
    syncPlain name body s = (r, s) := by
  obtain ⟨h1, h2⟩ := (not_busy_iff s).mp hb
  unfold syncPlain
  simp only [bind, getA]
  erw [if_neg (by simp [h1]), if_neg (by simp [h2])]
  simp only [pure]
  rw [h]
  simp only [setSlot, modA, modS]
  congr 1
  exact state_slot_eta s h2

/-! ## `Command.validate`: the required properties -/

/-- every required property of `cmd` is present -/
def C11.reqOk (cmd : String) (props : JVal) : Prop :=
  ((requiredProps cmd).any fun p => !props.has p) = false

instance (cmd : String) (props : JVal) : Decidable (reqOk cmd props) := by unfold reqOk; infer_instance

theorem C11.veq_req_fail (cmd : String) (props : JVal) (s : State) (h : ¬ reqOk cmd props) :
    validateExecute cmd props s = (.error .message, s) := by
  unfold validateExecute
  have h' : ((requiredProps cmd).any fun p => !props.has p) = true := by
    unfold reqOk at h; simpa using h
  erw [if_pos h']; rfl

/-- **1. a missing required property**: `Command.validate` raises MessageError, nothing happens -/
theorem C11_missing_required (cmd : String) (props : JVal) (s : State) (p : String)
    (hp : p ∈ requiredProps cmd) (hm : props.has p = false) :
    validateExecute cmd props s = (.error .message, s) := by
  apply veq_req_fail
  unfold reqOk
  intro h
  have := List.any_eq_false.mp h p hp
  simp [hm] at this

/-- when the required properties are there, `validateExecute` is the command-specific part -/
theorem C11.veq_start (props : JVal) (s : State) : validateExecute "start" props s = execSSR "start" props s := by
  unfold validateExecute; erw [if_neg (by simp [requiredProps])]; rfl
theorem C11.veq_stop (props : JVal) (s : State) : validateExecute "stop" props s = execSSR "stop" props s := by
  unfold validateExecute; erw [if_neg (by simp [requiredProps])]; rfl
theorem C11.veq_restart (props : JVal) (s : State) : validateExecute "restart" props s = execSSR "restart" props s := by
  unfold validateExecute; erw [if_neg (by simp [requiredProps])]; rfl
theorem C11.veq_reload (props : JVal) (s : State) : validateExecute "reload" props s = execReload props s := by
  unfold validateExecute; erw [if_neg (by simp [requiredProps])]; rfl
theorem C11.veq_quit (props : JVal) (s : State) :
    validateExecute "quit" props s =
      ((syncCoroutine "arbiter_stop" .arbStop [] s).1.map fun tid => ExecRes.future tid "",
       (syncCoroutine "arbiter_stop" .arbStop [] s).2) := by
  unfold validateExecute; erw [if_neg (by simp [requiredProps])]; rfl
theorem C11.veq_readonly (c : String) (hc : c = "status" ∨ c = "list" ∨ c = "numprocesses") (props : JVal) (s : State) :
    validateExecute c props s = execReadOnly c props s := by
  rcases hc with rfl | rfl | rfl <;>
  · unfold validateExecute; erw [if_neg (by simp [requiredProps])]; rfl
theorem C11.veq_rm (props : JVal) (s : State) (h : reqOk "rm" props) :
    validateExecute "rm" props s = execRm props s := by
  unfold validateExecute; erw [if_neg (by unfold reqOk at h; simp [h])]; rfl
theorem C11.veq_incr (props : JVal) (s : State) (h : reqOk "incr" props) :
    validateExecute "incr" props s = (match props.get? "nb" with
      | some (.int _) | none => execIncrDecr 1 props
      | some _ => pure (.error .message) : M (R ExecRes)) s := by
  unfold validateExecute; erw [if_neg (by unfold reqOk at h; simp [h])]; rfl
theorem C11.veq_decr (props : JVal) (s : State) (h : reqOk "decr" props) :
    validateExecute "decr" props s = (match props.get? "nb" with
      | some (.int _) | none => execIncrDecr (-1) props
      | some _ => pure (.error .message) : M (R ExecRes)) s := by
  unfold validateExecute; erw [if_neg (by unfold reqOk at h; simp [h])]; rfl
theorem C11.veq_set (props : JVal) (s : State) (h : reqOk "set" props) :
    validateExecute "set" props s = (match props.get? "options" with
      | some (.obj kvs) =>
        if kvs.all fun kv => validateOption kv.1 kv.2 then execSet props else pure (.error .message)
      | _ => pure (.error .message) : M (R ExecRes)) s := by
  unfold validateExecute; erw [if_neg (by unfold reqOk at h; simp [h])]; rfl
theorem C11.veq_add (props : JVal) (s : State) (h : reqOk "add" props) :
    validateExecute "add" props s = (match props.get? "options" with
      | none => execAdd props
      | some (.obj kvs) =>
        if kvs.all fun kv => validateOption kv.1 kv.2 then execAdd props else pure (.error .message)
      | some _ => pure (.error .message) : M (R ExecRes)) s := by
  unfold validateExecute; erw [if_neg (by unfold reqOk at h; simp [h])]; rfl
theorem C11.veq_kill (props : JVal) (s : State) (h : reqOk "kill" props) :
    validateExecute "kill" props s = (match validateKill props with
      | .error e => pure (.error e)
      | .ok _ => execKill props : M (R ExecRes)) s := by
  unfold validateExecute; erw [if_neg (by unfold reqOk at h; simp [h])]; rfl
theorem C11.veq_signal (props : JVal) (s : State) (h : reqOk "signal" props) :
    validateExecute "signal" props s =
      (if props.has "childpid" && !props.has "pid" then pure (.error (.other "ArgumentError")) else
       match (props.get? "signum").bind toSignumJ with
       | none => pure (.error .message)
       | some _ => execSignal props : M (R ExecRes)) s := by
  unfold validateExecute; erw [if_neg (by unfold reqOk at h; simp [h])]; rfl

/-! ## 2. every option is validated before any of them is applied -/

theorem C11.all_false_of_bad {kvs : List (String × JVal)} (h : ∃ kv ∈ kvs, validateOption kv.1 kv.2 = false) :
    ¬ (kvs.all fun kv => validateOption kv.1 kv.2) = true := by
  obtain ⟨kv, hm, hv⟩ := h
  intro hall
  have := List.all_eq_true.mp hall kv hm
  rw [hv] at this; cases this

/-- **`set` with an invalid option does nothing**: if `options` is missing, is not an object, or any of
    its pairs — wherever it stands — is rejected by `validate_option`, the request is refused with
    MessageError and the state is identical: no option of the request has been applied. -/
theorem C11_set_invalid_option_noop (props : JVal) (s : State)
    (h : ∀ kvs, props.get? "options" = some (.obj kvs) → ∃ kv ∈ kvs, validateOption kv.1 kv.2 = false) :
    validateExecute "set" props s = (.error .message, s) := by
  by_cases hr : reqOk "set" props
  · rw [veq_set props s hr]
    cases ho : props.get? "options" with
    | none => rfl
    | some o =>
      cases o with
      | obj kvs =>
        simp only
        erw [if_neg (all_false_of_bad (h kvs ho))]; rfl
      | _ => rfl
  · exact veq_req_fail _ _ _ hr

/-- the same, spelled out by position: the bad pair may be first, in the middle or last -/
theorem C11_set_invalid_option_anywhere (props : JVal) (s : State) (pre post : List (String × JVal))
    (k : String) (v : JVal) (ho : props.get? "options" = some (.obj (pre ++ (k, v) :: post)))
    (hv : validateOption k v = false) :
    validateExecute "set" props s = (.error .message, s) := by
  apply C11_set_invalid_option_noop
  intro kvs hk
  rw [ho] at hk
  cases hk
  exact ⟨(k, v), by simp, hv⟩

/-- `set` whose `options` is not an object -/
theorem C11_set_options_not_object (props : JVal) (s : State) (o : JVal)
    (ho : props.get? "options" = some o) (hno : o.isObj = false) :
    validateExecute "set" props s = (.error .message, s) := by
  apply C11_set_invalid_option_noop
  intro kvs hk
  rw [ho] at hk
  cases hk
  cases hno

/-- **`add` with an invalid option does nothing**: `options` given but not an object, or any of its
    pairs rejected by `validate_option` ⇒ MessageError, identical state (no watcher created). -/
theorem C11_add_invalid_option_noop (props : JVal) (s : State) (o : JVal)
    (ho : props.get? "options" = some o)
    (h : ∀ kvs, o = .obj kvs → ∃ kv ∈ kvs, validateOption kv.1 kv.2 = false) :
    validateExecute "add" props s = (.error .message, s) := by
  by_cases hr : reqOk "add" props
  · rw [veq_add props s hr, ho]
    cases o with
    | obj kvs =>
      simp only
      erw [if_neg (all_false_of_bad (h kvs rfl))]; rfl
    | _ => rfl
  · exact veq_req_fail _ _ _ hr

/-- the same for `add`, spelled out by position -/
theorem C11_add_invalid_option_anywhere (props : JVal) (s : State) (pre post : List (String × JVal))
    (k : String) (v : JVal) (ho : props.get? "options" = some (.obj (pre ++ (k, v) :: post)))
    (hv : validateOption k v = false) :
    validateExecute "add" props s = (.error .message, s) := by
  apply C11_add_invalid_option_noop props s _ ho
  intro kvs hk
  cases hk
  exact ⟨(k, v), by simp, hv⟩

/-! ## 4. bad signal, bad `nb` -/

/-- **`signal` with a bad signal does nothing**: `signum` missing or not accepted by `to_signum` ⇒
    refused (MessageError, or ArgumentError when `childpid` comes without `pid`), identical state,
    in particular no signal sent. -/
theorem C11_bad_signal_noop (props : JVal) (s : State)
    (h : (props.get? "signum").bind toSignumJ = none) :
    ∃ e, validateExecute "signal" props s = (.error e, s) ∧ e.isRefusal = true := by
  by_cases hr : reqOk "signal" props
  · rw [veq_signal props s hr]
    by_cases hc : (props.has "childpid" && !props.has "pid") = true
    · erw [if_pos hc]; exact ⟨_, rfl, rfl⟩
    · erw [if_neg hc]; rw [h]; exact ⟨_, rfl, rfl⟩
  · exact ⟨_, veq_req_fail _ _ _ hr, rfl⟩

/-- `signal` with `childpid` but no `pid` -/
theorem C11_signal_childpid_without_pid_noop (props : JVal) (s : State)
    (h1 : props.has "childpid" = true) (h2 : props.has "pid" = false) :
    ∃ e, validateExecute "signal" props s = (.error e, s) ∧ e.isRefusal = true := by
  by_cases hr : reqOk "signal" props
  · rw [veq_signal props s hr]
    erw [if_pos (by simp [h1, h2])]; exact ⟨_, rfl, rfl⟩
  · exact ⟨_, veq_req_fail _ _ _ hr, rfl⟩

/-- **`kill` with a signal that `to_signum` rejects does nothing**: an error, identical state
    (MessageError when the `pid` property, if any, is an integer) -/
theorem C11_kill_bad_signal_noop (props : JVal) (s : State) (v : JVal)
    (hs : props.get? "signum" = some v) (hv : toSignumJ v = none) :
    ∃ e, validateExecute "kill" props s = (.error e, s) := by
  by_cases hr : reqOk "kill" props
  · rw [veq_kill props s hr]
    have : ∃ e, validateKill props = .error e := by
      unfold validateKill
      simp only [hs, hv]
      split
      · exact ⟨_, rfl⟩
      · exact ⟨_, rfl⟩
    obtain ⟨e, he⟩ := this
    rw [he]; exact ⟨e, rfl⟩
  · exact ⟨_, veq_req_fail _ _ _ hr⟩

/-- … precisely MessageError when no `pid` is given (otherwise `int(pid)` may fail first) -/
theorem C11_kill_bad_signal_message (props : JVal) (s : State) (v : JVal)
    (hs : props.get? "signum" = some v) (hv : toSignumJ v = none) (hp : props.get? "pid" = none) :
    validateExecute "kill" props s = (.error .message, s) := by
  by_cases hr : reqOk "kill" props
  · rw [veq_kill props s hr]
    have : validateKill props = .error .message := by
      unfold validateKill
      simp only [hs, hv, hp]
    rw [this]; rfl
  · exact veq_req_fail _ _ _ hr

/-- **`incr` / `decr` with an `nb` that is not a JSON integer does nothing** -/
theorem C11_incr_bad_nb_noop (cmd : String) (hc : cmd = "incr" ∨ cmd = "decr") (props : JVal) (s : State)
    (v : JVal) (hn : props.get? "nb" = some v) (hv : ∀ i, v ≠ .int i) :
    validateExecute cmd props s = (.error .message, s) := by
  rcases hc with rfl | rfl
  · by_cases hr : reqOk "incr" props
    · rw [veq_incr props s hr, hn]
      cases v with
      | int i => exact absurd rfl (hv i)
      | _ => rfl
    · exact veq_req_fail _ _ _ hr
  · by_cases hr : reqOk "decr" props
    · rw [veq_decr props s hr, hn]
      cases v with
      | int i => exact absurd rfl (hv i)
      | _ => rfl
    · exact veq_req_fail _ _ _ hr

/-! ## 3. unknown watcher -/

theorem C11.nameErr_isRefusal (name : JVal) : (nameErr name).isRefusal = true := by
  cases name <;> rfl

theorem C11.has_of_get {props : JVal} {k : String} {v : JVal} (h : props.get? k = some v) : props.has k = true := by
  simp [JVal.has, h]

theorem C11.execRm_unknown (props : JVal) (s : State) (h : unknownWatcher ((props.get? "name").getD .null) s) :
    execRm props s = (.error (nameErr ((props.get? "name").getD .null)), s) := by
  unfold execRm
  simp only [bind]
  rw [getWatcherCmd_unknown _ s h]
  rfl

theorem C11.execIncrDecr_unknown (sign : Int) (props : JVal) (s : State)
    (h : unknownWatcher ((props.get? "name").getD .null) s) :
    execIncrDecr sign props s = (.error (nameErr ((props.get? "name").getD .null)), s) := by
  unfold execIncrDecr
  simp only [bind]
  rw [getWatcherCmd_unknown _ s h]
  rfl

theorem C11.execSet_unknown (props : JVal) (s : State) (h : unknownWatcher ((props.get? "name").getD .null) s) :
    execSet props s = (.error (nameErr ((props.get? "name").getD .null)), s) := by
  unfold execSet
  simp only [bind]
  rw [getWatcherCmd_unknown _ s h]
  rfl

theorem C11.execSet_unknown_err (props : JVal) (s : State) (e : Exc)
    (h : getWatcherCmd ((props.get? "name").getD .null) s = (.error e, s)) :
    execSet props s = (.error e, s) := by
  unfold execSet
  simp only [bind]
  rw [h]
  rfl

theorem C11.execSignal_unknown (props : JVal) (s : State) (h : unknownWatcher ((props.get? "name").getD .null) s) :
    execSignal props s = (.error (nameErr ((props.get? "name").getD .null)), s) := by
  unfold execSignal
  simp only [bind]
  rw [getWatcherCmd_unknown _ s h]
  rfl

theorem C11.execReload_unknown (props : JVal) (s : State) (name : JVal) (hn : props.get? "name" = some name)
    (h : unknownWatcher name s) : execReload props s = (.error (nameErr name), s) := by
  unfold execReload
  simp only [bind, hn]
  rw [getWatcherCmd_unknown _ s h]
  rfl

theorem C11.execReadOnly_unknown (c : String) (hc : c = "status" ∨ c = "list" ∨ c = "numprocesses")
    (props : JVal) (s : State) (name : JVal) (hn : props.get? "name" = some name)
    (h : unknownWatcher name s) : execReadOnly c props s = (.error (nameErr name), s) := by
  rcases hc with rfl | rfl | rfl <;>
  · unfold execReadOnly
    simp only [bind, hn]
    rw [getWatcherCmd_unknown _ s h]
    rfl

theorem C11.execKill_unknown (props : JVal) (s : State) (h : unknownWatcher ((props.get? "name").getD .null) s) :
    execKill props s = (.ok (.future 0 "failed:"), s) := by
  unfold execKill
  simp only [bind]
  rw [getWatcherCmd_unknown _ s h]
  rfl

/-- **a command naming an unknown watcher does nothing** — `incr`, `decr`, `rm`, `signal`, `set`
    (the name is a required property; a missing name counts as unknown): whatever else the request
    carries, the answer is a validation-class error and the state is identical. -/
theorem C11_unknown_watcher_noop (cmd : String)
    (hc : cmd = "incr" ∨ cmd = "decr" ∨ cmd = "rm" ∨ cmd = "signal" ∨ cmd = "set")
    (props : JVal) (s : State) (h : unknownWatcher ((props.get? "name").getD .null) s) :
    ∃ e, validateExecute cmd props s = (.error e, s) ∧ e.isRefusal = true := by
  by_cases hr : reqOk cmd props
  swap
  · exact ⟨_, veq_req_fail _ _ _ hr, rfl⟩
  rcases hc with rfl | rfl | rfl | rfl | rfl
  · rw [veq_incr props s hr]
    cases props.get? "nb" with
    | none => exact ⟨_, execIncrDecr_unknown _ props s h, nameErr_isRefusal _⟩
    | some v =>
      cases v with
      | int i => exact ⟨_, execIncrDecr_unknown _ props s h, nameErr_isRefusal _⟩
      | _ => exact ⟨_, rfl, rfl⟩
  · rw [veq_decr props s hr]
    cases props.get? "nb" with
    | none => exact ⟨_, execIncrDecr_unknown _ props s h, nameErr_isRefusal _⟩
    | some v =>
      cases v with
      | int i => exact ⟨_, execIncrDecr_unknown _ props s h, nameErr_isRefusal _⟩
      | _ => exact ⟨_, rfl, rfl⟩
  · rw [veq_rm props s hr]
    exact ⟨_, execRm_unknown props s h, nameErr_isRefusal _⟩
  · rw [veq_signal props s hr]
    by_cases hcp : (props.has "childpid" && !props.has "pid") = true
    · erw [if_pos hcp]; exact ⟨_, rfl, rfl⟩
    · erw [if_neg hcp]
      cases (props.get? "signum").bind toSignumJ with
      | none => exact ⟨_, rfl, rfl⟩
      | some _ => exact ⟨_, execSignal_unknown props s h, nameErr_isRefusal _⟩
  · rw [veq_set props s hr]
    cases props.get? "options" with
    | none => exact ⟨_, rfl, rfl⟩
    | some o =>
      cases o with
      | obj kvs =>
        simp only
        by_cases hall : (kvs.all fun kv => validateOption kv.1 kv.2) = true
        · erw [if_pos hall]; exact ⟨_, execSet_unknown props s h, nameErr_isRefusal _⟩
        · erw [if_neg hall]; exact ⟨_, rfl, rfl⟩
      | _ => exact ⟨_, rfl, rfl⟩

/-- … with the exact error for a request that is otherwise valid: MessageError for a string that is
    not a registered name, AttributeError for a non-string -/
theorem C11_unknown_watcher_rm (props : JVal) (s : State) (name : JVal) (hn : props.get? "name" = some name)
    (h : unknownWatcher name s) : validateExecute "rm" props s = (.error (nameErr name), s) := by
  have hr : reqOk "rm" props := by simp [reqOk, requiredProps, has_of_get hn]
  rw [veq_rm props s hr]
  have := execRm_unknown props s (by rw [hn]; exact h)
  rw [hn] at this; exact this

/-- **`reload`, `status`, `list`, `numprocesses` naming an unknown watcher** (for these the name is
    optional: without a name they address all watchers) -/
theorem C11_unknown_watcher_named_noop (cmd : String)
    (hc : cmd = "reload" ∨ cmd = "status" ∨ cmd = "list" ∨ cmd = "numprocesses")
    (props : JVal) (s : State) (name : JVal) (hn : props.get? "name" = some name)
    (h : unknownWatcher name s) :
    validateExecute cmd props s = (.error (nameErr name), s) := by
  rcases hc with rfl | hc
  · rw [veq_reload]; exact execReload_unknown props s name hn h
  · rw [veq_readonly cmd hc]; exact execReadOnly_unknown cmd hc props s name hn h

/-- **`kill` naming an unknown watcher**: `Kill.execute` is a coroutine, the MessageError ends up in
    its future; in the model the command returns an already-failed future, and — whether `validate`
    refuses or not — the state is identical. -/
theorem C11_unknown_watcher_kill_noop (props : JVal) (s : State)
    (h : unknownWatcher ((props.get? "name").getD .null) s) :
    (∃ e, validateExecute "kill" props s = (.error e, s)) ∨
    validateExecute "kill" props s = (.ok (.future 0 "failed:"), s) := by
  by_cases hr : reqOk "kill" props
  · rw [veq_kill props s hr]
    cases validateKill props with
    | error e => exact .inl ⟨e, rfl⟩
    | ok _ => exact .inr (execKill_unknown props s h)
  · exact .inl ⟨_, veq_req_fail _ _ _ hr⟩

/-! ### start / stop / restart -/

theorem C11.mem_insertBy {le : Watcher → Watcher → Bool} {x y : Watcher} {l : List Watcher}
    (h : y ∈ insertBy le x l) : y = x ∨ y ∈ l := by
  induction l with
  | nil => simp only [insertBy, List.mem_singleton] at h; exact .inl h
  | cons z zs ih =>
    simp only [insertBy] at h
    split at h
    · rcases List.mem_cons.mp h with h | h
      · exact .inl h
      · exact .inr h
    · rcases List.mem_cons.mp h with h | h
      · exact .inr (h ▸ List.mem_cons_self)
      · rcases ih h with h | h
        · exact .inl h
        · exact .inr (List.mem_cons_of_mem _ h)

theorem C11.mem_sortWatchers {ws : List Watcher} {r : Bool} {w : Watcher} (h : w ∈ sortWatchers ws r) : w ∈ ws := by
  unfold sortWatchers at h
  have key : ∀ (le : Watcher → Watcher → Bool) (l : List Watcher), w ∈ l.foldr (insertBy le) [] → w ∈ l := by
    intro le l
    induction l with
    | nil => intro h; cases h
    | cons z zs ih =>
      intro h
      simp only [List.foldr_cons] at h
      rcases mem_insertBy h with h | h
      · exact h ▸ List.mem_cons_self
      · exact List.mem_cons_of_mem _ (ih h)
  split at h
  · exact key _ _ h
  · exact key _ _ h

/-- a program that only reads: proved through the `Pres` closure rules with the invariant "is `s0`" -/
theorem C11.reads_of_pres {α : Type} {m : M α} (h : ∀ s0, Pres (fun s => s = s0) m) (s : State) : (m s).2 = s :=
  h s s rfl

/-- `execute_watcher_start_stop_restart`'s search for the designated watchers only reads -/
theorem C11.matchWatchers_reads (props : JVal) (s : State) : (matchWatchers props s).2 = s := by
  apply reads_of_pres
  intro s0
  unfold matchWatchers getWatcherCmd lookupWatcher registered
  pres

/-- when the search fails, start/stop/restart fail the same way and do nothing -/
theorem C11.execSSR_no_match (kind : String) (props : JVal) (s : State) (hn : props.has "name" = true)
    (e : Exc) (hm : (matchWatchers props s).1 = .error e) :
    execSSR kind props s = (.error e, s) := by
  have hr := matchWatchers_reads props s
  unfold execSSR
  simp only [bind]
  erw [if_pos hn]
  generalize matchWatchers props s = r at hm hr
  obtain ⟨r, s1⟩ := r
  simp only at hm hr
  subst hm; subst hr
  rfl

theorem C11.matchWatchers_simple_unknown (props : JVal) (s : State) (name : JVal)
    (hn : props.get? "name" = some name) (hm : props.get? "match" = some (.str "simple"))
    (h : unknownWatcher name s) : (matchWatchers props s).1 = .error (nameErr name) := by
  unfold matchWatchers
  rw [hn, hm]
  simp only [Option.getD_some, bind]
  rw [getWatcherCmd_unknown _ s h]
  rfl

/-- no registered watcher's name matches the pattern (`fnmatch` on the lower-cased names) -/
def C11.noGlobHit (n : String) (s : State) : Prop :=
  ∀ w ∈ (registered s).1, glob (pyLower n) (pyLower w.name) = false

theorem C11.matchWatchers_glob_nohit (props : JVal) (s : State) (name : JVal)
    (hn : props.get? "name" = some name) (hm : (props.get? "match").getD (.str "glob") = .str "glob")
    (h : ∀ n, name = .str n → noGlobHit n s) : (matchWatchers props s).1 = .error (nameErr name) := by
  unfold matchWatchers
  simp only [hn, hm]
  cases name with
  | str n =>
    simp only [bind, registered, getS, pure]
    have hemp : (List.filter (fun w => glob (pyLower n) (pyLower w.name))
        (sortWatchers (List.filterMap (fun u => List.find? (fun x => decide (x.uid = u)) s.ws) s.a.watchers) true)).isEmpty = true := by
      rw [List.isEmpty_iff, List.filter_eq_nil_iff]
      intro w hw
      have := h n rfl w (mem_sortWatchers hw)
      simp [this]
    erw [if_pos hemp]
    rfl
  | _ => rfl

/-- **start / stop / restart of an unknown watcher do nothing** — `match = simple` with a name that is
    not registered (or not a string): the error of `_get_watcher`, identical state. -/
theorem C11_unknown_watcher_simple_noop (cmd : String) (hc : cmd = "start" ∨ cmd = "stop" ∨ cmd = "restart")
    (props : JVal) (s : State) (name : JVal) (hn : props.get? "name" = some name)
    (hm : props.get? "match" = some (.str "simple")) (h : unknownWatcher name s) :
    validateExecute cmd props s = (.error (nameErr name), s) := by
  have := matchWatchers_simple_unknown props s name hn hm h
  rcases hc with rfl | rfl | rfl
  · rw [veq_start]; exact execSSR_no_match _ props s (has_of_get hn) _ this
  · rw [veq_stop]; exact execSSR_no_match _ props s (has_of_get hn) _ this
  · rw [veq_restart]; exact execSSR_no_match _ props s (has_of_get hn) _ this

/-- … and with a glob pattern (`match` absent or `"glob"`) that no registered watcher matches, or a
    name that is not a string -/
theorem C11_unknown_watcher_glob_noop (cmd : String) (hc : cmd = "start" ∨ cmd = "stop" ∨ cmd = "restart")
    (props : JVal) (s : State) (name : JVal) (hn : props.get? "name" = some name)
    (hm : (props.get? "match").getD (.str "glob") = .str "glob")
    (h : ∀ n, name = .str n → noGlobHit n s) :
    validateExecute cmd props s = (.error (nameErr name), s) := by
  have := matchWatchers_glob_nohit props s name hn hm h
  rcases hc with rfl | rfl | rfl
  · rw [veq_start]; exact execSSR_no_match _ props s (has_of_get hn) _ this
  · rw [veq_stop]; exact execSSR_no_match _ props s (has_of_get hn) _ this
  · rw [veq_restart]; exact execSSR_no_match _ props s (has_of_get hn) _ this

/-! ## 5. conflict: the exclusive slot is taken, or the arbiter restarts -/

theorem C11.bind_run {α β : Type} (m : M α) (f : α → M β) (s : State) : (m >>= f) s = f (m s).1 (m s).2 := rfl

/-- a loop whose body, started in state `s` with an accumulator satisfying `P`, always continues in
    the same state `s` with an accumulator satisfying `P`, ends in state `s` -/
theorem C11.forIn_fixed {γ β : Type} (P : β → Prop) (s : State) (f : γ → β → M (ForInStep β))
    (hf : ∀ a b, P b → ∃ b', f a b s = (ForInStep.yield b', s) ∧ P b') :
    ∀ (l : List γ) (init : β), P init → ∃ b', (forIn l init f : M β) s = (b', s) ∧ P b' := by
  intro l
  induction l with
  | nil => intro init h0; exact ⟨init, rfl, h0⟩
  | cons x xs ih =>
    intro init h0
    obtain ⟨b1, h1, hp1⟩ := hf x init h0
    obtain ⟨b2, h2, hp2⟩ := ih b1 hp1
    refine ⟨b2, ?_, hp2⟩
    simp only [List.forIn_cons]
    rw [bind_run, h1]
    exact h2


/-! ### the option loop of `Set.execute`, with names -/

def C11.optsOf (props : JVal) : List (String × JVal) :=
  match props.get? "options" with | some (.obj kvs) => kvs | _ => []

def C11.keysOf (opts : List (String × JVal)) : List String :=
  opts.foldl (fun acc kv => if acc.contains kv.1 then acc else acc ++ [kv.1]) ([] : List String)

def C11.setHookStep (u : Nat) (h : String × JVal) (err : Option Exc) : M (ForInStep (Option Exc)) :=
  if err.isNone = true then do
    let r ← syncPlain "watcher_set_opt" (setOptBody u ("hooks." ++ h.1) h.2 false)
    match r with
      | .error e => pure (.yield (some e))
      | .ok _ => pure (.yield err)
  else pure (.yield err)

def C11.setKeyStep (u : Nat) (opts : List (String × JVal)) (key : String) (st : Int × Option Exc) :
    M (ForInStep (Int × Option Exc)) :=
  if st.2.isNone = true then
    if key = "hooks" then
      match ((JVal.obj opts).get? key).getD .null with
      | .obj hs => do
        let e ← forIn hs st.2 (setHookStep u)
        if (!hs.isEmpty) = true then pure (.yield (0, e)) else pure (.yield (st.1, e))
      | _ => pure (.yield (st.1, st.2))
    else do
      let r ← syncPlain "watcher_set_opt" (setOptBody u key (((JVal.obj opts).get? key).getD .null) false)
      match r with
      | .error e => pure (.yield (st.1, some e))
      | .ok _ => if setOptAction key = 1 then pure (.yield (1, st.2)) else pure (.yield (st.1, st.2))
  else pure (.yield (st.1, st.2))

def C11.setLoop (u : Nat) (opts : List (String × JVal)) : M (Int × Option Exc) :=
  forIn (keysOf opts) (0, none) (setKeyStep u opts)

def C11.setFinish (u : Nat) (st : Int × Option Exc) : M (R ExecRes) :=
  match st.2 with
  | some e => pure (.error e)
  | none => do
    let t ← syncCoroutine "watcher_do_action" (.doAction u st.1) []
    pure (t.map fun tid => .future tid "")

theorem C11.execSet_run (props : JVal) (s : State) (u : Nat)
    (h : getWatcherCmd ((props.get? "name").getD .null) s = (.ok u, s)) :
    execSet props s = setFinish u (setLoop u (optsOf props) s).1 (setLoop u (optsOf props) s).2 := by
  unfold execSet
  rw [bind_run, h]
  rfl

theorem C11.setHookStep_busy (u : Nat) (s : State) (hb : busy s) (h : String × JVal) (err : Option Exc)
    (hp : err = none ∨ err = some .conflict) :
    ∃ b', setHookStep u h err s = (ForInStep.yield b', s) ∧ (b' = none ∨ b' = some .conflict) := by
  unfold setHookStep
  rcases hp with rfl | rfl
  · erw [if_pos rfl]
    rw [bind_run, syncPlain_busy _ _ s hb]
    exact ⟨_, rfl, .inr rfl⟩
  · erw [if_neg (by simp)]
    exact ⟨_, rfl, .inr rfl⟩

theorem C11.setKeyStep_busy (u : Nat) (opts : List (String × JVal)) (s : State) (hb : busy s) (key : String)
    (st : Int × Option Exc) (hp : st.2 = none ∨ st.2 = some .conflict) :
    ∃ b', setKeyStep u opts key st s = (ForInStep.yield b', s) ∧ (b'.2 = none ∨ b'.2 = some .conflict) := by
  unfold setKeyStep
  by_cases hn : st.2.isNone = true
  · erw [if_pos hn]
    by_cases hk : key = "hooks"
    · erw [if_pos hk]
      cases ((JVal.obj opts).get? key).getD .null with
      | obj hs =>
        simp only
        obtain ⟨e, he, hpe⟩ := forIn_fixed (fun e => e = none ∨ e = some Exc.conflict) s (setHookStep u)
          (fun a b hb' => setHookStep_busy u s hb a b hb') hs st.2 hp
        rw [bind_run, he]
        by_cases hem : (!hs.isEmpty) = true
        · erw [if_pos hem]; exact ⟨_, rfl, hpe⟩
        · erw [if_neg hem]; exact ⟨_, rfl, hpe⟩
      | _ => exact ⟨_, rfl, hp⟩
    · erw [if_neg hk]
      rw [bind_run, syncPlain_busy _ _ s hb]
      exact ⟨_, rfl, .inr rfl⟩
  · erw [if_neg hn]
    exact ⟨_, rfl, hp⟩

theorem C11.setLoop_busy (u : Nat) (opts : List (String × JVal)) (s : State) (hb : busy s) :
    ∃ st, setLoop u opts s = (st, s) ∧ (st.2 = none ∨ st.2 = some .conflict) :=
  forIn_fixed (fun st : Int × Option Exc => st.2 = none ∨ st.2 = some Exc.conflict) s (setKeyStep u opts)
    (fun a b hb' => setKeyStep_busy u opts s hb a b hb') _ _ (.inl rfl)

theorem C11.execSet_busy (props : JVal) (s : State) (u : Nat) (hb : busy s)
    (h : getWatcherCmd ((props.get? "name").getD .null) s = (.ok u, s)) :
    execSet props s = (.error .conflict, s) := by
  rw [execSet_run props s u h]
  obtain ⟨st, hst, hp⟩ := setLoop_busy u (optsOf props) s hb
  rw [hst]
  obtain ⟨a, e⟩ := st
  simp only at hp
  unfold setFinish
  rcases hp with rfl | rfl
  · simp only
    rw [bind_run, syncCoroutine_busy _ _ _ s hb]
    rfl
  · rfl

/-- the request designates a registered watcher by a string name -/
def C11.knownWatcher (props : JVal) (u : Nat) (s : State) : Prop :=
  ∃ n, props.get? "name" = some (.str n) ∧ s.a.names.lookup (pyLower n) = some u

theorem C11.knownWatcher_get (props : JVal) (u : Nat) (s : State) (h : knownWatcher props u s) :
    getWatcherCmd ((props.get? "name").getD .null) s = (.ok u, s) := by
  obtain ⟨n, hn, hl⟩ := h
  rw [hn]; exact getWatcherCmd_known n u s hl

theorem C11.knownWatcher_has (props : JVal) (u : Nat) (s : State) (h : knownWatcher props u s) :
    props.has "name" = true := by
  obtain ⟨n, hn, _⟩ := h; exact has_of_get hn

/-- **`quit` while an exclusive command runs**: ConflictError, nothing changed -/
theorem C11_conflict_quit_noop (props : JVal) (s : State) (hb : busy s) :
    validateExecute "quit" props s = (.error .conflict, s) := by
  rw [veq_quit, syncCoroutine_busy _ _ _ s hb]; rfl

/-- **`rm` of an existing watcher while an exclusive command runs** -/
theorem C11_conflict_rm_noop (props : JVal) (s : State) (u : Nat) (hb : busy s) (hk : knownWatcher props u s) :
    validateExecute "rm" props s = (.error .conflict, s) := by
  have hr : reqOk "rm" props := by simp [reqOk, requiredProps, knownWatcher_has props u s hk]
  rw [veq_rm props s hr]
  unfold execRm
  rw [bind_run, knownWatcher_get props u s hk]
  simp only
  rw [bind_run, syncCoroutine_busy _ _ _ s hb]
  rfl

/-- **`reload`** (of one existing watcher, or of all) **while an exclusive command runs** -/
theorem C11_conflict_reload_noop (props : JVal) (s : State) (hb : busy s)
    (hk : props.get? "name" = none ∨ ∃ u, knownWatcher props u s) :
    validateExecute "reload" props s = (.error .conflict, s) := by
  rw [veq_reload]
  unfold execReload
  rcases hk with hn | ⟨u, n, hn, hl⟩
  · simp only [hn]
    rw [bind_run, syncCoroutine_busy _ _ _ s hb]
    rfl
  · simp only [hn]
    rw [bind_run, getWatcherCmd_known n u s hl]
    simp only
    rw [bind_run, syncCoroutine_busy _ _ _ s hb]
    rfl

theorem C11.execIncrDecr_busy (sign : Int) (props : JVal) (s : State) (u : Nat) (hb : busy s)
    (hk : knownWatcher props u s) (hs : (getW u s).1.singleton = false) :
    execIncrDecr sign props s = (.error .conflict, s) := by
  unfold execIncrDecr
  rw [bind_run, knownWatcher_get props u s hk]
  simp only
  rw [bind_run]
  have : (getW u s).2 = s := rfl
  rw [this]
  erw [if_neg (by simp [hs])]
  rw [bind_run, syncCoroutine_busy _ _ _ s hb]
  rfl

theorem C11.execIncrDecr_singleton (sign : Int) (props : JVal) (s : State) (u : Nat)
    (hk : knownWatcher props u s) (hs : (getW u s).1.singleton = true) :
    execIncrDecr sign props s =
      (.ok (.value ("numprocesses=" ++ toString (getW u s).1.np ++ ",singleton=true")), s) := by
  unfold execIncrDecr
  rw [bind_run, knownWatcher_get props u s hk]
  simp only
  rw [bind_run]
  have : (getW u s).2 = s := rfl
  rw [this]
  erw [if_pos hs]
  rfl

/-- **`incr` / `decr` of an existing, non-singleton watcher while an exclusive command runs** -/
theorem C11_conflict_incr_decr_noop (cmd : String) (hc : cmd = "incr" ∨ cmd = "decr") (props : JVal) (s : State)
    (u : Nat) (hb : busy s) (hk : knownWatcher props u s) (hs : (getW u s).1.singleton = false)
    (hnb : props.get? "nb" = none ∨ ∃ i, props.get? "nb" = some (.int i)) :
    validateExecute cmd props s = (.error .conflict, s) := by
  have hh := knownWatcher_has props u s hk
  rcases hc with rfl | rfl
  · have hr : reqOk "incr" props := by simp [reqOk, requiredProps, hh]
    rw [veq_incr props s hr]
    rcases hnb with h | ⟨i, h⟩ <;> rw [h] <;> exact execIncrDecr_busy _ props s u hb hk hs
  · have hr : reqOk "decr" props := by simp [reqOk, requiredProps, hh]
    rw [veq_decr props s hr]
    rcases hnb with h | ⟨i, h⟩ <;> rw [h] <;> exact execIncrDecr_busy _ props s u hb hk hs

/-- `incr` / `decr` of a **singleton** watcher never need the slot: the command answers `ok` with the
    current numprocesses and `singleton: true`, busy or not, and changes nothing -/
theorem C11_incr_decr_singleton_noop (cmd : String) (hc : cmd = "incr" ∨ cmd = "decr") (props : JVal) (s : State)
    (u : Nat) (hk : knownWatcher props u s) (hs : (getW u s).1.singleton = true)
    (hnb : props.get? "nb" = none ∨ ∃ i, props.get? "nb" = some (.int i)) :
    validateExecute cmd props s =
      (.ok (.value ("numprocesses=" ++ toString (getW u s).1.np ++ ",singleton=true")), s) := by
  have hh := knownWatcher_has props u s hk
  rcases hc with rfl | rfl
  · have hr : reqOk "incr" props := by simp [reqOk, requiredProps, hh]
    rw [veq_incr props s hr]
    rcases hnb with h | ⟨i, h⟩ <;> rw [h] <;> exact execIncrDecr_singleton _ props s u hk hs
  · have hr : reqOk "decr" props := by simp [reqOk, requiredProps, hh]
    rw [veq_decr props s hr]
    rcases hnb with h | ⟨i, h⟩ <;> rw [h] <;> exact execIncrDecr_singleton _ props s u hk hs

/-- `AddWatcher.execute` after its endpoint-owner test -/
def execAddTail (props : JVal) : M (R ExecRes) := do
  let r ← syncPlain "arbiter_add_watcher" (addCore props)
  match r with
  | .error e => pure (.error e)
  | .ok uid =>
    if ((props.get? "start").map truthy).getD false then
      let t ← syncCoroutine "watcher_start" (.pubStart uid) []
      pure (t.map fun tid => .future tid "")
    else pure (.ok (.value "-"))

/-- the endpoint-owner test comes first: either it refuses (MessageError, nothing touched) or `add` goes on as without it -/
theorem C11.execAdd_cases (props : JVal) (s : State) :
    (ownerRefuses s.a.endpointOwner props = true ∧ execAdd props s = (.error .message, s)) ∨
    (ownerRefuses s.a.endpointOwner props = false ∧ execAdd props s = execAddTail props s) := by
  cases h : ownerRefuses s.a.endpointOwner props with
  | true =>
    refine .inl ⟨rfl, ?_⟩
    unfold execAdd
    rw [bind_run]
    show (if ownerRefuses s.a.endpointOwner props = true then (pure (Except.error Exc.message) : M (R ExecRes))
          else _) s = _
    rw [ite_run, if_pos h]; rfl
  | false =>
    refine .inr ⟨rfl, ?_⟩
    unfold execAdd
    rw [bind_run]
    show (if ownerRefuses s.a.endpointOwner props = true then (pure (Except.error Exc.message) : M (R ExecRes))
          else _) s = _
    rw [ite_run, if_neg (by simp [h])]; rfl

/-- **`add` while an exclusive command runs** (required properties present, options valid, and — in endpoint-owner mode — the
    `uid` of the endpoint owner, else the request fails that validation first): ConflictError before the watcher is even
    constructed -/
theorem C11_conflict_add_noop (props : JVal) (s : State) (hb : busy s) (hr : reqOk "add" props)
    (ho : props.get? "options" = none ∨
          ∃ kvs, props.get? "options" = some (.obj kvs) ∧ (kvs.all fun kv => validateOption kv.1 kv.2) = true)
    (hown : ownerRefuses s.a.endpointOwner props = false) :
    validateExecute "add" props s = (.error .conflict, s) := by
  have key : execAdd props s = (.error .conflict, s) := by
    rcases execAdd_cases props s with ⟨h, _⟩ | ⟨_, h⟩
    · rw [hown] at h; cases h
    rw [h]
    unfold execAddTail
    rw [bind_run, syncPlain_busy _ _ s hb]
    rfl
  rw [veq_add props s hr]
  rcases ho with h | ⟨kvs, h, hall⟩
  · rw [h]; exact key
  · rw [h]; simp only; erw [if_pos hall]; exact key

/-- **an `add` whose uid is not the endpoint owner, in endpoint-owner mode**: whatever else the request carries and whatever
    the daemon is doing, the answer is a validation-class error (MessageError, errno 3) and the state is exactly what it
    was — the watcher is not constructed, the slot is not even asked for. -/
theorem C11_add_refused_by_endpoint_owner (props : JVal) (s : State)
    (h : ownerRefuses s.a.endpointOwner props = true) :
    ∃ e, validateExecute "add" props s = (.error e, s) := by
  have key : execAdd props s = (.error .message, s) := by
    rcases execAdd_cases props s with ⟨_, hc⟩ | ⟨h2, _⟩
    · exact hc
    · rw [h] at h2; cases h2
  by_cases hr : reqOk "add" props
  swap
  · exact ⟨_, veq_req_fail _ _ _ hr⟩
  rw [veq_add props s hr]
  cases ho : props.get? "options" with
  | none => exact ⟨_, key⟩
  | some o =>
    cases o with
    | obj kvs =>
      simp only
      by_cases hall : (kvs.all fun kv => validateOption kv.1 kv.2) = true
      · erw [if_pos hall]; exact ⟨_, key⟩
      · erw [if_neg hall]; exact ⟨_, rfl⟩
    | _ => exact ⟨_, rfl⟩

/-- … and with valid properties it is exactly that error -/
theorem C11_add_wrong_uid_is_message_error (props : JVal) (s : State) (hr : reqOk "add" props)
    (kvs : List (String × JVal)) (ho : props.get? "options" = some (.obj kvs))
    (hall : (kvs.all fun kv => validateOption kv.1 kv.2) = true)
    (h : ownerRefuses s.a.endpointOwner props = true) :
    validateExecute "add" props s = (.error .message, s) := by
  have key : execAdd props s = (.error .message, s) := by
    rcases execAdd_cases props s with ⟨_, hc⟩ | ⟨h2, _⟩
    · exact hc
    · rw [h] at h2; cases h2
  rw [veq_add props s hr, ho]
  simp only
  erw [if_pos hall]; exact key

/-- **`set` on an existing watcher while an exclusive command runs** (options valid): the first
    `set_opt` call is already refused, the remaining options are skipped, nothing is applied -/
theorem C11_conflict_set_noop (props : JVal) (s : State) (u : Nat) (hb : busy s) (hk : knownWatcher props u s)
    (kvs : List (String × JVal)) (ho : props.get? "options" = some (.obj kvs))
    (hall : (kvs.all fun kv => validateOption kv.1 kv.2) = true) :
    validateExecute "set" props s = (.error .conflict, s) := by
  have hr : reqOk "set" props := by
    simp [reqOk, requiredProps, knownWatcher_has props u s hk, has_of_get ho]
  rw [veq_set props s hr, ho]
  simp only
  erw [if_pos hall]
  exact execSet_busy props s u hb (knownWatcher_get props u s hk)

/-! ### start / stop / restart -/

theorem C11.ssr_tail_busy (kind : String) (A B C : M (R Nat)) (s : State)
    (hA : A s = (.error .conflict, s)) (hB : B s = (.error .conflict, s)) (hC : C s = (.error .conflict, s))
    (jp : R Nat → M (R ExecRes)) (hjp : jp (.error .conflict) s = (.error .conflict, s)) :
    (if kind = "start" then A >>= jp else if kind = "stop" then B >>= jp else C >>= jp) s
      = (.error .conflict, s) := by
  rw [ite_run, ite_run]
  split
  · rw [bind_run, hA]; exact hjp
  · split
    · rw [bind_run, hB]; exact hjp
    · rw [bind_run, hC]; exact hjp

theorem C11.execSSR_busy_ok (kind : String) (props : JVal) (s : State) (hb : busy s)
    (h : props.has "name" = false ∨ ∃ u us, (matchWatchers props s).1 = .ok (u :: us)) :
    execSSR kind props s = (.error .conflict, s) := by
  have hr := matchWatchers_reads props s
  have noname : (do
        let asc ← iterWatchers false
        let desc ← iterWatchers true
        let t ← if kind = "start" then syncCoroutine "arbiter_start_watchers" (.arbStartWatchers desc) []
                else if kind = "stop" then syncCoroutine "arbiter_stop_watchers" (.arbStopWatchers asc false) []
                else syncCoroutine "arbiter_restart" .arbRestartInside []
        pure (t.map fun tid => ExecRes.future tid "") : M (R ExecRes)) s = (.error .conflict, s) := by
    rw [bind_run, bind_run]
    exact ssr_tail_busy kind _ _ _ s (syncCoroutine_busy _ _ _ s hb) (syncCoroutine_busy _ _ _ s hb)
      (syncCoroutine_busy _ _ _ s hb) _ rfl
  unfold execSSR
  by_cases hn : props.has "name" = true
  swap
  · erw [if_neg hn]
    exact noname
  rcases h with hn' | ⟨u, us, hm⟩
  · rw [hn'] at hn; cases hn
  · erw [if_pos hn]
    rw [bind_run]
    generalize matchWatchers props s = r at hm hr
    obtain ⟨r, s1⟩ := r
    simp only at hm hr
    subst hm; subst hr
    cases us with
    | nil =>
      simp only
      rw [bind_run, syncCoroutine_busy _ _ _ s1 hb]
      rfl
    | cons v vs =>
      simp only
      rw [bind_run, bind_run]
      exact ssr_tail_busy kind _ _ _ s1 (syncCoroutine_busy _ _ _ s1 hb) (syncCoroutine_busy _ _ _ s1 hb)
        (syncCoroutine_busy _ _ _ s1 hb) _ rfl

theorem C11.matchWatchers_simple_known (props : JVal) (s : State) (u : Nat) (hk : knownWatcher props u s)
    (hm : props.get? "match" = some (.str "simple")) : (matchWatchers props s).1 = .ok [u] := by
  obtain ⟨n, hn, hl⟩ := hk
  unfold matchWatchers
  rw [hn, hm]
  simp only [Option.getD_some, bind]
  rw [getWatcherCmd_known n u s hl]
  rfl

/-- **start / stop / restart while an exclusive command runs**: of all watchers (no name), or of the
    watchers a name / pattern designates (at least one) — ConflictError, nothing changed -/
theorem C11_conflict_start_stop_restart_noop (cmd : String) (hc : cmd = "start" ∨ cmd = "stop" ∨ cmd = "restart")
    (props : JVal) (s : State) (hb : busy s)
    (h : props.has "name" = false ∨ ∃ u us, (matchWatchers props s).1 = .ok (u :: us)) :
    validateExecute cmd props s = (.error .conflict, s) := by
  rcases hc with rfl | rfl | rfl
  · rw [veq_start]; exact execSSR_busy_ok _ props s hb h
  · rw [veq_stop]; exact execSSR_busy_ok _ props s hb h
  · rw [veq_restart]; exact execSSR_busy_ok _ props s hb h

/-- … in particular for one existing watcher designated by its name (`match = simple`) -/
theorem C11_conflict_start_stop_restart_simple (cmd : String) (hc : cmd = "start" ∨ cmd = "stop" ∨ cmd = "restart")
    (props : JVal) (s : State) (u : Nat) (hb : busy s) (hk : knownWatcher props u s)
    (hm : props.get? "match" = some (.str "simple")) :
    validateExecute cmd props s = (.error .conflict, s) :=
  C11_conflict_start_stop_restart_noop cmd hc props s hb
    (.inr ⟨u, [], matchWatchers_simple_known props s u hk hm⟩)

/-! ### whatever the request: nothing moves while the slot is taken -/

theorem C11.execRm_busy_any (props : JVal) (s : State) (hb : busy s) : ∃ e, execRm props s = (.error e, s) := by
  unfold execRm
  rw [bind_run]
  rcases getWatcherCmd_cases ((props.get? "name").getD .null) s with ⟨e, h⟩ | ⟨u, h⟩
  · rw [h]; exact ⟨e, rfl⟩
  · rw [h]; simp only
    rw [bind_run, syncCoroutine_busy _ _ _ s hb]
    exact ⟨_, rfl⟩

theorem C11.execReload_busy_any (props : JVal) (s : State) (hb : busy s) : ∃ e, execReload props s = (.error e, s) := by
  unfold execReload
  cases props.get? "name" with
  | none =>
    simp only
    rw [bind_run, syncCoroutine_busy _ _ _ s hb]
    exact ⟨_, rfl⟩
  | some name =>
    simp only
    rw [bind_run]
    rcases getWatcherCmd_cases name s with ⟨e, h⟩ | ⟨u, h⟩
    · rw [h]; exact ⟨e, rfl⟩
    · rw [h]; simp only
      rw [bind_run, syncCoroutine_busy _ _ _ s hb]
      exact ⟨_, rfl⟩

theorem C11.execSet_busy_any (props : JVal) (s : State) (hb : busy s) : ∃ e, execSet props s = (.error e, s) := by
  rcases getWatcherCmd_cases ((props.get? "name").getD .null) s with ⟨e, h⟩ | ⟨u, h⟩
  · unfold execSet
    rw [bind_run, h]; exact ⟨e, rfl⟩
  · exact ⟨_, execSet_busy props s u hb h⟩

theorem C11.execAddTail_busy (props : JVal) (s : State) (hb : busy s) : execAddTail props s = (.error .conflict, s) := by
  unfold execAddTail
  rw [bind_run, syncPlain_busy _ _ s hb]
  rfl

theorem C11.execAdd_busy_any (props : JVal) (s : State) (hb : busy s) : ∃ e, execAdd props s = (.error e, s) := by
  rcases execAdd_cases props s with ⟨_, h⟩ | ⟨_, h⟩
  · exact ⟨_, h⟩
  · exact ⟨_, h.trans (execAddTail_busy props s hb)⟩

theorem C11.execIncrDecr_busy_any (sign : Int) (props : JVal) (s : State) (hb : busy s) :
    (∃ e, execIncrDecr sign props s = (.error e, s)) ∨ (∃ body, execIncrDecr sign props s = (.ok (.value body), s)) := by
  unfold execIncrDecr
  rw [bind_run]
  rcases getWatcherCmd_cases ((props.get? "name").getD .null) s with ⟨e, h⟩ | ⟨u, h⟩
  · rw [h]; exact .inl ⟨e, rfl⟩
  · rw [h]; simp only
    rw [bind_run]
    have : (getW u s).2 = s := rfl
    rw [this]
    by_cases hs : (getW u s).1.singleton = true
    · erw [if_pos hs]; exact .inr ⟨_, rfl⟩
    · erw [if_neg hs]
      rw [bind_run, syncCoroutine_busy _ _ _ s hb]
      exact .inl ⟨_, rfl⟩

theorem C11.execSSR_busy_any (kind : String) (props : JVal) (s : State) (hb : busy s) :
    ∃ e, execSSR kind props s = (.error e, s) := by
  by_cases hn : props.has "name" = true
  swap
  · exact ⟨_, execSSR_busy_ok kind props s hb (.inl (by simpa using hn))⟩
  cases hm : (matchWatchers props s).1 with
  | error e => exact ⟨e, execSSR_no_match kind props s hn e hm⟩
  | ok us =>
    cases us with
    | cons u us => exact ⟨_, execSSR_busy_ok kind props s hb (.inr ⟨u, us, hm⟩)⟩
    | nil =>
      have hr := matchWatchers_reads props s
      unfold execSSR
      erw [if_pos hn]
      rw [bind_run]
      generalize matchWatchers props s = r at hm hr
      obtain ⟨r, s1⟩ := r
      simp only at hm hr
      subst hm; subst hr
      exact ⟨_, rfl⟩

/-- **whatever the request, nothing moves while the slot is taken**: every synchronized command
    — start, stop, restart, reload, rm, quit, add, set, with *any* properties, valid or not — is
    answered with an error (ConflictError, or the validation error that comes first) and leaves the
    state identical. -/
theorem C11_busy_refuses_noop (cmd : String)
    (hc : cmd ∈ ["start", "stop", "restart", "reload", "rm", "quit", "add", "set"])
    (props : JVal) (s : State) (hb : busy s) :
    ∃ e, validateExecute cmd props s = (.error e, s) := by
  by_cases hr : reqOk cmd props
  swap
  · exact ⟨_, veq_req_fail _ _ _ hr⟩
  simp only [List.mem_cons, List.mem_nil_iff, or_false] at hc
  rcases hc with rfl | rfl | rfl | rfl | rfl | rfl | rfl | rfl
  · rw [veq_start]; exact execSSR_busy_any _ props s hb
  · rw [veq_stop]; exact execSSR_busy_any _ props s hb
  · rw [veq_restart]; exact execSSR_busy_any _ props s hb
  · rw [veq_reload]; exact execReload_busy_any props s hb
  · rw [veq_rm props s hr]; exact execRm_busy_any props s hb
  · exact ⟨_, C11_conflict_quit_noop props s hb⟩
  · rw [veq_add props s hr]
    cases props.get? "options" with
    | none => exact execAdd_busy_any props s hb
    | some o =>
      cases o with
      | obj kvs =>
        simp only
        by_cases hall : (kvs.all fun kv => validateOption kv.1 kv.2) = true
        · erw [if_pos hall]; exact execAdd_busy_any props s hb
        · erw [if_neg hall]; exact ⟨_, rfl⟩
      | _ => exact ⟨_, rfl⟩
  · rw [veq_set props s hr]
    cases props.get? "options" with
    | none => exact ⟨_, rfl⟩
    | some o =>
      cases o with
      | obj kvs =>
        simp only
        by_cases hall : (kvs.all fun kv => validateOption kv.1 kv.2) = true
        · erw [if_pos hall]; exact execSet_busy_any props s hb
        · erw [if_neg hall]; exact ⟨_, rfl⟩
      | _ => exact ⟨_, rfl⟩

/-- `incr` / `decr` while the slot is taken, any properties: an error, or (singleton watcher: no slot
    needed) the informational `ok`; the state is identical either way -/
theorem C11_busy_incr_decr_noop (cmd : String) (hc : cmd = "incr" ∨ cmd = "decr") (props : JVal) (s : State)
    (hb : busy s) :
    (∃ e, validateExecute cmd props s = (.error e, s)) ∨
    (∃ body, validateExecute cmd props s = (.ok (.value body), s)) := by
  by_cases hr : reqOk cmd props
  swap
  · exact .inl ⟨_, veq_req_fail _ _ _ hr⟩
  rcases hc with rfl | rfl
  · rw [veq_incr props s hr]
    cases props.get? "nb" with
    | none => exact execIncrDecr_busy_any _ props s hb
    | some v =>
      cases v with
      | int i => exact execIncrDecr_busy_any _ props s hb
      | _ => exact .inl ⟨_, rfl⟩
  · rw [veq_decr props s hr]
    cases props.get? "nb" with
    | none => exact execIncrDecr_busy_any _ props s hb
    | some v =>
      cases v with
      | int i => exact execIncrDecr_busy_any _ props s hb
      | _ => exact .inl ⟨_, rfl⟩

/-! ## 6. `add`: duplicate name, bad name, rejected options -/

theorem C11.applyAddOptions_name : ∀ (opts : List (String × JVal)) (w w' : Watcher),
    applyAddOptions w opts = some w' → w'.name = w.name
  | [], w, w', h => by
    simp only [applyAddOptions, Option.some.injEq] at h
    rw [← h]
  | (k, v) :: rest, w, w', h => by
    unfold applyAddOptions at h
    simp only at h
    split at h
    · rename_i w1 heq
      rw [applyAddOptions_name rest w1 w' h]
      split at heq <;>
        first
        | (simp only [Option.some.injEq] at heq; rw [← heq])
        | (simp only [Option.map_eq_some_iff] at heq; obtain ⟨_, _, rfl⟩ := heq; rfl)
        | (split at heq <;> (simp only [Option.some.injEq] at heq; rw [← heq]))
    · cases h

theorem C11.notify_a (u : Nat) (topic : String) (pid : Option Nat) (x : String) (s : State) :
    (notify u topic pid x s).2.a = s.a := by
  unfold notify
  simp only [bind, getA, getW]
  by_cases hp : s.a.pubClosed = true
  · erw [if_pos hp]; rfl
  · erw [if_neg hp]
    simp only [emitEv, modS]
    split <;> rfl

theorem C11.registerNew_restarting (w : Watcher) (s : State) :
    (registerNew w s).2.a.restarting = s.a.restarting := by
  unfold registerNew registerChecked
  simp only
  split
  · rfl
  · split <;> rfl

/-- the body of `Arbiter.add_watcher`: either it fails and nothing changed, or it registers the
    watcher (and does not touch the `restarting` flag) -/
theorem C11.addCore_cases (props : JVal) (s : State) :
    (∃ e, addCore props s = (.error e, s)) ∨
    (∃ uid s1, addCore props s = (.ok uid, s1) ∧ s1.a.restarting = s.a.restarting) := by
  unfold addCore
  cases props.get? "name" with
  | none => exact .inl ⟨_, rfl⟩
  | some nv =>
    cases nv with
    | str name =>
      simp only
      by_cases hemp : name.isEmpty = true
      · erw [if_pos hemp]; exact .inl ⟨_, rfl⟩
      · erw [if_neg hemp]
        cases applyAddOptions { name := name, graceful := 30000 }
            (match props.get? "options" with | some (JVal.obj kvs) => kvs | _ => []) with
        | none => exact .inl ⟨_, rfl⟩
        | some w =>
          simp only
          rw [bind_run]
          have hno := C15_add_refused_noop w s
          have hrs := registerNew_restarting w s
          generalize registerNew w s = r at hno hrs
          obtain ⟨r, s1⟩ := r
          cases r with
          | none =>
            have hs1 : s1 = s := hno rfl
            subst hs1
            exact .inl ⟨_, rfl⟩
          | some uid =>
            simp only at hrs ⊢
            right
            refine ⟨uid, (notify uid "add" none "-" s1).2, rfl, ?_⟩
            rw [notify_a]; exact hrs
    | _ => exact .inl ⟨_, rfl⟩

theorem C11.syncPlain_free {α : Type} (name : String) (body : M (R α)) (s : State) (hb : ¬ busy s) :
    syncPlain name body s =
      ((body (setSlot (some name) s).2).1, (setSlot none (body (setSlot (some name) s).2).2).2) := by
  obtain ⟨h1, h2⟩ := (not_busy_iff s).mp hb
  unfold syncPlain
  simp only [bind, getA]
  erw [if_neg (by simp [h1]), if_neg (by simp [h2])]
  rfl

theorem C11.execAdd_error_noop (props : JVal) (s : State) (e : Exc) (h : (execAdd props s).1 = .error e) :
    (execAdd props s).2 = s := by
  rcases execAdd_cases props s with ⟨_, hc⟩ | ⟨_, hc⟩
  · rw [hc]
  rw [hc] at h ⊢
  by_cases hb : busy s
  · rw [execAddTail_busy props s hb]
  · obtain ⟨h1, h2⟩ := (not_busy_iff s).mp hb
    unfold execAddTail at h ⊢
    rw [bind_run] at h ⊢
    rw [syncPlain_free _ _ s hb] at h ⊢
    rcases addCore_cases props (setSlot (some "arbiter_add_watcher") s).2 with ⟨e1, hc⟩ | ⟨uid, s1, hc, hrs⟩
    · rw [hc]
      simp only [setSlot, modA, modS]
      exact state_slot_eta s h2
    · rw [hc] at h ⊢
      simp only at h ⊢
      by_cases hst : (Option.map truthy (props.get? "start")).getD false = true
      · erw [if_pos hst] at h
        rw [bind_run] at h
        have hfree : ¬ busy (setSlot none s1).2 := by
          rw [not_busy_iff]
          refine ⟨?_, rfl⟩
          show s1.a.restarting = false
          rw [hrs]; exact h1
        obtain ⟨tid, ht⟩ := syncCoroutine_free "watcher_start" (.pubStart uid) [] _ hfree
        rw [ht] at h
        cases h
      · erw [if_neg hst] at h
        cases h

/-- **an `add` answered with an error has changed nothing** — whatever the error (missing property,
    invalid option, conflict, name already registered ignoring case, empty or non-string name,
    option value the constructor rejects) and whatever the state: no watcher object, no directory
    entry, no event, the slot as before. -/
theorem C11_add_error_noop (props : JVal) (s : State) (e : Exc)
    (h : (validateExecute "add" props s).1 = .error e) : (validateExecute "add" props s).2 = s := by
  by_cases hr : reqOk "add" props
  swap
  · rw [veq_req_fail _ _ _ hr]
  rw [veq_add props s hr] at h ⊢
  cases ho : props.get? "options" with
  | none => rw [ho] at h; exact execAdd_error_noop props s e h
  | some o =>
    rw [ho] at h
    cases o with
    | obj kvs =>
      simp only at h ⊢
      by_cases hall : (kvs.all fun kv => validateOption kv.1 kv.2) = true
      · erw [if_pos hall] at h ⊢; exact execAdd_error_noop props s e h
      · erw [if_neg hall]; rfl
    | _ => rfl

/-- when the body of `add_watcher` fails (in the state with the slot taken), the command fails and
    the state is the initial one — busy or not -/
theorem C11.execAdd_refused (props : JVal) (s : State)
    (h : ∃ e, (addCore props (setSlot (some "arbiter_add_watcher") s).2).1 = .error e) :
    ∃ e, execAdd props s = (.error e, s) := by
  rcases execAdd_cases props s with ⟨_, hcs⟩ | ⟨_, hcs⟩
  · exact ⟨_, hcs⟩
  rw [hcs]
  by_cases hb : busy s
  · exact ⟨_, execAddTail_busy props s hb⟩
  · obtain ⟨e, he⟩ := h
    have hc : addCore props (setSlot (some "arbiter_add_watcher") s).2 =
        (.error e, (setSlot (some "arbiter_add_watcher") s).2) := by
      rcases addCore_cases props (setSlot (some "arbiter_add_watcher") s).2 with ⟨e1, hc⟩ | ⟨uid, s1, hc, _⟩
      · rw [hc] at he ⊢; simp only at he; rw [he]
      · rw [hc] at he; cases he
    refine ⟨e, ?_⟩
    unfold execAddTail
    rw [bind_run, syncPlain_body_noop _ _ s hb _ hc]
    rfl

theorem C11.veq_add_refused (props : JVal) (s : State)
    (h : ∃ e, (addCore props (setSlot (some "arbiter_add_watcher") s).2).1 = .error e) :
    ∃ e, validateExecute "add" props s = (.error e, s) := by
  by_cases hr : reqOk "add" props
  swap
  · exact ⟨_, veq_req_fail _ _ _ hr⟩
  rw [veq_add props s hr]
  cases props.get? "options" with
  | none => exact execAdd_refused props s h
  | some o =>
    cases o with
    | obj kvs =>
      simp only
      by_cases hall : (kvs.all fun kv => validateOption kv.1 kv.2) = true
      · erw [if_pos hall]; exact execAdd_refused props s h
      · erw [if_neg hall]; exact ⟨_, rfl⟩
    | _ => exact ⟨_, rfl⟩

theorem C11.addCore_duplicate (props : JVal) (s : State) (n : String) (hn : props.get? "name" = some (.str n))
    (hd : (s.a.names.lookup (pyLower n)).isSome = true) : ∃ e, (addCore props s).1 = .error e := by
  unfold addCore
  rw [hn]
  simp only
  by_cases hemp : n.isEmpty = true
  · erw [if_pos hemp]; exact ⟨_, rfl⟩
  · erw [if_neg hemp]
    cases happ : applyAddOptions { name := n, graceful := 30000 }
        (match props.get? "options" with | some (JVal.obj kvs) => kvs | _ => []) with
    | none => exact ⟨_, rfl⟩
    | some w =>
      simp only
      rw [bind_run]
      have hname : w.name = n := applyAddOptions_name _ _ _ happ
      have : registerNew w s = (none, s) := by
        unfold registerNew registerChecked
        have : (clampNp w).name = n := hname
        simp only [this, hd, if_true]
      rw [this]
      exact ⟨_, rfl⟩

/-- **`add` of a name that is already registered, ignoring letter case, does nothing**: whatever the
    rest of the request and whatever the state (slot free or taken), the answer is an error and the
    state is identical (the slot is taken and released inside `synchronized`). -/
theorem C11_add_duplicate_noop (props : JVal) (s : State) (n : String)
    (hn : props.get? "name" = some (.str n)) (hd : (s.a.names.lookup (pyLower n)).isSome = true) :
    ∃ e, validateExecute "add" props s = (.error e, s) :=
  veq_add_refused props s (addCore_duplicate props _ n hn hd)

theorem C11.addCore_bad_name (props : JVal) (s : State)
    (hn : ∀ n, props.get? "name" = some (.str n) → n.isEmpty = true) : ∃ e, (addCore props s).1 = .error e := by
  unfold addCore
  cases hg : props.get? "name" with
  | none => exact ⟨_, rfl⟩
  | some nv =>
    cases nv with
    | str name =>
      simp only
      erw [if_pos (hn name hg)]; exact ⟨_, rfl⟩
    | _ => exact ⟨_, rfl⟩

/-- **`add` with an empty or non-string name does nothing** -/
theorem C11_add_bad_name_noop (props : JVal) (s : State)
    (hn : ∀ n, props.get? "name" = some (.str n) → n.isEmpty = true) :
    ∃ e, validateExecute "add" props s = (.error e, s) :=
  veq_add_refused props s (addCore_bad_name props _ hn)

theorem C11.addCore_rejected (props : JVal) (s : State) (n : String)
    (hn : props.get? "name" = some (.str n))
    (hrej : applyAddOptions { name := n, graceful := 30000 } (optsOf props) = none) :
    ∃ e, (addCore props s).1 = .error e := by
  unfold addCore
  rw [hn]
  simp only
  by_cases hemp : n.isEmpty = true
  · erw [if_pos hemp]; exact ⟨_, rfl⟩
  · erw [if_neg hemp]
    cases happ : applyAddOptions { name := n, graceful := 30000 }
        (match props.get? "options" with | some (JVal.obj kvs) => kvs | _ => []) with
    | none => exact ⟨_, rfl⟩
    | some w =>
      have hc : some w = none := happ.symm.trans hrej
      cases hc

/-- **`add` whose option values the watcher constructor rejects** (they pass `validate_option` but
    e.g. `warmup_delay` is not a number the model can convert) **does nothing** -/
theorem C11_add_rejected_options_noop (props : JVal) (s : State) (n : String)
    (hn : props.get? "name" = some (.str n))
    (hrej : applyAddOptions { name := n, graceful := 30000 } (optsOf props) = none) :
    ∃ e, validateExecute "add" props s = (.error e, s) :=
  veq_add_refused props s (addCore_rejected props _ n hn hrej)

/-! ## 7. message level: a refused request only writes its reply -/

/-- a signal delivered through `os.kill` -/
def Obs.isSig : Obs → Bool
  | .sig .. => true
  | _ => false

/-- **the daemon is exactly as it was**: same kernel (process table, clock, kernel-call counter: no
    system call was made), same arbiter (watcher list, name dict, slot, flags), same watcher and
    process objects (options, statuses, worker pids), same suspended coroutines, timers, futures,
    ready queue, identity counter; the only differences allowed are that at most one *reply* was
    appended to the ghost log and that the request-local table `doneVals` was reset. -/
def C11.sameDaemon (s s' : State) : Prop :=
  s'.k = s.k ∧ s'.a = s.a ∧ s'.ws = s.ws ∧ s'.objs = s.objs ∧ s'.frames = s.frames ∧
  s'.sleepers = s.sleepers ∧ s'.tops = s.tops ∧ s'.ready = s.ready ∧ s'.nextId = s.nextId ∧
  s'.blocked = s.blocked ∧ (s'.doneVals = s.doneVals ∨ s'.doneVals = []) ∧
  ∃ l, s'.log = s.log ++ l ∧ l.length ≤ 1 ∧ ∀ o ∈ l, o.isRep = true

theorem C11.sameDaemon_refl (s : State) : sameDaemon s s :=
  ⟨rfl, rfl, rfl, rfl, rfl, rfl, rfl, rfl, rfl, rfl, .inl rfl, [], by simp, by simp, by simp⟩

/-- **no signal sent**: nothing but replies was appended to the log -/
theorem C11_sameDaemon_no_signal {s s' : State} (h : sameDaemon s s') :
    ∀ o ∈ s'.log.drop s.log.length, o.isSig = false ∧ o.isEv = false ∧ o.isRep = true := by
  obtain ⟨_, _, _, _, _, _, _, _, _, _, _, l, hl, _, hrep⟩ := h
  intro o ho
  rw [hl, List.drop_left] at ho
  have := hrep o ho
  cases o <;> simp_all [Obs.isSig, Obs.isEv, Obs.isRep]

/-- … and what the property text lists is the same: watchers, options, statuses, worker pids -/
theorem C11_sameDaemon_views {s s' : State} (h : sameDaemon s s') :
    s'.a.watchers = s.a.watchers ∧ s'.a.names = s.a.names ∧ s'.ws = s.ws ∧
    (∀ u, (getW u s').1 = (getW u s).1) ∧ s'.k.procs = s.k.procs := by
  obtain ⟨hk, ha, hws, _⟩ := h
  refine ⟨by rw [ha], by rw [ha], hws, ?_, by rw [hk]⟩
  intro u; simp only [getW, hws]

theorem C11.sendReply_cases (cid : Option String) (id : JVal) (cast : Bool) (st errno body : String) (s : State) :
    (sendReply cid id cast st errno body s).2 = s ∨
    ∃ c, (sendReply cid id cast st errno body s).2 = { s with log := s.log ++ [Obs.rep c id st errno body] } := by
  unfold sendReply
  simp only [bind, getA]
  cases cid with
  | none => exact .inl rfl
  | some c =>
    simp only
    by_cases h : (cast || s.a.ctlClosed) = true
    · erw [if_pos h]; exact .inl rfl
    · erw [if_neg h]
      simp only [emitRep, modS]
      split
      · exact .inl rfl
      · exact .inr ⟨c, rfl⟩

theorem C11.sameDaemon_sendReply (s0 s1 : State) (h : s1 = s0 ∨ s1 = (clearDone s0).2)
    (cid : Option String) (id : JVal) (cast : Bool) (st errno body : String) :
    sameDaemon s0 (sendReply cid id cast st errno body s1).2 := by
  have hd : sameDaemon s0 s1 := by
    rcases h with rfl | rfl
    · exact sameDaemon_refl _
    · exact ⟨rfl, rfl, rfl, rfl, rfl, rfl, rfl, rfl, rfl, rfl, .inr rfl, [], by simp [clearDone, modS], by simp, by simp⟩
  rcases sendReply_cases cid id cast st errno body s1 with h1 | ⟨c, h1⟩
  · rw [h1]; exact hd
  · rw [h1]
    have hlog : s1.log = s0.log := by rcases h with rfl | rfl <;> rfl
    obtain ⟨a1, a2, a3, a4, a5, a6, a7, a8, a9, a10, a11, _⟩ := hd
    exact ⟨a1, a2, a3, a4, a5, a6, a7, a8, a9, a10, a11, [Obs.rep c id st errno body],
      by simp [hlog], by simp, by simp [Obs.isRep]⟩

/-- the `properties` of a request (default `{}`) -/
def C11.propsOf (j : JVal) : JVal := (j.get? "properties").getD (.obj [])

/-- results after which `dispatch` only answers: an error, a plain value, or `Kill.execute`'s
    already-failed future — anything but a future that is still to be waited for -/
def C11.ExecRes.quiet : R ExecRes → Prop
  | .error _ => True
  | .ok (.future _ xform) => xform.startsWith "failed:" = true
  | .ok _ => True

/-- **master statement**: if, for the command and properties the frame carries (when it carries a
    known command and an object as properties), `validate`+`execute` leave the state alone and do
    not return a pending future, then handling the frame leaves the daemon exactly as it was, up to
    the reply.  Frames that are not JSON, not an object, without a known command, or with
    properties that are not an object never reach `validate` and satisfy the hypothesis vacuously. -/
theorem C11.handleMessage_quiet (cid : Option String) (msg : Option JVal) (s : State)
    (h : ∀ j name, msg = some j → j.get? "command" = some (.str name) →
          commandNames.contains (pyLower name) = true → (propsOf j).isObj = true →
          ∃ r, validateExecute (pyLower name) (propsOf j) (clearDone s).2 = (r, (clearDone s).2) ∧
            ExecRes.quiet r) :
    sameDaemon s (handleMessage cid msg s).2 := by
  unfold handleMessage
  cases msg with
  | none => exact sameDaemon_sendReply s s (.inl rfl) _ _ _ _ _ _
  | some j =>
    simp only
    by_cases hobj : (!j.isObj) = true
    · erw [if_pos hobj]; exact sameDaemon_sendReply s s (.inl rfl) _ _ _ _ _ _
    · erw [if_neg hobj]
      cases hcmd : j.get? "command" with
      | none => exact sameDaemon_sendReply s s (.inl rfl) _ _ _ _ _ _
      | some v =>
        cases v with
        | str name =>
          simp only
          by_cases hkn : (!commandNames.contains (pyLower name)) = true
          · erw [if_pos hkn]; exact sameDaemon_sendReply s s (.inl rfl) _ _ _ _ _ _
          · erw [if_neg hkn]
            by_cases hpo : (!((j.get? "properties").getD (JVal.obj [])).isObj) = true
            · erw [if_pos hpo]; exact sameDaemon_sendReply s s (.inl rfl) _ _ _ _ _ _
            · erw [if_neg hpo]
              obtain ⟨r, he, hq⟩ := h j name rfl hcmd (by simpa using hkn) (by simpa [propsOf] using hpo)
              simp only [bind]
              unfold propsOf at he
              rw [he]
              cases r with
              | error e => exact sameDaemon_sendReply s _ (.inr rfl) _ _ _ _ _ _
              | ok res =>
                cases res with
                | value body => exact sameDaemon_sendReply s _ (.inr rfl) _ _ _ _ _ _
                | statusPayload st => exact sameDaemon_sendReply s _ (.inr rfl) _ _ _ _ _ _
                | unmodelled => exact sameDaemon_sendReply s _ (.inr rfl) _ _ _ _ _ _
                | future tid xform =>
                  simp only
                  have hq' : xform.startsWith "failed:" = true := hq
                  erw [if_pos hq']
                  split <;> exact sameDaemon_sendReply s _ (.inr rfl) _ _ _ _ _ _
        | _ => exact sameDaemon_sendReply s s (.inl rfl) _ _ _ _ _ _

theorem C11.handleMessage_refused (cid : Option String) (msg : Option JVal) (s : State)
    (h : ∀ j name, msg = some j → j.get? "command" = some (.str name) →
          commandNames.contains (pyLower name) = true → (propsOf j).isObj = true →
          ∃ e, validateExecute (pyLower name) (propsOf j) (clearDone s).2 = (.error e, (clearDone s).2)) :
    sameDaemon s (handleMessage cid msg s).2 := by
  apply handleMessage_quiet
  intro j name h1 h2 h3 h4
  obtain ⟨e, he⟩ := h j name h1 h2 h3 h4
  exact ⟨_, he, trivial⟩

/-- **invalid JSON / empty frame**: only the error reply is written -/
theorem C11_invalid_json_only_replies (cid : Option String) (s : State) :
    sameDaemon s (handleMessage cid none s).2 :=
  handleMessage_refused cid none s (fun _ _ h => by cases h)

/-- **a JSON value that is not an object** -/
theorem C11_not_an_object_only_replies (cid : Option String) (j : JVal) (s : State) (hj : j.isObj = false) :
    sameDaemon s (handleMessage cid (some j) s).2 := by
  apply handleMessage_refused
  intro j' name hj' hc
  cases hj'
  cases j with
  | obj kvs => cases hj
  | _ => cases hc

/-- **unknown command** (or no command, or a command that is not a string) -/
theorem C11_unknown_command_only_replies (cid : Option String) (j : JVal) (s : State)
    (h : ∀ name, j.get? "command" = some (.str name) → commandNames.contains (pyLower name) = false) :
    sameDaemon s (handleMessage cid (some j) s).2 := by
  apply handleMessage_refused
  intro j' name hj' hc hk
  cases hj'
  rw [h name hc] at hk; cases hk

/-- **`properties` is not an object** -/
theorem C11_bad_properties_only_replies (cid : Option String) (j : JVal) (s : State)
    (h : (propsOf j).isObj = false) :
    sameDaemon s (handleMessage cid (some j) s).2 := by
  apply handleMessage_refused
  intro j' name hj' _ _ hp
  cases hj'
  rw [h] at hp; cases hp

/-- **a request refused by `validate` / `_get_watcher` / `synchronized`**: whenever `validate`+`execute`
    of the request's command on its properties answer with an error in the unchanged state, the
    only trace of the request is its reply: `sameDaemon`, in particular no signal sent. -/
theorem C11_refused_only_replies (cid : Option String) (j : JVal) (s : State) (name : String)
    (hc : j.get? "command" = some (.str name)) (e : Exc)
    (h : validateExecute (pyLower name) (propsOf j) (clearDone s).2 = (.error e, (clearDone s).2)) :
    sameDaemon s (handleMessage cid (some j) s).2 := by
  apply handleMessage_refused
  intro j' name' hj' hc' _ _
  cases hj'
  rw [hc] at hc'
  cases hc'
  exact ⟨e, h⟩

/-- … **and no signal is sent** while such a request is handled: every observation appended to the
    log is a reply (neither a `kill()` call nor a published event) -/
theorem C11_refused_no_signal (cid : Option String) (j : JVal) (s : State) (name : String)
    (hc : j.get? "command" = some (.str name)) (e : Exc)
    (h : validateExecute (pyLower name) (propsOf j) (clearDone s).2 = (.error e, (clearDone s).2)) :
    ∀ o ∈ (handleMessage cid (some j) s).2.log.drop s.log.length,
      o.isSig = false ∧ o.isEv = false ∧ o.isRep = true :=
  C11_sameDaemon_no_signal (C11_refused_only_replies cid j s name hc e h)

/-- a request whose `validate`+`execute` leave the state alone and return no pending future -/
theorem C11_quiet_only_replies (cid : Option String) (j : JVal) (s : State) (name : String)
    (hc : j.get? "command" = some (.str name)) (r : R ExecRes)
    (h : validateExecute (pyLower name) (propsOf j) (clearDone s).2 = (r, (clearDone s).2))
    (hq : ExecRes.quiet r) :
    sameDaemon s (handleMessage cid (some j) s).2 := by
  apply handleMessage_quiet
  intro j' name' hj' hc' _ _
  cases hj'
  rw [hc] at hc'
  cases hc'
  exact ⟨r, h, hq⟩

/-! ### end to end: the classes of refused requests, as frames -/

/-- a frame whose command lacks a required property -/
theorem C11_message_missing_required_only_replies (cid : Option String) (j : JVal) (s : State) (name p : String)
    (hc : j.get? "command" = some (.str name)) (hp : p ∈ requiredProps (pyLower name))
    (hm : (propsOf j).has p = false) :
    sameDaemon s (handleMessage cid (some j) s).2 :=
  C11_refused_only_replies cid j s name hc _ (C11_missing_required _ _ _ p hp hm)

/-- a `set` / `add` frame with an invalid option anywhere in its `options` -/
theorem C11_message_invalid_option_only_replies (cid : Option String) (j : JVal) (s : State) (name : String)
    (hc : j.get? "command" = some (.str name)) (hcmd : pyLower name = "set" ∨ pyLower name = "add")
    (pre post : List (String × JVal)) (k : String) (v : JVal)
    (ho : (propsOf j).get? "options" = some (.obj (pre ++ (k, v) :: post))) (hv : validateOption k v = false) :
    sameDaemon s (handleMessage cid (some j) s).2 := by
  rcases hcmd with h | h
  · exact C11_refused_only_replies cid j s name hc _
      (h ▸ C11_set_invalid_option_anywhere (propsOf j) _ pre post k v ho hv)
  · exact C11_refused_only_replies cid j s name hc _
      (h ▸ C11_add_invalid_option_anywhere (propsOf j) _ pre post k v ho hv)

/-- an `incr` / `decr` / `rm` / `signal` / `set` frame naming an unknown watcher -/
theorem C11_message_unknown_watcher_only_replies (cid : Option String) (j : JVal) (s : State) (name : String)
    (hc : j.get? "command" = some (.str name))
    (hcmd : pyLower name = "incr" ∨ pyLower name = "decr" ∨ pyLower name = "rm" ∨ pyLower name = "signal" ∨
            pyLower name = "set")
    (h : unknownWatcher (((propsOf j).get? "name").getD .null) s) :
    sameDaemon s (handleMessage cid (some j) s).2 := by
  obtain ⟨e, he, _⟩ := C11_unknown_watcher_noop (pyLower name) hcmd (propsOf j) (clearDone s).2 h
  exact C11_refused_only_replies cid j s name hc e he

/-- a `reload` / `status` / `list` / `numprocesses` frame naming an unknown watcher -/
theorem C11_message_unknown_watcher_named_only_replies (cid : Option String) (j : JVal) (s : State) (name : String)
    (hc : j.get? "command" = some (.str name))
    (hcmd : pyLower name = "reload" ∨ pyLower name = "status" ∨ pyLower name = "list" ∨
            pyLower name = "numprocesses")
    (wname : JVal) (hn : (propsOf j).get? "name" = some wname) (h : unknownWatcher wname s) :
    sameDaemon s (handleMessage cid (some j) s).2 :=
  C11_refused_only_replies cid j s name hc _
    (C11_unknown_watcher_named_noop (pyLower name) hcmd (propsOf j) (clearDone s).2 wname hn h)

/-- a `start` / `stop` / `restart` frame designating no watcher (simple match on an unknown name) -/
theorem C11_message_unknown_watcher_simple_only_replies (cid : Option String) (j : JVal) (s : State) (name : String)
    (hc : j.get? "command" = some (.str name))
    (hcmd : pyLower name = "start" ∨ pyLower name = "stop" ∨ pyLower name = "restart")
    (wname : JVal) (hn : (propsOf j).get? "name" = some wname)
    (hm : (propsOf j).get? "match" = some (.str "simple")) (h : unknownWatcher wname s) :
    sameDaemon s (handleMessage cid (some j) s).2 :=
  C11_refused_only_replies cid j s name hc _
    (C11_unknown_watcher_simple_noop (pyLower name) hcmd (propsOf j) (clearDone s).2 wname hn hm h)

/-- … or a glob pattern without a hit -/
theorem C11_message_unknown_watcher_glob_only_replies (cid : Option String) (j : JVal) (s : State) (name : String)
    (hc : j.get? "command" = some (.str name))
    (hcmd : pyLower name = "start" ∨ pyLower name = "stop" ∨ pyLower name = "restart")
    (wname : JVal) (hn : (propsOf j).get? "name" = some wname)
    (hm : ((propsOf j).get? "match").getD (.str "glob") = .str "glob")
    (h : ∀ n, wname = .str n → noGlobHit n s) :
    sameDaemon s (handleMessage cid (some j) s).2 :=
  C11_refused_only_replies cid j s name hc _
    (C11_unknown_watcher_glob_noop (pyLower name) hcmd (propsOf j) (clearDone s).2 wname hn hm h)

/-- a `kill` frame naming an unknown watcher: `ok` (or, for a waiting client, the error of the failed
    future) is answered and nothing else happens -/
theorem C11_message_kill_unknown_only_replies (cid : Option String) (j : JVal) (s : State) (name : String)
    (hc : j.get? "command" = some (.str name)) (hcmd : pyLower name = "kill")
    (h : unknownWatcher (((propsOf j).get? "name").getD .null) s) :
    sameDaemon s (handleMessage cid (some j) s).2 := by
  rcases C11_unknown_watcher_kill_noop (propsOf j) (clearDone s).2 h with ⟨e, he⟩ | hk
  · exact C11_refused_only_replies cid j s name hc e (hcmd ▸ he)
  · exact C11_quiet_only_replies cid j s name hc (.ok (.future 0 "failed:")) (hcmd ▸ hk) (show ("failed:" : String).startsWith "failed:" = true by decide +kernel)

/-- a `signal` frame whose `signum` is missing or not a signal -/
theorem C11_message_bad_signal_only_replies (cid : Option String) (j : JVal) (s : State) (name : String)
    (hc : j.get? "command" = some (.str name)) (hcmd : pyLower name = "signal")
    (h : ((propsOf j).get? "signum").bind toSignumJ = none) :
    sameDaemon s (handleMessage cid (some j) s).2 := by
  obtain ⟨e, he, _⟩ := C11_bad_signal_noop (propsOf j) (clearDone s).2 h
  exact C11_refused_only_replies cid j s name hc e (hcmd ▸ he)

/-- a `kill` frame whose `signum` is not a signal -/
theorem C11_message_kill_bad_signal_only_replies (cid : Option String) (j : JVal) (s : State) (name : String)
    (hc : j.get? "command" = some (.str name)) (hcmd : pyLower name = "kill")
    (v : JVal) (hs : (propsOf j).get? "signum" = some v) (hv : toSignumJ v = none) :
    sameDaemon s (handleMessage cid (some j) s).2 := by
  obtain ⟨e, he⟩ := C11_kill_bad_signal_noop (propsOf j) (clearDone s).2 v hs hv
  exact C11_refused_only_replies cid j s name hc e (hcmd ▸ he)

/-- an `incr` / `decr` frame whose `nb` is not an integer -/
theorem C11_message_bad_nb_only_replies (cid : Option String) (j : JVal) (s : State) (name : String)
    (hc : j.get? "command" = some (.str name)) (hcmd : pyLower name = "incr" ∨ pyLower name = "decr")
    (v : JVal) (hn : (propsOf j).get? "nb" = some v) (hv : ∀ i, v ≠ .int i) :
    sameDaemon s (handleMessage cid (some j) s).2 :=
  C11_refused_only_replies cid j s name hc _
    (C11_incr_bad_nb_noop (pyLower name) hcmd (propsOf j) (clearDone s).2 v hn hv)

/-- **any frame carrying a synchronized command while the exclusive slot is taken** (or the arbiter
    restarts): start, stop, restart, reload, rm, quit, add, set, incr, decr — valid or not — only
    its reply is written -/
theorem C11_message_conflict_only_replies (cid : Option String) (j : JVal) (s : State) (name : String)
    (hc : j.get? "command" = some (.str name))
    (hcmd : pyLower name ∈ ["start", "stop", "restart", "reload", "rm", "quit", "add", "set", "incr", "decr"])
    (hb : busy s) :
    sameDaemon s (handleMessage cid (some j) s).2 := by
  have hb' : busy (clearDone s).2 := hb
  by_cases hid : pyLower name = "incr" ∨ pyLower name = "decr"
  · rcases C11_busy_incr_decr_noop (pyLower name) hid (propsOf j) (clearDone s).2 hb' with ⟨e, he⟩ | ⟨b, hv⟩
    · exact C11_refused_only_replies cid j s name hc e he
    · exact C11_quiet_only_replies cid j s name hc _ hv trivial
  · have hcmd' : pyLower name ∈ ["start", "stop", "restart", "reload", "rm", "quit", "add", "set"] := by
      simp only [List.mem_cons, List.mem_nil_iff, or_false] at hcmd ⊢
      simp only [not_or] at hid
      rcases hcmd with h | h | h | h | h | h | h | h | h | h <;> simp_all
    obtain ⟨e, he⟩ := C11_busy_refuses_noop (pyLower name) hcmd' (propsOf j) (clearDone s).2 hb'
    exact C11_refused_only_replies cid j s name hc e he

/-- an `add` frame for a name that is already registered (ignoring case) -/
theorem C11_message_add_duplicate_only_replies (cid : Option String) (j : JVal) (s : State) (name : String)
    (hc : j.get? "command" = some (.str name)) (hcmd : pyLower name = "add")
    (n : String) (hn : (propsOf j).get? "name" = some (.str n))
    (hd : (s.a.names.lookup (pyLower n)).isSome = true) :
    sameDaemon s (handleMessage cid (some j) s).2 := by
  obtain ⟨e, he⟩ := C11_add_duplicate_noop (propsOf j) (clearDone s).2 n hn hd
  exact C11_refused_only_replies cid j s name hc e (hcmd ▸ he)

/-! ## 8. the known defect F4: `set` applies its options one by one at execution time -/

/-- one watcher `a` (numprocesses 1), stopped, nothing in flight -/
def C11.f4State : State := initState [{ name := "a", np := 1 }] [{}] 0

/-- `set a numprocesses=3 uid=nosuchuser`: both options pass `validate_option` (a uid may be any
    string), the second is refused by `Watcher.set_opt` (no such user) -/
def C11.f4Props : JVal :=
  .obj [("name", .str "a"), ("options", .obj [("numprocesses", .int 3), ("uid", .str "nosuchuser")])]

def C11.isError {α : Type} : R α → Bool
  | .error _ => true
  | .ok _ => false

/-- **F4 (known finding, kept)**: the request is answered with an error, yet `numprocesses` of the
    watcher has already been changed from 1 to 3 — the request was *not* without effect, although
    every option had passed validation.  (The property's "every option of a multi-option set is
    validated before any is applied" holds — `C11_set_invalid_option_noop` — but validation does not
    cover what `set_opt` itself rejects.) -/
theorem C11_counterexample_set_partial :
    (match f4Props.get? "options" with
      | some (.obj kvs) => kvs.all fun kv => validateOption kv.1 kv.2
      | _ => false) = true ∧
    isError (validateExecute "set" f4Props f4State).1 = true ∧
    f4State.ws.map (·.np) = [1] ∧
    (validateExecute "set" f4Props f4State).2.ws.map (·.np) = [3] := by
  decide +kernel

theorem C11.keysOf_cons (k : String) (v : JVal) (rest : List (String × JVal)) :
    ∃ tl, keysOf ((k, v) :: rest) = k :: tl := by
  unfold keysOf
  simp only [List.foldl_cons, List.contains_nil, Bool.false_eq_true, if_false, List.nil_append]
  have : ∀ (l : List (String × JVal)) (acc : List String), ∃ tl,
      List.foldl (fun acc kv => if acc.contains kv.1 = true then acc else acc ++ [kv.1]) (k :: acc) l = k :: tl := by
    intro l
    induction l with
    | nil => intro acc; exact ⟨acc, rfl⟩
    | cons x xs ih =>
      intro acc
      simp only [List.foldl_cons]
      split
      · exact ih acc
      · exact ih (acc ++ [x.1])
  exact this rest []

def C11.npOf : JVal → Int
  | .int i => i
  | .bool b => if b then 1 else 0
  | _ => 0

/-- the `numprocesses` branch of `Watcher.set_opt` -/
def C11.setNpBody (u : Nat) (n : Int) : M Bool := do
  let ok ← trySetNp u n
  if !ok then pure false else
  notify u "updated" none
  pure true

theorem C11.setOpt_np (u : Nat) (v : JVal) : setOpt u "numprocesses" v = setNpBody u (npOf v) := by
  unfold setOpt
  rw [if_pos rfl]
  rfl

theorem C11.trySetNp_false_noop (u : Nat) (n : Int) (s : State) (h : (trySetNp u n s).1 = false) :
    (trySetNp u n s).2 = s := by
  revert h
  unfold trySetNp
  simp only
  generalize (if n < 0 then 0 else n) = n'
  split
  · intro _; rfl
  · intro hc; cases hc

theorem C11.setNpBody_false_noop (u : Nat) (n : Int) (s : State) (h : (setNpBody u n s).1 = false) :
    (setNpBody u n s).2 = s := by
  unfold setNpBody at h ⊢
  rw [bind_run] at h ⊢
  cases hok : (trySetNp u n s).1 with
  | false =>
    erw [if_pos (show (!false) = true from rfl)]
    exact trySetNp_false_noop u n s hok
  | true =>
    rw [hok] at h
    erw [if_neg (by simp)] at h
    cases h

theorem C11.trySetNp_fst (u : Nat) (n : Int) (s : State) :
    (trySetNp u n s).1 =
      !(((s.ws.find? (·.uid = u)).getD defaultWatcher).singleton && decide ((if n < 0 then 0 else n) > 1)) := by
  unfold trySetNp
  simp only
  generalize (if n < 0 then 0 else n) = n'
  by_cases hc : (((List.find? (fun x => decide (x.uid = u)) s.ws).getD defaultWatcher).singleton && decide (n' > 1)) = true
  · rw [if_pos hc, hc]; rfl
  · rw [if_neg hc]
    simp only [Bool.not_eq_true] at hc
    rw [hc]; rfl

theorem C11.setNpBody_fst_slot (u : Nat) (n : Int) (x : Option String) (s : State) :
    (setNpBody u n (setSlot x s).2).1 = (setNpBody u n s).1 := by
  unfold setNpBody
  rw [bind_run, bind_run]
  have h1 : (trySetNp u n (setSlot x s).2).1 = (trySetNp u n s).1 := by
    rw [trySetNp_fst, trySetNp_fst]; rfl
  rw [h1]
  cases (trySetNp u n s).1 with
  | false =>
    erw [if_pos (show (!false) = true from rfl)]
    rfl
  | true =>
    erw [if_neg (show ¬ (!true) = true by simp)]
    rfl

/-- `Watcher.set_opt` that raises has changed nothing -/
theorem C11.setOpt_false_noop (u : Nat) (k : String) (v : JVal) (s : State) (h : (setOpt u k v s).1 = false) :
    (setOpt u k v s).2 = s := by
  by_cases hk : k = "numprocesses"
  · subst hk
    rw [setOpt_np] at h ⊢
    exact setNpBody_false_noop u _ s h
  · unfold setOpt at h ⊢
    erw [if_neg hk] at h ⊢
    cases hc : optChange k v with
    | none => rfl
    | some c => rw [hc] at h; cases h

/-- whether `set_opt` raises does not depend on the exclusive slot -/
theorem C11.setOpt_fst_slot (u : Nat) (k : String) (v : JVal) (x : Option String) (s : State) :
    (setOpt u k v (setSlot x s).2).1 = (setOpt u k v s).1 := by
  by_cases hk : k = "numprocesses"
  · subst hk
    rw [setOpt_np]
    exact setNpBody_fst_slot u _ x s
  · unfold setOpt
    erw [if_neg hk]
    cases optChange k v with
    | none => rfl
    | some c => rfl

/-- once an option has failed, the remaining ones are skipped -/
theorem C11.setKeyStep_stuck (u : Nat) (opts : List (String × JVal)) (key : String) (a : Int) (e : Exc) (s : State) :
    setKeyStep u opts key (a, some e) s = (ForInStep.yield (a, some e), s) := by
  unfold setKeyStep
  erw [if_neg (by simp)]
  rfl

/-- the last value given for `key` in a JSON object (Python dict semantics), `null` if absent -/
def C11.lastVal (opts : List (String × JVal)) (key : String) : JVal := ((JVal.obj opts).get? key).getD .null

/-- **partial positive result about `set`'s execution phase**: when the slot is free and the *first*
    option applied (the first key of the `options` object, with the last value given for it) is
    refused by `Watcher.set_opt`, the request is answered with an error and nothing has changed: the
    remaining options are skipped, the slot taken for the call is released.  (What is missing for the
    full property is the case of a *later* option failing: `C11_counterexample_set_partial`.) -/
theorem C11_set_exec_error_partial (props : JVal) (s : State) (u : Nat) (k : String) (v : JVal)
    (rest : List (String × JVal)) (hfree : ¬ busy s) (hk : knownWatcher props u s)
    (ho : props.get? "options" = some (.obj ((k, v) :: rest)))
    (hall : (((k, v) :: rest).all fun kv => validateOption kv.1 kv.2) = true)
    (hnh : k ≠ "hooks")
    (hfail : (setOpt u k (lastVal ((k, v) :: rest) k) s).1 = false) :
    validateExecute "set" props s = (.error (.other "ValueError"), s) := by
  have hr : reqOk "set" props := by
    simp [reqOk, requiredProps, knownWatcher_has props u s hk, has_of_get ho]
  rw [veq_set props s hr, ho]
  simp only
  erw [if_pos hall]
  rw [execSet_run props s u (knownWatcher_get props u s hk)]
  have hopts : optsOf props = (k, v) :: rest := by unfold optsOf; rw [ho]
  rw [hopts]
  obtain ⟨tl, htl⟩ := keysOf_cons k v rest
  have hbody : setOptBody u k (lastVal ((k, v) :: rest) k) false (setSlot (some "watcher_set_opt") s).2 =
      (.error (.other "ValueError"), (setSlot (some "watcher_set_opt") s).2) := by
    have h1 := setOpt_fst_slot u k (lastVal ((k, v) :: rest) k) (some "watcher_set_opt") s
    rw [hfail] at h1
    have h2 := setOpt_false_noop u k _ _ h1
    unfold setOptBody
    rw [bind_run, h2, h1]
    rfl
  have hstep : setKeyStep u ((k, v) :: rest) k (0, none) s =
      (ForInStep.yield (0, some (.other "ValueError")), s) := by
    unfold setKeyStep
    erw [if_pos rfl, if_neg hnh]
    rw [bind_run]
    have := syncPlain_body_noop "watcher_set_opt" _ s hfree _ hbody
    unfold lastVal at this
    rw [this]
    rfl
  have hloop : setLoop u ((k, v) :: rest) s = ((0, some (.other "ValueError")), s) := by
    unfold setLoop
    rw [htl]
    simp only [List.forIn_cons]
    rw [bind_run, hstep]
    simp only
    obtain ⟨b, hb1, hb2⟩ := forIn_fixed (fun b : Int × Option Exc => b = (0, some (Exc.other "ValueError"))) s
      (setKeyStep u ((k, v) :: rest))
      (fun a b hb => by subst hb; exact ⟨_, setKeyStep_stuck u _ a 0 _ s, rfl⟩) tl _ rfl
    rw [hb1, hb2]
  rw [hloop]
  rfl

/-! ## converse direction: for every command but `set` and `signal`, *any* error answer means
    that nothing happened -/

/-- run from `s`, the program either succeeds or fails without having touched the state -/
def C11.ErrNoop {α : Type} (m : M (R α)) (s : State) : Prop :=
  ∀ e, (m s).1 = .error e → (m s).2 = s

theorem C11.errNoop_pure {α : Type} (r : R α) (s : State) : ErrNoop (pure r : M (R α)) s := fun _ _ => rfl

theorem C11.errNoop_bind_read {α β : Type} {a : M β} {f : β → M (R α)} {x : β} {s : State}
    (h : a s = (x, s)) (hf : ErrNoop (f x) s) : ErrNoop (a >>= f) s := by
  intro e he
  rw [bind_run, h] at he ⊢
  exact hf e he

theorem C11.errNoop_ite {α : Type} (c : Prop) [Decidable c] {a b : M (R α)} {s : State}
    (ha : ErrNoop a s) (hb : ErrNoop b s) : ErrNoop (if c then a else b) s := by
  split <;> assumption

theorem C11.errNoop_syncMap (name : String) (c : Call) (extra : List TopCb) (g : Nat → ExecRes) (s : State) :
    ErrNoop (syncCoroutine name c extra >>= fun t => pure (t.map g)) s := by
  intro e he
  rw [bind_run] at he ⊢
  rcases syncCoroutine_cases name c extra s with ⟨tid, s1, h1⟩ | h1
  · rw [h1] at he; cases he
  · rw [h1]; rfl

theorem C11.execRm_errNoop (props : JVal) (s : State) : ErrNoop (execRm props) s := by
  unfold execRm
  rcases getWatcherCmd_cases ((props.get? "name").getD .null) s with ⟨e, h⟩ | ⟨u, h⟩
  · exact errNoop_bind_read h (errNoop_pure _ _)
  · exact errNoop_bind_read h (errNoop_syncMap _ _ _ _ _)

theorem C11.execReload_errNoop (props : JVal) (s : State) : ErrNoop (execReload props) s := by
  unfold execReload
  cases props.get? "name" with
  | none => exact errNoop_syncMap _ _ _ _ _
  | some name =>
    rcases getWatcherCmd_cases name s with ⟨e, h⟩ | ⟨u, h⟩
    · exact errNoop_bind_read h (errNoop_pure _ _)
    · exact errNoop_bind_read h (errNoop_syncMap _ _ _ _ _)

theorem C11.execIncrDecr_errNoop (sign : Int) (props : JVal) (s : State) : ErrNoop (execIncrDecr sign props) s := by
  unfold execIncrDecr
  rcases getWatcherCmd_cases ((props.get? "name").getD .null) s with ⟨e, h⟩ | ⟨u, h⟩
  · exact errNoop_bind_read h (errNoop_pure _ _)
  · refine errNoop_bind_read h ?_
    refine errNoop_bind_read (x := (getW u s).1) rfl ?_
    exact errNoop_ite _ (errNoop_pure _ _) (errNoop_syncMap _ _ _ _ _)

theorem C11.execSSR_errNoop (kind : String) (props : JVal) (s : State) : ErrNoop (execSSR kind props) s := by
  unfold execSSR
  apply errNoop_ite
  · have hr := matchWatchers_reads props s
    generalize hm : matchWatchers props s = r at hr
    obtain ⟨r, s1⟩ := r
    simp only at hr; subst hr
    refine errNoop_bind_read hm ?_
    cases r with
    | error e => exact errNoop_pure _ _
    | ok us =>
      cases us with
      | nil => exact errNoop_pure _ _
      | cons u us =>
        cases us with
        | nil => exact errNoop_syncMap _ _ _ _ _
        | cons v vs =>
          refine errNoop_bind_read (x := (sortUids (u :: v :: vs) false s1).1) rfl ?_
          refine errNoop_bind_read (x := (sortUids (u :: v :: vs) true s1).1) rfl ?_
          exact errNoop_ite _ (errNoop_syncMap _ _ _ _ _)
            (errNoop_ite _ (errNoop_syncMap _ _ _ _ _) (errNoop_syncMap _ _ _ _ _))
  · refine errNoop_bind_read (x := (iterWatchers false s).1) rfl ?_
    refine errNoop_bind_read (x := (iterWatchers true s).1) rfl ?_
    exact errNoop_ite _ (errNoop_syncMap _ _ _ _ _)
      (errNoop_ite _ (errNoop_syncMap _ _ _ _ _) (errNoop_syncMap _ _ _ _ _))

/-- `Kill.execute` never raises by itself (its failures live in its future) -/
theorem C11.execKill_ok (props : JVal) (s : State) : ∃ r, (execKill props s).1 = .ok r := by
  unfold execKill
  rw [bind_run]
  rcases getWatcherCmd_cases ((props.get? "name").getD .null) s with ⟨e, h⟩ | ⟨u, h⟩
  · rw [h]; exact ⟨_, rfl⟩
  · rw [h]; exact ⟨_, rfl⟩

/-- `stats` looks at the process table while it runs: when a worker or child vanishes under it (NoSuchProcess,
    errno 5) kernel-call boundaries have passed; every other error of it is raised before anything was looked at -/
theorem C11.statsTail_err {ok : Bool} {b : String} {e : Exc} (h : statsTail ok b = .error e) : e = .noSuchProcess := by
  unfold statsTail at h
  cases ok
  · injection h with h; exact h.symm
  · cases h

theorem C11.execStats_err (props : JVal) (s : State) (e : Exc) (he : (execStats props s).1 = .error e) :
    e = .noSuchProcess ∨ (execStats props s).2 = s := by
  unfold execStats at he ⊢
  cases hn : props.get? "name" with
  | none =>
    rw [hn] at he
    left
    exact statsTail_err he
  | some name =>
    rw [hn] at he
    simp only at he ⊢
    rw [bind_run] at he ⊢
    rcases getWatcherCmd_cases name s with ⟨e1, h⟩ | ⟨u, h⟩
    · right; rw [h]; rfl
    · rw [h] at he ⊢
      simp only at he ⊢
      rw [bind_run] at he ⊢
      have hg : getW u s = ((getW u s).1, s) := rfl
      rw [hg] at he ⊢
      simp only at he ⊢
      cases hp : props.get? "process" with
      | none =>
        rw [hp] at he
        left
        exact statsTail_err he
      | some v =>
        rw [hp] at he
        cases v with
        | int p =>
          simp only at he ⊢
          unfold statsProc at he ⊢
          by_cases hc : (decide (p < 0) || !(getW u s).1.pids.contains p.toNat) = true
          · right; erw [if_pos hc]; rfl
          · erw [if_neg hc] at he
            left
            exact statsTail_err he
        | _ => right; rfl

theorem C11.execReadOnly_errNoop (c : String) (hc : c ≠ "stats") (props : JVal) (s : State) :
    ErrNoop (execReadOnly c props) s := by
  intro e he
  unfold execReadOnly at he ⊢
  split at he
  · -- status
    cases hn : props.get? "name" with
    | none => rw [hn] at he; cases he
    | some name =>
      rw [hn] at he
      simp only at he ⊢
      rw [bind_run] at he ⊢
      rcases getWatcherCmd_cases name s with ⟨e1, h⟩ | ⟨u, h⟩
      · rw [h]; rfl
      · rw [h] at he; cases he
  · -- list
    cases hn : props.get? "name" with
    | none => rw [hn] at he; cases he
    | some name =>
      rw [hn] at he
      simp only at he ⊢
      rw [bind_run] at he ⊢
      rcases getWatcherCmd_cases name s with ⟨e1, h⟩ | ⟨u, h⟩
      · rw [h]; rfl
      · rw [h] at he; cases he
  · -- numprocesses
    cases hn : props.get? "name" with
    | none => rw [hn] at he; cases he
    | some name =>
      rw [hn] at he
      simp only at he ⊢
      rw [bind_run] at he ⊢
      rcases getWatcherCmd_cases name s with ⟨e1, h⟩ | ⟨u, h⟩
      · rw [h]; rfl
      · rw [h] at he; cases he
  · cases he
  · rfl
  · exact (hc rfl).elim
  · exact execOptions_state props s
  · exact execGet_state props s
  · rfl
  · rfl
  · rfl
  · cases he

theorem C11.veq_readonly_all (c : String)
    (hc : c ∈ ["status", "list", "numprocesses", "numwatchers", "listen", "dstats", "get", "globaloptions",
               "ipython", "listsockets", "options", "stats"])
    (props : JVal) (s : State) (hr : reqOk c props) :
    validateExecute c props s = execReadOnly c props s := by
  simp only [List.mem_cons, List.mem_nil_iff, or_false] at hc
  rcases hc with rfl | rfl | rfl | rfl | rfl | rfl | rfl | rfl | rfl | rfl | rfl | rfl <;>
  · unfold validateExecute; erw [if_neg (by unfold reqOk at hr; simp [hr])]; rfl

/-- **an error answer means that nothing happened** — for every registered command except `set`
    (finding F4) and `signal` (whose execution-time errors, NoSuchProcess / KeyError, may follow a
    signal already sent; they are not validation-class errors): whatever the properties and the
    state, if `validate`+`execute` answer with an error then the state is identical. -/
theorem C11_error_noop (cmd : String)
    (hc : cmd ∈ ["add", "decr", "dstats", "get", "globaloptions", "incr", "ipython", "kill", "list", "listen",
                 "listsockets", "numprocesses", "numwatchers", "options", "quit", "reload", "reloadconfig",
                 "restart", "rm", "start", "stats", "status", "stop"])
    (props : JVal) (s : State) (e : Exc) (h : (validateExecute cmd props s).1 = .error e)
    (hst : cmd = "stats" → e ≠ .noSuchProcess) :
    (validateExecute cmd props s).2 = s := by
  by_cases hr : reqOk cmd props
  swap
  · rw [veq_req_fail _ _ _ hr]
  simp only [List.mem_cons, List.mem_nil_iff, or_false] at hc
  rcases hc with rfl | rfl | rfl | rfl | rfl | rfl | rfl | rfl | rfl | rfl | rfl | rfl | rfl | rfl | rfl | rfl |
    rfl | rfl | rfl | rfl | rfl | rfl | rfl
  · exact C11_add_error_noop props s e h
  · -- decr
    rw [veq_decr props s hr] at h ⊢
    cases hnb : props.get? "nb" with
    | none => rw [hnb] at h; exact execIncrDecr_errNoop _ props s e h
    | some v =>
      rw [hnb] at h
      cases v with
      | int i => exact execIncrDecr_errNoop _ props s e h
      | _ => rfl
  · rw [veq_readonly_all _ (by decide) props s hr] at h ⊢; exact execReadOnly_errNoop _ (by decide) props s e h
  · rw [veq_readonly_all _ (by decide) props s hr] at h ⊢; exact execReadOnly_errNoop _ (by decide) props s e h
  · rw [veq_readonly_all _ (by decide) props s hr] at h ⊢; exact execReadOnly_errNoop _ (by decide) props s e h
  · -- incr
    rw [veq_incr props s hr] at h ⊢
    cases hnb : props.get? "nb" with
    | none => rw [hnb] at h; exact execIncrDecr_errNoop _ props s e h
    | some v =>
      rw [hnb] at h
      cases v with
      | int i => exact execIncrDecr_errNoop _ props s e h
      | _ => rfl
  · rw [veq_readonly_all _ (by decide) props s hr] at h ⊢; exact execReadOnly_errNoop _ (by decide) props s e h
  · -- kill
    rw [veq_kill props s hr] at h ⊢
    cases hv : validateKill props with
    | error e1 => rfl
    | ok p =>
      rw [hv] at h
      obtain ⟨r, hk⟩ := execKill_ok props s
      simp only at h
      rw [hk] at h; cases h
  · rw [veq_readonly_all _ (by decide) props s hr] at h ⊢; exact execReadOnly_errNoop _ (by decide) props s e h
  · rw [veq_readonly_all _ (by decide) props s hr] at h ⊢; exact execReadOnly_errNoop _ (by decide) props s e h
  · rw [veq_readonly_all _ (by decide) props s hr] at h ⊢; exact execReadOnly_errNoop _ (by decide) props s e h
  · rw [veq_readonly_all _ (by decide) props s hr] at h ⊢; exact execReadOnly_errNoop _ (by decide) props s e h
  · rw [veq_readonly_all _ (by decide) props s hr] at h ⊢; exact execReadOnly_errNoop _ (by decide) props s e h
  · rw [veq_readonly_all _ (by decide) props s hr] at h ⊢; exact execReadOnly_errNoop _ (by decide) props s e h
  · -- quit
    rw [veq_quit] at h ⊢
    exact errNoop_syncMap "arbiter_stop" .arbStop [] (fun tid => ExecRes.future tid "") s e h
  · rw [veq_reload] at h ⊢; exact execReload_errNoop props s e h
  · -- reloadconfig
    have : validateExecute "reloadconfig" props s = (.error (.other "unmodelled"), s) := by
      unfold validateExecute; erw [if_neg (by simp [requiredProps])]; rfl
    rw [this]
  · rw [veq_restart] at h ⊢; exact execSSR_errNoop _ props s e h
  · rw [veq_rm props s hr] at h ⊢; exact execRm_errNoop props s e h
  · rw [veq_start] at h ⊢; exact execSSR_errNoop _ props s e h
  · -- stats: every error but the NoSuchProcess of a process vanishing under it is raised before anything was looked at
    rw [veq_readonly_all _ (by decide) props s hr] at h ⊢
    have h2 : (execStats props s).1 = .error e := h
    rcases execStats_err props s e h2 with h3 | h3
    · exact ((hst rfl) h3).elim
    · exact h3
  · rw [veq_readonly_all _ (by decide) props s hr] at h ⊢; exact execReadOnly_errNoop _ (by decide) props s e h
  · rw [veq_stop] at h ⊢; exact execSSR_errNoop _ props s e h

/-! ## `set`: F4 is the only hole — every error other than the execution-time `ValueError` of
    `set_opt` means that nothing happened -/

/-- a loop whose body keeps a state invariant `I` and an accumulator invariant `P` (and never
    breaks) keeps both -/
theorem C11.forIn_inv {γ β : Type} (I : State → Prop) (P : β → Prop) (f : γ → β → M (ForInStep β))
    (hf : ∀ a b s, I s → P b → I (f a b s).2 ∧ ∃ b', (f a b s).1 = ForInStep.yield b' ∧ P b') :
    ∀ (l : List γ) (init : β) (s : State), I s → P init →
      I ((forIn l init f : M β) s).2 ∧ P ((forIn l init f : M β) s).1 := by
  intro l
  induction l with
  | nil => intro init s hi hp; exact ⟨hi, hp⟩
  | cons x xs ih =>
    intro init s hi hp
    obtain ⟨hi1, b1, hb1, hp1⟩ := hf x init s hi hp
    simp only [List.forIn_cons]
    rw [bind_run]
    generalize f x init s = r at hi1 hb1
    obtain ⟨r, s1⟩ := r
    simp only at hi1 hb1
    subst hb1
    exact ih b1 s1 hi1 hp1

theorem C11.setNpBody_a (u : Nat) (n : Int) (s : State) : (setNpBody u n s).2.a = s.a := by
  unfold setNpBody
  rw [bind_run]
  have h1 : (trySetNp u n s).2.a = s.a := by
    unfold trySetNp
    simp only
    generalize (if n < 0 then 0 else n) = n'
    split <;> rfl
  cases (trySetNp u n s).1 with
  | false =>
    erw [if_pos (show (!false) = true from rfl)]
    exact h1
  | true =>
    erw [if_neg (show ¬ (!true) = true by simp)]
    rw [bind_run]
    show (notify u "updated" none "-" (trySetNp u n s).2).2.a = s.a
    rw [notify_a]; exact h1

/-- `Watcher.set_opt` does not touch the arbiter (slot, flags, directory) -/
theorem C11.setOpt_a (u : Nat) (k : String) (v : JVal) (s : State) : (setOpt u k v s).2.a = s.a := by
  by_cases hk : k = "numprocesses"
  · subst hk; rw [setOpt_np]; exact setNpBody_a u _ s
  · unfold setOpt
    erw [if_neg hk]
    cases optChange k v with
    | none => rfl
    | some c =>
      simp only
      rw [bind_run, bind_run]
      show (notify u "updated" none "-" (setWOpt u c s).2).2.a = s.a
      rw [notify_a]; rfl

theorem C11.arbiter_slot_eta (a : Arbiter) (h : a.slot = none) : { a with slot := none } = a := by
  obtain ⟨w, n, slot, st, rs, wu, pc, cc, ls⟩ := a
  simp only at h; subst h; rfl

/-- one synchronized `set_opt` call with the slot free: the arbiter is as before (slot released),
    and the only possible error is the `ValueError` of `set_opt` -/
theorem C11.syncSetOpt_free (u : Nat) (k : String) (v : JVal) (len : Bool) (s : State) (hb : ¬ busy s) :
    (syncPlain "watcher_set_opt" (setOptBody u k v len) s).2.a = s.a ∧
    ((syncPlain "watcher_set_opt" (setOptBody u k v len) s).1 = .ok () ∨
     (syncPlain "watcher_set_opt" (setOptBody u k v len) s).1 = .error (.other "ValueError")) := by
  obtain ⟨_, h2⟩ := (not_busy_iff s).mp hb
  rw [syncPlain_free _ _ s hb]
  constructor
  · unfold setOptBody
    rw [bind_run]
    show { (setOpt u k v (setSlot (some "watcher_set_opt") s).2).2.a with slot := none } = s.a
    rw [setOpt_a]
    show { s.a with slot := none } = s.a
    exact arbiter_slot_eta s.a h2
  · unfold setOptBody
    rw [bind_run]
    simp only [pure]
    split
    · exact .inl rfl
    · exact .inr rfl

/-- the accumulated error of `Set.execute`'s loop is nothing but `set_opt`'s `ValueError` -/
def C11.onlyValueError (err : Option Exc) : Prop := ∀ e, err = some e → e = .other "ValueError"

theorem C11.setHookStep_free (u : Nat) (a0 : Arbiter) (hs : a0.slot = none) (hr : a0.restarting = false)
    (h : String × JVal) (err : Option Exc) (s : State) (hi : s.a = a0) (hp : onlyValueError err) :
    (setHookStep u h err s).2.a = a0 ∧
    ∃ b', (setHookStep u h err s).1 = ForInStep.yield b' ∧ onlyValueError b' := by
  have hb : ¬ busy s := by rw [not_busy_iff, hi]; exact ⟨hr, hs⟩
  unfold setHookStep
  by_cases hn : err.isNone = true
  · erw [if_pos hn]
    rw [bind_run]
    obtain ⟨h1, h2⟩ := syncSetOpt_free u ("hooks." ++ h.1) h.2 false s hb
    generalize syncPlain "watcher_set_opt" (setOptBody u ("hooks." ++ h.1) h.2 false) s = r at h1 h2
    obtain ⟨r, s1⟩ := r
    simp only at h1 h2
    rcases h2 with rfl | rfl
    · exact ⟨h1.trans hi, _, rfl, hp⟩
    · exact ⟨h1.trans hi, _, rfl, fun e he => by cases he; rfl⟩
  · erw [if_neg hn]
    exact ⟨hi, _, rfl, hp⟩

theorem C11.setKeyStep_free (u : Nat) (opts : List (String × JVal)) (a0 : Arbiter) (hs : a0.slot = none)
    (hr : a0.restarting = false) (key : String) (st : Int × Option Exc) (s : State) (hi : s.a = a0)
    (hp : onlyValueError st.2) :
    (setKeyStep u opts key st s).2.a = a0 ∧
    ∃ b', (setKeyStep u opts key st s).1 = ForInStep.yield b' ∧ onlyValueError b'.2 := by
  have hb : ¬ busy s := by rw [not_busy_iff, hi]; exact ⟨hr, hs⟩
  unfold setKeyStep
  by_cases hn : st.2.isNone = true
  · erw [if_pos hn]
    by_cases hk : key = "hooks"
    · erw [if_pos hk]
      cases ((JVal.obj opts).get? key).getD .null with
      | obj hs' =>
        simp only
        rw [bind_run]
        obtain ⟨h1, h2⟩ := forIn_inv (fun s' => s'.a = a0) onlyValueError (setHookStep u)
          (fun a b s' hi' hp' => setHookStep_free u a0 hs hr a b s' hi' hp') hs' st.2 s hi hp
        by_cases hem : (!hs'.isEmpty) = true
        · erw [if_pos hem]; exact ⟨h1, _, rfl, h2⟩
        · erw [if_neg hem]; exact ⟨h1, _, rfl, h2⟩
      | _ => exact ⟨hi, _, rfl, hp⟩
    · erw [if_neg hk]
      rw [bind_run]
      obtain ⟨h1, h2⟩ := syncSetOpt_free u key (((JVal.obj opts).get? key).getD .null) false s hb
      generalize syncPlain "watcher_set_opt" (setOptBody u key (((JVal.obj opts).get? key).getD .null) false) s = r at h1 h2
      obtain ⟨r, s1⟩ := r
      simp only at h1 h2
      rcases h2 with rfl | rfl
      · simp only
        by_cases hact : setOptAction key = 1
        · erw [if_pos hact]; exact ⟨h1.trans hi, _, rfl, hp⟩
        · erw [if_neg hact]; exact ⟨h1.trans hi, _, rfl, hp⟩
      · exact ⟨h1.trans hi, _, rfl, fun e he => by cases he; rfl⟩
  · erw [if_neg hn]
    exact ⟨hi, _, rfl, hp⟩

/-- with the slot free, `Set.execute` on an existing watcher fails only with `set_opt`'s `ValueError` -/
theorem C11.execSet_free_error (props : JVal) (s : State) (u : Nat) (hb : ¬ busy s)
    (h : getWatcherCmd ((props.get? "name").getD .null) s = (.ok u, s)) (e : Exc)
    (he : (execSet props s).1 = .error e) : e = .other "ValueError" := by
  obtain ⟨hr, hs⟩ := (not_busy_iff s).mp hb
  rw [execSet_run props s u h] at he
  obtain ⟨h1, h2⟩ := forIn_inv (fun s' => s'.a = s.a) (fun st : Int × Option Exc => onlyValueError st.2)
    (setKeyStep u (optsOf props))
    (fun a b s' hi' hp' => setKeyStep_free u (optsOf props) s.a hs hr a b s' hi' hp')
    (keysOf (optsOf props)) (0, none) s rfl (fun e he => by cases he)
  change (setLoop u (optsOf props) s).2.a = s.a at h1
  change onlyValueError (setLoop u (optsOf props) s).1.2 at h2
  generalize setLoop u (optsOf props) s = r at he h1 h2
  obtain ⟨⟨act, err⟩, s1⟩ := r
  simp only at he h1 h2
  unfold setFinish at he
  cases err with
  | some e1 =>
    simp only at he
    have := h2 e1 rfl
    cases he
    exact this
  | none =>
    simp only at he
    rw [bind_run] at he
    have hb1 : ¬ busy s1 := by rw [not_busy_iff, h1]; exact ⟨hr, hs⟩
    obtain ⟨tid, ht⟩ := syncCoroutine_free "watcher_do_action" (.doAction u act) [] s1 hb1
    rw [ht] at he
    cases he

/-- **a `set` answered with any error other than `set_opt`'s execution-time `ValueError` has changed
    nothing** — MessageError (validation, unknown watcher), AttributeError, ConflictError: all are
    raised before the first option is applied.  Together with `C11_counterexample_set_partial` this
    delimits F4 exactly. -/
theorem C11_set_refusal_noop (props : JVal) (s : State) (e : Exc)
    (h : (validateExecute "set" props s).1 = .error e) (hne : e ≠ .other "ValueError") :
    (validateExecute "set" props s).2 = s := by
  by_cases hr : reqOk "set" props
  swap
  · rw [veq_req_fail _ _ _ hr]
  rw [veq_set props s hr] at h ⊢
  cases ho : props.get? "options" with
  | none => rfl
  | some o =>
    rw [ho] at h
    cases o with
    | obj kvs =>
      simp only at h ⊢
      by_cases hall : (kvs.all fun kv => validateOption kv.1 kv.2) = true
      · erw [if_pos hall] at h ⊢
        by_cases hb : busy s
        · obtain ⟨e1, h1⟩ := execSet_busy_any props s hb
          rw [h1]
        · rcases getWatcherCmd_cases ((props.get? "name").getD .null) s with ⟨e1, hg⟩ | ⟨u, hg⟩
          · rw [execSet_unknown_err props s e1 hg]
          · exact absurd (execSet_free_error props s u hb hg e h) hne
      · erw [if_neg hall]; rfl
    | _ => rfl

/-! ## `signal`: a validation-class error means that nothing happened -/

/-- a postcondition on the returned value, whatever the state -/
def C11.Post {α : Type} (Q : α → Prop) (m : M α) : Prop := ∀ s, Q (m s).1

/-- the error accumulated by `Signal.execute`'s loop is never a validation-class one -/
def C11.noRef : Option Exc → Bool
  | none => true
  | some e => !e.isRefusal

def C11.QStep (r : ForInStep (Option Exc)) : Prop := ∃ b, r = .yield b ∧ noRef b = true
def C11.QRes (r : R ExecRes) : Prop := ∀ e, r = .error e → e.isRefusal = false

theorem C11.Post.bind_any {α β : Type} {Q : β → Prop} {m : M α} {f : α → M β} (hf : ∀ a, Post Q (f a)) :
    Post Q (m >>= f) := fun s => hf (m s).1 (m s).2

theorem C11.Post.ite_any {α : Type} {Q : α → Prop} {c : Prop} [Decidable c] {a b : M α}
    (ha : Post Q a) (hb : Post Q b) : Post Q (if c then a else b) := by
  split <;> assumption

theorem C11.Post.yield {b : Option Exc} (h : noRef b = true) : Post QStep (pure (ForInStep.yield b)) :=
  fun _ => ⟨b, rfl, h⟩
theorem C11.Post.yield_key : Post QStep (pure (ForInStep.yield (some (Exc.other "KeyError")))) := Post.yield rfl
theorem C11.Post.yield_nsp : Post QStep (pure (ForInStep.yield (some Exc.noSuchProcess))) := Post.yield rfl
theorem C11.Post.yield_unm : Post QStep (pure (ForInStep.yield (some (Exc.other "unmodelled")))) := Post.yield rfl
/-- the exception of a signal that failed — `NoSuchProcess`, or `AccessDenied` when the daemon is not permitted to
    signal the process — is not a validation-class error -/
theorem C11.noRef_exc (r : SigRes) : noRef r.exc = true := by cases r <;> rfl
theorem C11.Post.yield_exc (r : SigRes) : Post QStep (pure (ForInStep.yield r.exc)) := Post.yield (noRef_exc r)

theorem C11.Post.res_ok (x : ExecRes) : Post QRes (pure (Except.ok x)) := fun _ e h => by cases h
theorem C11.Post.res_err {e : Exc} (h : noRef (some e) = true) : Post QRes (pure (Except.error e)) := by
  intro _ e1 h1
  cases h1
  simpa [noRef] using h

/-- the loop over the pids, followed by anything that only relies on the accumulated error not
    being a validation-class one -/
theorem C11.Post.bind_forIn {γ β : Type} {Q : β → Prop} {l : List γ} {f : γ → Option Exc → M (ForInStep (Option Exc))}
    {g : Option Exc → M β}
    (hf : ∀ a b, noRef b = true → Post QStep (f a b)) (hg : ∀ err, noRef err = true → Post Q (g err)) :
    Post Q (forIn l none f >>= g) := by
  have key : ∀ (l : List γ) (init : Option Exc) (s : State), noRef init = true →
      noRef ((forIn l init f : M (Option Exc)) s).1 = true := by
    intro l
    induction l with
    | nil => intro init s h; exact h
    | cons x xs ih =>
      intro init s h
      simp only [List.forIn_cons]
      rw [bind_run]
      obtain ⟨b, hb, hp⟩ := hf x init h s
      rw [hb]
      exact ih b _ hp
  intro s
  rw [bind_run]
  exact hg _ (key l none s rfl) _

/-- the same for a loop that starts from an error value already accumulated (the loops over the children) -/
theorem C11.Post.bind_forIn_init {γ β : Type} {Q : β → Prop} {l : List γ} {f : γ → Option Exc → M (ForInStep (Option Exc))}
    {g : Option Exc → M β} {init : Option Exc} (hi : noRef init = true)
    (hf : ∀ a b, noRef b = true → Post QStep (f a b)) (hg : ∀ err, noRef err = true → Post Q (g err)) :
    Post Q (forIn l init f >>= g) := by
  have key : ∀ (l : List γ) (init : Option Exc) (s : State), noRef init = true →
      noRef ((forIn l init f : M (Option Exc)) s).1 = true := by
    intro l
    induction l with
    | nil => intro init s h; exact h
    | cons x xs ih =>
      intro init s h
      simp only [List.forIn_cons]
      rw [bind_run]
      obtain ⟨b, hb, hp⟩ := hf x init h s
      rw [hb]
      exact ih b _ hp
  intro s
  rw [bind_run]
  exact hg _ (key l init s hi) _

/-- validation-class errors leave the state alone -/
def C11.ErrRef {α : Type} (m : M (R α)) (s : State) : Prop :=
  ∀ e, (m s).1 = .error e → e.isRefusal = true → (m s).2 = s

theorem C11.errRef_of_post {m : M (R ExecRes)} (h : Post QRes m) (s : State) : ErrRef m s := by
  intro e he hr
  have := h s e he
  rw [hr] at this; cases this

theorem C11.errRef_bind_read {α β : Type} {a : M β} {f : β → M (R α)} {x : β} {s : State}
    (h : a s = (x, s)) (hf : ErrRef (f x) s) : ErrRef (a >>= f) s := by
  intro e he hr
  rw [bind_run, h] at he ⊢
  exact hf e he hr

theorem C11.execSignal_errRef (props : JVal) (s : State) : ErrRef (execSignal props) s := by
  unfold execSignal
  rcases getWatcherCmd_cases ((props.get? "name").getD .null) s with ⟨e, h⟩ | ⟨u, h⟩
  · exact errRef_bind_read h (fun _ _ _ => rfl)
  · refine errRef_bind_read h ?_
    apply errRef_of_post
    have hx := noRef_exc
    aesop (add safe 0 apply [Post.yield_key, Post.yield_nsp, Post.yield_unm, Post.yield_exc, Post.res_ok, hx],
               safe 1 apply [Post.yield, Post.res_err, Post.bind_forIn, Post.bind_forIn_init],
               safe 2 apply [Post.bind_any, Post.ite_any])
      (config := { terminal := true, useDefaultSimpSet := false, useSimpAll := false, maxRuleApplications := 3000 })

/-- **a `signal` answered with a validation-class error has changed nothing** (MessageError,
    ArgumentError, AttributeError, ConflictError — everything `validate` and `_get_watcher` raise):
    no hook was run, no signal sent.  The other errors of `signal` (NoSuchProcess, KeyError for a pid
    that is not the watcher's) are raised by the execution itself, possibly after a signal was
    delivered; they are not in the validation class (generic errno 5). -/
theorem C11_signal_refusal_noop (props : JVal) (s : State) (e : Exc)
    (h : (validateExecute "signal" props s).1 = .error e) (hr : e.isRefusal = true) :
    (validateExecute "signal" props s).2 = s := by
  by_cases hq : reqOk "signal" props
  swap
  · rw [veq_req_fail _ _ _ hq]
  rw [veq_signal props s hq] at h ⊢
  by_cases hc : (props.has "childpid" && !props.has "pid") = true
  · erw [if_pos hc]; rfl
  · erw [if_neg hc] at h ⊢
    cases hs : (props.get? "signum").bind toSignumJ with
    | none => rfl
    | some n =>
      rw [hs] at h
      exact execSignal_errRef props s e h hr

/-- **the property, in one statement**: for *every* registered command, every properties value and
    every state, if the request is answered with a validation-class error (MessageError,
    ConflictError, the AttributeError / ArgumentError of the argument checks) then the state after
    `validate`+`execute` is identical to the state before. -/
theorem C11_refusal_noop (cmd : String) (hc : commandNames.contains cmd = true) (props : JVal) (s : State)
    (e : Exc) (h : (validateExecute cmd props s).1 = .error e) (hr : e.isRefusal = true) :
    (validateExecute cmd props s).2 = s := by
  by_cases hset : cmd = "set"
  · subst hset
    exact C11_set_refusal_noop props s e h (by intro he; subst he; cases hr)
  by_cases hsig : cmd = "signal"
  · subst hsig
    exact C11_signal_refusal_noop props s e h hr
  · apply C11_error_noop cmd _ props s e h (by intro _ he; subst he; cases hr)
    have : cmd ∈ commandNames := by simpa using hc
    simp only [commandNames, List.mem_cons, List.mem_nil_iff, or_false] at this ⊢
    rcases this with h | h | h | h | h | h | h | h | h | h | h | h | h | h | h | h | h | h | h | h | h | h | h | h | h <;>
      simp_all

/-- … and at the level of frames: a frame answered with a validation-class error leaves the daemon
    exactly as it was, up to the reply -/
theorem C11_message_refusal_only_replies (cid : Option String) (msg : Option JVal) (s : State)
    (h : ∀ j name, msg = some j → j.get? "command" = some (.str name) →
          commandNames.contains (pyLower name) = true → (propsOf j).isObj = true →
          ∃ e, (validateExecute (pyLower name) (propsOf j) (clearDone s).2).1 = .error e ∧ e.isRefusal = true) :
    sameDaemon s (handleMessage cid msg s).2 := by
  apply handleMessage_refused
  intro j name h1 h2 h3 h4
  obtain ⟨e, he, hr⟩ := h j name h1 h2 h3 h4
  have hs := C11_refusal_noop (pyLower name) h3 (propsOf j) (clearDone s).2 e he hr
  refine ⟨e, ?_⟩
  generalize validateExecute (pyLower name) (propsOf j) (clearDone s).2 = r at he hs
  obtain ⟨r1, s1⟩ := r
  simp only at he hs
  rw [he, hs]

/-! ## 9. `options` / `get`: "the options exactly as they were" is observable

The read-only commands `options` and `get` answer from the arbiter's name dict and the watcher's record and
from nothing else; so a request that leaves the state as it was (`C11_refusal_noop`) or the daemon as it was
(`sameDaemon`) is followed by the same `options` / `get` answers as it was preceded by. -/

/-- **`options` reads the watcher record**: for a name that designates a registered watcher (in whatever letter
    case), `validate`+`execute` of `options` answer `ok` with the body `optionsBody w` computed from that watcher's
    record `w` alone (numprocesses, warmup_delay, graceful_timeout, stop_signal, stop_children, priority, respawn,
    max_retry, max_age, singleton, on_demand, send_hup), and the state is identical — whatever the exclusive slot
    holds, whatever is in flight. -/
theorem C11_options_reply (props : JVal) (s : State) (n : String) (u : Nat)
    (hn : props.get? "name" = some (.str n)) (hu : s.a.names.lookup (pyLower n) = some u) :
    validateExecute "options" props s = (.ok (.value (optionsBody (getW u s).1)), s) := by
  rw [validateExecute_options props s (has_of_get_some hn)]
  exact execOptions_known props s n u hn hu

/-- **`get` reads the watcher record**: for a registered watcher and the `keys` given, the answer is `getBody w keys`
    — the named options out of the same record when every key is an option name, MessageError when one is not,
    TypeError when `keys` is not iterable — and the state is identical. -/
theorem C11_get_reply (props : JVal) (s : State) (n : String) (u : Nat) (keys : JVal)
    (hn : props.get? "name" = some (.str n)) (hk : props.get? "keys" = some keys)
    (hu : s.a.names.lookup (pyLower n) = some u) :
    validateExecute "get" props s = (getBody (getW u s).1 keys, s) := by
  rw [validateExecute_get props s (has_of_get_some hn) (has_of_get_some hk)]
  rw [execGet_known props s n u hn hu, hk]
  rfl

/-- **a key that is no option name**: `get` with a list of keys one of which is not in `Watcher.optnames` (whatever its
    type) is refused with MessageError and nothing changes -/
theorem C11_get_unknown_key_noop (props : JVal) (s : State) (n : String) (u : Nat) (xs : List JVal) (x : JVal)
    (hn : props.get? "name" = some (.str n)) (hk : props.get? "keys" = some (.arr xs))
    (hu : s.a.names.lookup (pyLower n) = some u) (hx : x ∈ xs) (hbad : isOptName x = false) :
    validateExecute "get" props s = (.error .message, s) := by
  rw [C11_get_reply props s n u (.arr xs) hn hk hu]
  have : xs.all isOptName = false := by
    rw [List.all_eq_false]; exact ⟨x, hx, by simp [hbad]⟩
  simp only [getBody, getKeyItems, this]
  rfl

/-- **the `options` / `get` answers are a function of the name dict and the watcher records only**: two states that
    agree on these two components give the same answers to every `options` and every `get` request -/
theorem C11_options_function_of_records (props : JVal) (s s' : State)
    (hnames : s'.a.names = s.a.names) (hws : s'.ws = s.ws) :
    (validateExecute "options" props s').1 = (validateExecute "options" props s).1 ∧
    (validateExecute "get" props s').1 = (validateExecute "get" props s).1 := by
  rw [validateExecute_options_eq, validateExecute_options_eq, validateExecute_get_eq, validateExecute_get_eq]
  simp only [execOptions_fst_congr props s s' hnames hws, execGet_fst_congr props s s' hnames hws, and_self]

/-- **after a refused request the options read as before**: for every registered command, if the request is answered
    with a validation-class error, then every `options` and every `get` request is answered afterwards exactly as it
    would have been answered before -/
theorem C11_refusal_same_options (cmd : String) (hc : commandNames.contains cmd = true) (props : JVal) (s : State)
    (e : Exc) (h : (validateExecute cmd props s).1 = .error e) (hr : e.isRefusal = true) (q : JVal) :
    validateExecute "options" q (validateExecute cmd props s).2 = validateExecute "options" q s ∧
    validateExecute "get" q (validateExecute cmd props s).2 = validateExecute "get" q s := by
  rw [C11_refusal_noop cmd hc props s e h hr]
  exact ⟨rfl, rfl⟩

/-- … and at the level of frames: a daemon that is `sameDaemon` as before (what every refused frame leaves,
    `C11_message_refusal_only_replies`) answers every `options` / `get` request as before -/
theorem C11_sameDaemon_same_options {s s' : State} (h : sameDaemon s s') (q : JVal) :
    (validateExecute "options" q s').1 = (validateExecute "options" q s).1 ∧
    (validateExecute "get" q s').1 = (validateExecute "get" q s).1 := by
  obtain ⟨_, hnames, hws, _, _⟩ := C11_sameDaemon_views h
  exact C11_options_function_of_records q s s' hnames hws

/-- the five commands added to the read-only executor change nothing at all, whatever they answer -/
theorem C11_readonly_options_noop (cmd : String)
    (hc : cmd ∈ ["options", "get", "globaloptions", "dstats", "listsockets"]) (props : JVal) (s : State) :
    (validateExecute cmd props s).2 = s := by
  by_cases hr : reqOk cmd props
  swap
  · rw [veq_req_fail _ _ _ hr]
  simp only [List.mem_cons, List.mem_nil_iff, or_false] at hc
  rcases hc with rfl | rfl | rfl | rfl | rfl
  · rw [veq_readonly_all _ (by decide) props s hr]; exact execOptions_state props s
  · rw [veq_readonly_all _ (by decide) props s hr]; exact execGet_state props s
  · rw [veq_readonly_all _ (by decide) props s hr]; rfl
  · rw [veq_readonly_all _ (by decide) props s hr]; rfl
  · rw [veq_readonly_all _ (by decide) props s hr]; rfl

theorem C11.readonly_options_ne_future (cmd : String)
    (hc : cmd ∈ ["options", "get", "globaloptions", "dstats", "listsockets"]) (props : JVal) (s : State)
    (tid : Nat) (x : String) : (validateExecute cmd props s).1 ≠ .ok (.future tid x) := by
  by_cases hr : reqOk cmd props
  swap
  · rw [veq_req_fail _ _ _ hr]; intro h; cases h
  simp only [List.mem_cons, List.mem_nil_iff, or_false] at hc
  rcases hc with rfl | rfl | rfl | rfl | rfl
  · rw [veq_readonly_all _ (by decide) props s hr]; exact execOptions_ne_future props s tid x
  · rw [veq_readonly_all _ (by decide) props s hr]; exact execGet_ne_future props s tid x
  · rw [veq_readonly_all _ (by decide) props s hr]; exact globalOptionsBody_ne_future props tid x
  · rw [veq_readonly_all _ (by decide) props s hr]; intro h; cases h
  · rw [veq_readonly_all _ (by decide) props s hr]; intro h; cases h

/-- … **as frames**: a frame that carries `options`, `get`, `globaloptions`, `dstats` or `listsockets` (command name in
    any letter case) — whatever its properties, whatever it is answered, whatever is in flight — leaves the daemon
    exactly as it was, up to the one reply -/
theorem C11_message_readonly_options_only_replies (cid : Option String) (j : JVal) (s : State) (name : String)
    (hc : j.get? "command" = some (.str name))
    (hcmd : pyLower name ∈ ["options", "get", "globaloptions", "dstats", "listsockets"]) :
    sameDaemon s (handleMessage cid (some j) s).2 := by
  have h1 := C11_readonly_options_noop (pyLower name) hcmd (propsOf j) (clearDone s).2
  have h2 := readonly_options_ne_future (pyLower name) hcmd (propsOf j) (clearDone s).2
  generalize hve : validateExecute (pyLower name) (propsOf j) (clearDone s).2 = ve at h1 h2
  obtain ⟨r, s1⟩ := ve
  simp only at h1 h2
  subst h1
  apply C11_quiet_only_replies cid j s name hc r hve
  cases r with
  | error e => trivial
  | ok res =>
    cases res with
    | future tid x => exact absurd rfl (h2 tid x)
    | value b => trivial
    | statusPayload st => trivial
    | unmodelled => trivial

/-! ## non-vacuity: the hypotheses instantiated on concrete states and requests -/

/-- three watchers (`a` stopped, `B` active with two workers, the singleton `solo`), a `stop`
    in flight: the exclusive slot is taken, its future and a suspended coroutine are registered -/
def C11.exBusy : State :=
  let s := initState [{ name := "a", np := 1 },
                      { name := "B", np := 2, status := .active, pids := [100, 101] },
                      { name := "solo", singleton := true }] [{}] 0
  { s with a := { s.a with slot := some "watcher_stop" },
           tops := [{ tid := 7, cbs := [.release], armed := true }],
           frames := [{ fid := 8, k := .stopAfterKill 2 false, parent := .top 7, armed := true }],
           nextId := 9 }

/-- the same daemon at rest -/
def C11.exFree : State :=
  initState [{ name := "a", np := 1 },
             { name := "B", np := 2, status := .active, pids := [100, 101] },
             { name := "solo", singleton := true }] [{}] 0

example : busy exBusy := .inr (by decide +kernel)
example : ¬ busy exFree := by rw [not_busy_iff]; exact ⟨by decide +kernel, by decide +kernel⟩
example : unknownWatcher (.str "NoSuch") exBusy := unknownWatcher_of_not_key _ _ (by decide +kernel)
example : unknownWatcher (.int 3) exBusy := unknownWatcher_of_not_str _ _ rfl
example : knownWatcher (.obj [("name", .str "b")]) 2 exBusy := ⟨"b", rfl, by decide +kernel⟩
example : noGlobHit "z*" exFree := by unfold noGlobHit; decide +kernel

/-- 1. `rm` without a name -/
example : validateExecute "rm" (.obj []) exBusy = (.error .message, exBusy) :=
  C11_missing_required "rm" _ _ "name" (by decide +kernel) rfl

/-- 2. the invalid option first, in the middle, last -/
example : validateExecute "set" (.obj [("name", .str "a"), ("options",
      .obj [("numprocesses", .str "x"), ("warmup_delay", .int 1), ("max_age", .int 3)])]) exFree
    = (.error .message, exFree) :=
  C11_set_invalid_option_anywhere _ _ [] [("warmup_delay", .int 1), ("max_age", .int 3)] "numprocesses" (.str "x")
    rfl (by decide +kernel)
example : validateExecute "set" (.obj [("name", .str "a"), ("options",
      .obj [("numprocesses", .int 3), ("nosuchkey", .int 1), ("max_age", .int 3)])]) exFree
    = (.error .message, exFree) :=
  C11_set_invalid_option_anywhere _ _ [("numprocesses", .int 3)] [("max_age", .int 3)] "nosuchkey" (.int 1)
    rfl (by decide +kernel)
example : validateExecute "set" (.obj [("name", .str "a"), ("options",
      .obj [("numprocesses", .int 3), ("warmup_delay", .int 1), ("send_hup", .int 3)])]) exFree
    = (.error .message, exFree) :=
  C11_set_invalid_option_anywhere _ _ [("numprocesses", .int 3), ("warmup_delay", .int 1)] [] "send_hup" (.int 3)
    rfl (by decide +kernel)
example : validateExecute "add" (.obj [("name", .str "new"), ("cmd", .str "sleep 1"), ("options",
      .obj [("numprocesses", .int 3), ("rlimit_nosuch", .int 1)])]) exFree
    = (.error .message, exFree) :=
  C11_add_invalid_option_anywhere _ _ [("numprocesses", .int 3)] [] "rlimit_nosuch" (.int 1) rfl (by decide +kernel)
example : validateExecute "set" (.obj [("name", .str "a"), ("options", .arr [])]) exFree
    = (.error .message, exFree) :=
  C11_set_options_not_object _ _ (.arr []) rfl rfl

/-- 3. unknown watcher -/
example : validateExecute "rm" (.obj [("name", .str "NoSuch")]) exBusy = (.error .message, exBusy) :=
  C11_unknown_watcher_rm _ _ (.str "NoSuch") rfl (unknownWatcher_of_not_key _ _ (by decide +kernel))
example : validateExecute "stop" (.obj [("name", .str "NoSuch"), ("match", .str "simple")]) exFree
    = (.error .message, exFree) :=
  C11_unknown_watcher_simple_noop "stop" (.inr (.inl rfl)) _ _ (.str "NoSuch") rfl rfl
    (unknownWatcher_of_not_key _ _ (by decide +kernel))
example : validateExecute "restart" (.obj [("name", .str "z*")]) exFree = (.error .message, exFree) :=
  C11_unknown_watcher_glob_noop "restart" (.inr (.inr rfl)) _ _ (.str "z*") rfl rfl
    (fun n hn => by cases hn; unfold noGlobHit; decide +kernel)
example : validateExecute "kill" (.obj [("name", .str "NoSuch")]) exFree = (.ok (.future 0 "failed:"), exFree) := by
  rw [veq_kill _ _ (by decide +kernel)]
  exact execKill_unknown _ _ (unknownWatcher_of_not_key _ _ (by decide +kernel))

/-- 4. bad signal / bad nb -/
example : ∃ e, validateExecute "signal" (.obj [("name", .str "B"), ("signum", .int 99)]) exFree
    = (.error e, exFree) ∧ e.isRefusal = true :=
  C11_bad_signal_noop _ _ (by decide +kernel)
example : validateExecute "kill" (.obj [("name", .str "B"), ("signum", .str "SIGNOPE")]) exFree
    = (.error .message, exFree) :=
  C11_kill_bad_signal_message _ _ (.str "SIGNOPE") rfl (by decide +kernel) rfl
example : validateExecute "incr" (.obj [("name", .str "B"), ("nb", .str "2")]) exFree
    = (.error .message, exFree) :=
  C11_incr_bad_nb_noop "incr" (.inl rfl) _ _ (.str "2") rfl (fun i h => by cases h)

/-- 5. conflict with the operation in flight -/
example : validateExecute "stop" (.obj [("name", .str "B"), ("match", .str "simple")]) exBusy
    = (.error .conflict, exBusy) :=
  C11_conflict_start_stop_restart_simple "stop" (.inr (.inl rfl)) _ _ 2 (.inr (by decide +kernel))
    ⟨"B", rfl, by decide +kernel⟩ rfl
example : validateExecute "set" (.obj [("name", .str "B"), ("options",
      .obj [("numprocesses", .int 5), ("hooks", .obj [("before_start", .str "m.f")]), ("max_age", .int 3)])]) exBusy
    = (.error .conflict, exBusy) :=
  C11_conflict_set_noop _ _ 2 (.inr (by decide +kernel)) ⟨"B", rfl, by decide +kernel⟩ _ rfl (by decide +kernel)
example : validateExecute "incr" (.obj [("name", .str "b"), ("nb", .int 2)]) exBusy = (.error .conflict, exBusy) :=
  C11_conflict_incr_decr_noop "incr" (.inl rfl) _ _ 2 (.inr (by decide +kernel)) ⟨"b", rfl, by decide +kernel⟩
    (by decide +kernel) (.inr ⟨2, rfl⟩)
example : validateExecute "incr" (.obj [("name", .str "solo")]) exBusy
    = (.ok (.value "numprocesses=1,singleton=true"), exBusy) :=
  C11_incr_decr_singleton_noop "incr" (.inl rfl) _ _ 3 ⟨"solo", rfl, by decide +kernel⟩ (by decide +kernel) (.inl rfl)
example : validateExecute "add" (.obj [("name", .str "new"), ("cmd", .str "sleep 1")]) exBusy
    = (.error .conflict, exBusy) :=
  C11_conflict_add_noop _ _ (.inr (by decide +kernel)) (by decide +kernel) (.inl rfl) rfl

-- endpoint-owner mode: an `add` without the owner's uid, and one with another uid, are refused whatever the daemon does
example : validateExecute "add" (.obj [("name", .str "new"), ("cmd", .str "sleep 1"), ("options", .obj [("uid", .str "nobody")])])
      { exBusy with a := { exBusy.a with endpointOwner := some "root" } }
    = (.error .message, { exBusy with a := { exBusy.a with endpointOwner := some "root" } }) :=
  C11_add_wrong_uid_is_message_error _ _ (by decide +kernel) _ rfl (by decide +kernel) (by decide +kernel)
example : ownerRefuses (some "root") (.obj [("name", .str "new"), ("cmd", .str "sleep 1")]) = true ∧
    ownerRefuses (some "root") (.obj [("options", .obj [("uid", .int 0)])]) = true ∧
    ownerRefuses (some "root") (.obj [("options", .obj [("uid", .str "root")])]) = false ∧
    ownerRefuses none (.obj []) = false := by decide +kernel

/-- 6. `add` of a name registered in another letter case, at rest: the slot is taken and released -/
example : ∃ e, validateExecute "add" (.obj [("name", .str "b"), ("cmd", .str "sleep 1")]) exFree = (.error e, exFree) :=
  C11_add_duplicate_noop _ _ "b" rfl (by decide +kernel)
example : ∃ e, validateExecute "add" (.obj [("name", .str ""), ("cmd", .str "sleep 1")]) exFree = (.error e, exFree) :=
  C11_add_bad_name_noop _ _ (fun n h => by cases h; rfl)
example : ∃ e, validateExecute "add" (.obj [("name", .str "new"), ("cmd", .str "sleep 1"),
      ("options", .obj [("warmup_delay", .null)])]) exFree = (.error e, exFree) :=
  C11_add_rejected_options_noop _ _ "new" rfl (by decide +kernel)

/-- 7. as frames -/
example : sameDaemon exBusy (handleMessage (some "c1") (some (.obj [("id", .str "x"), ("command", .str "RM"),
      ("properties", .obj [("name", .str "NoSuch")])])) exBusy).2 :=
  C11_message_unknown_watcher_only_replies _ _ _ "RM" rfl (.inr (.inr (.inl (by decide +kernel))))
    (unknownWatcher_of_not_key _ _ (by decide +kernel))
example : sameDaemon exBusy (handleMessage (some "c1") (some (.obj [("command", .str "stop"),
      ("properties", .obj [("name", .str "B"), ("waiting", .bool true)])])) exBusy).2 :=
  C11_message_conflict_only_replies _ _ _ "stop" rfl (by decide +kernel) (.inr (by decide +kernel))
example : sameDaemon exFree (handleMessage (some "c1") (some (.obj [("command", .str "frobnicate")])) exFree).2 :=
  C11_unknown_command_only_replies _ _ _ (fun name h => by cases h; decide +kernel)
example : sameDaemon exFree (handleMessage (some "c1") (some (.obj [("command", .str "stop"),
      ("properties", .arr [])])) exFree).2 :=
  C11_bad_properties_only_replies _ _ _ rfl

/-- 8. the failing option first: nothing is applied -/
example : validateExecute "set" (.obj [("name", .str "a"), ("options",
      .obj [("uid", .str "nosuchuser"), ("numprocesses", .int 3)])]) f4State
    = (.error (.other "ValueError"), f4State) :=
  C11_set_exec_error_partial _ _ 1 "uid" (.str "nosuchuser") [("numprocesses", .int 3)]
    (by rw [not_busy_iff]; exact ⟨by decide +kernel, by decide +kernel⟩)
    ⟨"a", rfl, by decide +kernel⟩ rfl (by decide +kernel) (by decide +kernel) (by decide +kernel)

/-- converse theorems: their hypothesis (an error answer) is satisfiable -/
example : (validateExecute "add" (.obj [("name", .str "b"), ("cmd", .str "sleep 1")]) exFree).2 = exFree := by
  obtain ⟨e, he⟩ := C11_add_duplicate_noop (.obj [("name", .str "b"), ("cmd", .str "sleep 1")]) exFree "b" rfl
    (by decide +kernel)
  exact C11_add_error_noop _ _ e (by rw [he])
example : (validateExecute "stop" (.obj [("name", .str "B"), ("match", .str "simple")]) exBusy).2 = exBusy :=
  C11_refusal_noop "stop" (by decide +kernel) _ _ .conflict
    (by rw [C11_conflict_start_stop_restart_simple "stop" (.inr (.inl rfl)) _ _ 2 (.inr (by decide +kernel))
          ⟨"B", rfl, by decide +kernel⟩ rfl]) rfl
example : (validateExecute "set" (.obj [("name", .str "NoSuch"), ("options", .obj [("numprocesses", .int 2)])]) exFree).2
    = exFree := by
  obtain ⟨e, he, hr⟩ := C11_unknown_watcher_noop "set" (.inr (.inr (.inr (.inr rfl))))
    (.obj [("name", .str "NoSuch"), ("options", .obj [("numprocesses", .int 2)])]) exFree
    (unknownWatcher_of_not_key _ _ (by decide +kernel))
  exact C11_refusal_noop "set" (by decide +kernel) _ _ e (by rw [he]) hr

/-- 9. `options` / `get` while the `stop` holds the slot: answered from the record of `B` (asked for as `b`) -/
example : (validateExecute "options" (.obj [("name", .str "b")]) exBusy).1 = .ok (.value
    "options=graceful_timeout:300;max_age:0;max_retry:5;numprocesses:2;on_demand:false;priority:0;respawn:true;send_hup:false;singleton:false;stop_children:false;stop_signal:15;warmup_delay:0") := by
  rw [C11_options_reply _ _ "b" 2 rfl (by decide +kernel)]
  have : optionsBody (getW 2 exBusy).1 =
      "options=graceful_timeout:300;max_age:0;max_retry:5;numprocesses:2;on_demand:false;priority:0;respawn:true;send_hup:false;singleton:false;stop_children:false;stop_signal:15;warmup_delay:0" := by
    decide +kernel
  simp only [this]
def C11.okBody : R ExecRes → Option String
  | .ok (.value b) => some b
  | _ => none
example : validateExecute "get" (.obj [("name", .str "solo"), ("keys", .arr [.str "singleton", .str "cmd", .str "numprocesses"])])
    exBusy = (getBody (getW 3 exBusy).1 (.arr [.str "singleton", .str "cmd", .str "numprocesses"]), exBusy) :=
  C11_get_reply _ _ "solo" 3 _ rfl rfl (by decide +kernel)
example : okBody (getBody (getW 3 exBusy).1 (.arr [.str "singleton", .str "cmd", .str "numprocesses"]))
    = some "options=numprocesses:1;singleton:true" := by
  decide +kernel
example : validateExecute "get" (.obj [("name", .str "a"), ("keys", .arr [.str "numprocesses", .str "autostart"])]) exBusy
    = (.error .message, exBusy) :=
  C11_get_unknown_key_noop _ _ "a" 1 _ (.str "autostart") rfl rfl (by decide +kernel) (by simp) (by decide +kernel)
example : (validateExecute "get" (.obj [("name", .str "a"), ("keys", .null)]) exFree).1 = .error (.other "TypeError") := by
  rw [C11_get_reply _ _ "a" 1 _ rfl rfl (by decide +kernel)]
  rfl
example : sameDaemon exBusy (handleMessage (some "c1") (some (.obj [("id", .int 4), ("command", .str "get"),
      ("properties", .obj [("name", .str "b"), ("keys", .arr [.str "nosuch"])])])) exBusy).2 :=
  C11_message_readonly_options_only_replies _ _ _ "get" rfl (by decide +kernel)
/-- the refusal of the `stop` above is followed by the same `options` answer -/
example : validateExecute "options" (.obj [("name", .str "B")])
      (validateExecute "stop" (.obj [("name", .str "B"), ("match", .str "simple")]) exBusy).2
    = validateExecute "options" (.obj [("name", .str "B")]) exBusy :=
  (C11_refusal_same_options "stop" (by decide +kernel) _ _ .conflict
    (by rw [C11_conflict_start_stop_restart_simple "stop" (.inr (.inl rfl)) _ _ 2 (.inr (by decide +kernel))
          ⟨"B", rfl, by decide +kernel⟩ rfl]) rfl _).1

end Circus.Core
