import CircusProofs.Core.EventInv
/-!
# C09 along all runs — the published `spawn` / `reap` events per pid

Props/C09.lean has the per-call theorems.  Here, over every run of the core model from
`initState cfg …` (any op list: requests over several watchers, hook outcomes, exec failures,
deaths at every kernel-call boundary, reloads, on-demand watchers …):

* `C09_at_most_one_reap_event_along_runs` — no pid ever gets more than one `reap` event;
* `C09_at_most_one_spawn_event_along_runs` — nor more than one `spawn` event;
* `C09_spawn_before_reap_along_runs` — a `reap` event for a pid is preceded by the `spawn` event for
  that pid, or the pid has no `spawn` event in the whole log.  The second case is real: a worker
  rejected by the `after_spawn` hook is adopted (listed), never announced
  (`C09_no_spawn_event_on_veto` in Props/C09.lean) and, when `_stop` or a check reaps it before the
  detached kill's callback pops it, gets a `reap` event (`C09_counterexample_reap_without_spawn`:
  a concrete run).  Workers adopted while the daemon hangs or after the PUB socket was closed are
  not announced either — but then nothing at all is published any more, in particular no `reap`.
* `C09_unannounced_listed_pid_is_rejected_along_runs` — which listed pids have no `spawn` event:
  while events are being published (daemon not hung, PUB socket open) every listed pid has exactly
  one `spawn` event, or it is an `after_spawn`-rejected worker whose removal is pending (the
  `popProc` done-callback of its detached kill is still attached to the kill's future or sits on
  the ready queue).  So a subscriber misses exactly the rejected workers.
* `C09_no_reap_event_while_listed`, `C09_no_event_for_future_pid`: a listed pid has no `reap` event
  yet; no event mentions a pid the kernel has not handed out.

Mechanism (Core/EventInv.lean): `EvInv` on the `E` chain of Generic.lean — `emitEv` only for the
other topics, `reap_process` and `spawn_process` as composite obligations.
-/
namespace Circus.Core

/-- **no pid ever gets more than one `reap` event** -/
theorem C09_at_most_one_reap_event_along_runs (cfg : List Watcher) (behavs : List Behav) (warm : Nat)
    (hcfg : ∀ w ∈ cfg, w.pids = []) (ops : List Op) (p : Nat) :
    reapCount p (run (initState cfg behavs warm) ops).log ≤ 1 :=
  (evInv_run _ ops (evInv_init cfg behavs warm hcfg)).reapLe p

/-- **no pid ever gets more than one `spawn` event** -/
theorem C09_at_most_one_spawn_event_along_runs (cfg : List Watcher) (behavs : List Behav) (warm : Nat)
    (hcfg : ∀ w ∈ cfg, w.pids = []) (ops : List Op) (p : Nat) :
    spawnCount p (run (initState cfg behavs warm) ops).log ≤ 1 :=
  (evInv_run _ ops (evInv_init cfg behavs warm hcfg)).spawnLe p

theorem isSpawnOf_iff {o : Obs} {p : Nat} : o.isSpawnOf p = true ↔ ∃ w x, o = Obs.ev w "spawn" (some p) x := by
  constructor
  · intro h
    cases o with
    | ev w t q x =>
      cases q with
      | none => simp [Obs.isSpawnOf] at h
      | some q =>
        simp only [Obs.isSpawnOf, Bool.and_eq_true, beq_iff_eq] at h
        exact ⟨w, x, by rw [h.1, h.2]⟩
    | _ => simp [Obs.isSpawnOf] at h
  · rintro ⟨w, x, rfl⟩
    simp [Obs.isSpawnOf]

theorem isReapOf_ev (w x : String) (p : Nat) : (Obs.ev w "reap" (some p) x).isReapOf p = true := by
  simp [Obs.isReapOf]

/-- the order property in the form "what precedes a `reap` event" -/
theorem spawnFirst_before {log : List Obs} (h : SpawnFirst log) {pre post : List Obs} {w x : String} {p : Nat}
    (hlog : log = pre ++ Obs.ev w "reap" (some p) x :: post) :
    (∃ w' x', Obs.ev w' "spawn" (some p) x' ∈ pre) ∨ (∀ w' x', Obs.ev w' "spawn" (some p) x' ∉ log) := by
  by_cases hex : ∃ w' x', Obs.ev w' "spawn" (some p) x' ∈ log
  · left
    obtain ⟨w', x', hm⟩ := hex
    rw [hlog] at hm
    rcases List.mem_append.mp hm with hm | hm
    · exact ⟨w', x', hm⟩
    · rcases List.mem_cons.mp hm with hm | hm
      · simp at hm
      · exfalso
        obtain ⟨a, b, hab⟩ := List.append_of_mem hm
        have hdec : log = (pre ++ Obs.ev w "reap" (some p) x :: a) ++ Obs.ev w' "spawn" (some p) x' :: b := by
          rw [hlog, hab]; simp
        have := h p _ _ _ hdec (isSpawnOf_iff.mpr ⟨w', x', rfl⟩)
        rw [reapCount_append] at this
        have h1 : 1 ≤ reapCount p (Obs.ev w "reap" (some p) x :: a) := by
          simp [reapCount, isReapOf_ev]
        omega
  · right
    intro w' x' hm
    exact hex ⟨w', x', hm⟩

/-- **`spawn` before `reap`**: wherever a `reap` event for `p` stands in the log of a reachable
    state, the `spawn` event for `p` stands before it — or `p` has no `spawn` event anywhere in the
    log (an `after_spawn`-rejected worker; see the header). -/
theorem C09_spawn_before_reap_along_runs (cfg : List Watcher) (behavs : List Behav) (warm : Nat)
    (hcfg : ∀ w ∈ cfg, w.pids = []) (ops : List Op) (p : Nat) (pre post : List Obs) (w x : String)
    (hlog : (run (initState cfg behavs warm) ops).log = pre ++ Obs.ev w "reap" (some p) x :: post) :
    (∃ w' x', Obs.ev w' "spawn" (some p) x' ∈ pre) ∨
    (∀ w' x', Obs.ev w' "spawn" (some p) x' ∉ (run (initState cfg behavs warm) ops).log) :=
  spawnFirst_before (evInv_run _ ops (evInv_init cfg behavs warm hcfg)).order hlog

/-- … equivalently: no `spawn` event for a pid is ever published after a `reap` event for it -/
theorem C09_no_spawn_after_reap_along_runs (cfg : List Watcher) (behavs : List Behav) (warm : Nat)
    (hcfg : ∀ w ∈ cfg, w.pids = []) (ops : List Op) (p : Nat) (pre post : List Obs) (w x : String)
    (hlog : (run (initState cfg behavs warm) ops).log = pre ++ Obs.ev w "spawn" (some p) x :: post) :
    reapCount p pre = 0 :=
  (evInv_run _ ops (evInv_init cfg behavs warm hcfg)).order p pre _ post hlog (isSpawnOf_iff.mpr ⟨w, x, rfl⟩)

/-- **a listed pid has not been reaped**: in every reachable state no `reap` event exists for a pid
    some watcher still lists (the event follows the pop) -/
theorem C09_no_reap_event_while_listed (cfg : List Watcher) (behavs : List Behav) (warm : Nat)
    (hcfg : ∀ w ∈ cfg, w.pids = []) (ops : List Op) :
    ∀ w ∈ (run (initState cfg behavs warm) ops).ws, ∀ p ∈ w.pids,
      reapCount p (run (initState cfg behavs warm) ops).log = 0 :=
  (evInv_run _ ops (evInv_init cfg behavs warm hcfg)).listed

/-- **no event about the future**: neither a `reap` nor a `spawn` event mentions a pid the kernel has
    not handed out yet -/
theorem C09_no_event_for_future_pid (cfg : List Watcher) (behavs : List Behav) (warm : Nat)
    (hcfg : ∀ w ∈ cfg, w.pids = []) (ops : List Op) (p : Nat)
    (hp : (run (initState cfg behavs warm) ops).k.nextPid ≤ p) :
    reapCount p (run (initState cfg behavs warm) ops).log = 0 ∧
    spawnCount p (run (initState cfg behavs warm) ops).log = 0 :=
  (evInv_run _ ops (evInv_init cfg behavs warm hcfg)).fresh p hp

/-- **every listed worker is announced — except the rejected ones, until they are popped**: in every
    reachable state in which events are still published (the daemon does not hang, the PUB socket is
    open), every pid a watcher lists has exactly one `spawn` event, or the `popProc` callback that
    removes it (registered when the `after_spawn` hook rejected it) is pending on the future of its
    kill or on the ready queue. -/
theorem C09_unannounced_listed_pid_is_rejected_along_runs (cfg : List Watcher) (behavs : List Behav) (warm : Nat)
    (hcfg : ∀ w ∈ cfg, w.pids = []) (ops : List Op)
    (hb : (run (initState cfg behavs warm) ops).blocked = false)
    (hpub : (run (initState cfg behavs warm) ops).a.pubClosed = false) :
    ∀ w ∈ (run (initState cfg behavs warm) ops).ws, ∀ p ∈ w.pids,
      spawnCount p (run (initState cfg behavs warm) ops).log = 1 ∨
      PopPendingFor w.uid p (run (initState cfg behavs warm) ops) := by
  intro w hw p hp
  have h := annInv_run _ ops (annInv_init cfg behavs warm hcfg) ⟨hb, hpub⟩ w hw p hp
  have hle := C09_at_most_one_spawn_event_along_runs cfg behavs warm hcfg ops p
  rcases h with h | h | h
  · left; omega
  · exact Or.inr h
  · exact absurd h id

/-! ## concrete runs -/

def c09Cfg : List Watcher := [{ name := "a", np := 2 }]
/-- two workers, one dies and is replaced -/
def c09Run : State := run (initState c09Cfg [{}] 0) [.start, .wake, .wake, .wake, .die 100 9, .check, .wake, .wake]
/-- a watcher whose `after_spawn` hook rejects every worker -/
def c09Veto : List Watcher := [{ name := "v", hooks := [("after_spawn", { outs := ["false"], ignore := false })] }]

example : ∀ w ∈ c09Cfg, w.pids = [] := by decide
example : reapCount 100 c09Run.log = 1 ∧ spawnCount 100 c09Run.log = 1 ∧ reapCount 101 c09Run.log = 0 ∧
    spawnCount 101 c09Run.log = 1 ∧ spawnCount 102 c09Run.log = 1 ∧ spawnCount 103 c09Run.log = 0 ∧
    c09Run.ws.map (·.pids) = [[101, 102]] ∧ c09Run.k.nextPid = 103 := by decide +kernel

/-- **the unconditional "a `spawn` event precedes every `reap` event" is false**: a worker rejected
    by the `after_spawn` hook is never announced, but the `_stop` that follows the failed start reaps
    it with a `reap` event (`Arbiter.start` on a watcher with a vetoing hook; one op). -/
theorem C09_counterexample_reap_without_spawn :
    reapCount 100 (run (initState c09Veto [{}] 0) [.start]).log = 1 ∧
    spawnCount 100 (run (initState c09Veto [{}] 0) [.start]).log = 0 ∧
    (run (initState c09Veto [{}] 0) [.start]).blocked = false ∧
    (run (initState c09Veto [{}] 0) [.start]).a.pubClosed = false := by decide +kernel

-- a rejected worker that ignores SIGTERM: still listed, not announced, its pop pending on the future of the kill
example : (run (initState c09Veto [{ term := none }] 0) [.start]).ws.map (·.pids) = [[100]] ∧
    spawnCount 100 (run (initState c09Veto [{ term := none }] 0) [.start]).log = 0 ∧
    (run (initState c09Veto [{ term := none }] 0) [.start]).blocked = false ∧
    (run (initState c09Veto [{ term := none }] 0) [.start]).a.pubClosed = false ∧
    (run (initState c09Veto [{ term := none }] 0) [.start]).tops.any
      (fun t => t.cbs.any fun cb => match cb with | .popProc u p => u == 1 && p == 100 | _ => false) = true := by
  decide +kernel

end Circus.Core
