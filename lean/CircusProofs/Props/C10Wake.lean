import CircusProofs.Core.WakeHeld
/-!
# C10 / C05 — no lost wake-up: the exclusive slot cannot be orphaned, pending requests stay held

`Props/C10.lean` shows that a taken slot always has exactly one `release` callback registered.
What it leaves open is whether the future carrying that callback can still complete: a coroutine
whose continuation got lost in the frame heap would wedge the slot for ever.  This file closes that
gap on the core model, for every operation list:

* `C10_wake_invariant` — the token invariant `Wake` holds in every reachable state;
* `C10_no_lost_wakeup` — in every reachable state in which the daemon does not hang in a blocking
  wait (`blocked`) and the interpreter's fuel did not run out, every suspended coroutine frame and
  every pending top-level future is `Held`: a timer, a queued callback, or a younger suspended frame
  that is itself held will deliver to it;
* `C10_holder_chain` — explicitly: a finite chain of suspended frames with strictly increasing
  ids that ends in a pending timer (at step boundaries the loop's ready queue is empty);
* `C10_slot_not_orphaned` / `C10_taken_means_timer` / `C10_quiescent_means_free` — the slot
  corollaries (with `SlotInv`): a taken slot has its `release` on a pending future held by such a
  chain; in particular a timer is pending, and a state without pending timers has no suspended
  coroutine, no pending future and a free slot;
* `C05_pending_reply_held` — a request whose reply is still owed sits on a held future.

The two escapes are exactly the places where the model itself gives up: `blocked` (the real
daemon spins for ever in `reap_process`, finding F-blocked of C02/C04) and `outOfFuel` (the
constant 100000 bounding nested task activations; never observed by the harness).
-/
namespace Circus.Core

/-- the model did not escape: the daemon is not hanging and the fuel never ran out -/
def Unescaped (s : State) : Prop := s.blocked = false ∧ s.log.any Obs.isOOF = false

instance (s : State) : Decidable (Unescaped s) := by unfold Unescaped; infer_instance

theorem Unescaped.not_esc {s : State} (h : Unescaped s) : ¬ Esc s := by
  rintro (e | e)
  · rw [h.1] at e; cases e
  · rw [h.2] at e; cases e

theorem Wake.core {s : State} (hw : Wake s []) (ha : Unescaped s) : WakeCore s [] := by
  rcases hw with e | c
  · exact absurd e ha.not_esc
  · exact c

theorem AtRest.ready {s : State} (hr : AtRest s) (ha : Unescaped s) : s.ready = [] := by
  rcases hr with h | e
  · exact h
  · exact absurd e ha.not_esc

/-- **the wake-up invariant holds in every reachable state**: frame, timer and future ids are
    pairwise distinct and below the id counter, every waiter points to something older than its
    holder, and every suspended frame / pending future has at least as many tokens (frames waiting
    on it, timers, queued callbacks) as results it still needs — or the model escaped. -/
theorem C10_wake_invariant (cfg : List Watcher) (bs : List Behav) (aw : Nat) (ops : List Op) :
    Wake (run (initState cfg bs aw) ops) [] :=
  wake_run _ ops (wake_init cfg bs aw)

/-- **the interpreter never loses the waiter of a coroutine it runs**: started with the waiter of a
    call in the hand, `exec` (any fuel) ends with the hand empty — the waiter was delivered to, or is
    now held by a frame, a timer or a ready entry of the state. -/
theorem C10_exec_consumes_waiter (n : Nat) (c : Call) (w : Waiter) (s : State) (h : Wake s w.tl) :
    Wake (exec n (.call c w) s).2 [] :=
  (exec_wake n).call c w [] s (by simpa using h)

/-- **no lost wake-up**: in every reachable state that has not escaped, every suspended coroutine
    and every pending top-level future is held — something in the state will deliver to it. -/
theorem C10_no_lost_wakeup (cfg : List Watcher) (bs : List Behav) (aw : Nat) (ops : List Op) :
    let s := run (initState cfg bs aw) ops
    Unescaped s → (∀ f ∈ s.frames, Held s (.frame f.fid)) ∧ (∀ t ∈ s.tops, Held s (.top t.tid)) := by
  intro s ha
  have c := (C10_wake_invariant cfg bs aw ops).core ha
  exact ⟨c.frames_held, c.tops_held⟩

/-- **at every step boundary the event loop's ready queue is empty** (the loop runs to quiescence) -/
theorem C10_ready_drained (cfg : List Watcher) (bs : List Behav) (aw : Nat) (ops : List Op) :
    let s := run (initState cfg bs aw) ops
    Unescaped s → s.ready = [] :=
  fun ha => (rest_run _ ops (rest_init cfg bs aw)).ready ha

/-- **the holder relation is well-founded — explicit chains**: every suspended frame and every
    pending future of a reachable live state has a finite chain of suspended frames `g₁, …, gₖ` —
    `g₁` delivers to it, `gᵢ₊₁` delivers to `gᵢ`, ids strictly increasing (children are younger
    than their parents) — whose last element is the target of a pending timer. -/
theorem C10_holder_chain (cfg : List Watcher) (bs : List Behav) (aw : Nat) (ops : List Op) :
    let s := run (initState cfg bs aw) ops
    Unescaped s → ∀ t : Tgt, ((∃ f ∈ s.frames, t = .frame f.fid) ∨ (∃ p ∈ s.tops, t = .top p.tid)) →
      ∃ gs : List Frame, IsChain s t gs ∧ (∀ g ∈ gs, t.id < g.fid) ∧
        List.Pairwise (fun a b => a.fid < b.fid) gs ∧ s.sleepers ≠ [] := by
  intro s ha t ht
  have c := (C10_wake_invariant cfg bs aw ops).core ha
  have hh : Held s t := by
    rcases ht with ⟨f, hf, rfl⟩ | ⟨p, hp, rfl⟩
    · exact c.frames_held f hf
    · exact c.tops_held p hp
  obtain ⟨gs, hgs⟩ := hh.chain
  have hinc := hgs.increasing c
  exact ⟨gs, hgs, hinc.1, hinc.2, hh.timer (C10_ready_drained cfg bs aw ops ha)⟩

theorem relTops_pos {ts : List TopFut} (h : 0 < relTops ts) : ∃ t ∈ ts, 0 < relCbs t.cbs := by
  induction ts with
  | nil => simp [relTops] at h
  | cons x xs ih =>
    simp only [relTops, List.map_cons, List.sum_cons] at h
    by_cases hx : 0 < relCbs x.cbs
    · exact ⟨x, List.mem_cons_self, hx⟩
    · obtain ⟨t, ht, h'⟩ := ih (by unfold relTops; omega)
      exact ⟨t, List.mem_cons_of_mem _ ht, h'⟩

/-- the slot corollary for any state with the two invariants: the pending `release` is queued on
    the loop, or sits on a pending future that is held -/
theorem slot_not_orphaned_of {s : State} (c : WakeCore s []) (hs : SlotInv s) (ht : s.a.slot.isSome = true) :
    (∃ v, Ready.topCb .release v ∈ s.ready) ∨
    (∃ t ∈ s.tops, TopCb.release ∈ t.cbs ∧ Held s (.top t.tid)) := by
  have h1 : relTops s.tops + relReady s.ready = 1 := hs.2.mp ht
  by_cases hr : relReady s.ready = 0
  · right
    have h2 : 0 < relTops s.tops := by omega
    obtain ⟨t, htm, hpos⟩ := relTops_pos h2
    refine ⟨t, htm, ?_, c.tops_held t htm⟩
    unfold relCbs at hpos
    obtain ⟨cb, hcb, hrel⟩ := List.countP_pos_iff.mp hpos
    cases cb <;> simp [TopCb.isRelease] at hrel
    exact hcb
  · left
    have h2 : 0 < relReady s.ready := by omega
    unfold relReady at h2
    obtain ⟨r, hr', hrel⟩ := List.countP_pos_iff.mp h2
    cases r with
    | topCb cb v =>
      cases cb <;> simp [Ready.isRelease] at hrel
      exact ⟨v, hr'⟩
    | _ => simp [Ready.isRelease] at hrel

/-- **the exclusive slot cannot be orphaned**: in every reachable live state with the slot taken
    there is a pending top-level future that carries the `release` callback and is held by a chain
    of suspended coroutines ending in a pending timer. -/
theorem C10_slot_not_orphaned (cfg : List Watcher) (bs : List Behav) (aw : Nat) (ops : List Op) :
    let s := run (initState cfg bs aw) ops
    Unescaped s → s.a.slot.isSome = true →
      ∃ t ∈ s.tops, TopCb.release ∈ t.cbs ∧ Held s (.top t.tid) ∧ s.sleepers ≠ [] := by
  intro s ha ht
  have c := (C10_wake_invariant cfg bs aw ops).core ha
  have hrd := C10_ready_drained cfg bs aw ops ha
  rcases slot_not_orphaned_of c (slotInv_run _ ops (slotInv_init cfg bs aw)) ht with ⟨v, hv⟩ | ⟨t, htm, hrel, hh⟩
  · rw [show s.ready = [] from hrd] at hv; cases hv
  · exact ⟨t, htm, hrel, hh, hh.timer hrd⟩

/-- **no wedged slot**: whenever the slot is taken at rest, a timer is pending — the stimulus that
    lets the exclusive command make progress (`wake`) is enabled. -/
theorem C10_taken_means_timer (cfg : List Watcher) (bs : List Behav) (aw : Nat) (ops : List Op) :
    let s := run (initState cfg bs aw) ops
    Unescaped s → s.a.slot.isSome = true → s.sleepers ≠ [] := by
  intro s ha ht
  obtain ⟨_, _, _, _, h⟩ := C10_slot_not_orphaned cfg bs aw ops ha ht
  exact h

/-- **quiescent ⇒ nothing in flight**: a reachable live state without pending timers has no
    suspended coroutine, no pending future, and the exclusive slot is free. -/
theorem C10_quiescent_means_free (cfg : List Watcher) (bs : List Behav) (aw : Nat) (ops : List Op) :
    let s := run (initState cfg bs aw) ops
    Unescaped s → s.sleepers = [] → s.frames = [] ∧ s.tops = [] ∧ s.a.slot = none := by
  intro s ha hsl
  have c := (C10_wake_invariant cfg bs aw ops).core ha
  have hrd := C10_ready_drained cfg bs aw ops ha
  have hf : s.frames = [] := by
    cases hfr : s.frames with
    | nil => rfl
    | cons f fs =>
      exact absurd hsl ((c.frames_held f (by rw [hfr]; exact List.mem_cons_self)).timer hrd)
  have htp : s.tops = [] := by
    cases htp : s.tops with
    | nil => rfl
    | cons t ts =>
      exact absurd hsl ((c.tops_held t (by rw [htp]; exact List.mem_cons_self)).timer hrd)
  refine ⟨hf, htp, ?_⟩
  cases hslot : s.a.slot with
  | none => rfl
  | some x => exact absurd hsl (C10_taken_means_timer cfg bs aw ops ha (by rw [hslot]; rfl))

/-- **every accepted request finishes unless its coroutine is still legitimately waiting**: a
    pending future that owes a reply (a `waiting` request, or the deferred error report of any
    request) is held by a chain ending in a pending timer — it cannot be forgotten. -/
theorem C05_pending_reply_held (cfg : List Watcher) (bs : List Behav) (aw : Nat) (ops : List Op) :
    let s := run (initState cfg bs aw) ops
    Unescaped s → ∀ t ∈ s.tops, ∀ cid id cast cmd send xf, TopCb.reply cid id cast cmd send xf ∈ t.cbs →
      Held s (.top t.tid) ∧ s.sleepers ≠ [] := by
  intro s ha t ht _ _ _ _ _ _ _
  have c := (C10_wake_invariant cfg bs aw ops).core ha
  exact ⟨c.tops_held t ht, (c.tops_held t ht).timer (C10_ready_drained cfg bs aw ops ha)⟩

/-! ## non-vacuity: a stop in progress with two stubborn workers -/

/-- executable chain check: `ids` are the fids of the chain -/
def chainB (s : State) : Tgt → List Nat → Bool
  | t, [] => s.sleepers.any (fun sl => sl.waiter.tl.contains t) || s.ready.any (fun r => r.tl.contains t)
  | t, i :: is =>
    match s.frames.find? (fun g => g.fid = i) with
    | some g => g.parent.tl.contains t && chainB s (.frame i) is
    | none => false

theorem chainB_sound {s : State} : ∀ {t : Tgt} {ids : List Nat}, chainB s t ids = true →
    ∃ gs : List Frame, gs.map (·.fid) = ids ∧ IsChain s t gs
  | t, [], h => by
    refine ⟨[], rfl, ?_⟩
    simp only [chainB, Bool.or_eq_true, List.any_eq_true, List.contains_iff_mem] at h
    simpa only [IsChain] using h
  | t, i :: is, h => by
    simp only [chainB] at h
    split at h
    · rename_i g hg
      simp only [Bool.and_eq_true, List.contains_iff_mem] at h
      obtain ⟨gs, hmap, hch⟩ := chainB_sound h.2
      obtain ⟨hmem, hfid⟩ := wk_find_frame hg
      refine ⟨g :: gs, by simp [hmap, hfid], ?_⟩
      simp only [IsChain]
      exact ⟨hmem, h.1, by rw [hfid]; exact hch⟩
    · cases h

def c10wReq (cmd : String) (props : List (String × JVal)) : Op :=
  .req "c" (some (.obj [("command", .str cmd), ("properties", .obj props), ("id", .int 9)]))

def c10wCfg : List Watcher := [{ name := "a", np := 2, graceful := 300, warmup := 50 }]
/-- two workers that ignore SIGTERM; started, then a `stop` with `waiting` arrives: the stop is in
    its graceful-timeout polling loop -/
def c10wS : State :=
  run (initState c10wCfg [{ term := none, killLat := 30 }] 0)
    [.start, .wake, .wake, .wake, c10wReq "stop" [("name", .str "a"), ("waiting", .bool true)]]

-- the slot is taken by the stop, its future (tid 11) carries the release and the reply, six frames
-- are suspended, two poll timers are pending, nothing is queued
example : Unescaped c10wS ∧ c10wS.a.slot = some "watcher_stop" ∧ c10wS.frames.map (·.fid) = [12, 13, 14, 15, 16, 18] ∧
    c10wS.sleepers.map (·.sid) = [17, 19] ∧ c10wS.tops.map (·.tid) = [11] ∧ c10wS.ready.length = 0 ∧
    (c10wS.tops.all fun t => t.cbs.any TopCb.isRelease) = true := by decide +kernel

-- the invariant itself, evaluated
example : WakeCore c10wS [] := by decide +kernel

-- the chain  release ← future 11 ← frame 12 (Watcher.stop wrapper) ← 13 (_stop after kill) ← 14 (kill_processes)
--   ← 15 (gen.multi, 2 children) ← 16 (kill_process poll loop of pid 100) ← timer 17
example : ∃ gs : List Frame, gs.map (·.fid) = [12, 13, 14, 15, 16] ∧ IsChain c10wS (.top 11) gs :=
  chainB_sound (by decide +kernel)
-- … and the second child of the multi frame holds it as well
example : ∃ gs : List Frame, gs.map (·.fid) = [18] ∧ IsChain c10wS (.frame 15) gs :=
  chainB_sound (by decide +kernel)

-- the theorems instantiated on this run
example : ∃ t ∈ c10wS.tops, TopCb.release ∈ t.cbs ∧ Held c10wS (.top t.tid) ∧ c10wS.sleepers ≠ [] :=
  C10_slot_not_orphaned c10wCfg _ 0 _ (by decide +kernel) (by decide +kernel)

-- both timers fire until the graceful timeout is over, SIGKILL, reaped: nothing is left and the slot is free
example : Unescaped (run c10wS [.wake, .wake, .wake, .wake, .wake, .wake]) ∧
    (run c10wS [.wake, .wake, .wake, .wake, .wake, .wake]).sleepers.length = 0 ∧
    (run c10wS [.wake, .wake, .wake, .wake, .wake, .wake]).a.slot = none ∧
    (run c10wS [.wake, .wake, .wake, .wake, .wake, .wake]).frames.length = 0 := by decide +kernel

/-! more reachable states in the middle of things, the invariant evaluated on each -/

/-- workers are vetoed by `after_spawn` (detached kill with its own future, `popProc`), the
    `before_stop` hook raises; a restart is in progress when SIGTERM-ignoring workers are polled -/
def c10wHook : List Watcher :=
  [{ name := "v", np := 2, hooks := [("after_spawn", { outs := ["false", "true", "raise"], ignore := false }),
                                      ("before_stop", { outs := ["raise"], ignore := false })] }]
def c10wS2 : State :=
  run (initState c10wHook [{ term := none, killLat := 30 }] 0)
    [.start, .wake, .wake, .wake, .wake, .wake, .wake, .check, .wake, .wake, c10wReq "restart" [("name", .str "v")], .wake]

example : Unescaped c10wS2 ∧ c10wS2.a.slot = some "watcher_restart" ∧ c10wS2.frames.length = 10 ∧ c10wS2.sleepers.length = 3 ∧
    c10wS2.tops.length = 2 ∧ WakeCore c10wS2 [] := by decide +kernel

/-- an on-demand watcher woken by a socket event next to an ordinary one, a worker dies, everything is stopped -/
def c10wOD : List Watcher := [{ name := "o", np := 1, onDemand := true, graceful := 200 }, { name := "a", np := 1 }]
def c10wS3 : State :=
  run (initState c10wOD [{ term := none, killLat := 30 }] 0)
    [.start, .wake, .wake, .check, .sockev true, .check, .wake, .die 100 9, .check, .wake, c10wReq "stop" [], .wake]

example : Unescaped c10wS3 ∧ c10wS3.a.slot = some "arbiter_stop_watchers" ∧ c10wS3.frames.length = 11 ∧
    c10wS3.sleepers.length = 3 ∧ c10wS3.tops.length = 2 ∧ WakeCore c10wS3 [] := by decide +kernel

-- a blocked state is really excluded by `Unescaped` only: the invariant is stated for it, trivially
example : Wake { blocked := true, frames := [{ fid := 5, k := .ignore, parent := .none }] } [] := Or.inl (Or.inl rfl)
-- … and a frame nobody holds violates it
example : ¬ Wake { nextId := 9, frames := [{ fid := 5, k := .ignore, parent := .none }] } [] := by decide +kernel

end Circus.Core
