import CircusProofs.Lemmas.Config
/-!
# C16 — configuration files mean what the documentation says

Property theorems about `Circus.Config.getConfig`, the transliteration of `circus.config.get_config`
on the section list the ini reader produced (the reader itself is not modelled) and the daemon
environment.  All statements quantify over every section list, every environment and every
`to_signum` (a parameter).  Notation used in the docstrings:

* `genv = globalEnv osenv secs` : `os.environ` overlaid with the `[env]` section (values of `[env]`
  expanded against `os.environ`), `lenv = localEnv osenv secs` : the `[env]` section alone;
* `envSecVal secs n X` : the value the *last* `env:PATTERN` section (file order) that applies to the
  watcher name `n` and defines `X` gives to `X`;
* `s.items` : the pairs `cfg.items(section)` returns, i.e. the written options preceded by the
  `__name__` marker CPython 3's `RawConfigParser` keeps.

Where the code does not do what the property says (references in typed options, hooks, rlimits,
stop_signal; the `__name__` variable) the full statement is kept in a comment, the provable part is
named `…_partial`, and a `C16_counterexample_*` is proved by evaluation.
-/
namespace Circus.Config

/-! ## option typing -/

/-- the documented watcher options that `get_config` types itself, with the branch of the option
    loop that handles each (`free` = kept as the written string, like every undocumented option) -/
def optionTable : List (Str × Branch) :=
  [ (cp! "cmd", .raw), (cp! "args", .raw), (cp! "working_dir", .raw), (cp! "uid", .raw), (cp! "gid", .raw),
    (cp! "numprocesses", .int), (cp! "warmup_delay", .int), (cp! "max_retry", .int), (cp! "priority", .int),
    (cp! "executable", .strExp), (cp! "graceful_timeout", .float), (cp! "stop_signal", .signum),
    (cp! "on_demand", .bool), (cp! "shell", .bool), (cp! "send_hup", .bool), (cp! "stop_children", .bool),
    (cp! "close_child_stderr", .bool), (cp! "use_sockets", .bool), (cp! "singleton", .bool),
    (cp! "copy_env", .bool), (cp! "copy_path", .bool), (cp! "close_child_stdout", .bool),
    (cp! "check_flapping", .bool), (cp! "respawn", .bool), (cp! "autostart", .bool),
    (cp! "close_child_stdin", .bool),
    (cp! "shell_args", .free), (cp! "max_age", .free), (cp! "max_age_variance", .free),
    (cp! "stdin_socket", .free), (cp! "virtualenv", .free), (cp! "virtualenv_py_ver", .free) ]

/-- the guard chain of the option loop sends every documented option to the branch of the table -/
theorem C16_option_table : ∀ e ∈ optionTable, classify e.1 = e.2 ∧ e.2.scalar = true := by decide

theorem expandVal_defaults (env : Dict Str) (k : Str) :
    (dget defaults k).map (expandVal env) = dget defaults k := by
  rw [← dget_map]
  congr 1

/-- **option typing** — every watcher of the result comes from a `watcher:NAME` section, carries
    that name, and (option names distinct, as the reader guarantees) for every option `opt` typed
    by a scalar branch — in particular every option of `optionTable` —
    * if the section writes `opt = val`, the conversion `convScalar` of `val` succeeded
      (`int()`, `float()`, `to_bool`, `to_signum` on the text expanded with `genv`; the text itself
      for string options) and `watcher[opt]` is its result, strings being expanded once more at the
      end with the watcher's own environment layered over `genv`;
    * if the section does not write `opt`, `watcher[opt]` is the entry of `watcher_defaults()`.
    Read contrapositively: a text that `convScalar` rejects (ValueError) never yields a configuration. -/
theorem C16_option_typing (sig : Str → Option Nat) (osenv : Dict Str) (secs : List Section)
    (cfg : Config) (w : Watcher) (h : getConfig sig osenv secs = .ok cfg) (hw : w ∈ cfg.watchers) :
    ∃ s ∈ secs, startsWith (cp! "watcher:") s.name = true ∧ w.name = s.name.drop 8 ∧
      ((s.items.map (·.1)).Nodup →
        ∀ opt, (classify opt).scalar = true →
          (∀ val, (opt, val) ∈ s.kvs →
            ∃ v, convScalar sig (globalEnv osenv secs) opt val = .ok v ∧
              dget w.opts opt = some (expandVal (dupdate (globalEnv osenv secs) w.env) v)) ∧
          (opt ∉ s.items.map (·.1) → dget w.opts opt = dget defaults opt)) := by
  obtain ⟨s, w0, hs, hpre, hmk, rfl⟩ := getConfig_watcher sig osenv secs cfg w h hw
  obtain ⟨hname, _, hopts⟩ := mkWatcher_spec sig _ _ s w0 hmk
  refine ⟨s, hs, hpre, ?_, fun hnd opt hsc => ?_⟩
  · show (envAfter secs w0).name = _
    rw [(envAfter_fields secs w0).1, hname]
  · obtain ⟨hdef, hwr⟩ := hopts hnd
    have hopts' : (envAfter secs w0).opts = w0.opts := (envAfter_fields secs w0).2.1
    have henv : (finalExpand (globalEnv osenv secs) (envAfter secs w0)).env = (envAfter secs w0).env := rfl
    refine ⟨fun val hm => ?_, fun hnm => ?_⟩
    · obtain ⟨v, hv, hg⟩ := hwr opt val (by simp [Section.items, hm]) hsc
      refine ⟨v, hv, ?_⟩
      rw [dget_finalExpand_opts, hopts', hg, henv]; rfl
    · rw [dget_finalExpand_opts, hopts', hdef opt hnm, expandVal_defaults]

/-- **no section is dropped** — when `get_config` succeeds, every `watcher:NAME` section that
    writes at least one option yields a watcher called `NAME` (a section without options is
    skipped by the code: "Skip empty sections") -/
theorem C16_watcher_sections (sig : Str → Option Nat) (osenv : Dict Str) (secs : List Section)
    (cfg : Config) (h : getConfig sig osenv secs = .ok cfg) (s : Section) (hs : s ∈ secs)
    (hpre : startsWith (cp! "watcher:") s.name = true) (k v : Str) (hkv : (k, v) ∈ s.kvs)
    (hk : k ≠ cp! "__name__") :
    ∃ w ∈ cfg.watchers, w.name = s.name.drop 8 := by
  unfold getConfig at h
  simp only at h
  split at h
  · cases h
  · rename_i a hf
    cases h
    obtain ⟨w0, hw0, hmk⟩ := (firstPass_complete sig _ _ secs _ a hf).2 s hs hpre k v hkv hk
    refine ⟨finalExpand (globalEnv osenv secs) (envAfter secs w0), ?_, ?_⟩
    · simp only [List.mem_map]
      refine ⟨envAfter secs w0, ?_, rfl⟩
      rw [secondPass_eq_map, List.mem_map]
      exact ⟨w0, (mem_sortBy _ _ _).mpr hw0, rfl⟩
    · show (envAfter secs w0).name = _
      rw [(envAfter_fields secs w0).1, (mkWatcher_spec sig _ _ s w0 hmk).1]

/-- **stream options** — `stdout_stream.X = val` / `stderr_stream.X = val` (flag `b`: `true` =
    stderr) written in the section end up under `X` in the watcher's stream dict, as the written
    text expanded at the end with the watcher's environment layered over `genv`; an `X` that is
    not written is absent (the documented default: no stream options) -/
theorem C16_stream_options (sig : Str → Option Nat) (osenv : Dict Str) (secs : List Section)
    (cfg : Config) (w : Watcher) (b : Bool) (h : getConfig sig osenv secs = .ok cfg) (hw : w ∈ cfg.watchers) :
    ∃ s ∈ secs, startsWith (cp! "watcher:") s.name = true ∧ w.name = s.name.drop 8 ∧
      ((s.items.map (·.1)).Nodup →
        (∀ x val, (streamPfx b ++ 46 :: x, val) ∈ s.kvs →
          dget (streamOf b w) x = some (expand (dupdate (globalEnv osenv secs) w.env) val)) ∧
        (∀ x, streamPfx b ++ 46 :: x ∉ s.items.map (·.1) → dget (streamOf b w) x = none)) := by
  obtain ⟨s, w0, hs, hpre, hmk, rfl⟩ := getConfig_watcher sig osenv secs cfg w h hw
  obtain ⟨hname, _, _⟩ := mkWatcher_spec sig _ _ s w0 hmk
  refine ⟨s, hs, hpre, ?_, fun hnd => ?_⟩
  · show (envAfter secs w0).name = _
    rw [(envAfter_fields secs w0).1, hname]
  · obtain ⟨habs, hwr⟩ := mkWatcher_streams sig _ _ s w0 b hmk hnd
    have hst : streamOf b (envAfter secs w0) = streamOf b w0 := by
      obtain ⟨_, _, _, h4, h5, _⟩ := envAfter_fields secs w0
      cases b <;> simp [streamOf, h4, h5]
    have henv : (finalExpand (globalEnv osenv secs) (envAfter secs w0)).env = (envAfter secs w0).env := rfl
    refine ⟨fun x val hm => ?_, fun x hx => ?_⟩
    · rw [dget_finalExpand_stream, hst, hwr x val (by simp [Section.items, hm]), henv]; rfl
    · rw [dget_finalExpand_stream, hst, habs x hx]; rfl

/-- the conversion table behind `convScalar`, spelled out per kind (`to_bool`'s table included) -/
theorem C16_conversions (sig : Str → Option Nat) (genv : Dict Str) (val : Str) :
    convScalar sig genv (cp! "numprocesses") val =
      (match parseInt (expand genv val) with | some i => .ok (.int i) | none => .error .valueError) ∧
    convScalar sig genv (cp! "copy_env") val =
      (match toBool (expand genv val) with | some b => .ok (.bool b) | none => .error .valueError) ∧
    convScalar sig genv (cp! "stop_signal") val =
      (match sig val with | some n => .ok (.int n) | none => .error .valueError) ∧
    convScalar sig genv (cp! "cmd") val = .ok (.str val) ∧
    convScalar sig genv (cp! "executable") val = .ok (.str (expand genv val)) := by
  refine ⟨?_, ?_, ?_, ?_, ?_⟩ <;> rfl

/-- `to_bool`: exactly the eight documented words, in any letter case, blanks around them ignored -/
theorem C16_to_bool_table :
    [cp! "yes", cp! "true", cp! "on", cp! "1", cp! "YES", cp! " True ", cp! "oN"].map toBool
      = [some true, some true, some true, some true, some true, some true, some true] ∧
    [cp! "no", cp! "false", cp! "off", cp! "0", cp! "No", cp! "FALSE\t"].map toBool
      = [some false, some false, some false, some false, some false, some false] ∧
    [cp! "", cp! "2", cp! "maybe", cp! "y", cp! "o n"].map toBool = [none, none, none, none, none] := by
  decide

/-! ## environment precedence -/

theorem expandVal_eq_bool (env : Dict Str) (o : Option Val) (b : Bool) :
    o.map (expandVal env) = some (.bool b) ↔ o = some (.bool b) := by
  cases o with
  | none => simp
  | some v => cases v <;> simp [expandVal]

theorem dget_localEnv (osenv : Dict Str) (secs : List Section) (x : Str) :
    dget (localEnv osenv secs) x =
      match secs.find? (fun s => s.name = cp! "env") with
      | some s => lastVal (s.itemsExp osenv) x
      | none => none := by
  unfold localEnv
  cases secs.find? (fun s => s.name = cp! "env") with
  | none => rfl
  | some s => simp [dget_dupdate, lastVal_dictOf, dget]

theorem dget_globalEnv (osenv : Dict Str) (secs : List Section) (x : Str) :
    dget (globalEnv osenv secs) x = (dget (localEnv osenv secs) x).or (dget osenv x) := by
  unfold globalEnv
  rw [dget_dupdate, lastVal_eq_dget_of_nodup]
  unfold localEnv
  cases secs.find? (fun s => s.name = cp! "env") with
  | none => simp
  | some s => exact nodup_keys_dupdate _ _ (by simp)

/-- **environment precedence** — for every watcher `w` of the result and every name `X`:
    `w.env[X]` is what the last `env:PATTERN` section (file order) that applies to `w` and defines
    `X` says; else what the `[env]` section says; else, only with `copy_env`, what `os.environ`
    says; else `X` is absent.  Later matching sections override earlier ones by the definition of
    `envSecVal`; this is a closed formula over the section list, proved for all section lists. -/
theorem C16_env_precedence (sig : Str → Option Nat) (osenv : Dict Str) (secs : List Section)
    (cfg : Config) (w : Watcher) (h : getConfig sig osenv secs = .ok cfg) (hw : w ∈ cfg.watchers)
    (x : Str) :
    dget w.env x =
      (envSecVal secs w.name x).or
        ((dget (localEnv osenv secs) x).or
          (if dget w.opts (cp! "copy_env") = some (.bool true) then dget osenv x else none)) := by
  obtain ⟨s, w0, _, _, hmk, rfl⟩ := getConfig_watcher sig osenv secs cfg w h hw
  obtain ⟨_, henv0, _⟩ := mkWatcher_spec sig _ _ s w0 hmk
  have hopts' : (envAfter secs w0).opts = w0.opts := (envAfter_fields secs w0).2.1
  have hname' : (envAfter secs w0).name = w0.name := (envAfter_fields secs w0).1
  have hcopy : (dget (finalExpand (globalEnv osenv secs) (envAfter secs w0)).opts (cp! "copy_env")
      = some (.bool true)) ↔ (dget w0.opts (cp! "copy_env") = some (.bool true)) := by
    rw [dget_finalExpand_opts, hopts']; exact expandVal_eq_bool _ _ _
  show dget (envAfter secs w0).env x = (envSecVal secs (envAfter secs w0).name x).or _
  rw [dget_envAfter_env, hname', henv0]
  by_cases hc : dget w0.opts (cp! "copy_env") = some (.bool true)
  · rw [if_pos hc, if_pos (hcopy.mpr hc), dget_globalEnv]
  · rw [if_neg hc, if_neg (fun e => hc (hcopy.mp e))]
    cases dget (localEnv osenv secs) x <;> simp

/-- what `[env]` contributes: the last pair for `X` of the section called exactly `env`, its value
    expanded against `os.environ` (nothing when there is no such section) -/
theorem C16_env_section (osenv : Dict Str) (secs : List Section) (x : Str) :
    dget (localEnv osenv secs) x =
      match secs.find? (fun s => s.name = cp! "env") with
      | some s => lastVal (s.itemsExp osenv) x
      | none => none := dget_localEnv osenv secs x

/-- later sections override earlier ones: appending an applying section that defines `X` decides `X` -/
theorem C16_later_overrides (secs : List Section) (s : Section) (n x v : Str)
    (ha : applies s n = true) (hv : lastVal s.items x = some v) :
    envSecVal (secs ++ [s]) n x = some v := by
  induction secs with
  | nil => simp [envSecVal, ha, hv]
  | cons t r ih => simp [envSecVal, ih]

/-- … and a section that does not apply, or does not define `X`, changes nothing for `X` -/
theorem C16_unrelated_section (secs : List Section) (s : Section) (n x : Str)
    (h : applies s n = false ∨ lastVal s.items x = none) :
    envSecVal (secs ++ [s]) n x = envSecVal secs n x := by
  induction secs with
  | nil => rcases h with h | h <;> simp [envSecVal, h]
  | cons t r ih => simp [envSecVal, ih]

/-
Full statement of the property for the environment: "`w.env` holds exactly the variables the three
layers define".  The code adds `__name__`: `s.items` starts with `("__name__", section name)`, so
every `[env]`/`env:PATTERN` section "defines" a variable `__name__`.  `C16_env_precedence` above is
exact for the code because it is stated over `s.items`; for names other than `__name__` it is the
documented rule over the written options:
-/

/-- for every name but `__name__`, "the section defines X" means "X is written in the section" -/
theorem C16_env_precedence_written (s : Section) (x : Str) (hx : x ≠ cp! "__name__") :
    lastVal s.items x = lastVal s.kvs x := by
  simp only [Section.items, lastVal]
  cases lastVal s.kvs x with
  | some v => rfl
  | none => simp [Ne.symm hx]

/-- the `__name__` marker reaches the watcher's environment (RawConfigParser's section marker;
    no section of the file defines such a variable) -/
theorem C16_counterexample_dunder_name :
    (match getConfig (fun _ => none) []
        [ { name := cp! "watcher:w", kvs := [(cp! "cmd", cp! "c")] },
          { name := cp! "env", kvs := [(cp! "A", cp! "1")] } ] with
      | .ok c => c.watchers.map (·.env)
      | .error _ => []) = [[(cp! "__name__", cp! "env"), (cp! "A", cp! "1")]] := by decide

/-! ## comma lists and wildcards -/

/-- **comma lists and wildcards** — a section applies to the watcher name `n` iff it is called
    `env:LIST` and one of the comma-separated, stripped elements of `LIST` fnmatches `n` -/
theorem C16_comma_and_wildcards (s : Section) (n : Str) :
    applies s n = true ↔
      startsWith (cp! "env:") s.name = true ∧
      ∃ p ∈ splitOn1 44 (s.name.drop 4), fnmatch n (strip p) = true := by
  simp [applies, patterns, List.any_eq_true]

/-- … and applying is exactly what makes the second pass lay the section's items over the env -/
theorem C16_section_effect (s : Section) (w : Watcher) (x : Str) :
    dget (envAfter [s] w).env x =
      if applies s w.name then (lastVal s.items x).or (dget w.env x) else dget w.env x := by
  rw [dget_envAfter_env]
  simp only [envSecVal]
  cases applies s w.name <;> simp

theorem starLoop_true (k : Str → Bool) (s : Str) (h : k [] = true) : starLoop k s = true := by
  induction s with
  | nil => simpa [starLoop] using h
  | cons c t ih => simp [starLoop, ih]

/-- `*` matches every name -/
theorem C16_glob_star (n : Str) : fnmatch n [42] = true := by
  simp only [fnmatch, List.length_cons, List.length_nil, tokenize, matchToks]
  exact starLoop_true _ n rfl

theorem tokenize_literal (p : Str) (h : ∀ c ∈ p, c ≠ 42 ∧ c ≠ 63 ∧ c ≠ 91) :
    ∀ n, p.length ≤ n → tokenize n p = p.map Tok.lit := by
  induction p with
  | nil => intro n _; cases n <;> rfl
  | cons c t ih =>
    intro n hn
    cases n with
    | zero => simp at hn
    | succ m =>
      have hc := h c (by simp)
      have ht := ih (fun x hx => h x (by simp [hx])) m (by simpa using hn)
      unfold tokenize
      split <;> simp_all

theorem matchToks_literal (p s : Str) : matchToks (p.map Tok.lit) s = true ↔ s = p := by
  induction p generalizing s with
  | nil => cases s <;> simp [matchToks]
  | cons c t ih =>
    cases s with
    | nil => simp [matchToks]
    | cons d r =>
      simp only [List.map_cons, matchToks, Bool.and_eq_true, beq_iff_eq, ih, List.cons.injEq]
      constructor
      · rintro ⟨a, b⟩; exact ⟨a.symm, b⟩
      · rintro ⟨a, b⟩; exact ⟨a.symm, b⟩

/-- a pattern without `*`, `?`, `[` matches exactly itself (case-sensitively) -/
theorem C16_glob_literal (n p : Str) (h : ∀ c ∈ p, c ≠ 42 ∧ c ≠ 63 ∧ c ≠ 91) :
    fnmatch n p = true ↔ n = p := by
  unfold fnmatch
  rw [tokenize_literal p h _ (Nat.le_refl _)]
  exact matchToks_literal p n

/-! ## expansion of references -/

theorem isNameChar_of_lower (c : Nat) (h : isNameChar (lower c) = true) : isNameChar c = true := by
  unfold lower at h
  split at h
  · rename_i hc
    simp only [isNameChar, isWord, isDigit, Bool.or_eq_true, Bool.and_eq_true, decide_eq_true_eq,
      beq_iff_eq]
    omega
  · exact h

theorem nameChars_of_lowerS (e t : Str) (he : lowerS e = t) (ht : ∀ c ∈ t, isNameChar c = true) :
    ∀ c ∈ e, isNameChar c = true := by
  intro c hc
  apply isNameChar_of_lower
  apply ht
  rw [← he]
  exact List.mem_map.mpr ⟨c, hc, rfl⟩

/-- **expansion** — in a text, a reference `$(circus.env.X)` or `((circus.env.X))` written in any
    letter case (`pre`/`e` are `circus.`/`env.` up to case; `X` a non-empty run of `[\w.-]`),
    preceded by text without `$` and `(`, is replaced by the value the case-insensitive lookup of
    `X` in the environment gives, and expansion continues after it. -/
theorem C16_expansion (env : Dict Str) (plain pre e x post v : Str)
    (hplain : ∀ c ∈ plain, c ≠ 36 ∧ c ≠ 40)
    (hpre : lowerS pre = cp! "circus.") (he : lowerS e = cp! "env.")
    (hx : ∀ c ∈ x, isNameChar c = true) (hne : x ≠ []) (hv : lookupCI env x = some v) :
    expand env (plain ++ 36 :: 40 :: (pre ++ ((e ++ x) ++ 41 :: post))) = plain ++ (v ++ expand env post) ∧
    expand env (plain ++ 40 :: 40 :: (pre ++ ((e ++ x) ++ 41 :: 41 :: post))) = plain ++ (v ++ expand env post) := by
  have hg : ∀ c ∈ e ++ x, isNameChar c = true := by
    intro c hc
    rcases List.mem_append.mp hc with h1 | h1
    · exact nameChars_of_lowerS e _ he (by decide) c h1
    · exact hx c h1
  have hgne : e ++ x ≠ [] := by simp [hne]
  have hkey : dget (fmtOptions env) (optionKey (e ++ x)) = some v := by
    rw [optionKey_env e x he]; exact hv
  have hlen : pre.length = 7 := by
    have := congrArg List.length hpre
    simpa [lowerS, cps] using this
  unfold expand
  constructor
  · rw [expandAux_plain _ _ _ hplain]
    have hm := matchRef_dollar pre (e ++ x) post hpre hg hgne
    have hbody : 40 :: (pre ++ ((e ++ x) ++ 41 :: post)) = (40 :: (pre ++ ((e ++ x) ++ [41]))) ++ post := by simp
    rw [hbody] at hm ⊢
    rw [expandAux_match _ 36 _ post (e ++ x) (by rw [hm]; simp [hlen]; omega), hkey]
  · rw [expandAux_plain _ _ _ hplain]
    have hm := matchRef_parens pre (e ++ x) post hpre hg hgne
    have hbody : 40 :: (pre ++ ((e ++ x) ++ 41 :: 41 :: post)) = (40 :: (pre ++ ((e ++ x) ++ [41, 41]))) ++ post := by simp
    rw [hbody] at hm ⊢
    rw [expandAux_match _ 40 _ post (e ++ x) (by rw [hm]; simp [hlen]; omega), hkey]

/-- the lookup is case-insensitive: when no other key of the environment equals `key` up to
    letter case, a reference in any letter case stands for `env[key]` -/
theorem C16_expansion_lookup (env : Dict Str) (x key : Str) (hx : lowerS x = lowerS key)
    (huniq : ∀ k' ∈ env.map (·.1), lowerS k' = lowerS key → k' = key) :
    lookupCI env x = lastVal env key := by
  rw [lookupCI_eq_lastCI, lastCI_of_unique env x key hx huniq]

/-- variables that differ only in letter case collide: all of them are lower-cased into one table,
    so a reference (whatever its case) stands for the value of the *last* such key in the dict's
    iteration order -/
theorem C16_expansion_collision (env : Dict Str) (x : Str) :
    lookupCI env x = lastVal (env.map (fun kv => (lowerS kv.1, kv.2))) (lowerS x) :=
  lookupCI_eq_lastCI env x

/-- the collision rule on a concrete environment: `A=1` then `a=2` — both references give `2` -/
theorem C16_expansion_collision_example :
    expand [(cp! "A", cp! "1"), (cp! "a", cp! "2")] (cp! "$(circus.env.A) ((CIRCUS.ENV.a))") = cp! "2 2" := by
  decide

/-- the environment the final expansion of a watcher uses (`dict(global_env)` updated with the
    watcher's env) obeys the documented precedence, `os.environ` being visible whatever `copy_env` is -/
theorem C16_expansion_env (sig : Str → Option Nat) (osenv : Dict Str) (secs : List Section)
    (cfg : Config) (w : Watcher) (h : getConfig sig osenv secs = .ok cfg) (hw : w ∈ cfg.watchers)
    (hos : (osenv.map (·.1)).Nodup) (x : Str) :
    dget (dupdate (globalEnv osenv secs) w.env) x =
      (envSecVal secs w.name x).or ((dget (localEnv osenv secs) x).or (dget osenv x)) := by
  have hnd : (w.env.map (·.1)).Nodup := by
    obtain ⟨s, w0, _, _, hmk, rfl⟩ := getConfig_watcher sig osenv secs cfg w h hw
    obtain ⟨_, henv0, _⟩ := mkWatcher_spec sig _ _ s w0 hmk
    show ((envAfter secs w0).env.map (·.1)).Nodup
    apply envAfter_env_nodup
    rw [henv0]
    have hl : ((localEnv osenv secs).map (·.1)).Nodup := by
      unfold localEnv
      cases secs.find? (fun s => s.name = cp! "env") with
      | none => simp
      | some s => exact nodup_keys_dupdate _ _ (by simp)
    split
    · exact nodup_keys_dupdate _ _ hos
    · exact hl
  rw [dget_dupdate, lastVal_eq_dget_of_nodup _ _ hnd, C16_env_precedence sig osenv secs cfg w h hw,
    dget_globalEnv]
  cases envSecVal secs w.name x <;> cases dget (localEnv osenv secs) x <;>
    cases dget osenv x <;> simp <;> split <;> simp

/-- options the code keeps as written and expands at the end (`cmd`, `args`, `working_dir`, `uid`,
    `gid` and every free-form option): the result is the written text expanded with the
    environment of `C16_expansion_env`, i.e. with the documented precedence -/
theorem C16_expansion_late_options (sig : Str → Option Nat) (osenv : Dict Str) (secs : List Section)
    (cfg : Config) (w : Watcher) (h : getConfig sig osenv secs = .ok cfg) (hw : w ∈ cfg.watchers) :
    ∃ s ∈ secs, startsWith (cp! "watcher:") s.name = true ∧ w.name = s.name.drop 8 ∧
      ((s.items.map (·.1)).Nodup →
        ∀ opt val, (classify opt = .raw ∨ classify opt = .free) → (opt, val) ∈ s.kvs →
          dget w.opts opt = some (.str (expand (dupdate (globalEnv osenv secs) w.env) val))) := by
  obtain ⟨s, hs, hpre, hname, hrest⟩ := C16_option_typing sig osenv secs cfg w h hw
  refine ⟨s, hs, hpre, hname, fun hnd opt val hk hm => ?_⟩
  have hsc : (classify opt).scalar = true := by rcases hk with e | e <;> rw [e] <;> rfl
  obtain ⟨v, hv, hg⟩ := (hrest hnd opt hsc).1 val hm
  have : v = .str val := by
    unfold convScalar at hv
    rcases hk with e | e <;> rw [e] at hv <;> cases hv <;> rfl
  rw [hg, this]; rfl

/-
Full statement the property asks for: "a reference in ANY option expands to the value the
precedence rule gives for the watcher".  The code expands
  * numprocesses, warmup_delay, max_retry, priority, graceful_timeout, all boolean options and
    executable through `dget`, i.e. with `genv` (os.environ + [env]) only, *before* the
    `env:PATTERN` pass — `convScalar … genv …` in `C16_option_typing`;
  * rlimit_* and stop_signal not at all before converting (`rlimit_value(val)`, `to_signum(val)`);
  * hooks.* never (the `[name, flag]` list is skipped by `_expand_vars`).
What can be proved for the `dget` options is the statement with the extra hypothesis `hnone`:
-/

/-- **partial** — for a name that no applying `env:PATTERN` section defines, the table `dget`
    expands typed options with (`genv`) agrees with the documented environment of the watcher -/
theorem C16_expansion_typed_partial (sig : Str → Option Nat) (osenv : Dict Str) (secs : List Section)
    (cfg : Config) (w : Watcher) (h : getConfig sig osenv secs = .ok cfg) (hw : w ∈ cfg.watchers)
    (hos : (osenv.map (·.1)).Nodup) (x : Str) (hnone : envSecVal secs w.name x = none) :
    dget (dupdate (globalEnv osenv secs) w.env) x = dget (globalEnv osenv secs) x := by
  rw [C16_expansion_env sig osenv secs cfg w h hw hos, hnone, dget_globalEnv]; rfl

/-- without `hnone`: `numprocesses = $(circus.env.n)` with `n` defined in the watcher's own
    `env:w` section is a ValueError … -/
theorem C16_counterexample_typed_env_section :
    (match getConfig (fun _ => none) []
        [ { name := cp! "watcher:w", kvs := [(cp! "cmd", cp! "c"), (cp! "numprocesses", cp! "$(circus.env.n)")] },
          { name := cp! "env:w", kvs := [(cp! "n", cp! "3")] } ] with
      | .ok _ => none
      | .error e => some e) = some .valueError := by decide

/-- … and with `n` also in `[env]` the typed option takes the `[env]` value although `cmd`, in the
    same section, takes the `env:w` value -/
theorem C16_counterexample_typed_precedence :
    (match getConfig (fun _ => none) []
        [ { name := cp! "watcher:w", kvs := [(cp! "cmd", cp! "$(circus.env.n)"), (cp! "numprocesses", cp! "$(circus.env.n)")] },
          { name := cp! "env", kvs := [(cp! "n", cp! "1")] },
          { name := cp! "env:w", kvs := [(cp! "n", cp! "3")] } ] with
      | .ok c => c.watchers.map (fun w => (dget w.opts (cp! "cmd"), dget w.opts (cp! "numprocesses")))
      | .error _ => []) = [(some (.str (cp! "3")), some (.int 1))] := by decide

/-- references in hook names stay as written -/
theorem C16_counterexample_hooks_not_expanded :
    (match getConfig (fun _ => none) []
        [ { name := cp! "watcher:w", kvs := [(cp! "cmd", cp! "c"), (cp! "hooks.before_start", cp! "$(circus.env.m).hook")] },
          { name := cp! "env", kvs := [(cp! "m", cp! "mod")] } ] with
      | .ok c => c.watchers.map (·.hooks)
      | .error _ => []) = [[(cp! "before_start", (cp! "$(circus.env.m).hook", false))]] := by decide

/-- `rlimit_nofile = $(circus.env.n)` with `n = 100` in `[env]` is a ValueError -/
theorem C16_counterexample_rlimit_not_expanded :
    (match getConfig (fun _ => none) []
        [ { name := cp! "watcher:w", kvs := [(cp! "cmd", cp! "c"), (cp! "rlimit_nofile", cp! "$(circus.env.n)")] },
          { name := cp! "env", kvs := [(cp! "n", cp! "100")] } ] with
      | .ok _ => none
      | .error e => some e) = some .valueError := by decide

/-! ## determinism -/

/-- **deterministic** — in the model `getConfig` is a function of the section list, the environment
    and `to_signum`, so two evaluations agree; this is `rfl` and says NOTHING about the code.  That
    the real `get_config` yields equal configurations when the same file is parsed again (also in
    another interpreter with a different hash seed) is established only by the correspondence run. -/
theorem C16_deterministic (sig : Str → Option Nat) (osenv : Dict Str) (secs : List Section)
    (c1 c2 : Except Err Config) (h1 : getConfig sig osenv secs = c1) (h2 : getConfig sig osenv secs = c2) :
    c1 = c2 := h1 ▸ h2 ▸ rfl

/-! ## non-vacuity: a concrete file on which the hypotheses hold and everything happens at once -/

/-- three watchers, `[env]`, an `env:` comma list with blanks and wildcards, a later overriding
    section, a bracket class, `copy_env`, references in both syntaxes and mixed case -/
def exSecs : List Section :=
  [ { name := cp! "env:web*, api", kvs := [(cp! "A", cp! "1"), (cp! "B", cp! "b1")] },
    { name := cp! "watcher:web1", kvs := [(cp! "cmd", cp! "run ((CIRCUS.ENV.a)) $(circus.env.home)"),
        (cp! "copy_env", cp! "True"), (cp! "numprocesses", cp! "$(circus.env.C)"),
        (cp! "graceful_timeout", cp! "2.50"), (cp! "stop_signal", cp! "quit")] },
    { name := cp! "watcher:api", kvs := [(cp! "cmd", cp! "c $(Circus.Env.B)"), (cp! "max_age", cp! "10")] },
    { name := cp! "env:w?b[0-9]", kvs := [(cp! "A", cp! "2")] },
    { name := cp! "env", kvs := [(cp! "A", cp! "genv"), (cp! "C", cp! "4")] },
    { name := cp! "watcher:db", kvs := [(cp! "cmd", cp! "d"), (cp! "autostart", cp! "off")] } ]

def exOs : Dict Str := [(cp! "HOME", cp! "/h"), (cp! "A", cp! "os")]
def exSig : Str → Option Nat := fun t => if t = cp! "quit" then some 3 else none

def exView (w : Watcher) : Str × List (Option Val) × List (Option Str) :=
  (w.name,
   [cp! "cmd", cp! "numprocesses", cp! "graceful_timeout", cp! "stop_signal", cp! "copy_env",
    cp! "autostart", cp! "max_age", cp! "max_retry"].map (dget w.opts),
   [cp! "A", cp! "B", cp! "C", cp! "HOME"].map (dget w.env))

example : (match getConfig exSig exOs exSecs with
    | .ok c => c.watchers.map exView
    | .error _ => []) =
  [ (cp! "api", [some (.str (cp! "c b1")), some (.int 1), some (.int 30), some (.int 15), some (.bool false),
                 some (.bool true), some (.str (cp! "10")), some (.int 5)],
       [some (cp! "1"), some (cp! "b1"), some (cp! "4"), none]),
    (cp! "db", [some (.str (cp! "d")), some (.int 1), some (.int 30), some (.int 15), some (.bool false),
                some (.bool false), none, some (.int 5)],
       [some (cp! "genv"), none, some (cp! "4"), none]),
    (cp! "web1", [some (.str (cp! "run 2 /h")), some (.int 4), some (.dec 25 1), some (.int 3), some (.bool true),
                  some (.bool true), none, some (.int 5)],
       [some (cp! "2"), some (cp! "b1"), some (cp! "4"), some (cp! "/h")]) ] := by decide

-- the hypotheses of the theorems are met by this file: distinct option names, distinct os names
example : ∀ s ∈ exSecs, (s.items.map (·.1)).Nodup := by decide
example : (exOs.map (·.1)).Nodup := by decide
-- comma list + wildcard + class: which sections apply to which watcher
example : exSecs.map (fun s => [cp! "web1", cp! "api", cp! "db"].map (applies s)) =
    [[true, true, false], [false, false, false], [false, false, false], [true, false, false],
     [false, false, false], [false, false, false]] := by decide
-- the closed formula on this file: the later section wins for web1, the only one for api
example : envSecVal exSecs (cp! "web1") (cp! "A") = some (cp! "2") ∧
    envSecVal exSecs (cp! "api") (cp! "A") = some (cp! "1") ∧
    envSecVal exSecs (cp! "db") (cp! "A") = none := by decide
-- glob semantics on the corner cases of `fnmatch.translate`
example : [fnmatch (cp! "a-c") (cp! "a[--z]c"), fnmatch (cp! "abc") (cp! "a[z-a]c"),
           fnmatch (cp! "abc") (cp! "a[!z-a]c"), fnmatch (cp! "a]c") (cp! "a[]]c"),
           fnmatch (cp! "a[c") (cp! "a[c"), fnmatch (cp! "abcbd") (cp! "a*b?"),
           fnmatch (cp! "Web") (cp! "web")] =
    [true, false, true, true, true, true, false] := by decide
-- `translate` drops a reversed range and reads what is left anew: `[b-[!]` becomes `[!]`-without-a-set,
-- which matches every character; `[b-a]` never matches; `[b-a!-z]` is "neither `-` nor `z`"
example : [fnmatch (cp! "a") (cp! "[b-[!]"), fnmatch (cp! "a") (cp! "[b-a]"), fnmatch (cp! "b") (cp! "[b-a]"),
           fnmatch (cp! "q") (cp! "[b-a!-z]"), fnmatch (cp! "-") (cp! "[b-a!-z]"),
           fnmatch (cp! "]") (cp! "[]-a]"), fnmatch (cp! "+") (cp! "[*--a]")] =
    [true, false, false, true, false, true, true] := by decide
-- the hypotheses of `C16_expansion` on a concrete reference
example : lowerS (cp! "CiRcUs.") = cp! "circus." ∧ lowerS (cp! "ENV.") = cp! "env." ∧
    (∀ c ∈ cp! "w-x.1", isNameChar c = true) ∧
    lookupCI [(cp! "W-X.1", cp! "val")] (cp! "w-x.1") = some (cp! "val") := by decide
-- stream options of a concrete file
example : (match getConfig (fun _ => none) [(cp! "D", cp! "/var")]
      [ { name := cp! "watcher:w", kvs := [(cp! "cmd", cp! "c"), (cp! "stdout_stream.class", cp! "FileStream"),
            (cp! "stdout_stream.filename", cp! "$(circus.env.d)/((circus.env.n)).log")] },
        { name := cp! "env:w", kvs := [(cp! "n", cp! "web")] } ] with
    | .ok c => c.watchers.map (fun w => (w.stdout, w.stderr))
    | .error _ => []) =
  [([(cp! "class", cp! "FileStream"), (cp! "filename", cp! "/var/web.log")], [])] := by decide
example : expand [(cp! "W-X.1", cp! "val")] (cp! "a $(CiRcUs.ENV.w-x.1)/((circus.env.W-x.1)) $(circus.env.zz) $(circus.wid)")
    = cp! "a val/val $(circus.env.zz) $(circus.wid)" := by decide
-- conversions
example : [parseInt (cp! "007"), parseInt (cp! " -1_000 "), parseInt (cp! "1__0"), parseInt (cp! "")]
    = [some 7, some (-1000), none, none] := by decide
example : [parseFloat (cp! "2.50"), parseFloat (cp! ".5"), parseFloat (cp! "-3."), parseFloat (cp! "1.2.3"),
           parseFloat (cp! "1e3")] =
    [.ok 25 1, .ok 5 1, .ok (-3) 0, .invalid, .unsupported] := by decide

/-! ## the ini reader (`StrictConfigParser._read`), modelled for ASCII text without `\r`, no `[DEFAULT]`

The theorems above start from the section list.  `readIni` transliterates the reader so that the
correspondence run is end-to-end from the file text (driver op `cfg file`); about the reader itself
only the following is proved, the rest of its grammar is tied to the code by the correspondence. -/

/-- blank lines and lines starting with `#` or `;` change nothing -/
theorem C16_reader_comment_lines (st : RState) (line : Str)
    (h : strip line = [] ∨ line.head? = some 35 ∨ line.head? = some 59) :
    readLine st line = some st := by
  unfold readLine
  rcases h with h | h | h
  · simp [h]
  · by_cases hb : strip line = [] <;> simp [hb, h]
  · by_cases hb : strip line = [] <;> simp [hb, h]

/-- the stated grammar on one file: `=` and `:`, comment lines, an inline comment after a blank
    (`a;b` is kept), `""` for the empty value, a continuation line, a repeated key (first occurrence
    wins), a repeated header (extends the earlier section, section order = first appearance) -/
theorem C16_reader_example :
    readIni (cp! "# c\n[watcher:w]\ncmd = run ; note\nargs: a;b\n  --more\n\n[env]\nA = \"\"\ncmd = x\n[watcher:w]\ncmd = again\nuid=u\n; c\n")
      = .ok [ { name := cp! "watcher:w", kvs := [(cp! "cmd", cp! "run"), (cp! "args", cp! "a;b\n--more"), (cp! "uid", cp! "u")] },
              { name := cp! "env", kvs := [(cp! "A", []), (cp! "cmd", cp! "x")] } ] := by decide

/-- what the reader refuses -/
theorem C16_reader_errors :
    readIni (cp! "k = v\n[a]\n") = .missingSectionHeader ∧
    readIni (cp! "[a]\nno delimiter here\nk = v\n") = .parsingError := by decide

/-- two corners of the code the model keeps: a value starting with `;` is cut when the *last*
    character of the line's value is a blank (`optval[pos - 1]` with `pos = 0`), and a continuation
    line after a repeated key extends the first occurrence -/
theorem C16_reader_corners :
    readIni (cp! "[a]\nk = ;x \nj = ;x\n") = .ok [ { name := cp! "a", kvs := [(cp! "k", []), (cp! "j", cp! ";x")] } ] ∧
    readIni (cp! "[a]\nk = 1\nk = 2\n  tail\n") = .ok [ { name := cp! "a", kvs := [(cp! "k", cp! "1\ntail")] } ] := by
  decide

end Circus.Config
