import CircusProofs.Lemmas.Reload
/-!
# C12 — reloadconfig converges to the file and disturbs only what changed

Theorems about `Circus.Reload.reload`, the transliteration of the watcher part of
`Arbiter.reload_from_config` (with `DictDiffer`, the `_ENV_EXCEPTIONS` discard, `set_numprocesses` /
`manage_processes`, `Watcher.load_from_config` + `start_watcher`, `_stop` + removal), and
`freshStart`, a fresh daemon start on a file.  A version of the configuration file is the list of
comparable dicts `get_config` builds for its watcher sections (`Cfg`; `Circus.Reload.cfgOf` builds
them from the Config model, the correspondence check ties both to the code).

All statements hold for every daemon state that satisfies the invariant `Inv` (watcher names
pairwise distinct, `w.numprocesses` in step with the stored dict) — `C12_inv_along_runs` shows that
every state reached from a fresh start by any sequence of reloads does — and for every new version
with pairwise distinct section names (the ini reader merges sections of the same name).  So "after
any sequence of edits, each followed by reloadconfig" is covered by the one-step theorems; the
`…_along_runs` forms spell the induction out.

Vocabulary:
* `SameSettings a b`  — the dicts `a`, `b` carry the same name, the same option keys with the same
  values, and the same environment once the `_ENV_EXCEPTIONS` names are disregarded (the code
  ignores those on purpose); `numprocesses` is compared separately;
* `RunsFile st v`     — the daemon `st` runs exactly the watchers `v` defines, each with the
  `numprocesses` and the settings of its section;
* `diffOf c w`        — the `diff` set `reload_from_config` computes for section `c` and watcher `w`;
* `Settled st v`      — every watcher of `st` compares equal (`diff` empty) with its section of `v`:
  what a daemon that has loaded `v` looks like (`C12_settled_after_load`);
* `resize c w k`      — the watcher the numprocesses-only path makes of `w`, fresh pids from `k` on;
* `fresh c k`         — a watcher made from section `c` and started, fresh pids from `k` on;
* `Healthy w`, `GoodCfg c` — see `C12_same_worker_count_as_fresh_start_partial`.

Not every part of C12 holds for the code (hence for the model): the number of live workers does not
always converge (known findings F22, F23); see the `_partial` theorem and the counterexamples at the
end.  Files in which two watcher names differ by letter case only are outside the model (F24).
-/
namespace Circus.Reload
open Circus.Config (Str Dict dget)

/-- the daemon runs exactly the watchers the file `v` defines, with the numprocesses and the
    settings it specifies -/
def RunsFile (st : State) (v : List Cfg) : Prop :=
  ((st.ws.map (·.name)).Nodup ∧ ∀ n, n ∈ st.ws.map (·.name) ↔ n ∈ v.map (·.name)) ∧
  ∀ w ∈ st.ws, ∀ c ∈ v, w.name = c.name → w.np = c.np.toNat ∧ w.cfg.np = c.np ∧ SameSettings c w.cfg

theorem runsFile_of_settled (st : State) (v : List Cfg) (hi : Inv st)
    (hnames : ∀ n, n ∈ st.ws.map (·.name) ↔ n ∈ v.map (·.name)) (hs : Settled st v) : RunsFile st v := by
  refine ⟨⟨hi.names, hnames⟩, ?_⟩
  intro w hw c hc he
  have h := (diffOf_isEmpty_iff c w).1 (hs w hw c hc he)
  exact ⟨by rw [(hi.sync w hw).1, h.2], h.2.symm, h.1⟩

/-! ## invariants along all runs -/

/-- **invariant along all runs** — whatever sequence of versions is loaded after a fresh start
    (section names distinct within each version), watcher names stay pairwise distinct and
    `w.numprocesses` stays what the stored dict says. -/
theorem C12_inv_along_runs (v0 : List Cfg) (nx : Nat) (vs : List (List Cfg)) (h : AllNodup (v0 :: vs)) :
    Inv (run (freshStart v0 nx) vs) :=
  (Inv.freshStart v0 nx (h v0 List.mem_cons_self)).run vs (fun v hv => h v (List.mem_cons_of_mem _ hv))

/-- **pids along all runs** — after a fresh start and any sequence of reloads every worker pid is
    below the kernel's next pid, no pid is listed twice by a watcher, and no pid is listed by two
    watchers. -/
theorem C12_pids_exclusive_along_runs (v0 : List Cfg) (nx : Nat) (vs : List (List Cfg)) :
    let st := run (freshStart v0 nx) vs
    (∀ w ∈ st.ws, ∀ p ∈ w.pids, p < st.next) ∧
    st.ws.Pairwise (fun a b => ∀ p ∈ a.pids, p ∉ b.pids) ∧ ∀ w ∈ st.ws, w.pids.Nodup :=
  (PidInv.freshStart v0 nx).run vs

/-- **a loaded file is settled** — after loading `v` (by a fresh start or by a reload from any
    state) every watcher compares equal with its section of `v`: the next comparison against the same
    file finds an empty `diff` everywhere. -/
theorem C12_settled_after_load (v : List Cfg) (hn : (v.map (·.name)).Nodup) :
    (∀ nx, Settled (freshStart v nx) v) ∧ ∀ st, Settled (reload st v) v :=
  ⟨fun nx => freshStart_settled v nx hn, fun st => reload_settled st v hn⟩

/-! ## convergence -/

/-- **reloadconfig converges to the file** — from every daemon state (invariant `Inv`), i.e. for
    every previous history, after a reload with the version `new` the daemon runs exactly the watchers
    `new` defines (same names, each once), every one with `numprocesses = max(0, new value)`, the new
    value stored, and a stored dict with the same option keys and values and the same environment
    (up to `_ENV_EXCEPTIONS`) as the section. -/
theorem C12_converges (st : State) (hi : Inv st) (new : List Cfg) (hn : (new.map (·.name)).Nodup) :
    RunsFile (reload st new) new :=
  runsFile_of_settled _ _ (hi.reload new hn) (reload_names_mem st new hi.names hn) (reload_settled st new hn)

/-- a fresh start on `v` runs `v` in the same sense -/
theorem C12_fresh_start_runs_file (v : List Cfg) (nx : Nat) (hn : (v.map (·.name)).Nodup) :
    RunsFile (freshStart v nx) v :=
  runsFile_of_settled _ _ (Inv.freshStart v nx hn) (by intro n; rw [freshStart_names])
    (freshStart_settled v nx hn)

/-- **convergence after any sequence of edits** — start on `v0`, load the versions `vs` one after
    the other, then `v`: the daemon runs exactly what `v` defines, whatever `v0` and `vs` were
    (additions, removals, edits, reverts). -/
theorem C12_converges_along_runs (v0 : List Cfg) (nx : Nat) (vs : List (List Cfg)) (v : List Cfg)
    (h : AllNodup (v0 :: (vs ++ [v]))) : RunsFile (run (freshStart v0 nx) (vs ++ [v])) v := by
  rw [run_append]
  have hi : Inv (run (freshStart v0 nx) vs) :=
    C12_inv_along_runs v0 nx vs (fun x hx => h x (by
      rcases List.mem_cons.1 hx with hx | hx
      · exact hx ▸ List.mem_cons_self
      · exact List.mem_cons_of_mem _ (List.mem_append_left _ hx)))
  exact C12_converges _ hi v (h v (List.mem_cons_of_mem _ (List.mem_append_right _ List.mem_cons_self)))

/-- **the same as a fresh start on that file** — after a reload with `new` (from any state) the
    daemon has the same watcher names as a fresh start on `new`, and a watcher and its fresh
    counterpart have the same `numprocesses` and the same settings. -/
theorem C12_same_as_fresh_start (st : State) (hi : Inv st) (new : List Cfg) (hn : (new.map (·.name)).Nodup)
    (nx : Nat) :
    (∀ n, n ∈ (reload st new).ws.map (·.name) ↔ n ∈ (freshStart new nx).ws.map (·.name)) ∧
    ∀ w ∈ (reload st new).ws, ∀ f ∈ (freshStart new nx).ws, w.name = f.name →
      w.np = f.np ∧ w.cfg.np = f.cfg.np ∧ SameSettings f.cfg w.cfg := by
  obtain ⟨⟨_, hnames⟩, hall⟩ := C12_converges st hi new hn
  refine ⟨by intro n; rw [hnames n, freshStart_names], ?_⟩
  intro w hw f hf he
  obtain ⟨c, hc, k, _, rfl⟩ := addLoop_mem new nx f hf
  rw [fresh_name] at he
  obtain ⟨h1, h2, h3⟩ := hall w hw c hc he
  rw [fresh_np, fresh_cfg]
  exact ⟨h1, h2, h3⟩

/-- **reverting an edit** — load `a`, then `b`, then `a` again: the daemon has the watchers,
    numprocesses and settings it had after the first load of `a` (in particular numprocesses
    2 → 3 → 2 ends at 2). -/
theorem C12_revert (st : State) (hi : Inv st) (a b : List Cfg) (ha : (a.map (·.name)).Nodup)
    (hb : (b.map (·.name)).Nodup) :
    let s1 := reload st a
    let s3 := reload (reload (reload st a) b) a
    (∀ n, n ∈ s3.ws.map (·.name) ↔ n ∈ s1.ws.map (·.name)) ∧
    ∀ w1 ∈ s1.ws, ∀ w3 ∈ s3.ws, w1.name = w3.name →
      w3.np = w1.np ∧ w3.cfg.np = w1.cfg.np ∧ SameSettings w1.cfg w3.cfg := by
  intro s1 s3
  have h1 := C12_converges st hi a ha
  have h3 := C12_converges _ ((hi.reload a ha).reload b hb) a ha
  refine ⟨by intro n; rw [h3.1.2 n, h1.1.2 n], ?_⟩
  intro w1 hw1 w3 hw3 he
  obtain ⟨c, hc, hcn⟩ := List.mem_map.1 ((h1.1.2 w1.name).1 (List.mem_map.2 ⟨w1, hw1, rfl⟩))
  obtain ⟨p1, p2, p3⟩ := h1.2 w1 hw1 c hc hcn.symm
  obtain ⟨q1, q2, q3⟩ := h3.2 w3 hw3 c hc (he.symm.trans hcn.symm)
  exact ⟨by rw [q1, p1], by rw [q2, p2], p3.symm.trans q3⟩

/-! ## only what changed is disturbed -/

/-- **an unchanged watcher is left alone** — if the `diff` of a running watcher against its section
    of the new file is empty, the very same watcher object state is in the daemon after the reload:
    the same worker pids in the same order, the same numprocesses, status and stored dict. -/
theorem C12_unchanged_keeps_pids (st : State) (hi : Inv st) (new : List Cfg) (hn : (new.map (·.name)).Nodup)
    (w : W) (hw : w ∈ st.ws) (c : Cfg) (hc : c ∈ new) (he : w.name = c.name)
    (hd : (diffOf c w).isEmpty = true) : w ∈ (reload st new).ws :=
  reload_keeps st new hi.names hn w hw c hc he hd

/-- **watchers whose settings are unchanged keep their worker pids** — the daemon has loaded the
    version `prev` (`Settled`, see `C12_settled_after_load`); the next version `new` has a section `c`
    with the same settings and the same numprocesses as the section `a` of `prev` of that name
    (whatever else changed in the file: other watchers added, removed, edited; lines reordered).  Then
    the watcher of that name is untouched by the reload: same pids, numprocesses, status. -/
theorem C12_same_settings_keep_pids (st : State) (hi : Inv st) (prev new : List Cfg)
    (hn : (new.map (·.name)).Nodup) (hs : Settled st prev)
    (a : Cfg) (ha : a ∈ prev) (c : Cfg) (hc : c ∈ new) (hac : a.name = c.name)
    (hsame : SameSettings a c) (hnp : a.np = c.np) (w : W) (hw : w ∈ st.ws) (he : w.name = c.name) :
    w ∈ (reload st new).ws := by
  apply C12_unchanged_keeps_pids st hi new hn w hw c hc he
  have h := (diffOf_isEmpty_iff a w).1 (hs w hw a ha (he.trans hac.symm))
  rw [diffOf_isEmpty_iff]
  exact ⟨hsame.symm.trans h.1, hnp.symm.trans h.2⟩

/-- **a change of numprocesses alone only adds or removes the difference** — the daemon has loaded
    `prev`; the section `c` of `new` differs from the section `a` of `prev` of that name in
    `numprocesses` only.  Then after the reload the watcher `w` of that name has become
    `resize c w k` for a fresh pid `k` (not below the kernel's next pid), which
    * keeps name and stored dict, the dict's numprocesses being the new value, and has
      `numprocesses = max(0, new value)`;
    * lists only pids `w` listed or pids from `k` upwards (nothing foreign, new ones are fresh);
    * when the new value is not below the number of workers: every old worker is still there, in
      front (nothing was killed);
    * when it is not above: the workers are a final segment of the old ones — nobody was spawned and
      the oldest went first, the newest stay;
    * and, for an active watcher that respawns, lists exactly the new number of workers. -/
theorem C12_numprocesses_only (st : State) (hi : Inv st) (prev new : List Cfg)
    (hn : (new.map (·.name)).Nodup) (hs : Settled st prev)
    (a : Cfg) (ha : a ∈ prev) (c : Cfg) (hc : c ∈ new) (hac : a.name = c.name)
    (hsame : SameSettings a c) (hnp : a.np ≠ c.np) (w : W) (hw : w ∈ st.ws) (he : w.name = c.name) :
    ∃ k, st.next ≤ k ∧ resize c w k ∈ (reload st new).ws ∧
      (resize c w k).name = w.name ∧ (resize c w k).cfg = { w.cfg with np := c.np } ∧
      (resize c w k).np = c.np.toNat ∧
      (∀ p ∈ (resize c w k).pids, p ∈ w.pids ∨ k ≤ p) ∧
      (w.pids.length ≤ c.np.toNat → w.pids <+: (resize c w k).pids) ∧
      (c.np.toNat ≤ w.pids.length → (resize c w k).pids <:+ w.pids) ∧
      (w.active = true → w.respawn = true → (resize c w k).pids.length = c.np.toNat) := by
  have h := (diffOf_isEmpty_iff a w).1 (hs w hw a ha (he.trans hac.symm))
  have hd : (diffOf c w).isNpOnly = true := by
    rw [diffOf_isNpOnly_iff]
    exact ⟨hsame.symm.trans h.1, fun hh => hnp (h.2.trans hh.symm)⟩
  obtain ⟨k, hk, hm⟩ := reload_resizes st new hi.names hn w hw c hc he hd
  exact ⟨k, hk, hm, resize_name c w k, resize_cfg c w k, resize_np c w k,
    resize_pids_old_or_fresh c w k, resize_prefix c w k, resize_suffix c w k, resize_length c w k⟩

/-- **reloading an unchanged file does nothing** — a second reload with the same version leaves the
    daemon state exactly as it is: the same watchers in the same order with the same pids,
    numprocesses, status and stored dicts, and the kernel's next pid unchanged (no worker spawned,
    none killed). -/
theorem C12_idempotent (st : State) (hi : Inv st) (v : List Cfg) (hn : (v.map (·.name)).Nodup) :
    reload (reload st v) v = reload st v :=
  reload_of_settled _ v (reload_settled st v hn) (reload_names_mem st v hi.names hn)

/-- reloading the file the daemon was started on does nothing either -/
theorem C12_reload_after_fresh_start_noop (v : List Cfg) (nx : Nat) (hn : (v.map (·.name)).Nodup) :
    reload (freshStart v nx) v = freshStart v nx :=
  reload_of_settled _ v (freshStart_settled v nx hn) (by intro n; rw [freshStart_names])

/-- **an unchanged file after any history** — start on `v0`, load `vs`, then `v`; reloading `v` once
    more changes nothing at all. -/
theorem C12_unchanged_file_noop_along_runs (v0 : List Cfg) (nx : Nat) (vs : List (List Cfg)) (v : List Cfg)
    (h : AllNodup (v0 :: (vs ++ [v]))) :
    reload (run (freshStart v0 nx) (vs ++ [v])) v = run (freshStart v0 nx) (vs ++ [v]) := by
  rw [run_append]
  have hi : Inv (run (freshStart v0 nx) vs) :=
    C12_inv_along_runs v0 nx vs (fun x hx => h x (by
      rcases List.mem_cons.1 hx with hx | hx
      · exact hx ▸ List.mem_cons_self
      · exact List.mem_cons_of_mem _ (List.mem_append_left _ hx)))
  exact C12_idempotent _ hi v (h v (List.mem_cons_of_mem _ (List.mem_append_right _ List.mem_cons_self)))

/-- **a removed watcher is gone with all its workers** — a watcher whose name the new file does not
    define is not in the daemon afterwards, and (pid invariant) none of its pids is listed by any
    watcher afterwards. -/
theorem C12_removed_gone (st : State) (hi : Inv st) (hp : PidInv st) (new : List Cfg)
    (hn : (new.map (·.name)).Nodup) (w : W) (hw : w ∈ st.ws) (hgone : w.name ∉ new.map (·.name)) :
    (∀ w' ∈ (reload st new).ws, w'.name ≠ w.name) ∧
    ∀ w' ∈ (reload st new).ws, ∀ p ∈ w.pids, p ∉ w'.pids := by
  have hname : ∀ w' ∈ (reload st new).ws, w'.name ≠ w.name := by
    intro w' hw' he
    exact hgone (he ▸ (reload_names_mem st new hi.names hn w'.name).1 (List.mem_map.2 ⟨w', hw', rfl⟩))
  refine ⟨hname, ?_⟩
  intro w' hw' p hpw hpw'
  have hlt : p < st.next := hp.1 w hw p hpw
  obtain ⟨c, hc, ho⟩ := reload_mem st new hn w' hw'
  have hne : c.name ≠ w.name := fun h => hgone (h ▸ List.mem_map.2 ⟨c, hc, rfl⟩)
  rcases ho with ⟨_, k, hk, rfl⟩ | ⟨w0, hw0, hn0, h | h | h⟩
  · have := fresh_pids_ge c k p hpw'; omega
  · rw [h.2] at hpw'
    exact hp.disjoint w w0 hw hw0 (fun hh => hne (hn0.symm.trans hh.symm)) p hpw hpw'
  · obtain ⟨_, k, hk, rfl⟩ := h
    rcases resize_pids_old_or_fresh c w0 k p hpw' with h1 | h1
    · exact hp.disjoint w w0 hw hw0 (fun hh => hne (hn0.symm.trans hh.symm)) p hpw h1
    · omega
  · obtain ⟨_, _, k, hk, rfl⟩ := h
    have := fresh_pids_ge c k p hpw'; omega

/-- **an added watcher is made from its section and started** — a section whose name no running
    watcher has yields, after the reload, the watcher `fresh c k` for a fresh pid `k`: stored dict =
    the section, `numprocesses = max(0, value)`, and — `autostart` on — the workers `k, k+1, …`
    (`numprocesses` many), status active iff there is at least one; `autostart` off — no worker. -/
theorem C12_added_started (st : State) (hi : Inv st) (new : List Cfg) (hn : (new.map (·.name)).Nodup)
    (c : Cfg) (hc : c ∈ new) (hnew : c.name ∉ st.ws.map (·.name)) :
    ∃ k, st.next ≤ k ∧ fresh c k ∈ (reload st new).ws ∧
      (fresh c k).name = c.name ∧ (fresh c k).cfg = c ∧ (fresh c k).np = c.np.toNat ∧
      (fresh c k).pids = (if flag c (cp! "autostart") = true then List.range' k c.np.toNat else []) ∧
      (fresh c k).active = (flag c (cp! "autostart") && decide (c.np.toNat ≠ 0)) := by
  obtain ⟨k, hk, hm⟩ := reload_replaces st new hi.names hn c hc
    (fun w hw he => absurd (List.mem_map.2 ⟨w, hw, he⟩) hnew)
  exact ⟨k, hk, hm, fresh_name c k, fresh_cfg c k, fresh_np c k, fresh_pids c k, fresh_active c k⟩

/-- **a watcher whose settings changed is replaced** — if the `diff` of the running watcher `w`
    against its section `c` is neither empty nor `{numprocesses}`, then after the reload the watcher
    of that name is `fresh c k` (made from the section, started, pids from the fresh `k` on), and
    (pid invariant) none of the old worker pids is listed by it. -/
theorem C12_changed_replaced (st : State) (hi : Inv st) (hp : PidInv st) (new : List Cfg)
    (hn : (new.map (·.name)).Nodup) (w : W) (hw : w ∈ st.ws) (c : Cfg) (hc : c ∈ new) (he : w.name = c.name)
    (h1 : (diffOf c w).isEmpty = false) (h2 : (diffOf c w).isNpOnly = false) :
    ∃ k, st.next ≤ k ∧ fresh c k ∈ (reload st new).ws ∧ (fresh c k).cfg = c ∧
      ∀ p ∈ w.pids, p ∉ (fresh c k).pids := by
  obtain ⟨k, hk, hm⟩ := reload_replaces st new hi.names hn c hc (fun w0 hw0 he0 => by
    have : w0 = w := mem_unique_of_name st hi.names w0 w hw0 hw (he0.trans he.symm)
    subst this; exact ⟨h1, h2⟩)
  refine ⟨k, hk, hm, fresh_cfg c k, ?_⟩
  intro p hpw hpf
  have := hp.1 w hw p hpw
  have := fresh_pids_ge c k p hpf
  omega

/-! ## the number of workers

Full statement (what C12 says, **false** for the code): after a reload with `new` every watcher has as
many live workers, and the same status, as its counterpart of a fresh start on `new`.
It fails
* when a watcher was made with `numprocesses = 0`: `Watcher._start` abandons the start ("if not
  self.processes … _stop"), the watcher stays `stopped`, and a later numprocesses-only edit goes
  through `set_numprocesses` → `manage_processes`, which returns at once for a stopped watcher
  (known finding F22, `C12_counterexample_numprocesses_from_zero`);
* when `respawn` is off: `manage_processes` only spawns `if self.respawn`
  (known finding F23, `C12_counterexample_respawn_off`).
Proved: the statement for files that keep `respawn` on and never ask a self-starting watcher for
zero workers (`GoodCfg`). -/

/-- **same number of workers as a fresh start (partial)** — extra hypotheses: every watcher of the
    daemon is `Healthy` (respawns; runs `numprocesses` workers and is active if `autostart` is on;
    is stopped without workers if it is off) and every section of `new` is `GoodCfg` (`respawn` on;
    `numprocesses ≥ 1` when `autostart` is on).  Then after the reload every watcher is `Healthy`
    again and has as many workers, and the same status, as its counterpart of a fresh start on `new`. -/
theorem C12_same_worker_count_as_fresh_start_partial (st : State) (hi : Inv st) (new : List Cfg)
    (hn : (new.map (·.name)).Nodup) (hh : ∀ w ∈ st.ws, Healthy w) (hg : ∀ c ∈ new, GoodCfg c) (nx : Nat) :
    (∀ w ∈ (reload st new).ws, Healthy w) ∧
    ∀ w ∈ (reload st new).ws, ∀ f ∈ (freshStart new nx).ws, w.name = f.name →
      w.pids.length = f.pids.length ∧ w.active = f.active := by
  have hH := healthy_reload st new hn hh hg
  have hF := healthy_freshStart new nx hg
  refine ⟨hH, ?_⟩
  intro w hw f hf he
  obtain ⟨hnp, _, hsame⟩ := (C12_same_as_fresh_start st hi new hn nx).2 w hw f hf he
  have hauto : w.autostart = f.autostart := (flag_congr f.cfg w.cfg hsame.2.1 _).symm
  obtain ⟨_, w1, w2⟩ := hH w hw
  obtain ⟨_, f1, f2⟩ := hF f hf
  cases ha : f.autostart with
  | true =>
    obtain ⟨a1, a2⟩ := w1 (hauto.trans ha)
    obtain ⟨b1, b2⟩ := f1 ha
    exact ⟨by rw [a2, b2, hnp], by rw [a1, b1]⟩
  | false =>
    obtain ⟨a1, a2⟩ := w2 (hauto.trans ha)
    obtain ⟨b1, b2⟩ := f2 ha
    exact ⟨by rw [a2, b2], by rw [a1, b1]⟩

/-- the same along all runs: start on `v0`, load `vs`, then `v`, all sections of all versions
    `GoodCfg`: every watcher has as many workers, and the same status, as after a fresh start on `v`. -/
theorem C12_same_worker_count_along_runs_partial (v0 : List Cfg) (nx : Nat) (vs : List (List Cfg))
    (v : List Cfg) (h : AllNodup (v0 :: (vs ++ [v]))) (hg : ∀ x ∈ v0 :: (vs ++ [v]), ∀ c ∈ x, GoodCfg c)
    (nx' : Nat) :
    ∀ w ∈ (run (freshStart v0 nx) (vs ++ [v])).ws, ∀ f ∈ (freshStart v nx').ws, w.name = f.name →
      w.pids.length = f.pids.length ∧ w.active = f.active := by
  rw [run_append]
  have hsub : ∀ x, x ∈ v0 :: vs → x ∈ v0 :: (vs ++ [v]) := by
    intro x hx
    rcases List.mem_cons.1 hx with hx | hx
    · exact hx ▸ List.mem_cons_self
    · exact List.mem_cons_of_mem _ (List.mem_append_left _ hx)
  have hv : v ∈ v0 :: (vs ++ [v]) := List.mem_cons_of_mem _ (List.mem_append_right _ List.mem_cons_self)
  have hi : Inv (run (freshStart v0 nx) vs) := C12_inv_along_runs v0 nx vs (fun x hx => h x (hsub x hx))
  have hh : ∀ w ∈ (run (freshStart v0 nx) vs).ws, Healthy w :=
    healthy_run _ vs (healthy_freshStart v0 nx (hg v0 List.mem_cons_self))
      (fun x hx => h x (hsub x (List.mem_cons_of_mem _ hx)))
      (fun x hx => hg x (hsub x (List.mem_cons_of_mem _ hx)))
  exact (C12_same_worker_count_as_fresh_start_partial _ hi v (h v hv) hh (hg v hv) nx').2

/-! ## counterexamples, regression facts and non-vacuity (by evaluation of the model) -/

/-- a section with the options `cmd`, `autostart = true`, `respawn`, and `extra` -/
def exCfg (name : Str) (np : Int) (respawn : Bool) (extra : List (Str × Str)) (env : Env := []) : Cfg :=
  { name := name, np := np,
    opts := [(cp! "cmd", cp! "sworker"), (cp! "autostart", cp! "n1e0"),
             (cp! "respawn", if respawn then cp! "n1e0" else cp! "n0e0")] ++ extra,
    env := env }

/-- name, numprocesses, active?, pids of every watcher -/
def view (st : State) : List (Str × Nat × Bool × List Nat) :=
  st.ws.map (fun w => (w.name, w.np, w.active, w.pids))

/-- **counterexample (known finding F22)** — a watcher started with `numprocesses = 0` stays
    `stopped`; the numprocesses-only edit 0 → 2 sets `numprocesses = 2` but starts nothing, whereas a
    fresh start on the new file runs the workers 100 and 101. -/
theorem C12_counterexample_numprocesses_from_zero :
    view (run (freshStart [exCfg (cp! "a") 0 true []] 100) [[exCfg (cp! "a") 2 true []]])
        = [(cp! "a", 2, false, [])]
    ∧ view (freshStart [exCfg (cp! "a") 2 true []] 100) = [(cp! "a", 2, true, [100, 101])] := by
  decide

/-- **counterexample (known finding F23)** — `respawn` off: the numprocesses-only edit 1 → 3 leaves
    the single worker 100, a fresh start on the new file runs three. -/
theorem C12_counterexample_respawn_off :
    view (run (freshStart [exCfg (cp! "a") 1 false []] 100) [[exCfg (cp! "a") 3 false []]])
        = [(cp! "a", 3, true, [100])]
    ∧ view (freshStart [exCfg (cp! "a") 3 false []] 100) = [(cp! "a", 3, true, [100, 101, 102])] := by
  decide

/-- **model-level fact behind known finding F25** — a key that appears in the section (here
    `close_child_stdout` with the text of `False`) counts as a difference even when every other key is
    unchanged: the watcher is replaced, workers 100, 101 make way for 102, 103.  (That `False` is also
    what `Watcher.__init__` assumes when the key is absent is outside the model.) -/
theorem C12_counterexample_added_key_replaces :
    view (run (freshStart [exCfg (cp! "a") 2 true []] 100)
        [[exCfg (cp! "a") 2 true [(cp! "close_child_stdout", cp! "n0e0")]]])
      = [(cp! "a", 2, true, [102, 103])] := by
  decide

/-- regression fact (repaired defect F9): numprocesses 2 → 3 → 2 ends with 2 workers, the two
    newest; the untouched watcher `b` keeps worker 102 throughout. -/
theorem C12_example_two_three_two :
    view (run (freshStart [exCfg (cp! "a") 2 true [], exCfg (cp! "b") 1 true []] 100)
        [[exCfg (cp! "a") 3 true [], exCfg (cp! "b") 1 true []],
         [exCfg (cp! "a") 2 true [], exCfg (cp! "b") 1 true []]])
      = [(cp! "a", 2, true, [101, 103]), (cp! "b", 1, true, [102])] := by
  decide

/-- an edit of `PS1` alone (an `_ENV_EXCEPTIONS` name) is no change: pids kept; an edit of `A` is:
    the watcher is replaced -/
theorem C12_example_env_exceptions :
    view (run (freshStart [exCfg (cp! "a") 2 true [] [(cp! "PS1", cp! "x"), (cp! "A", cp! "1")]] 100)
        [[exCfg (cp! "a") 2 true [] [(cp! "PS1", cp! "y"), (cp! "A", cp! "1")]]])
      = [(cp! "a", 2, true, [100, 101])]
    ∧ view (run (freshStart [exCfg (cp! "a") 2 true [] [(cp! "PS1", cp! "x"), (cp! "A", cp! "1")]] 100)
        [[exCfg (cp! "a") 2 true [] [(cp! "PS1", cp! "x"), (cp! "A", cp! "2")]]])
      = [(cp! "a", 2, true, [102, 103])] := by
  decide

/-- the hypotheses of the theorems above hold on a concrete daemon with two watchers: it satisfies
    `Inv` and `PidInv`, is `Settled` on its file, all its watchers are `Healthy`, its sections are
    `GoodCfg`; and a removal + an addition + a numprocesses-only edit in one reload behave as stated -/
example :
    let v0 := [exCfg (cp! "a") 2 true [], exCfg (cp! "b") 1 true []]
    let v1 := [exCfg (cp! "a") 4 true [], exCfg (cp! "c") 1 true []]
    Inv (freshStart v0 100) ∧ PidInv (freshStart v0 100) ∧ Settled (freshStart v0 100) v0 ∧
    (∀ c ∈ v0, GoodCfg c) ∧ (∀ w ∈ (freshStart v0 100).ws, Healthy w) ∧
    view (freshStart v0 100) = [(cp! "a", 2, true, [100, 101]), (cp! "b", 1, true, [102])] ∧
    view (reload (freshStart v0 100) v1) = [(cp! "a", 4, true, [100, 101, 103, 104]), (cp! "c", 1, true, [105])] := by
  intro v0 v1
  have hn : (v0.map (·.name)).Nodup := by decide
  have hg : ∀ c ∈ v0, GoodCfg c := by
    intro c hc
    simp only [v0, List.mem_cons, List.not_mem_nil, or_false] at hc
    rcases hc with rfl | rfl <;> (unfold GoodCfg; decide)
  exact ⟨Inv.freshStart v0 100 hn, PidInv.freshStart v0 100, freshStart_settled v0 100 hn, hg,
    healthy_freshStart v0 100 hg, by decide, by decide⟩

def exA1 : Cfg :=
  { name := cp! "a", np := 1, opts := [(cp! "cmd", cp! "sx"), (cp! "args", cp! "s")],
    env := [(cp! "PS1", cp! "x"), (cp! "A", cp! "1")] }

def exA2 : Cfg :=
  { name := cp! "a", np := 1, opts := [(cp! "args", cp! "s"), (cp! "cmd", cp! "sx")],
    env := [(cp! "A", cp! "1"), (cp! "PS1", cp! "y")] }

/-- `SameSettings` relates different dicts: a section with its lines reordered and the `PS1` entry
    edited has the same settings -/
example : exA1 ≠ exA2 ∧ SameSettings exA1 exA2 :=
  ⟨by decide, ((diffOf_isEmpty_iff exA1 (mkWatcher exA2)).1 (by decide)).1⟩

end Circus.Reload
