import CircusProofs.Core.WidInv
/-!
# C13 on the core model — every worker's wid is unique among the live workers of its watcher

Props/C13.lean proves the clause on the pure `_nextwid` layer (histories of spawn / death /
numprocesses changes).  Here it is proved over the full watcher coroutine state machine: in every
state reachable from `initState cfg …` by any op list (requests over several watchers, hook
outcomes, exec failures, deaths at every kernel-call boundary, reloads, incr/decr, on-demand
watchers), the wids of the processes a watcher lists are pairwise distinct and ≥ 1.

"Live" is "listed in the watcher's `processes` dict": the `Process` object of a worker that died and
was reaped stays on the heap with its wid, and a later worker may get the same wid again — that is
`_nextwid`'s purpose (the `example`s at the end).

Mechanism (Core/WidInv.lean): `WidInv` is kept by every writer of the weak chain; the only place
that enters a process, `spawn_process`, passes `spawnAdopt` the value of
`nextWid w.np (usedWids u)` — positive and not among the wids in use (`nextWid_spec`); freshness of
the new pid and "one `Process` object per listed pid" come from `PidInv` (C04).
-/
namespace Circus.Core

/-- **wids are unique among the listed workers of a watcher, along every run**: for every watcher
    object of every reachable state, mapping its listed pids to the wid of their `Process` object
    (the very list `_nextwid` looks at, `usedWids`) gives a duplicate-free list. -/
theorem C13_wid_unique_along_runs (cfg : List Watcher) (behavs : List Behav) (warm : Nat)
    (hcfg : ∀ w ∈ cfg, w.pids = []) (ops : List Op) :
    ∀ w ∈ (run (initState cfg behavs warm) ops).ws,
      (w.pids.map (widOf (run (initState cfg behavs warm) ops))).Nodup :=
  fun w hw => (widInv_run cfg behavs warm hcfg ops w hw).1

/-- **… and every listed worker has a wid ≥ 1** (so it has a `Process` object, and `$(circus.wid)`
    is a positive number). -/
theorem C13_wid_positive_along_runs (cfg : List Watcher) (behavs : List Behav) (warm : Nat)
    (hcfg : ∀ w ∈ cfg, w.pids = []) (ops : List Op) :
    ∀ w ∈ (run (initState cfg behavs warm) ops).ws, ∀ p ∈ w.pids,
      1 ≤ widOf (run (initState cfg behavs warm) ops) p :=
  fun w hw => (widInv_run cfg behavs warm hcfg ops w hw).2

/-- the same for the watcher a command designates: what `usedWids u` returns has no duplicate -/
theorem C13_usedWids_nodup (cfg : List Watcher) (behavs : List Behav) (warm : Nat)
    (hcfg : ∀ w ∈ cfg, w.pids = []) (ops : List Op) (u : Nat) :
    (usedWids u (run (initState cfg behavs warm) ops)).1.Nodup := by
  rw [usedWids_eq]
  cases hl : (getW u (run (initState cfg behavs warm) ops)).1.pids with
  | nil => exact List.nodup_nil
  | cons p rest =>
    rw [← hl]
    have hm : (getW u (run (initState cfg behavs warm) ops)).1 ∈ (run (initState cfg behavs warm) ops).ws := by
      simp only [getW] at hl ⊢
      cases hf : (run (initState cfg behavs warm) ops).ws.find? (fun w => decide (w.uid = u)) with
      | none => rw [hf] at hl; simp [defaultWatcher] at hl
      | some w => exact List.mem_of_find?_eq_some hf
    exact C13_wid_unique_along_runs cfg behavs warm hcfg ops _ hm

theorem nodup_map_inj {f : Nat → Nat} {l : List Nat} (h : (l.map f).Nodup) {a b : Nat} (ha : a ∈ l) (hb : b ∈ l)
    (hab : f a = f b) : a = b := by
  induction l with
  | nil => cases ha
  | cons x xs ih =>
    simp only [List.map_cons, List.nodup_cons] at h
    rcases List.mem_cons.mp ha with rfl | ha'
    · rcases List.mem_cons.mp hb with rfl | hb'
      · rfl
      · exact absurd (List.mem_map.mpr ⟨b, hb', hab.symm⟩) h.1
    · rcases List.mem_cons.mp hb with rfl | hb'
      · exact absurd (List.mem_map.mpr ⟨a, ha', hab⟩) h.1
      · exact ih h.2 ha' hb'

/-- two different listed workers of one watcher never share a wid -/
theorem C13_wid_injective_along_runs (cfg : List Watcher) (behavs : List Behav) (warm : Nat)
    (hcfg : ∀ w ∈ cfg, w.pids = []) (ops : List Op) :
    ∀ w ∈ (run (initState cfg behavs warm) ops).ws, ∀ p ∈ w.pids, ∀ q ∈ w.pids,
      widOf (run (initState cfg behavs warm) ops) p = widOf (run (initState cfg behavs warm) ops) q → p = q := by
  intro w hw p hp q hq h
  exact nodup_map_inj (C13_wid_unique_along_runs cfg behavs warm hcfg ops w hw) hp hq h

/-- the wid `spawn_process` hands out is positive and not in use (the step that keeps the invariant) -/
theorem C13_nextwid_not_in_use (u wid : Nat) (s : State)
    (h : nextWid (getW u s).1.np (usedWids u s).1 = some wid) :
    1 ≤ wid ∧ wid ∉ (getW u s).1.pids.map (widOf s) :=
  nextWid_spec h

/-! non-vacuity: a run with deaths and respawns in which a wid is handed out again -/

def c13Cfg : List Watcher := [{ name := "a", np := 2 }]
/-- two workers (wids 1, 2); 100 dies and is replaced by 102 — with wid 1 again; then 101 dies and is
    replaced by 103 with wid 2 -/
def c13Run : State := run (initState c13Cfg [{}] 0)
  [.start, .wake, .wake, .wake, .die 100 9, .check, .wake, .wake, .die 101 9, .check, .wake, .wake]

example : ∀ w ∈ c13Cfg, w.pids = [] := by decide
example : (run (initState c13Cfg [{}] 0) [.start, .wake, .wake, .wake]).ws.map
    (fun w => (w.pids, w.pids.map (widOf (run (initState c13Cfg [{}] 0) [.start, .wake, .wake, .wake])))) =
      [([100, 101], [1, 2])] := by decide +kernel
-- after the first death and the check: the new worker 102 got wid 1, which the dead (unlisted) 100 still carries
example : (run (initState c13Cfg [{}] 0) [.start, .wake, .wake, .wake, .die 100 9, .check]).ws.map (·.pids) = [[101, 102]] ∧
    (run (initState c13Cfg [{}] 0) [.start, .wake, .wake, .wake, .die 100 9, .check]).objs.map (fun o => (o.pid, o.wid)) =
      [(100, 1), (101, 2), (102, 1)] := by decide +kernel
example : c13Run.ws.map (fun w => (w.pids, w.pids.map (widOf c13Run))) = [([102, 103], [1, 2])] ∧
    c13Run.objs.map (fun o => (o.pid, o.wid)) = [(100, 1), (101, 2), (102, 1), (103, 2)] ∧ c13Run.blocked = false := by
  decide +kernel
example : ∀ w ∈ c13Run.ws, (w.pids.map (widOf c13Run)).Nodup :=
  C13_wid_unique_along_runs c13Cfg [{}] 0 (by decide) _
-- the hypothesis of `C13_nextwid_not_in_use` on a state with one worker missing
example : nextWid (getW 1 (run (initState c13Cfg [{}] 0) [.start, .wake, .wake, .wake, .die 100 9])).1.np
    ((getW 1 (run (initState c13Cfg [{}] 0) [.start, .wake, .wake, .wake, .die 100 9])).1.pids.filter (· ≠ 100) |>.map
      (widOf (run (initState c13Cfg [{}] 0) [.start, .wake, .wake, .wake, .die 100 9]))) = some 1 := by decide +kernel

end Circus.Core
