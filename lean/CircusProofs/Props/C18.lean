import CircusProofs.Props.C02
import CircusProofs.Props.C14
/-!
# C18 (confinement clause) — signals reach exactly the addressed workers, with the signal that was named

"A signal or kill request delivers the designated signal to precisely the addressed processes — all
active workers of the named watcher, the single given pid if it is one of them, or that worker's
children when asked — and no request can cause a signal to be sent to a process that is not a worker,
or a descendant of a worker, of the named watcher.  […] anything else is refused without a signal
being sent."  (The designation clause, `to_signum`, is `Props/C18Designation.lean`.)

Theorems about `sendSignal` (`Watcher.send_signal`), `sendSignalChild` (`Process.send_signal_child`),
`execSignal` (`Signal.execute`), `execKill` (`Kill.execute`) and their validation in
`validateExecute`.  Every kernel `kill` is recorded in the ghost log as `Obs.sig pid sig state via`
(written only by `kKill`); the theorems speak about the part of the log a call appends
(`SigsIn P s s'`: the log of `s'` extends that of `s` and every `Obs.sig p sg _ _` of the new part
satisfies `P p sg`; `NoSig s s'` = no such entry at all).  All theorems hold in every state.
-/
namespace Circus.Core

/-- the part of the ghost log written between `s` and `s'` -/
def C18h.newLog (s s' : State) : List Obs := s'.log.drop s.log.length

/-- the log of `s'` extends the log of `s`, and every kernel `kill` recorded in the new part is a
    `kill(p, sg)` with `P p sg` -/
def SigsIn (P : Nat → Nat → Prop) (s s' : State) : Prop :=
  ∃ ext, s'.log = s.log ++ ext ∧ ∀ p sg st via, Obs.sig p sg st via ∈ ext → P p sg

namespace SigsIn
variable {P P' : Nat → Nat → Prop} {s s' s'' : State}

theorem newLog (h : SigsIn P s s') :
    s'.log = s.log ++ C18h.newLog s s' ∧ ∀ p sg st via, Obs.sig p sg st via ∈ C18h.newLog s s' → P p sg := by
  obtain ⟨ext, he, hp⟩ := h
  have : C18h.newLog s s' = ext := by simp [C18h.newLog, he]
  rw [this]; exact ⟨he, hp⟩

theorem of_log_eq (h : s'.log = s.log) : SigsIn P s s' := ⟨[], by simp [h], by simp⟩

theorem refl : SigsIn P s s := of_log_eq rfl

theorem of_append_one (o : Obs) (h : s'.log = s.log ++ [o]) (ho : ∀ p sg st via, o = Obs.sig p sg st via → P p sg) :
    SigsIn P s s' := by
  refine ⟨[o], h, ?_⟩
  intro p sg st via hm
  exact ho p sg st via (List.mem_singleton.mp hm).symm

theorem trans (h1 : SigsIn P s s') (h2 : SigsIn P s' s'') : SigsIn P s s'' := by
  obtain ⟨e1, he1, hp1⟩ := h1
  obtain ⟨e2, he2, hp2⟩ := h2
  refine ⟨e1 ++ e2, by rw [he2, he1, List.append_assoc], ?_⟩
  intro p sg st via hm
  rcases List.mem_append.mp hm with h | h
  · exact hp1 _ _ _ _ h
  · exact hp2 _ _ _ _ h

theorem mono (h : SigsIn P s s') (hP : ∀ p sg, P p sg → P' p sg) : SigsIn P' s s' := by
  obtain ⟨e, he, hp⟩ := h
  exact ⟨e, he, fun p sg st via hm => hP _ _ (hp _ _ _ _ hm)⟩

end SigsIn

/-- no kernel `kill` at all between `s` and `s'` -/
abbrev NoSig (s s' : State) : Prop := SigsIn (fun _ _ => False) s s'

theorem emit_sigs (P : Nat → Nat → Prop) (o : Obs) (s : State) (ho : ∀ p sg st via, o = Obs.sig p sg st via → P p sg) :
    SigsIn P s (emit o s).2 := by
  simp only [emit, modS]
  split
  · exact .refl
  · exact .of_append_one o rfl ho

theorem emitEv_sigs (P : Nat → Nat → Prop) (w t : String) (p : Option Nat) (x : String) (s : State) :
    SigsIn P s (emitEv w t p x s).2 := by
  simp only [emitEv, modS]
  split
  · exact .refl
  · exact .of_append_one _ rfl (by intro _ _ _ _ h; cases h)

/-- publishing an event is not a signal -/
theorem notify_sigs (P : Nat → Nat → Prop) (u : Nat) (topic : String) (pid : Option Nat) (x : String) (s : State) :
    SigsIn P s (notify u topic pid x s).2 := by
  unfold notify
  simp only [bind, getA, getW]
  by_cases hp : s.a.pubClosed = true
  · erw [if_pos hp]; exact .refl
  · erw [if_neg hp]; exact emitEv_sigs P _ _ _ _ _

theorem C18h.notify_k (u : Nat) (topic : String) (pid : Option Nat) (x : String) (s : State) :
    (notify u topic pid x s).2.k = s.k := by
  unfold notify
  simp only [bind, getA, getW]
  by_cases hp : s.a.pubClosed = true
  · erw [if_pos hp]; rfl
  · erw [if_neg hp]
    simp only [emitEv, modS]
    split <;> rfl

/-- a hook call sends no signal and makes no kernel call -/
theorem callHook_sigs (P : Nat → Nat → Prop) (u : Nat) (h : String) (s : State) :
    SigsIn P s (callHook u h s).2 ∧ (callHook u h s).2.k = s.k := by
  unfold callHook
  simp only [bind]
  cases hl : List.lookup h (getW u s).1.hooks with
  | none => exact ⟨.refl, rfl⟩
  | some spec =>
    simp only
    have hb : ∀ i, SigsIn P s (bumpHook u h i s).2 := fun i => .of_log_eq rfl
    by_cases ho : spec.outs.getD ((List.lookup h (getW u s).fst.hookCalls).getD 0 %
                        if spec.outs.length = 0 then 1 else spec.outs.length) "true" = "raise"
    · erw [if_pos ho]
      simp only [pure]
      exact ⟨(hb _).trans (notify_sigs P _ _ _ _ _), by rw [C18h.notify_k]; rfl⟩
    · erw [if_neg ho]
      simp only [pure]
      exact ⟨(hb _).trans (notify_sigs P _ _ _ _ _), by rw [C18h.notify_k]; rfl⟩

/-- `os.kill(p, sg)`: the kernel's `kill` (delivered, or refused with EPERM), one log entry for exactly this pid
    and signal — also when the call is refused -/
theorem kKill_sigs (P : Nat → Nat → Prop) (p sg : Nat) (via : String) (s : State) (h : P p sg) :
    SigsIn P s (kKill p sg via s).2 ∧ (kKill p sg via s).2.k = (s.k.killD p sg).1 := by
  unfold kKill
  simp only [bind, pure, runK]
  refine ⟨?_, ?_⟩
  · refine SigsIn.trans (s' := { s with k := (s.k.killD p sg).1 }) (.of_log_eq rfl) ?_
    apply emit_sigs
    intro p' sg' st via' he
    injection he with h1 h2
    rw [← h1, ← h2]; exact h
  · simp only [emit, modS]
    rw [apply_ite State.k]
    exact ite_self _

/-! ### the parent links of the process table only ever disappear -/

/-- `c` is a descendant of `q` in the process table `k`: a chain of `ppid` links leads from `c` up to `q` -/
inductive Kernel.Desc (k : Kernel) : Nat → Nat → Prop
  | child (q c : Nat) : (∃ p ∈ k.procs, p.pid = c ∧ p.ppid = some q) → Kernel.Desc k q c
  | step (q m c : Nat) : Kernel.Desc k q m → (∃ p ∈ k.procs, p.pid = c ∧ p.ppid = some m) → Kernel.Desc k q c

theorem Kernel.Desc.trans {k : Kernel} {a b c : Nat} (h1 : k.Desc a b) (h2 : k.Desc b c) : k.Desc a c := by
  induction h2 with
  | child c h => exact .step _ _ _ h1 h
  | step m c _ h ih => exact .step _ _ _ ih h

/-- the last link of the chain -/
theorem Kernel.Desc.last {k : Kernel} {q c : Nat} (h : k.Desc q c) :
    ∃ m, (∃ p ∈ k.procs, p.pid = c ∧ p.ppid = some m) ∧ (m = q ∨ k.Desc q m) := by
  cases h with
  | child _ h => exact ⟨q, h, Or.inl rfl⟩
  | step m _ h1 h2 => exact ⟨m, h2, Or.inr h1⟩

/-- every parent link of `k'` is already a parent link of `k` -/
def PShrink (k k' : Kernel) : Prop :=
  ∀ p ∈ k'.procs, ∀ q, p.ppid = some q → ∃ p0 ∈ k.procs, p0.pid = p.pid ∧ p0.ppid = some q

namespace PShrink

theorem refl (k : Kernel) : PShrink k k := fun p hp _ hq => ⟨p, hp, rfl, hq⟩

theorem trans {a b c : Kernel} (h1 : PShrink a b) (h2 : PShrink b c) : PShrink a c := by
  intro p hp q hq
  obtain ⟨p1, hp1, he, hq1⟩ := h2 p hp q hq
  obtain ⟨p0, hp0, he0, hq0⟩ := h1 p1 hp1 q hq1
  exact ⟨p0, hp0, he0.trans he, hq0⟩

theorem desc {k k' : Kernel} (h : PShrink k k') {q c : Nat} (hd : k'.Desc q c) : k.Desc q c := by
  induction hd with
  | child c hc =>
    obtain ⟨p, hp, h1, h2⟩ := hc
    obtain ⟨p0, hp0, h3, h4⟩ := h p hp _ h2
    exact .child _ _ ⟨p0, hp0, h3.trans h1, h4⟩
  | step m c _ hc ih =>
    obtain ⟨p, hp, h1, h2⟩ := hc
    obtain ⟨p0, hp0, h3, h4⟩ := h p hp m h2
    exact .step _ _ _ ih ⟨p0, hp0, h3.trans h1, h4⟩

theorem of_procs {k k' : Kernel} (h : k'.procs = k.procs) : PShrink k k' := by
  intro p hp q hq; rw [h] at hp; exact ⟨p, hp, rfl, hq⟩

/-- a pointwise update that keeps the pid and keeps or clears the parent link -/
theorem map (k k' : Kernel) (f : KProc → KProc) (hk : k'.procs = k.procs.map f)
    (hf : ∀ p, (f p).pid = p.pid ∧ ((f p).ppid = p.ppid ∨ (f p).ppid = none)) : PShrink k k' := by
  intro p hp q hq
  rw [hk] at hp
  obtain ⟨p0, hp0, rfl⟩ := List.mem_map.mp hp
  refine ⟨p0, hp0, (hf p0).1.symm, ?_⟩
  rcases (hf p0).2 with h | h
  · rw [← h]; exact hq
  · rw [h] at hq; cases hq

theorem upd (k : Kernel) (pid : Nat) (f : KProc → KProc) (hf : ∀ p, (f p).pid = p.pid ∧ (f p).ppid = p.ppid) :
    PShrink k (k.upd pid f) := by
  apply map k _ (fun p => if p.pid = pid then f p else p) rfl
  intro p
  split
  · exact ⟨(hf p).1, Or.inl (hf p).2⟩
  · exact ⟨rfl, Or.inl rfl⟩

theorem dead (k : Kernel) (pid st : Nat) : PShrink k (k.dead pid st) := by
  apply map k _ _ rfl
  intro p
  split
  · exact ⟨rfl, Or.inl rfl⟩
  · split
    · exact ⟨rfl, Or.inr rfl⟩
    · exact ⟨rfl, Or.inl rfl⟩

theorem die (k : Kernel) (pid st : Nat) : PShrink k (k.die pid st) := by
  unfold Kernel.die
  split
  · split
    · exact dead k pid st
    · exact refl k
  · exact refl k

theorem foldl {β : Type} (l : List β) (f : Kernel → β → Kernel) (hf : ∀ k b, PShrink k (f k b)) (k : Kernel) :
    PShrink k (l.foldl f k) := by
  induction l generalizing k with
  | nil => exact refl k
  | cons x xs ih => exact trans (hf k x) (ih (f k x))

theorem resolve (k : Kernel) : PShrink k k.resolve := by
  unfold Kernel.resolve
  apply foldl
  intro k p0
  split
  · split
    · split
      · exact dead _ _ _
      · exact refl _
    · exact refl _
  · exact refl _

theorem tick (k : Kernel) : PShrink k k.tick := by
  unfold Kernel.tick
  refine trans (b := { k with calls := k.calls + 1, armed := k.armed.filter (fun f => ¬ (f.1 ≤ k.calls + 1)) })
    (of_procs rfl) ?_
  refine trans ?_ (resolve _)
  apply foldl
  intro k f; exact die _ _ _

theorem doomAt (k : Kernel) (pid dl st : Nat) : PShrink k (k.doomAt pid dl st) := by
  unfold Kernel.doomAt
  apply upd
  intro p
  split
  · split <;> exact ⟨rfl, rfl⟩
  · exact ⟨rfl, rfl⟩

theorem kill (k : Kernel) (pid sig : Nat) : PShrink k (k.kill pid sig).1 := by
  simp only [Kernel.kill]
  refine trans (tick k) ?_
  generalize k.tick = k1
  split
  · exact refl _
  · split
    · exact refl _
    · split
      · simp only
        refine trans ?_ (resolve _)
        split
        · exact doomAt _ _ _ _
        · split
          · exact refl _
          · split
            · exact doomAt _ _ _ _
            · exact refl _
      · exact refl _

/-- the daemon's own `kill`: refused (only the tick happened) or the plain `kill` -/
theorem killD (k : Kernel) (pid sig : Nat) : PShrink k (k.killD pid sig).1 := by
  simp only [Kernel.killD]
  split
  · exact tick k
  · exact kill k pid sig

theorem stateOf (k : Kernel) (pid : Nat) : PShrink k (k.stateOf pid).1 := tick k

theorem children (k : Kernel) (pid : Nat) (r : Bool) : PShrink k (k.children pid r).1 := by
  simp only [Kernel.children]
  refine trans (tick k) ?_
  generalize k.tick = k1
  split
  · exact refl _
  · split
    · exact refl _
    · split <;> exact refl _

end PShrink

theorem C18h.insertSorted_mem (x : Nat) (l : List Nat) (y : Nat) : y ∈ Kernel.insertSorted x l ↔ y = x ∨ y ∈ l := by
  induction l with
  | nil => simp [Kernel.insertSorted]
  | cons z zs ih =>
    unfold Kernel.insertSorted
    split
    · simp
    · simp only [List.mem_cons, ih]
      constructor
      · rintro (h | h | h) <;> simp [h]
      · rintro (h | h | h) <;> simp [h]

theorem C18h.sortNat_mem (l : List Nat) (y : Nat) : y ∈ Kernel.sortNat l ↔ y ∈ l := by
  unfold Kernel.sortNat
  induction l with
  | nil => simp
  | cons x xs ih => simp only [List.foldr_cons, C18h.insertSorted_mem, ih, List.mem_cons]

/-- what `psutil.Process(pid).children(recursive)` lists are descendants of `pid` in the table it reads -/
theorem childrenOf_desc (k : Kernel) (fuel pid : Nat) (r : Bool) :
    ∀ c ∈ Kernel.childrenOf k fuel pid r, k.Desc pid c := by
  induction fuel generalizing pid r with
  | zero => intro c hc; simp [Kernel.childrenOf] at hc
  | succ n ih =>
    intro c hc
    unfold Kernel.childrenOf at hc
    simp only at hc
    have hdirect : ∀ m ∈ Kernel.sortNat ((k.procs.filter fun c => c.ppid = some pid && c.st = .run).map (·.pid)),
        k.Desc pid m := by
      intro m hm
      rw [C18h.sortNat_mem] at hm
      obtain ⟨p, hp, rfl⟩ := List.mem_map.mp hm
      obtain ⟨hp1, hp2⟩ := List.mem_filter.mp hp
      simp only [Bool.and_eq_true, decide_eq_true_eq] at hp2
      exact .child _ _ ⟨p, hp1, rfl, hp2.1⟩
    split at hc
    · rcases List.mem_append.mp hc with h | h
      · exact hdirect c h
      · obtain ⟨l, hl, hcl⟩ := List.mem_flatten.mp h
        obtain ⟨m, hm, rfl⟩ := List.mem_map.mp hl
        exact (hdirect m (List.mem_reverse.mp hm)).trans (ih m true c hcl)
    · exact hdirect c hc

theorem children_desc (k : Kernel) (pid : Nat) (r : Bool) (l : List Nat) (h : (k.children pid r).2 = some l) :
    ∀ c ∈ l, k.Desc pid c := by
  intro c hc
  apply (PShrink.tick k).desc
  simp only [Kernel.children] at h
  generalize k.tick = k1 at h ⊢
  split at h
  · cases h
  · split at h
    · cases h
    · split at h
      · simp only [Option.some.injEq] at h; subst h; cases hc
      · simp only [Option.some.injEq] at h; subst h
        exact childrenOf_desc _ _ _ _ c hc

/-! ### `Watcher.send_signal`: only pids the watcher owns -/

/-- **`send_signal` only signals pids the watcher owns**: for a pid that is not a key of the watcher's
    `processes` dict — a worker of another watcher, an unrelated or a dead pid — it returns at once:
    no hook, no kernel call, the state is untouched. -/
theorem C18_send_signal_only_own (u pid sig : Nat) (s : State) (h : pid ∉ (getW u s).1.pids) :
    sendSignal u pid sig s = (.ok, s) := by
  unfold sendSignal
  simp only [bind]
  erw [if_neg (by simpa using h)]
  rfl

/-- `send_signal` on a listed pid when the `before_signal` hook does not veto (or the signal is
    SIGKILL): hook, `kill(pid, sig)`, and the `after_signal` hook unless the call raised (the process was
    gone, or the daemon is not permitted to signal it) -/
theorem C18h.sendSignal_sent (u p sig : Nat) (s : State) (hp : (getW u s).1.pids.contains p = true)
    (hnv : ¬ (sig ≠ 9 ∧ (callHook u "before_signal" s).1 = false)) :
    (sendSignal u p sig s).2 =
      (if (kKill p sig "" (callHook u "before_signal" s).2).1 = .ok
       then (callHook u "after_signal" (kKill p sig "" (callHook u "before_signal" s).2).2).2
       else (kKill p sig "" (callHook u "before_signal" s).2).2) := by
  unfold sendSignal
  simp only [bind]
  erw [if_pos hp]
  have hcond : ¬ ((decide (sig ≠ 9) && !(callHook u "before_signal" (getW u s).snd).fst) = true) := by
    have : (getW u s).snd = s := rfl
    rw [this]
    simp only [Bool.and_eq_true, decide_eq_true_eq, Bool.not_eq_true', not_and]
    intro h9 hf
    exact hnv ⟨h9, hf⟩
  erw [if_neg hcond]
  by_cases hk : (kKill p sig "" (callHook u "before_signal" s).2).1 = .ok
  · have h1 : (kKill p sig "" (callHook u "before_signal" (getW u s).snd).snd).fst = SigRes.ok := hk
    erw [if_pos h1]
    rw [if_pos hk]
    rfl
  · have h1 : ¬ ((kKill p sig "" (callHook u "before_signal" (getW u s).snd).snd).fst = SigRes.ok) := hk
    erw [if_neg h1]
    rw [if_neg hk]
    rfl

/-- **the only signal `send_signal(pid, sig)` can cause is `kill(pid, sig)`, and only for a listed
    pid** — in every state, whatever the hooks do, and whether the kernel delivers or refuses it: every
    `Obs.sig` entry it appends has target `pid` and signal `sig`, and `pid` is a key of the watcher's `processes`. -/
theorem C18_send_signal_target (u pid sig : Nat) (s : State) :
    SigsIn (fun p sg => p = pid ∧ sg = sig ∧ pid ∈ (getW u s).1.pids) s (sendSignal u pid sig s).2 := by
  by_cases hm : pid ∈ (getW u s).1.pids
  · have hp : (getW u s).1.pids.contains pid = true := by simpa using hm
    by_cases hv : sig ≠ 9 ∧ (callHook u "before_signal" s).1 = false
    · rw [C14_signal_vetoed u pid sig s hp hv.2 hv.1]
      exact (callHook_sigs _ u "before_signal" s).1.trans (callHook_sigs _ u "after_signal" _).1
    · rw [C18h.sendSignal_sent u pid sig s hp hv]
      have h1 := (callHook_sigs (fun p sg => p = pid ∧ sg = sig ∧ pid ∈ (getW u s).1.pids) u "before_signal" s).1
      have h2 := (kKill_sigs (fun p sg => p = pid ∧ sg = sig ∧ pid ∈ (getW u s).1.pids) pid sig ""
        (callHook u "before_signal" s).2 ⟨rfl, rfl, hm⟩).1
      split
      · exact (h1.trans h2).trans (callHook_sigs _ u "after_signal" _).1
      · exact h1.trans h2
  · rw [C18_send_signal_only_own u pid sig s hm]
    exact .refl

/-- **a vetoing `before_signal` hook (signal other than SIGKILL): no signal at all** -/
theorem C18_send_signal_vetoed_no_signal (u pid sig : Nat) (s : State)
    (hp : (getW u s).1.pids.contains pid = true) (hr : (callHook u "before_signal" s).1 = false) (hk : sig ≠ 9) :
    NoSig s (sendSignal u pid sig s).2 := by
  rw [C14_signal_vetoed u pid sig s hp hr hk]
  exact (callHook_sigs _ u "before_signal" s).1.trans (callHook_sigs _ u "after_signal" _).1

theorem C18h.notify_blocked (u : Nat) (topic : String) (pid : Option Nat) (x : String) (s : State) :
    (notify u topic pid x s).2.blocked = s.blocked := by
  unfold notify
  simp only [bind, getA, getW]
  by_cases hp : s.a.pubClosed = true
  · erw [if_pos hp]; rfl
  · erw [if_neg hp]
    simp only [emitEv, modS]
    split <;> rfl

theorem C18h.callHook_blocked (u : Nat) (h : String) (s : State) : (callHook u h s).2.blocked = s.blocked := by
  unfold callHook
  simp only [bind]
  cases hl : List.lookup h (getW u s).1.hooks with
  | none => rfl
  | some spec =>
    simp only
    by_cases ho : spec.outs.getD ((List.lookup h (getW u s).fst.hookCalls).getD 0 %
                        if spec.outs.length = 0 then 1 else spec.outs.length) "true" = "raise"
    · erw [if_pos ho]
      simp only [pure]
      rw [C18h.notify_blocked]; rfl
    · erw [if_neg ho]
      simp only [pure]
      rw [C18h.notify_blocked]; rfl

/-- the log entry of the daemon's `kill(p, sg)`: the state of the target, and `!` after the `via` tag when the
    kernel refused the call (EPERM) -/
theorem C18h.kKill_log_open (p sg : Nat) (via : String) (s : State) (hb : s.blocked = false) :
    (kKill p sg via s).2.log =
      s.log ++ [Obs.sig p sg (s.k.killD p sg).2.1 (if (s.k.killD p sg).2.2 = true then via ++ "!" else via)] := by
  simp [kKill, bind, runK, emit, modS, hb, Obs.isRep, Obs.isEv, pure]

/-- **the addressed worker does get the signal** — or, when the daemon is not permitted to signal it, the attempt
    is made and refused: for a listed pid, unless `before_signal` vetoes a signal other than SIGKILL,
    `send_signal(pid, sig)` issues `kill(pid, sig)` (in a daemon that is not hung): an entry
    `Obs.sig pid sig _ via` is in the part of the log it appends, with `via = ""` (delivered) or `"!"` (refused
    with EPERM: `Kernel.killD` says which). -/
theorem C18_send_signal_delivers (u pid sig : Nat) (s : State) (hm : pid ∈ (getW u s).1.pids)
    (hnv : ¬ (sig ≠ 9 ∧ (callHook u "before_signal" s).1 = false)) (hb : s.blocked = false) :
    ∃ st, Obs.sig pid sig st (if ((callHook u "before_signal" s).2.k.killD pid sig).2.2 = true then "!" else "")
      ∈ C18h.newLog s (sendSignal u pid sig s).2 := by
  have hp : (getW u s).1.pids.contains pid = true := by simpa using hm
  obtain ⟨e1, he1, _⟩ := (callHook_sigs (fun _ _ => True) u "before_signal" s).1
  have hb1 : (callHook u "before_signal" s).2.blocked = false := by rw [C18h.callHook_blocked]; exact hb
  have h2 := C18h.kKill_log_open pid sig "" _ hb1
  simp only [String.empty_append] at h2
  refine ⟨((callHook u "before_signal" s).2.k.killD pid sig).2.1, ?_⟩
  rw [C18h.sendSignal_sent u pid sig s hp hnv]
  unfold C18h.newLog
  split
  · obtain ⟨e3, he3, _⟩ := (callHook_sigs (fun _ _ => True) u "after_signal"
      (kKill pid sig "" (callHook u "before_signal" s).2).2).1
    rw [he3, h2, he1]
    simp
  · rw [h2, he1]
    simp

/-! ### `Process.send_signal_child`: only current children -/

theorem C18h.sendSignalChild_eq (ppid cpid sig : Nat) (s : State) :
    sendSignalChild ppid cpid sig s =
      match (s.k.children ppid false).2 with
      | none => (.noSuch, { s with k := (s.k.children ppid false).1 })
      | some l =>
        if l.contains cpid then kKill cpid sig "" { s with k := (s.k.children ppid false).1 }
        else (.noSuch, { s with k := (s.k.children ppid false).1 }) := by
  unfold sendSignalChild
  simp only [bind, kChildren, runK]
  cases h : (s.k.children ppid false).2 with
  | none => rfl
  | some l =>
    simp only
    by_cases hc : l.contains cpid = true
    · erw [if_pos hc]; rw [if_pos hc]
    · erw [if_neg hc]; rw [if_neg hc]; rfl

/-- **`send_signal_child` only signals current children**: it asks the kernel for the children of
    `ppid` (`psutil children()`, one kernel call) and sends `kill(cpid, sig)` only if `cpid` is in the
    list returned at that moment; otherwise (not a child, or the parent is gone) it answers
    `NoSuchProcess` and the log is unchanged. -/
theorem C18_send_signal_child_only_current_children (ppid cpid sig : Nat) (s : State) :
    let r := s.k.children ppid false
    (∀ l, r.2 = some l → cpid ∈ l →
        sendSignalChild ppid cpid sig s = kKill cpid sig "" { s with k := r.1 }) ∧
    ((r.2 = none ∨ ∃ l, r.2 = some l ∧ cpid ∉ l) →
        sendSignalChild ppid cpid sig s = (.noSuch, { s with k := r.1 })) ∧
    SigsIn (fun p sg => p = cpid ∧ sg = sig ∧ ∃ l, r.2 = some l ∧ cpid ∈ l) s (sendSignalChild ppid cpid sig s).2 := by
  intro r
  have he := C18h.sendSignalChild_eq ppid cpid sig s
  refine ⟨?_, ?_, ?_⟩
  · intro l hl hc
    have hl' : (s.k.children ppid false).2 = some l := hl
    rw [he, hl']
    simp only
    rw [if_pos (by simpa using hc)]
  · intro h
    rcases h with h | ⟨l, hl, hc⟩
    · have h' : (s.k.children ppid false).2 = none := h
      rw [he, h']
    · have hl' : (s.k.children ppid false).2 = some l := hl
      rw [he, hl']
      simp only
      rw [if_neg (by simpa using hc)]
  · rw [he]
    cases hl : (s.k.children ppid false).2 with
    | none => exact .of_log_eq rfl
    | some l =>
      simp only
      by_cases hc : l.contains cpid = true
      · rw [if_pos hc]
        refine SigsIn.trans (s' := { s with k := (s.k.children ppid false).1 }) (.of_log_eq rfl) ?_
        exact (kKill_sigs _ cpid sig "" _ ⟨rfl, rfl, l, rfl, by simpa using hc⟩).1
      · rw [if_neg hc]
        exact .of_log_eq rfl

/-! ### confinement of a whole request: a small Hoare logic

`k0` is the process table at the moment of the request, `own` the `processes` dict of the named
watcher `u` at that moment, `sig` the designated signal. -/

/-- **the confinement predicate**: `kill(p, sg)` uses the designated signal and goes to a process
    that is a worker of the named watcher or a descendant of one (parent links of the process table
    at the moment of the request) -/
def Confined (k0 : Kernel) (own : List Nat) (sig : Nat) (p sg : Nat) : Prop :=
  sg = sig ∧ (p ∈ own ∨ ∃ q ∈ own, k0.Desc q p)

/-- what stays true while the request runs: parent links only disappear, and the watcher's dict
    only lists pids it listed at the start -/
def C18h.CI (k0 : Kernel) (u : Nat) (own : List Nat) (s : State) : Prop := PShrink k0 s.k ∧ PidsSub u own s

/-- `m` keeps the invariant, only appends confined signals, and its result satisfies `Q` -/
def C18h.Conf (k0 : Kernel) (u : Nat) (own : List Nat) (sig : Nat) {α : Type} (Q : α → Prop) (m : M α) : Prop :=
  ∀ s, C18h.CI k0 u own s →
    C18h.CI k0 u own (m s).2 ∧ SigsIn (Confined k0 own sig) s (m s).2 ∧ Q (m s).1

namespace C18h
section
variable {k0 : Kernel} {u : Nat} {own : List Nat} {sig : Nat} {α β γ : Type}

theorem Conf.pure {Q : α → Prop} (a : α) (h : Q a) : Conf k0 u own sig Q (pure a : M α) :=
  fun _ hs => ⟨hs, .refl, h⟩

theorem Conf.bind {Q : α → Prop} {Q' : β → Prop} {m : M α} {f : α → M β}
    (hm : Conf k0 u own sig Q m) (hf : ∀ a, Q a → Conf k0 u own sig Q' (f a)) :
    Conf k0 u own sig Q' (m >>= f) := by
  intro s hs
  obtain ⟨h1, h2, h3⟩ := hm s hs
  obtain ⟨h4, h5, h6⟩ := hf _ h3 _ h1
  exact ⟨h4, h2.trans h5, h6⟩

theorem Conf.ite {Q : α → Prop} {c : Prop} [Decidable c] {a b : M α}
    (ha : Conf k0 u own sig Q a) (hb : Conf k0 u own sig Q b) : Conf k0 u own sig Q (if c then a else b) := by
  split <;> assumption

theorem Conf.mono {Q Q' : α → Prop} {m : M α} (h : Conf k0 u own sig Q m) (hQ : ∀ a, Q a → Q' a) :
    Conf k0 u own sig Q' m := by
  intro s hs
  obtain ⟨h1, h2, h3⟩ := h s hs
  exact ⟨h1, h2, hQ _ h3⟩

theorem Conf.forIn (l : List γ) (init : β) (f : γ → β → M (ForInStep β))
    (hf : ∀ a, a ∈ l → ∀ b, Conf k0 u own sig (fun _ => True) (f a b)) :
    Conf k0 u own sig (fun _ => True) (ForIn.forIn l init f) := by
  induction l generalizing init with
  | nil => exact fun _ hs => ⟨hs, .refl, trivial⟩
  | cons x xs ih =>
    intro s hs
    simp only [List.forIn_cons]
    refine Conf.bind (Q := fun _ => True) (Q' := fun _ => True) (hf x (by simp) init) ?_ s hs
    intro r _
    cases r with
    | done b => exact Conf.pure b trivial
    | yield b => exact ih b (fun a ha => hf a (by simp [ha]))

theorem conf_getW : Conf k0 u own sig (fun w => ∀ x ∈ w.pids, x ∈ own) (getW u) :=
  fun _ hs => ⟨hs, .refl, hs.2⟩

theorem conf_callHook (h : String) : Conf k0 u own sig (fun _ => True) (callHook u h) := by
  intro s hs
  refine ⟨⟨?_, callHook_pres (pidsSubLeafW u own) u h s hs.2⟩, (callHook_sigs _ u h s).1, trivial⟩
  rw [(callHook_sigs (fun _ _ => True) u h s).2]; exact hs.1

theorem conf_kKill (p sg : Nat) (via : String) (h : Confined k0 own sig p sg) :
    Conf k0 u own sig (fun _ => True) (kKill p sg via) := by
  intro s hs
  refine ⟨⟨?_, kKill_pres (pidsSubLeafW u own).toLeafK p sg via s hs.2⟩, (kKill_sigs _ p sg via s h).1, trivial⟩
  rw [(kKill_sigs _ p sg via s h).2]; exact hs.1.trans (PShrink.killD _ _ _)

theorem conf_kChildren (p : Nat) (r : Bool) :
    Conf k0 u own sig (fun cs => ∀ l, cs = some l → ∀ c ∈ l, k0.Desc p c) (kChildren p r) := by
  intro s hs
  refine ⟨⟨hs.1.trans (PShrink.children _ _ _), kChildren_pres (pidsSubLeafW u own).toLeafK p r s hs.2⟩,
    .of_log_eq rfl, ?_⟩
  intro l hl c hc
  exact hs.1.desc (children_desc s.k p r l hl c hc)

theorem conf_kStateOf (p : Nat) : Conf k0 u own sig (fun _ => True) (kStateOf p) := by
  intro s hs
  exact ⟨⟨hs.1.trans (PShrink.stateOf s.k p), kStateOf_pres (pidsSubLeafW u own).toLeafK p s hs.2⟩,
    .of_log_eq rfl, trivial⟩

theorem conf_procStatus (p : Nat) : Conf k0 u own sig (fun _ => True) (procStatus p) := by
  unfold procStatus
  apply Conf.bind (conf_kStateOf p)
  intro st _
  cases st with
  | zombie => exact Conf.pure _ trivial
  | gone => exact Conf.pure _ trivial
  | run => exact Conf.bind (conf_kStateOf p) (fun _ _ => Conf.pure _ trivial)

theorem conf_activeProcs : Conf k0 u own sig (fun _ => True) (activeProcs u) := by
  unfold activeProcs
  apply Conf.bind conf_getW
  intro w _
  refine Conf.bind (Q := fun _ => True) ?_ (fun out _ => Conf.pure out trivial)
  apply Conf.forIn
  intro pid _ out
  apply Conf.bind (conf_procStatus pid)
  intro st _
  split <;> exact Conf.pure _ trivial

/-- `Watcher.send_signal(pid, sig)` is confined, whatever `pid` is -/
theorem conf_sendSignal (pid : Nat) : Conf k0 u own sig (fun _ => True) (sendSignal u pid sig) := by
  unfold sendSignal
  apply Conf.bind conf_getW
  intro w hw
  by_cases hc : w.pids.contains pid = true
  · rw [if_pos hc]
    have hmem : pid ∈ own := hw pid (by simpa using hc)
    apply Conf.bind (conf_callHook "before_signal")
    intro r _
    have hjp : ∀ res : SigRes, Conf k0 u own sig (fun _ => True)
        (if res = .ok then (do let _ ← callHook u "after_signal"; pure SigRes.ok) else pure res : M SigRes) := by
      intro res
      exact Conf.ite (Conf.bind (conf_callHook "after_signal") (fun _ _ => Conf.pure _ trivial))
        (Conf.pure _ trivial)
    refine Conf.ite ?_ ?_
    · exact Conf.bind (Q := fun _ => True) (Conf.pure SigRes.ok trivial) (fun res _ => hjp res)
    · exact Conf.bind (conf_kKill pid sig "" ⟨rfl, Or.inl hmem⟩) (fun res _ => hjp res)
  · rw [if_neg hc]
    exact Conf.pure _ trivial

/-- `Process.send_signal_child` of an own worker `p` is confined -/
theorem conf_sendSignalChild (p c : Nat) (hp : p ∈ own) :
    Conf k0 u own sig (fun _ => True) (sendSignalChild p c sig) := by
  unfold sendSignalChild
  apply Conf.bind (conf_kChildren p false)
  intro cs hcs
  cases cs with
  | none => exact Conf.pure _ trivial
  | some l =>
    simp only
    by_cases hc : l.contains c = true
    · rw [if_pos hc]
      exact (conf_kKill c sig "" ⟨rfl, Or.inr ⟨p, hp, hcs l rfl c (by simpa using hc)⟩⟩).mono (fun _ _ => trivial)
    · rw [if_neg hc]
      exact Conf.pure _ trivial

end
end C18h

namespace C18h
section
variable {k0 : Kernel} {u : Nat} {own : List Nat} {sig : Nat}

theorem conf_notify (topic : String) (pid : Option Nat) (x : String) :
    Conf k0 u own sig (fun _ => True) (notify u topic pid x) := by
  intro s hs
  refine ⟨⟨?_, notify_pres (pidsSubLeafW u own) u topic pid x s hs.2⟩, notify_sigs _ u topic pid x s, trivial⟩
  rw [C18h.notify_k]; exact hs.1

/-- the loop over the children of `send_signal_process` on an own worker is confined (it ends at the first child the
    daemon is not permitted to signal) -/
theorem conf_signalKids (pid : Nat) (hp : pid ∈ own) (cs : List Nat) :
    Conf k0 u own sig (fun _ => True) (signalKids u pid sig cs) := by
  induction cs with
  | nil => unfold signalKids; exact Conf.pure _ trivial
  | cons c cs ih =>
    unfold signalKids
    apply Conf.bind (conf_sendSignalChild pid c hp)
    intro r _
    refine Conf.ite (Conf.pure _ trivial) ?_
    dsimp only
    exact Conf.ite (Conf.bind (conf_notify _ _ _) (fun _ _ => ih)) ih

/-- `Watcher.send_signal_process` (used by `kill_process` with `stop_children` and by the SIGKILL
    escalation) on an own worker is confined -/
theorem conf_sendSignalProcess (pid : Nat) (rc : Bool) (hp : pid ∈ own) :
    Conf k0 u own sig (fun _ => True) (sendSignalProcess u pid sig rc) := by
  unfold sendSignalProcess
  apply Conf.bind (conf_kChildren pid rc)
  intro cs hcs
  cases cs with
  | none => exact Conf.pure _ trivial
  | some children =>
    simp only
    apply Conf.bind (conf_sendSignal pid)
    intro r _
    refine Conf.ite (Conf.pure _ trivial) ?_
    exact Conf.ite (Conf.bind (conf_notify _ _ _) (fun _ _ => conf_signalKids pid hp children))
      (conf_signalKids pid hp children)

end
end C18h

/-- **`send_signal_process` (a worker and, when asked, its children) stays inside the watcher**: for a
    listed worker `pid`, every signal it sends is `sig` and goes to a pid of the watcher's
    `processes` or a descendant of one.  `kill_process` uses it for `stop_children` watchers
    (`recursive = False`) and for the SIGKILL escalation (`sig = 9`, `recursive = True`). -/
theorem C18_send_signal_process_confined (u pid sig : Nat) (rc : Bool) (s : State)
    (hp : pid ∈ (getW u s).1.pids) :
    SigsIn (Confined s.k (getW u s).1.pids sig) s (sendSignalProcess u pid sig rc s).2 :=
  (C18h.conf_sendSignalProcess pid rc hp s ⟨PShrink.refl _, fun _ hx => hx⟩).2.1

/-! #### `Signal.execute`, cut into named pieces -/

/-- `watcher.processes[pid]` with the JSON value as key: only a non-negative integer that is a key -/
def C18h.sigOwn (w : Watcher) (pj : JVal) : Option Nat :=
  match pj with
  | .int i => if i ≥ 0 && w.pids.contains i.toNat then some i.toNat else none
  | _ => none

/-- one round of `for child in children: child.send_signal(signum)`: a child that is gone (`NoSuchProcess`) or that
    the daemon may not signal (`AccessDenied`) sets the error, and once the error is set nothing more is sent -/
def C18h.sigKillStep (sig : Nat) (c : Nat) (err : Option Exc) : M (ForInStep (Option Exc)) :=
  if err.isNone = true then do
    let r ← kKill c sig
    pure (ForInStep.yield r.exc)
  else pure (ForInStep.yield err)

/-- `Process.send_signal_children`: `for child in children: child.send_signal(signum)`, ended by the first
    child whose signal raises; returns the error flag -/
def C18h.sigKillAll (sig : Nat) (l : List Nat) (err : Option Exc) : M (Option Exc) :=
  forIn l err (C18h.sigKillStep sig)

/-- `childpid` given: `process.send_signal_child(childpid, signum)` -/
def C18h.sigChildpidMode (w : Watcher) (sig : Nat) (childpid pj : JVal) (err : Option Exc) : M (ForInStep (Option Exc)) :=
  match C18h.sigOwn w pj with
  | none => pure (ForInStep.yield (some (Exc.other "KeyError")))
  | some p =>
    match childpid with
    | .int c => do
      let r ← sendSignalChild p c.toNat sig
      pure (ForInStep.yield r.exc)
    | _ => pure (ForInStep.yield (some (Exc.other "unmodelled")))

/-- `children` (or the `recursive` tail of the plain mode): signal what `children(recursive)` lists -/
def C18h.sigChildrenMode (w : Watcher) (sig : Nat) (rc : Bool) (pj : JVal) (err : Option Exc) : M (ForInStep (Option Exc)) :=
  match C18h.sigOwn w pj with
  | none => pure (ForInStep.yield (some (Exc.other "KeyError")))
  | some p => do
    let cs ← kChildren p rc
    match cs with
    | none => pure (ForInStep.yield (some Exc.noSuchProcess))
    | some l => do
      let e ← C18h.sigKillAll sig l err
      pure (ForInStep.yield e)

def C18h.sigRecTail (w : Watcher) (sig : Nat) (recursive : Bool) (pj : JVal) (err : Option Exc) : M (ForInStep (Option Exc)) :=
  if (err.isNone && recursive) = true then C18h.sigChildrenMode w sig true pj err else pure (ForInStep.yield err)

/-- neither `childpid` nor `children`: `watcher.send_signal(pid, signum)`, then the descendants if `recursive` -/
def C18h.sigPlainMode (u : Nat) (w : Watcher) (sig : Nat) (recursive : Bool) (pj : JVal) (err : Option Exc) :
    M (ForInStep (Option Exc)) :=
  match pj with
  | .int i =>
    if i ≥ 0 then do
      let r ← sendSignal u i.toNat sig
      C18h.sigRecTail w sig recursive pj r.exc
    else C18h.sigRecTail w sig recursive pj err
  | _ => C18h.sigRecTail w sig recursive pj err

/-- one round of the loop of `Signal.execute` -/
def C18h.signalOne (u : Nat) (w : Watcher) (sig : Nat) (childpid : JVal) (children recursive : Bool)
    (pj : JVal) (err : Option Exc) : M (ForInStep (Option Exc)) :=
  if err.isNone = true then
    if childpid.truthy = true then C18h.sigChildpidMode w sig childpid pj err
    else if children = true then C18h.sigChildrenMode w sig false pj err
    else C18h.sigPlainMode u w sig recursive pj err
  else pure (ForInStep.yield err)

/-- the loop and the reply -/
def C18h.signalLoop (u : Nat) (w : Watcher) (sig : Nat) (childpid : JVal) (children recursive : Bool)
    (pids : List JVal) : M (R ExecRes) := do
  let err ← forIn pids none (C18h.signalOne u w sig childpid children recursive)
  match err with
  | some e => pure (.error e)
  | none => pure (.ok (.value "-"))

/-- `Signal.execute` in terms of the pieces (pure restatement) -/
theorem C18h.execSignal_eq (props : JVal) (s : State) :
    execSignal props s =
      match (getWatcherCmd ((props.get? "name").getD .null) s).1 with
      | .error e => (.error e, (getWatcherCmd ((props.get? "name").getD .null) s).2)
      | .ok u =>
        match props.get? "pid" with
        | some p =>
          C18h.signalLoop u (getW u (getWatcherCmd ((props.get? "name").getD .null) s).2).1
            (((props.get? "signum").bind toSignumJ).getD 0) ((props.get? "childpid").getD .null)
            (((props.get? "children").map JVal.truthy).getD false) (((props.get? "recursive").map JVal.truthy).getD false)
            [p] (getWatcherCmd ((props.get? "name").getD .null) s).2
        | none =>
          C18h.signalLoop u (getW u (getWatcherCmd ((props.get? "name").getD .null) s).2).1
            (((props.get? "signum").bind toSignumJ).getD 0) ((props.get? "childpid").getD .null)
            (((props.get? "children").map JVal.truthy).getD false) (((props.get? "recursive").map JVal.truthy).getD false)
            ((activeProcs u (getWatcherCmd ((props.get? "name").getD .null) s).2).1.map fun p => JVal.int (p : Nat))
            (activeProcs u (getWatcherCmd ((props.get? "name").getD .null) s).2).2 := by
  unfold execSignal
  simp only [bind]
  generalize getWatcherCmd ((props.get? "name").getD .null) s = r
  obtain ⟨res, s0⟩ := r
  cases res with
  | error e => rfl
  | ok u =>
    simp only
    cases props.get? "pid" with
    | none => rfl
    | some p => rfl

theorem C18h.sigOwn_mem (w : Watcher) (pj : JVal) (p : Nat) (h : C18h.sigOwn w pj = some p) :
    p ∈ w.pids ∧ pj = .int (p : Nat) := by
  unfold C18h.sigOwn at h
  cases pj with
  | int i =>
    simp only at h
    split at h
    · rename_i hc
      simp only [Bool.and_eq_true, decide_eq_true_eq, List.contains_eq_mem] at hc
      injection h with h
      subst h
      refine ⟨hc.2, ?_⟩
      congr 1
      omega
    · cases h
  | _ => cases h

namespace C18h
section
variable {k0 : Kernel} {u : Nat} {own : List Nat} {sig : Nat}

theorem conf_sigKillAll (l : List Nat) (err : Option Exc) (h : ∀ c ∈ l, Confined k0 own sig c sig) :
    Conf k0 u own sig (fun _ => True) (sigKillAll sig l err) := by
  unfold sigKillAll
  apply Conf.forIn
  intro c hc e
  unfold sigKillStep
  refine Conf.ite ?_ (Conf.pure _ trivial)
  exact Conf.bind (conf_kKill c sig "" (h c hc)) (fun _ _ => Conf.pure _ trivial)

theorem conf_sigChildpidMode (w : Watcher) (hw : ∀ x ∈ w.pids, x ∈ own) (childpid pj : JVal) (err : Option Exc) :
    Conf k0 u own sig (fun _ => True) (sigChildpidMode w sig childpid pj err) := by
  unfold sigChildpidMode
  cases ho : sigOwn w pj with
  | none => exact Conf.pure _ trivial
  | some p =>
    have hp : p ∈ own := hw p (sigOwn_mem w pj p ho).1
    cases childpid with
    | int c =>
      exact Conf.bind (conf_sendSignalChild p c.toNat hp) (fun _ _ => Conf.pure _ trivial)
    | _ => exact Conf.pure _ trivial

theorem conf_sigChildrenMode (w : Watcher) (hw : ∀ x ∈ w.pids, x ∈ own) (rc : Bool) (pj : JVal) (err : Option Exc) :
    Conf k0 u own sig (fun _ => True) (sigChildrenMode w sig rc pj err) := by
  unfold sigChildrenMode
  cases ho : sigOwn w pj with
  | none => exact Conf.pure _ trivial
  | some p =>
    have hp : p ∈ own := hw p (sigOwn_mem w pj p ho).1
    apply Conf.bind (conf_kChildren p rc)
    intro cs hcs
    cases cs with
    | none => exact Conf.pure _ trivial
    | some l =>
      exact Conf.bind (conf_sigKillAll l err (fun c hc => ⟨rfl, Or.inr ⟨p, hp, hcs l rfl c hc⟩⟩))
        (fun _ _ => Conf.pure _ trivial)

theorem conf_sigRecTail (w : Watcher) (hw : ∀ x ∈ w.pids, x ∈ own) (rc : Bool) (pj : JVal) (err : Option Exc) :
    Conf k0 u own sig (fun _ => True) (sigRecTail w sig rc pj err) := by
  unfold sigRecTail
  exact Conf.ite (conf_sigChildrenMode w hw true pj err) (Conf.pure _ trivial)

theorem conf_sigPlainMode (w : Watcher) (hw : ∀ x ∈ w.pids, x ∈ own) (rc : Bool) (pj : JVal) (err : Option Exc) :
    Conf k0 u own sig (fun _ => True) (sigPlainMode u w sig rc pj err) := by
  unfold sigPlainMode
  cases pj with
  | int i =>
    simp only
    refine Conf.ite ?_ (conf_sigRecTail w hw rc _ err)
    exact Conf.bind (conf_sendSignal i.toNat) (fun r _ => conf_sigRecTail w hw rc _ _)
  | _ => exact conf_sigRecTail w hw rc _ err

theorem conf_signalOne (w : Watcher) (hw : ∀ x ∈ w.pids, x ∈ own) (childpid : JVal) (children rc : Bool)
    (pj : JVal) (err : Option Exc) :
    Conf k0 u own sig (fun _ => True) (signalOne u w sig childpid children rc pj err) := by
  unfold signalOne
  refine Conf.ite (Conf.ite (conf_sigChildpidMode w hw childpid pj err)
    (Conf.ite (conf_sigChildrenMode w hw false pj err) (conf_sigPlainMode w hw rc pj err))) (Conf.pure _ trivial)

theorem conf_signalLoop (w : Watcher) (hw : ∀ x ∈ w.pids, x ∈ own) (childpid : JVal) (children rc : Bool)
    (pids : List JVal) :
    Conf k0 u own sig (fun _ => True) (signalLoop u w sig childpid children rc pids) := by
  unfold signalLoop
  refine Conf.bind (Q := fun _ => True) (Conf.forIn _ _ _ (fun pj _ err => conf_signalOne w hw childpid children rc pj err)) ?_
  intro err _
  cases err with
  | none => exact Conf.pure _ trivial
  | some e => exact Conf.pure _ trivial

end
end C18h

/-- `Command._get_watcher` only reads -/
theorem C18h.getWatcherCmd_state (name : JVal) (s : State) : (getWatcherCmd name s).2 = s := by
  unfold getWatcherCmd
  cases name with
  | str n =>
    simp only [bind, lookupWatcher, getA, pure]
    cases s.a.names.lookup (pyLower n) <;> rfl
  | _ => rfl

/-- **a `signal` request only signals workers of the named watcher and their descendants, with the
    designated signal** — for every request (with or without `pid`, `childpid`, `children`,
    `recursive`, whatever their values) and every state: every `Obs.sig p sg _ _` that
    `Signal.execute` appends to the log has `sg` = the designated signal, and `p` is a key of the
    named watcher's `processes` dict at the time of the request or a descendant (chain of parent
    links in the process table at the time of the request) of such a key.  Workers of other watchers
    and unrelated processes are never signalled. -/
theorem C18_signal_cmd_targets (props : JVal) (s : State) (u : Nat)
    (hu : (getWatcherCmd ((props.get? "name").getD .null) s).1 = .ok u) :
    SigsIn (Confined s.k (getW u s).1.pids (((props.get? "signum").bind toSignumJ).getD 0)) s
      (execSignal props s).2 := by
  rw [C18h.execSignal_eq, C18h.getWatcherCmd_state, hu]
  simp only
  have hci : C18h.CI s.k u (getW u s).1.pids s := ⟨PShrink.refl _, fun x hx => hx⟩
  have hw : ∀ x ∈ (getW u s).1.pids, x ∈ (getW u s).1.pids := fun x hx => hx
  cases props.get? "pid" with
  | some p => exact (C18h.conf_signalLoop _ hw _ _ _ _ s hci).2.1
  | none =>
    simp only
    obtain ⟨h1, h2, _⟩ := C18h.conf_activeProcs (sig := ((props.get? "signum").bind toSignumJ).getD 0) s hci
    exact h2.trans (C18h.conf_signalLoop _ hw _ _ _ _ _ h1).2.1

/-- an unknown watcher name (or a name that is not a string): error, state untouched -/
theorem C18_signal_unknown_watcher (props : JVal) (s : State) (e : Exc)
    (hu : (getWatcherCmd ((props.get? "name").getD .null) s).1 = .error e) :
    execSignal props s = (.error e, s) := by
  rw [C18h.execSignal_eq, C18h.getWatcherCmd_state, hu]

/-- what `Signal.validate` + `Signal.execute` come to -/
theorem C18h.ve_signal (props : JVal) (s : State) :
    validateExecute "signal" props s = execSignal props s ∨
    ∃ e, validateExecute "signal" props s = (.error e, s) := by
  unfold validateExecute
  by_cases h1 : ((requiredProps "signal").any fun p => !props.has p) = true
  · erw [if_pos h1]; exact Or.inr ⟨_, rfl⟩
  · erw [if_neg h1]
    show (if (props.has "childpid" && !props.has "pid") = true then pure (Except.error (Exc.other "ArgumentError"))
      else match (props.get? "signum").bind toSignumJ with
        | none => pure (Except.error Exc.message)
        | some _ => execSignal props : M (R ExecRes)) s = _ ∨ _
    by_cases h2 : (props.has "childpid" && !props.has "pid") = true
    · erw [if_pos h2]; exact Or.inr ⟨_, rfl⟩
    · erw [if_neg h2]
      cases (props.get? "signum").bind toSignumJ with
      | none => exact Or.inr ⟨_, rfl⟩
      | some _ => exact Or.inl rfl

/-- **the same through validation** (`validateExecute "signal"` = `Signal.validate` then `execute`) -/
theorem C18_signal_request_targets (props : JVal) (s : State) (u : Nat)
    (hu : (getWatcherCmd ((props.get? "name").getD .null) s).1 = .ok u) :
    SigsIn (Confined s.k (getW u s).1.pids (((props.get? "signum").bind toSignumJ).getD 0)) s
      (validateExecute "signal" props s).2 := by
  rcases C18h.ve_signal props s with h | ⟨e, h⟩
  · rw [h]; exact C18_signal_cmd_targets props s u hu
  · rw [h]; exact .refl

/-- the same, spelled out on the appended part of the log -/
theorem C18_signal_cmd_targets_log (props : JVal) (s : State) (u : Nat)
    (hu : (getWatcherCmd ((props.get? "name").getD .null) s).1 = .ok u) :
    (validateExecute "signal" props s).2.log = s.log ++ C18h.newLog s (validateExecute "signal" props s).2 ∧
    ∀ p sg st via, Obs.sig p sg st via ∈ C18h.newLog s (validateExecute "signal" props s).2 →
      sg = ((props.get? "signum").bind toSignumJ).getD 0 ∧
      (p ∈ (getW u s).1.pids ∨ ∃ q ∈ (getW u s).1.pids, s.k.Desc q p) :=
  (C18_signal_request_targets props s u hu).newLog

/-- in particular a process that is neither listed by the named watcher nor a descendant of a listed
    one — a worker of another watcher, an unrelated process — gets no signal from the request -/
theorem C18_signal_never_reaches_others (props : JVal) (s : State) (u p : Nat)
    (hu : (getWatcherCmd ((props.get? "name").getD .null) s).1 = .ok u)
    (hp : p ∉ (getW u s).1.pids) (hd : ∀ q ∈ (getW u s).1.pids, ¬ s.k.Desc q p) :
    ∀ sg st via, Obs.sig p sg st via ∉ C18h.newLog s (validateExecute "signal" props s).2 := by
  intro sg st via hm
  rcases ((C18_signal_cmd_targets_log props s u hu).2 p sg st via hm).2 with h | ⟨q, hq, h⟩
  · exact hp h
  · exact hd q hq h

/-! ### a `pid` that is not a worker of the named watcher -/

/-- a `pid` property addresses an own worker only if it is a non-negative JSON integer that is a key
    of the named watcher's `processes`; everything else — a worker of another watcher, an unrelated or
    dead pid, a negative number, a string, a float, `null` … — is foreign -/
theorem C18h.sigOwn_none_iff (w : Watcher) (pj : JVal) :
    C18h.sigOwn w pj = none ↔ ∀ p : Nat, pj = .int (p : Nat) → p ∉ w.pids := by
  constructor
  · intro h p hp hm
    subst hp
    simp [C18h.sigOwn, hm] at h
  · intro h
    cases ho : C18h.sigOwn w pj with
    | none => rfl
    | some p =>
      obtain ⟨h1, h2⟩ := C18h.sigOwn_mem w pj p ho
      exact absurd h1 (h p h2)

theorem C18h.signalLoop_single (u : Nat) (w : Watcher) (sig : Nat) (cp : JVal) (ch rc : Bool) (pj : JVal) (s : State) :
    C18h.signalLoop u w sig cp ch rc [pj] s =
      ((match (C18h.signalOne u w sig cp ch rc pj none s).1 with
        | .yield (some e) => .error e
        | .done (some e) => .error e
        | _ => .ok (.value "-")),
       (C18h.signalOne u w sig cp ch rc pj none s).2) := by
  unfold C18h.signalLoop
  rw [List.forIn_cons]
  simp only [bind]
  generalize C18h.signalOne u w sig cp ch rc pj none s = r
  obtain ⟨st, s1⟩ := r
  cases st with
  | done b => cases b <;> rfl
  | yield b => cases b <;> rfl

theorem C18h.sigRecTail_foreign (w : Watcher) (sig : Nat) (rc : Bool) (pj : JVal) (s : State)
    (ho : C18h.sigOwn w pj = none) :
    C18h.sigRecTail w sig rc pj none s =
      (.yield (if rc = true then some (Exc.other "KeyError") else none), s) := by
  unfold C18h.sigRecTail
  cases rc with
  | false => rfl
  | true =>
    rw [if_pos rfl]
    unfold C18h.sigChildrenMode
    rw [ho]
    rfl

/-- one round of the loop for a foreign pid: nothing happens, `KeyError` in every mode that looks
    the process up (`childpid`, `children`, `recursive`) -/
theorem C18h.signalOne_foreign (u : Nat) (sig : Nat) (cp : JVal) (ch rc : Bool) (pj : JVal) (s : State)
    (ho : C18h.sigOwn (getW u s).1 pj = none) :
    C18h.signalOne u (getW u s).1 sig cp ch rc pj none s =
      (.yield (if cp.truthy = true ∨ ch = true ∨ rc = true then some (Exc.other "KeyError") else none), s) := by
  unfold C18h.signalOne
  erw [if_pos rfl]
  by_cases hcp : cp.truthy = true
  · erw [if_pos hcp]; rw [if_pos (Or.inl hcp)]
    unfold C18h.sigChildpidMode
    rw [ho]
    rfl
  · erw [if_neg hcp]
    by_cases hch : ch = true
    · erw [if_pos hch]; rw [if_pos (Or.inr (Or.inl hch))]
      unfold C18h.sigChildrenMode
      rw [ho]
      rfl
    · erw [if_neg hch]
      have hif : (if cp.truthy = true ∨ ch = true ∨ rc = true then some (Exc.other "KeyError") else none) =
          (if rc = true then some (Exc.other "KeyError") else none) := by
        by_cases hrc : rc = true
        · rw [if_pos (Or.inr (Or.inr hrc)), if_pos hrc]
        · rw [if_neg (by simp [hcp, hch, hrc]), if_neg hrc]
      rw [hif]
      have htail := C18h.sigRecTail_foreign (getW u s).1 sig rc pj s ho
      unfold C18h.sigPlainMode
      cases pj with
      | int i =>
        simp only
        by_cases hi : i ≥ 0
        · erw [if_pos hi]
          have hnm : i.toNat ∉ (getW u s).1.pids := by
            intro hm
            have := (C18h.sigOwn_none_iff _ _).mp ho i.toNat (by congr 1; omega)
            exact this hm
          simp only [bind]
          rw [C18_send_signal_only_own u i.toNat sig s hnm]
          exact htail
        · erw [if_neg hi]
          exact htail
      | _ => exact htail

/-- **a `pid` that is not a worker of the named watcher: no signal, nothing changes** — for a
    `signal` request whose `pid` is a worker of another watcher, an unrelated or dead pid, negative or
    not an integer (`sigOwn … = none`, see `C18h.sigOwn_none_iff`), in every mode: the state after the
    request is the state before (no kernel call, no hook, no log entry).  With `childpid`, `children`
    or `recursive` the reply is an error (`KeyError`); in the plain mode `send_signal` is a silent
    no-op and the reply is ok. -/
theorem C18_signal_foreign_pid_no_signal (props : JVal) (s : State) (u : Nat) (pj : JVal)
    (hu : (getWatcherCmd ((props.get? "name").getD .null) s).1 = .ok u)
    (hpid : props.get? "pid" = some pj) (hforeign : C18h.sigOwn (getW u s).1 pj = none) :
    execSignal props s =
      ((if ((props.get? "childpid").getD .null).truthy = true ∨
            ((props.get? "children").map JVal.truthy).getD false = true ∨
            ((props.get? "recursive").map JVal.truthy).getD false = true
        then .error (Exc.other "KeyError") else .ok (.value "-")), s) ∧
    NoSig s (execSignal props s).2 := by
  have h : execSignal props s =
      ((if ((props.get? "childpid").getD .null).truthy = true ∨
            ((props.get? "children").map JVal.truthy).getD false = true ∨
            ((props.get? "recursive").map JVal.truthy).getD false = true
        then .error (Exc.other "KeyError") else .ok (.value "-")), s) := by
    rw [C18h.execSignal_eq, C18h.getWatcherCmd_state, hu, hpid]
    simp only
    rw [C18h.signalLoop_single, C18h.signalOne_foreign _ _ _ _ _ _ _ hforeign]
    simp only
    by_cases hd : ((props.get? "childpid").getD .null).truthy = true ∨
            ((props.get? "children").map JVal.truthy).getD false = true ∨
            ((props.get? "recursive").map JVal.truthy).getD false = true
    · simp only [if_pos hd]
    · simp only [if_neg hd]
  rw [h]
  exact ⟨rfl, .refl⟩

/-- … also through validation: a `signal` request with a foreign `pid` leaves the state untouched -/
theorem C18_signal_foreign_pid_request (props : JVal) (s : State) (u : Nat) (pj : JVal)
    (hu : (getWatcherCmd ((props.get? "name").getD .null) s).1 = .ok u)
    (hpid : props.get? "pid" = some pj) (hforeign : C18h.sigOwn (getW u s).1 pj = none) :
    (validateExecute "signal" props s).2 = s := by
  rcases C18h.ve_signal props s with h | ⟨e, h⟩
  · rw [h, (C18_signal_foreign_pid_no_signal props s u pj hu hpid hforeign).1]
  · rw [h]

/-! ### a `pid` that is a worker of the named watcher: what each mode does -/

theorem C18h.sigOwn_own (w : Watcher) (p : Nat) (h : p ∈ w.pids) : C18h.sigOwn w (.int (p : Nat)) = some p := by
  simp [C18h.sigOwn, h]

/-- **plain mode** (`pid` given and listed, no `childpid`, `children`, `recursive`): the request is
    exactly one `watcher.send_signal(pid, signum)` — see `C18_send_signal_target` -/
theorem C18_signal_own_pid_plain (props : JVal) (s : State) (u p : Nat)
    (hu : (getWatcherCmd ((props.get? "name").getD .null) s).1 = .ok u)
    (hpid : props.get? "pid" = some (.int (p : Nat))) (_hown : p ∈ (getW u s).1.pids)
    (hcp : ((props.get? "childpid").getD .null).truthy = false)
    (hch : ((props.get? "children").map JVal.truthy).getD false = false)
    (hrc : ((props.get? "recursive").map JVal.truthy).getD false = false) :
    (execSignal props s).2 = (sendSignal u p (((props.get? "signum").bind toSignumJ).getD 0) s).2 := by
  rw [C18h.execSignal_eq, C18h.getWatcherCmd_state, hu, hpid]
  simp only
  rw [C18h.signalLoop_single]
  simp only
  unfold C18h.signalOne
  erw [if_pos rfl]
  erw [if_neg (by simp [hcp])]
  erw [if_neg (by simp [hch])]
  unfold C18h.sigPlainMode
  simp only
  erw [if_pos (by omega)]
  simp only [bind, Int.toNat_natCast]
  have htail : ∀ (e : Option Exc) (s1 : State),
      C18h.sigRecTail (getW u s).1 (((props.get? "signum").bind toSignumJ).getD 0)
        (((props.get? "recursive").map JVal.truthy).getD false) (JVal.int (p : Nat)) e s1 = (.yield e, s1) := by
    intro e s1
    unfold C18h.sigRecTail
    erw [if_neg (by simp [hrc])]
    rfl
  rw [htail]

/-- **`childpid` mode**: the request is exactly one `process.send_signal_child(childpid, signum)` on
    the listed worker — see `C18_send_signal_child_only_current_children` -/
theorem C18_signal_own_pid_childpid (props : JVal) (s : State) (u p : Nat) (c : Int)
    (hu : (getWatcherCmd ((props.get? "name").getD .null) s).1 = .ok u)
    (hpid : props.get? "pid" = some (.int (p : Nat))) (hown : p ∈ (getW u s).1.pids)
    (hcp : (props.get? "childpid").getD .null = .int c) (hc : c ≠ 0) :
    (execSignal props s).2 = (sendSignalChild p c.toNat (((props.get? "signum").bind toSignumJ).getD 0) s).2 := by
  rw [C18h.execSignal_eq, C18h.getWatcherCmd_state, hu, hpid]
  simp only
  rw [C18h.signalLoop_single]
  simp only
  unfold C18h.signalOne
  erw [if_pos rfl]
  rw [hcp]
  erw [if_pos (by simp [JVal.truthy, hc])]
  unfold C18h.sigChildpidMode
  rw [C18h.sigOwn_own _ p hown]
  simp only [bind]
  generalize sendSignalChild p c.toNat (((props.get? "signum").bind toSignumJ).getD 0) s = r
  obtain ⟨ok, s1⟩ := r
  cases ok <;> rfl

/-! #### the loop over the children: ended by the first child whose signal raises -/

/-- the state after `kill(c, sig)` for the pids of `l`, in order -/
def C18h.killSeq (sig : Nat) (l : List Nat) (s : State) : State :=
  l.foldl (fun s c => (kKill c sig "" s).2) s

/-- every `kill` of the sequence is delivered (no `NoSuchProcess`, no `AccessDenied`) -/
def C18h.AllAlive (sig : Nat) : List Nat → State → Prop
  | [], _ => True
  | c :: l, s => (kKill c sig "" s).1 = .ok ∧ C18h.AllAlive sig l (kKill c sig "" s).2

theorem C18h.exc_ok_iff (r : SigRes) : r.exc = none ↔ r = .ok := by
  cases r <;> simp [SigRes.exc]

theorem C18h.exc_some_of_ne_ok (r : SigRes) (h : r ≠ .ok) : ∃ e, r.exc = some e := by
  cases r with
  | ok => exact absurd rfl h
  | noSuch => exact ⟨_, rfl⟩
  | denied => exact ⟨_, rfl⟩

theorem C18h.sigKillAll_some (sig : Nat) (l : List Nat) (e : Exc) (s : State) :
    C18h.sigKillAll sig l (some e) s = (some e, s) := by
  unfold C18h.sigKillAll
  induction l with
  | nil => rfl
  | cons c l ih =>
    rw [List.forIn_cons]
    simp only [bind]
    have hb : C18h.sigKillStep sig c (some e) s = (ForInStep.yield (some e), s) := by
      unfold C18h.sigKillStep
      erw [if_neg (by simp)]
      rfl
    rw [hb]
    exact ih

theorem C18h.sigKillAll_cons (sig c : Nat) (l : List Nat) (s : State) :
    C18h.sigKillAll sig (c :: l) none s =
      if (kKill c sig "" s).1 = .ok then C18h.sigKillAll sig l none (kKill c sig "" s).2
      else ((kKill c sig "" s).1.exc, (kKill c sig "" s).2) := by
  have hstep : C18h.sigKillStep sig c none s =
      (ForInStep.yield (kKill c sig "" s).1.exc, (kKill c sig "" s).2) := by
    unfold C18h.sigKillStep
    erw [if_pos rfl]
    rfl
  unfold C18h.sigKillAll
  rw [List.forIn_cons]
  simp only [bind]
  rw [hstep]
  simp only
  by_cases hk : (kKill c sig "" s).1 = .ok
  · rw [if_pos hk, hk]
    rfl
  · rw [if_neg hk]
    obtain ⟨e, he⟩ := C18h.exc_some_of_ne_ok _ hk
    rw [he]
    exact C18h.sigKillAll_some sig l _ _

/-- all children there and signalable: every one of them is signalled, no error -/
theorem C18h.sigKillAll_all (sig : Nat) (l : List Nat) (s : State) (h : C18h.AllAlive sig l s) :
    C18h.sigKillAll sig l none s = (none, C18h.killSeq sig l s) := by
  induction l generalizing s with
  | nil => rfl
  | cons c l ih =>
    rw [C18h.sigKillAll_cons, if_pos h.1, ih _ h.2]
    rfl

/-- the loop stops at the first child whose signal raises: the children before it (`pre`, all delivered) and the
    failing one (`c`) have been `kill`ed, the ones after it (`post`) are not touched — the final
    state is the state right after `kill(c)` — and the error is the exception of that call
    (`NoSuchProcess` for a child that has vanished, `AccessDenied` for one the daemon may not signal) -/
theorem C18h.sigKillAll_stops (sig : Nat) (pre : List Nat) (c : Nat) (post : List Nat) (s : State)
    (halive : C18h.AllAlive sig pre s) (hfail : (kKill c sig "" (C18h.killSeq sig pre s)).1 ≠ .ok) :
    C18h.sigKillAll sig (pre ++ c :: post) none s =
      ((kKill c sig "" (C18h.killSeq sig pre s)).1.exc, (kKill c sig "" (C18h.killSeq sig pre s)).2) := by
  induction pre generalizing s with
  | nil =>
    have hg : (kKill c sig "" s).1 ≠ .ok := hfail
    rw [List.nil_append, C18h.sigKillAll_cons, if_neg hg]
    rfl
  | cons x pre ih =>
    rw [List.cons_append, C18h.sigKillAll_cons, if_pos halive.1]
    exact ih _ halive.2 hfail

/-- **exactly a prefix**: the loop over the list `l` that `children()` returned either signals all of
    `l` (every signal delivered, no error), or signals `pre ++ [c]` for a decomposition `l = pre ++ c :: post`
    where `c` is the first child whose signal raises, and answers with that exception -/
theorem C18h.sigKillAll_prefix (sig : Nat) (l : List Nat) (s : State) :
    (C18h.AllAlive sig l s ∧ C18h.sigKillAll sig l none s = (none, C18h.killSeq sig l s)) ∨
    (∃ pre c post, l = pre ++ c :: post ∧ C18h.AllAlive sig pre s ∧
      (kKill c sig "" (C18h.killSeq sig pre s)).1 ≠ .ok ∧
      C18h.sigKillAll sig l none s =
        ((kKill c sig "" (C18h.killSeq sig pre s)).1.exc, C18h.killSeq sig (pre ++ [c]) s)) := by
  induction l generalizing s with
  | nil => exact Or.inl ⟨trivial, rfl⟩
  | cons x l ih =>
    by_cases hk : (kKill x sig "" s).1 = .ok
    · rcases ih (kKill x sig "" s).2 with ⟨ha, he⟩ | ⟨pre, c, post, hl, ha, hg, he⟩
      · refine Or.inl ⟨⟨hk, ha⟩, ?_⟩
        rw [C18h.sigKillAll_cons, if_pos hk, he]
        rfl
      · refine Or.inr ⟨x :: pre, c, post, by rw [hl]; rfl, ⟨hk, ha⟩, hg, ?_⟩
        rw [C18h.sigKillAll_cons, if_pos hk, he]
        rfl
    · refine Or.inr ⟨[], x, l, rfl, trivial, hk, ?_⟩
      rw [C18h.sigKillAll_cons, if_neg hk]
      rfl

/-- `children` mode on a listed worker, as an equation: one `children()` query, then the loop -/
theorem C18h.signal_children_eq (props : JVal) (s : State) (u p : Nat)
    (hu : (getWatcherCmd ((props.get? "name").getD .null) s).1 = .ok u)
    (hpid : props.get? "pid" = some (.int (p : Nat))) (hown : p ∈ (getW u s).1.pids)
    (hcp : ((props.get? "childpid").getD .null).truthy = false)
    (hch : ((props.get? "children").map JVal.truthy).getD false = true) :
    execSignal props s =
      match (kChildren p false s).1 with
      | none => (.error Exc.noSuchProcess, (kChildren p false s).2)
      | some l =>
        ((match (C18h.sigKillAll (((props.get? "signum").bind toSignumJ).getD 0) l none (kChildren p false s).2).1 with
          | some e => .error e
          | none => .ok (.value "-")),
         (C18h.sigKillAll (((props.get? "signum").bind toSignumJ).getD 0) l none (kChildren p false s).2).2) := by
  rw [C18h.execSignal_eq, C18h.getWatcherCmd_state, hu, hpid]
  simp only
  rw [C18h.signalLoop_single]
  have hone : C18h.signalOne u (getW u s).1 (((props.get? "signum").bind toSignumJ).getD 0)
      ((props.get? "childpid").getD .null) (((props.get? "children").map JVal.truthy).getD false)
      (((props.get? "recursive").map JVal.truthy).getD false) (.int (p : Nat)) none s =
      match (kChildren p false s).1 with
      | none => (ForInStep.yield (some Exc.noSuchProcess), (kChildren p false s).2)
      | some l =>
        (ForInStep.yield (C18h.sigKillAll (((props.get? "signum").bind toSignumJ).getD 0) l none (kChildren p false s).2).1,
         (C18h.sigKillAll (((props.get? "signum").bind toSignumJ).getD 0) l none (kChildren p false s).2).2) := by
    unfold C18h.signalOne
    erw [if_pos rfl]
    erw [if_neg (by simp [hcp])]
    erw [if_pos hch]
    unfold C18h.sigChildrenMode
    rw [C18h.sigOwn_own _ p hown]
    simp only [bind]
    generalize kChildren p false s = r
    obtain ⟨cs, s1⟩ := r
    cases cs <;> rfl
  rw [hone]
  cases (kChildren p false s).1 with
  | none => rfl
  | some l =>
    simp only
    cases (C18h.sigKillAll (((props.get? "signum").bind toSignumJ).getD 0) l none (kChildren p false s).2).1 <;> rfl

/-- **`children` mode**: one `children()` query on the listed worker (if the worker is gone:
    `NoSuchProcess`, no signal), then `kill(child, signum)` for a *prefix* of the list `l` that query
    returned, in order: either all of `l` — every signal was delivered, reply ok — or `pre ++ [c]` where
    `l = pre ++ c :: post`, the children of `pre` got theirs and `c` is the first one whose signal raises — it has
    vanished since the lookup (`NoSuchProcess`) or the daemon is not permitted to signal it (`AccessDenied`): the
    children after it (`post`) get nothing and the reply is that error (errno 5 either way). -/
theorem C18_signal_own_pid_children (props : JVal) (s : State) (u p : Nat)
    (hu : (getWatcherCmd ((props.get? "name").getD .null) s).1 = .ok u)
    (hpid : props.get? "pid" = some (.int (p : Nat))) (hown : p ∈ (getW u s).1.pids)
    (hcp : ((props.get? "childpid").getD .null).truthy = false)
    (hch : ((props.get? "children").map JVal.truthy).getD false = true) :
    let sig := ((props.get? "signum").bind toSignumJ).getD 0
    let s1 := (kChildren p false s).2
    match (kChildren p false s).1 with
    | none => execSignal props s = (.error Exc.noSuchProcess, s1)
    | some l =>
      (C18h.AllAlive sig l s1 ∧ execSignal props s = (.ok (.value "-"), C18h.killSeq sig l s1)) ∨
      (∃ pre c post e, l = pre ++ c :: post ∧ C18h.AllAlive sig pre s1 ∧
        (kKill c sig "" (C18h.killSeq sig pre s1)).1 ≠ .ok ∧
        (kKill c sig "" (C18h.killSeq sig pre s1)).1.exc = some e ∧
        execSignal props s = (.error e, C18h.killSeq sig (pre ++ [c]) s1)) := by
  intro sig s1
  have h := C18h.signal_children_eq props s u p hu hpid hown hcp hch
  cases hc : (kChildren p false s).1 with
  | none => rw [hc] at h; exact h
  | some l =>
    rw [hc] at h
    simp only at h ⊢
    rcases C18h.sigKillAll_prefix sig l s1 with ⟨ha, he⟩ | ⟨pre, c, post, hl, ha, hg, he⟩
    · exact Or.inl ⟨ha, by rw [h]; rw [he]⟩
    · obtain ⟨e, hee⟩ := C18h.exc_some_of_ne_ok _ hg
      refine Or.inr ⟨pre, c, post, e, hl, ha, hg, hee, ?_⟩
      rw [h]; rw [he, hee]

/-- the loop over the children ends at the first child whose signal raises (`r` = what that `kill` answered, not
    `.ok`; `e` = its exception): the final state is the state immediately after that `kill(c)`, the reply the error -/
theorem C18h.signal_children_stops (props : JVal) (s : State) (u p : Nat)
    (pre : List Nat) (c : Nat) (post : List Nat) (e : Exc)
    (hu : (getWatcherCmd ((props.get? "name").getD .null) s).1 = .ok u)
    (hpid : props.get? "pid" = some (.int (p : Nat))) (hown : p ∈ (getW u s).1.pids)
    (hcp : ((props.get? "childpid").getD .null).truthy = false)
    (hch : ((props.get? "children").map JVal.truthy).getD false = true)
    (hl : (kChildren p false s).1 = some (pre ++ c :: post))
    (halive : C18h.AllAlive (((props.get? "signum").bind toSignumJ).getD 0) pre (kChildren p false s).2)
    (hfail : (kKill c (((props.get? "signum").bind toSignumJ).getD 0) ""
      (C18h.killSeq (((props.get? "signum").bind toSignumJ).getD 0) pre (kChildren p false s).2)).1.exc = some e) :
    let sig := ((props.get? "signum").bind toSignumJ).getD 0
    let sGone := (kKill c sig "" (C18h.killSeq sig pre (kChildren p false s).2)).2
    execSignal props s = (.error e, sGone) ∧ NoSig sGone (execSignal props s).2 := by
  intro sig sGone
  have hne : (kKill c sig "" (C18h.killSeq sig pre (kChildren p false s).2)).1 ≠ .ok := by
    intro hok
    have hfail' : (kKill c sig "" (C18h.killSeq sig pre (kChildren p false s).2)).1.exc = some e := hfail
    rw [hok] at hfail'
    cases hfail'
  have h := C18h.signal_children_eq props s u p hu hpid hown hcp hch
  rw [hl] at h
  simp only at h
  rw [C18h.sigKillAll_stops sig pre c post _ halive hne] at h
  have hfail' : (kKill c sig "" (C18h.killSeq sig pre (kChildren p false s).2)).1.exc = some e := hfail
  simp only [hfail'] at h
  have h2 : execSignal props s = (.error e, sGone) := h
  exact ⟨h2, by rw [h2]; exact .refl⟩

/-- **the loop over the children stops at a vanished child**: in `children` mode on a listed worker,
    if `children()` returned `pre ++ c :: post`, the children of `pre` all got the signal and `kill(c)`
    reports that `c` is gone (it vanished since the lookup: psutil raises `NoSuchProcess`), then the
    request ends right there: the final state is the state immediately after that `kill(c)` — so no
    further `Obs.sig` is appended, the children in `post` get no signal — and the reply is the error
    `NoSuchProcess` (errno 5).  (The `recursive` tail runs the same loop, `C18h.sigKillAll_stops`.) -/
theorem C18_signal_children_stops_at_vanished_child (props : JVal) (s : State) (u p : Nat)
    (pre : List Nat) (c : Nat) (post : List Nat)
    (hu : (getWatcherCmd ((props.get? "name").getD .null) s).1 = .ok u)
    (hpid : props.get? "pid" = some (.int (p : Nat))) (hown : p ∈ (getW u s).1.pids)
    (hcp : ((props.get? "childpid").getD .null).truthy = false)
    (hch : ((props.get? "children").map JVal.truthy).getD false = true)
    (hl : (kChildren p false s).1 = some (pre ++ c :: post))
    (halive : C18h.AllAlive (((props.get? "signum").bind toSignumJ).getD 0) pre (kChildren p false s).2)
    (hgone : (kKill c (((props.get? "signum").bind toSignumJ).getD 0) ""
      (C18h.killSeq (((props.get? "signum").bind toSignumJ).getD 0) pre (kChildren p false s).2)).1 = .noSuch) :
    let sig := ((props.get? "signum").bind toSignumJ).getD 0
    let sGone := (kKill c sig "" (C18h.killSeq sig pre (kChildren p false s).2)).2
    execSignal props s = (.error Exc.noSuchProcess, sGone) ∧ NoSig sGone (execSignal props s).2 :=
  C18h.signal_children_stops props s u p pre c post _ hu hpid hown hcp hch hl halive (by rw [hgone]; rfl)

/-- **… and at a child the daemon is not permitted to signal**: the same with `kill(c)` refused (EPERM, psutil
    raises `AccessDenied`, which `send_signal_children` does not catch either): the attempt on `c` is the last entry
    of the log, the children in `post` get no signal, the reply is the error `AccessDenied` (errno 5) — the signal
    still went only to children of the addressed worker. -/
theorem C18_signal_children_stops_at_unsignalable_child (props : JVal) (s : State) (u p : Nat)
    (pre : List Nat) (c : Nat) (post : List Nat)
    (hu : (getWatcherCmd ((props.get? "name").getD .null) s).1 = .ok u)
    (hpid : props.get? "pid" = some (.int (p : Nat))) (hown : p ∈ (getW u s).1.pids)
    (hcp : ((props.get? "childpid").getD .null).truthy = false)
    (hch : ((props.get? "children").map JVal.truthy).getD false = true)
    (hl : (kChildren p false s).1 = some (pre ++ c :: post))
    (halive : C18h.AllAlive (((props.get? "signum").bind toSignumJ).getD 0) pre (kChildren p false s).2)
    (hden : (kKill c (((props.get? "signum").bind toSignumJ).getD 0) ""
      (C18h.killSeq (((props.get? "signum").bind toSignumJ).getD 0) pre (kChildren p false s).2)).1 = .denied) :
    let sig := ((props.get? "signum").bind toSignumJ).getD 0
    let sDen := (kKill c sig "" (C18h.killSeq sig pre (kChildren p false s).2)).2
    execSignal props s = (.error (Exc.other "AccessDenied"), sDen) ∧ NoSig sDen (execSignal props s).2 :=
  C18h.signal_children_stops props s u p pre c post _ hu hpid hown hcp hch hl halive (by rw [hden]; rfl)

/-! ### `Kill.execute` -/

/-- the body of the loop of `get_active_processes` -/
def C18h.activeBody (pid : Nat) (out : List Nat) : M (ForInStep (List Nat)) := do
  let st ← procStatus pid
  if (!isDead st) = true then pure (ForInStep.yield (out ++ [pid])) else pure (ForInStep.yield out)

theorem C18h.activeProcs_eq (u : Nat) (s : State) :
    activeProcs u s = (forIn (getW u s).1.pids [] C18h.activeBody : M (List Nat)) s := rfl

theorem C18h.procStatus_log (pid : Nat) (s : State) : (procStatus pid s).2.log = s.log := by
  unfold procStatus
  simp only [bind, kStateOf, runK]
  cases (s.k.stateOf pid).2 with
  | zombie => rfl
  | gone => rfl
  | run => rfl

theorem C18h.activeLoop (l : List Nat) (out : List Nat) (s : State) :
    (∃ l', l'.Sublist l ∧ ((forIn l out C18h.activeBody : M (List Nat)) s).1 = out ++ l') ∧
    ((forIn l out C18h.activeBody : M (List Nat)) s).2.log = s.log := by
  induction l generalizing out s with
  | nil => exact ⟨⟨[], List.Sublist.refl _, by simp; rfl⟩, rfl⟩
  | cons x xs ih =>
    rw [List.forIn_cons]
    simp only [bind]
    by_cases hd : (!isDead (procStatus x s).1) = true
    · have hb : C18h.activeBody x out s = (ForInStep.yield (out ++ [x]), (procStatus x s).2) := by
        unfold C18h.activeBody
        simp only [bind]
        erw [if_pos hd]
        rfl
      rw [hb]
      simp only
      obtain ⟨⟨l', hl, he⟩, hlog⟩ := ih (out ++ [x]) (procStatus x s).2
      refine ⟨⟨x :: l', hl.cons_cons x, ?_⟩, hlog.trans (C18h.procStatus_log x s)⟩
      rw [he]; simp
    · have hb : C18h.activeBody x out s = (ForInStep.yield out, (procStatus x s).2) := by
        unfold C18h.activeBody
        simp only [bind]
        erw [if_neg hd]
        rfl
      rw [hb]
      simp only
      obtain ⟨⟨l', hl, he⟩, hlog⟩ := ih out (procStatus x s).2
      exact ⟨⟨l', hl.cons x, he⟩, hlog.trans (C18h.procStatus_log x s)⟩

/-- **`get_active_processes` returns a sublist of the watcher's own `processes`** (same order, only
    dead ones dropped) and sends no signal (the log is untouched) -/
theorem C18_active_procs_subset (u : Nat) (s : State) :
    (activeProcs u s).1.Sublist (getW u s).1.pids ∧ (activeProcs u s).2.log = s.log := by
  rw [C18h.activeProcs_eq]
  obtain ⟨⟨l', hl, he⟩, hlog⟩ := C18h.activeLoop (getW u s).1.pids [] s
  rw [he]
  exact ⟨by simpa using hl, hlog⟩

/-- the `graceful_timeout` override of a `kill` request -/
def C18h.killGt (props : JVal) : Option Nat :=
  match props.get? "graceful_timeout" with
  | some .null => none
  | some v => secondsToMs v
  | none => none

/-- the processes a `kill` request addresses: the active ones, filtered by `pid` when one is given -/
def C18h.killProcs (props : JVal) (act : List Nat) : List Nat :=
  match pidOfProps props with
  | some p => act.filter (fun q => (q : Int) = p)
  | none => act

/-- **`Kill.execute` filters the active processes of the named watcher by pid**: the pids handed to
    the kill coroutine (`killCmd`, which runs `watcher.kill_process` for each of them, on the named
    watcher) are a sublist of the watcher's active processes, which are a sublist of its own
    `processes`; with a `pid` property every one of them equals that pid, and if no active worker
    has that pid the list is empty — the coroutine then has nothing to do and no signal can follow. -/
theorem C18_kill_cmd_filters (props : JVal) (s : State) (u : Nat)
    (hu : (getWatcherCmd ((props.get? "name").getD .null) s).1 = .ok u) :
    let act := (activeProcs u s).1
    let procs := C18h.killProcs props act
    let r := plainCoroutine (.killCmd u procs ((props.get? "signum").bind toSignumJ) (C18h.killGt props)) []
               (activeProcs u s).2
    execKill props s = (.ok (.future r.1 ""), r.2) ∧
    procs.Sublist act ∧ act.Sublist (getW u s).1.pids ∧ NoSig s (activeProcs u s).2 ∧
    (∀ p : Int, pidOfProps props = some p → ∀ q ∈ procs, (q : Int) = p) ∧
    (∀ p : Int, pidOfProps props = some p → (∀ q ∈ act, (q : Int) ≠ p) → procs = []) := by
  intro act procs r
  refine ⟨?_, ?_, (C18_active_procs_subset u s).1, .of_log_eq (C18_active_procs_subset u s).2, ?_, ?_⟩
  · unfold execKill
    simp only [bind]
    have h2 := C18h.getWatcherCmd_state ((props.get? "name").getD .null) s
    generalize getWatcherCmd ((props.get? "name").getD .null) s = g at hu h2
    obtain ⟨res, s0⟩ := g
    simp only at hu h2
    subst hu h2
    rfl
  · show (C18h.killProcs props act).Sublist act
    unfold C18h.killProcs
    split
    · exact List.filter_sublist
    · exact List.Sublist.refl _
  · intro p hp q hq
    have hq' : q ∈ C18h.killProcs props act := hq
    unfold C18h.killProcs at hq'
    rw [hp] at hq'
    simpa using (List.mem_filter.mp hq').2
  · intro p hp hall
    show C18h.killProcs props act = []
    unfold C18h.killProcs
    rw [hp]
    apply List.filter_eq_nil_iff.mpr
    intro q hq
    simpa using hall q hq

/-- the kill coroutine runs `kill_process` of the named watcher for each of the pids it was handed,
    and for an empty list it completes at once without doing anything -/
theorem C18_kill_cmd_only_listed (rec : Rec) (u : Nat) (pids : List Nat) (sig gt : Option Nat) (wt : Waiter) :
    runCall rec (.killCmd u pids sig gt) wt = awaitMulti rec (pids.map fun p => .killProcess u p sig gt) .ignore wt ∧
    runCall rec (.killCmd u [] sig gt) wt = rec (.resume .ignore (.list []) wt) :=
  ⟨rfl, rfl⟩

/-- **unknown watcher: nothing is started** — the request's future is already failed, the state is
    untouched -/
theorem C18_kill_unknown_watcher (props : JVal) (s : State) (e : Exc)
    (hu : (getWatcherCmd ((props.get? "name").getD .null) s).1 = .error e) :
    execKill props s = (.ok (.future 0 "failed:"), s) := by
  unfold execKill
  simp only [bind]
  have h2 := C18h.getWatcherCmd_state ((props.get? "name").getD .null) s
  generalize getWatcherCmd ((props.get? "name").getD .null) s = g at hu h2
  obtain ⟨res, s0⟩ := g
  simp only at hu h2
  subst hu h2
  rfl

/-- **`pid: 0` is a pid like any other** (as repaired in /repo: `if pid is not None`; the pinned tree
    tested `if pid:` and a request carrying `"pid": 0` — which is no worker — addressed *all* active
    workers of the named watcher): no worker has pid 0, so nothing is addressed. -/
theorem C18_kill_pid_zero_addresses_nobody (props : JVal) (act : List Nat) (h0 : pidOfProps props = some 0)
    (hact : ∀ q ∈ act, q ≠ 0) : C18h.killProcs props act = [] := by
  unfold C18h.killProcs
  rw [h0]
  apply List.filter_eq_nil_iff.mpr
  intro q hq
  have := hact q hq
  simp only [decide_eq_true_eq]
  omega

/-! ### a refused designation: no signal -/

/-- **a `signum` that `to_signum` rejects: an error reply and nothing else** — `signal` (where
    `signum` is mandatory) and `kill` are refused by `validate` before anything is looked up: the
    state is untouched, so no signal is sent. -/
theorem C18_bad_designation_no_signal (props : JVal) (s : State) :
    ((props.get? "signum").bind toSignumJ = none → ∃ e, validateExecute "signal" props s = (.error e, s)) ∧
    (∀ v, props.get? "signum" = some v → toSignumJ v = none →
        ∃ e, validateExecute "kill" props s = (.error e, s)) := by
  constructor
  · intro hbad
    unfold validateExecute
    by_cases h1 : ((requiredProps "signal").any fun p => !props.has p) = true
    · erw [if_pos h1]; exact ⟨_, rfl⟩
    · erw [if_neg h1]
      show ∃ e, (if (props.has "childpid" && !props.has "pid") = true then pure (Except.error (Exc.other "ArgumentError"))
        else match (props.get? "signum").bind toSignumJ with
          | none => pure (Except.error Exc.message)
          | some _ => execSignal props : M (R ExecRes)) s = (.error e, s)
      by_cases h2 : (props.has "childpid" && !props.has "pid") = true
      · erw [if_pos h2]; exact ⟨_, rfl⟩
      · erw [if_neg h2]
        rw [hbad]
        exact ⟨_, rfl⟩
  · intro v hv hbad
    have hk : ∃ e, validateKill props = .error e := by
      unfold validateKill
      simp only [hv, hbad]
      split <;> exact ⟨_, rfl⟩
    obtain ⟨e, he⟩ := hk
    unfold validateExecute
    by_cases h1 : ((requiredProps "kill").any fun p => !props.has p) = true
    · erw [if_pos h1]; exact ⟨_, rfl⟩
    · erw [if_neg h1]
      show ∃ e, (match validateKill props with
        | .error e => pure (.error e)
        | .ok _ => execKill props : M (R ExecRes)) s = (.error e, s)
      rw [he]
      exact ⟨_, rfl⟩

/-! ### non-vacuity: two watchers with one worker each, every worker with one child -/

@[instance_reducible] def C18h.decR {α : Type} [DecidableEq α] (a b : Except Exc α) : Decidable (a = b) :=
  match a, b with
  | .ok x, .ok y => if h : x = y then isTrue (by rw [h]) else isFalse (by intro h'; injection h' with h'; exact h h')
  | .error x, .error y => if h : x = y then isTrue (by rw [h]) else isFalse (by intro h'; injection h' with h'; exact h h')
  | .ok _, .error _ => isFalse (by intro h; cases h)
  | .error _, .ok _ => isFalse (by intro h; cases h)
attribute [local instance] C18h.decR

def c18cfg : List Watcher :=
  [{ name := "a" }, { name := "b", hooks := [("before_signal", { outs := ["false"], ignore := false })] }]
/-- the daemon after start-up: watcher "a" (uid 1) has worker 100 whose child is 101, watcher "b"
    (uid 2, with a vetoing `before_signal` hook) has worker 102 whose child is 103 -/
def c18s : State := run (initState c18cfg [{ kids := 1 }] 0) [.start, .wake, .wake, .wake, .wake]
/-- a request for watcher "a" with signal 12 (SIGUSR2: not fatal for the simulated workers) -/
def c18req (l : List (String × JVal)) : JVal := .obj ([("name", .str "a"), ("signum", .int 12)] ++ l)
def C18h.isSig : Obs → Bool
  | .sig .. => true
  | _ => false
/-- the kernel `kill`s recorded after `c18s`, rendered -/
def c18new (s' : State) : List String := ((C18h.newLog c18s s').filter C18h.isSig).map showObs

example : (getW 1 c18s).1.pids = [100] ∧ (getW 2 c18s).1.pids = [102] ∧ c18s.blocked = false := by decide +kernel
-- the watcher lookup hypothesis `hu` of the request theorems
example : (getWatcherCmd (((c18req []).get? "name").getD .null) c18s).1 = .ok 1 := by decide +kernel
example : (getWatcherCmd (((JVal.obj [("name", .str "nosuch")]).get? "name").getD .null) c18s).1 = .error .message := by
  decide +kernel
-- C18_send_signal_only_own: 102 is a worker, but of the other watcher
example : 102 ∉ (getW 1 c18s).1.pids ∧ 100 ∈ (getW 1 c18s).1.pids := by decide +kernel
-- C18_send_signal_vetoed_no_signal (watcher "b") / C18_send_signal_delivers (watcher "a")
example : (callHook 2 "before_signal" c18s).1 = false ∧ (getW 2 c18s).1.pids.contains 102 = true ∧ (15 : Nat) ≠ 9 := by
  decide +kernel
example : ¬ ((12 : Nat) ≠ 9 ∧ (callHook 1 "before_signal" c18s).1 = false) := by decide +kernel
example : (c18new (sendSignal 1 100 12 c18s).2) = ["o sig 100 12 r"] ∧ (c18new (sendSignal 2 102 15 c18s).2) = [] ∧
    (c18new (sendSignal 2 102 9 c18s).2) = ["o sig 102 9 r"] ∧ (c18new (sendSignal 1 102 12 c18s).2) = [] := by
  decide +kernel
-- C18_send_signal_child_only_current_children: 101 is a child of 100, 103 is not
example : (c18s.k.children 100 false).2 = some [101] := by decide +kernel
example : c18new (sendSignalChild 100 101 12 c18s).2 = ["o sig 101 12 r"] ∧ c18new (sendSignalChild 100 103 12 c18s).2 = [] ∧
    c18new (sendSignalChild 100 102 12 c18s).2 = [] := by decide +kernel
-- the confinement predicate is not trivial: 101 descends from 100, and (C18_signal_cmd_targets) that is all
example : c18s.k.Desc 100 101 := .child _ _ (by decide +kernel)
example := C18_signal_cmd_targets (c18req [("recursive", .bool true)]) c18s 1 (by decide +kernel)
-- … while the other watcher's worker 102 (a child of the daemon) is neither listed by "a" nor a
-- descendant of 100: the hypotheses of C18_signal_never_reaches_others for p = 102
example : 102 ∉ (getW 1 c18s).1.pids ∧ ∀ q ∈ (getW 1 c18s).1.pids, ¬ c18s.k.Desc q 102 := by
  refine ⟨by decide +kernel, ?_⟩
  intro q hq hd
  have hq' : q = 100 := by
    have : (getW 1 c18s).1.pids = [100] := by decide +kernel
    rw [this] at hq; simpa using hq
  subst hq'
  obtain ⟨m, ⟨p, hp, hpid, hpp⟩, hm⟩ := hd.last
  have h0 : ∀ p ∈ c18s.k.procs, p.pid = 102 → p.ppid = some 0 := by decide +kernel
  have hm0 : m = 0 := by
    have := h0 p hp hpid
    rw [hpp] at this
    injection this
  subst hm0
  rcases hm with h | h
  · cases h
  · obtain ⟨m', ⟨p', hp', hpid', _⟩, _⟩ := h.last
    have h1 : ∀ p ∈ c18s.k.procs, p.pid ≠ 0 := by decide +kernel
    exact h1 p' hp' hpid'
example : c18new (execSignal (c18req [("pid", .int 100), ("recursive", .bool true)]) c18s).2
    = ["o sig 100 12 r", "o sig 101 12 r"] := by decide +kernel
example : c18new (execSignal (c18req [("children", .bool true)]) c18s).2 = ["o sig 101 12 r"] := by decide +kernel
example : c18new (execSignal (c18req []) c18s).2 = ["o sig 100 12 r"] := by decide +kernel
-- C18_signal_foreign_pid_no_signal: another watcher's worker, an unrelated pid, a negative one, a string
example : C18h.sigOwn (getW 1 c18s).1 (.int 102) = none ∧ C18h.sigOwn (getW 1 c18s).1 (.int 4711) = none ∧
    C18h.sigOwn (getW 1 c18s).1 (.int (-100)) = none ∧ C18h.sigOwn (getW 1 c18s).1 (.str "100") = none ∧
    C18h.sigOwn (getW 1 c18s).1 (.int 100) = some 100 := by decide +kernel
example := C18_signal_foreign_pid_no_signal (c18req [("pid", .int 102), ("childpid", .int 103)]) c18s 1 (.int 102)
  (by decide +kernel) (by rfl) (by decide +kernel)
example : c18new (execSignal (c18req [("pid", .int 102), ("childpid", .int 103)]) c18s).2 = [] ∧
    c18new (execSignal (c18req [("pid", .int 102), ("children", .bool true)]) c18s).2 = [] ∧
    c18new (execSignal (c18req [("pid", .int 102), ("recursive", .bool true)]) c18s).2 = [] ∧
    c18new (execSignal (c18req [("pid", .int 102)]) c18s).2 = [] := by decide +kernel
-- C18_signal_own_pid_*: the mode hypotheses
example := C18_signal_own_pid_childpid (c18req [("pid", .int 100), ("childpid", .int 101)]) c18s 1 100 101
  (by decide +kernel) (by rfl) (by decide +kernel) (by rfl) (by decide)
example := C18_signal_own_pid_plain (c18req [("pid", .int 100)]) c18s 1 100
  (by decide +kernel) (by rfl) (by decide +kernel) (by decide +kernel) (by decide +kernel) (by decide +kernel)
example := C18_signal_own_pid_children (c18req [("pid", .int 100), ("children", .bool true)]) c18s 1 100
  (by decide +kernel) (by rfl) (by decide +kernel) (by decide +kernel) (by decide +kernel)
-- C18_kill_cmd_filters: pid filter, and pid 0 (addresses nobody since the repair)
example : (activeProcs 1 c18s).1 = [100] := by decide +kernel
example : C18h.killProcs (.obj [("name", .str "a"), ("pid", .int 102)]) [100] = [] ∧
    C18h.killProcs (.obj [("name", .str "a"), ("pid", .int 100)]) [100] = [100] ∧
    C18h.killProcs (.obj [("name", .str "a")]) [100] = [100] ∧
    C18h.killProcs (.obj [("name", .str "a"), ("pid", .int 0)]) [100] = [] := by decide +kernel
example : pidOfProps (.obj [("name", .str "a"), ("pid", .int 0)]) = some 0 := by decide +kernel
-- C18_bad_designation_no_signal
example : ((JVal.obj [("name", .str "a"), ("signum", .int 99)]).get? "signum").bind toSignumJ = none ∧
    ((JVal.obj [("name", .str "a")]).get? "signum").bind toSignumJ = none ∧
    toSignumJ (.int 0) = none ∧ toSignumJ (.bool true) = none ∧ toSignumJ (.int 15) = some 15 := by decide +kernel

-- C18_signal_children_stops_at_vanished_child: worker 100 with children 101, 102, 103; child 102 dies
-- just before the third kernel call of the request (= the `kill` addressed to it): 101 is signalled,
-- 102 is reported gone, 103 gets nothing, the reply is NoSuchProcess
def c18t0 : State := run (initState [{ name := "a" }] [{ kids := 3 }] 0) [.start, .wake, .wake]
def c18t : State := { c18t0 with k := { c18t0.k with calls := 0, armed := [(3, 102, 9)] } }
def c18treq : JVal := .obj [("name", .str "a"), ("signum", .int 12), ("pid", .int 100), ("children", .bool true)]
example : (kChildren 100 false c18t).1 = some ([101] ++ 102 :: [103]) := by decide +kernel
example := C18_signal_children_stops_at_vanished_child c18treq c18t 1 100 [101] 102 [103]
  (by decide +kernel) (by rfl) (by decide +kernel) (by decide +kernel) (by decide +kernel) (by decide +kernel)
  ⟨by decide +kernel, trivial⟩ (by decide +kernel)
example : (((C18h.newLog c18t (execSignal c18treq c18t).2).filter C18h.isSig).map showObs) =
    ["o sig 101 12 r", "o sig 102 12 g"] := by decide +kernel
-- … and without the fault all three children are signalled (`C18h.sigKillAll_all`)
example : (((C18h.newLog c18t0 (execSignal c18treq c18t0).2).filter C18h.isSig).map showObs) =
    ["o sig 101 12 r", "o sig 102 12 r", "o sig 103 12 r"] := by decide +kernel


-- C18_signal_children_stops_at_unsignalable_child: worker 100 with children 101, 102, 103 that run under another uid
-- (the daemon may signal the worker, not its children): the first child's signal is refused, 102 and 103 get nothing,
-- the reply is AccessDenied — and the one attempt went to a child of the addressed worker
def c18d : State := run (initState [{ name := "a" }] [{ kids := 3, kidEperm := true }] 0) [.start, .wake, .wake]
example : (kChildren 100 false c18d).1 = some ([] ++ 101 :: [102, 103]) := by decide +kernel
example := C18_signal_children_stops_at_unsignalable_child c18treq c18d 1 100 [] 101 [102, 103]
  (by decide +kernel) (by rfl) (by decide +kernel) (by decide +kernel) (by decide +kernel) (by decide +kernel)
  trivial (by decide +kernel)
example : (((C18h.newLog c18d (execSignal c18treq c18d).2).filter C18h.isSig).map showObs) = ["o sig 101 12 r!"] ∧
    (match (execSignal c18treq c18d).1 with | .error (.other "AccessDenied") => true | _ => false) = true := by
  decide +kernel
-- C18_send_signal_delivers on a worker the daemon may not signal: the attempt is recorded as refused
def c18e : State := run (initState [{ name := "a" }] [{ eperm := true }] 0) [.start, .wake, .wake]
example : ((callHook 1 "before_signal" c18e).2.k.killD 100 15).2.2 = true ∧ 100 ∈ (getW 1 c18e).1.pids ∧
    c18e.blocked = false ∧ (sendSignal 1 100 15 c18e).1 = .denied := by decide +kernel
example : (((C18h.newLog c18e (sendSignal 1 100 15 c18e).2).filter C18h.isSig).map showObs) = ["o sig 100 15 r!"] := by
  decide +kernel

end Circus.Core
