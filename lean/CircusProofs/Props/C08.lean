import CircusProofs.Core.ArbInv
import CircusProofs.Core.Init
import CircusProofs.Props.C02
import CircusProofs.Props.C06
/-!
# C08 — shutdown is complete (the daemon-state-machine half; the pid file is in C08Pidfile.lean)

`SysHandler` turns SIGTERM/SIGINT/SIGQUIT into a `quit` dispatch on the loop (`sigQuit`; as
repaired in /repo it retries every 100 ms while an exclusive command holds the slot);
`Arbiter.stop` → `_stop_watchers` → `loop.stop` → `stop_controller_and_close_sockets`
(`arbStop`, `arbStopTail`, `setLoopStop`, `stepTail`, `stopController`).

* the signal is never dropped: dispatched at once when the slot is free, otherwise one 100 ms
  timer whose firing runs `sigQuit` again;
* an accepted quit sets `stopping`; only the failure path of an arbiter restart clears it (fix 273f512); no respawn during/after shutdown;
* `Arbiter.stop` targets every registered watcher (a permutation of all of them, each started);
* when the stop future completes the loop is stopped and `stepTail` closes the control and the
  PUB socket; closed stays closed; nothing is published / replied on a closed socket;
* no stimulus (`stepOp`: request, signal, timer, check, death — with all the coroutines it runs) ever
  closes a socket: only `stepTail` does (proved over Core/NoClose.lean, the composition proofs for
  writer structures without `setClosed`);
* the `ok` reply of a non-waiting `quit` is written by `handle_message` itself, on a control socket
  that is still open, i.e. before the loop gets to `stop_controller_and_close_sockets`.
-/
namespace Circus.Core

/-! ### 1. the termination signal is never dropped -/

/-- **slot free (or already stopping): the signal is a `quit` request dispatched at once** -/
theorem C08_sigquit_dispatches_when_free (s : State) (h : s.a.slot = none ∨ s.a.stopping = true) :
    sigQuit s = handleMessage none (some quitMsg) s := by
  unfold sigQuit
  simp only [bind, getA]
  have hc : ¬ ((s.a.slot.isSome && !s.a.stopping) = true) := by
    rcases h with h | h <;> simp [h]
  erw [if_neg hc]
  rfl

/-- **slot busy: exactly one 100 ms timer is registered and nothing else changes** — a frame whose
    continuation just hands the result to the callback `sigquit`, and a sleeper due 100 ms from now
    that wakes this frame (frame ids are fresh: `hfresh`). -/
theorem C08_sigquit_retries_when_busy (s : State) (h1 : s.a.slot.isSome = true) (h2 : s.a.stopping = false)
    (hfresh : ∀ f ∈ s.frames, f.fid ≠ s.nextId) :
    sigQuit s = ((), { s with
      nextId := s.nextId + 2,
      frames := s.frames ++ [{ fid := s.nextId, k := .pass, parent := .callback "sigquit", armed := true }],
      sleepers := s.sleepers ++ [{ sid := s.nextId + 1, deadline := s.k.now + 100, waiter := .frame s.nextId 0 }] }) := by
  unfold sigQuit
  simp only [bind, getA]
  erw [if_pos (by simp [h1, h2])]
  have hmap : s.frames.map (fun g => if g.fid = s.nextId then { g with armed := true } else g) = s.frames := by
    conv => rhs; rw [← List.map_id s.frames]
    apply List.map_congr_left
    intro f hf
    simp [hfresh f hf]
  simp [newFrame, freshId, pushFrame, armFrame, addSleeper, pushSleeper, nowMs, getK, modS, bind, pure]
  exact hmap

/-- when that timer fires (`Op.wake` → `deliver … sl.waiter`), the armed frame is removed and its
    continuation is queued on the loop … -/
theorem C08_sigquit_timer_fires (rec : Rec) (v : Val) (s : State) (fid : Nat)
    (hf : s.frames.find? (·.fid = fid) = some { fid := fid, k := .pass, parent := .callback "sigquit", armed := true }) :
    deliver rec (.frame fid 0) v s = enqueue (.resume .pass v (.callback "sigquit")) (removeFrame fid s).2 := by
  unfold deliver
  simp only [bind, getS, hf]
  rfl

/-- … the sleeper `sigQuit` registered does find its frame when frame ids are fresh -/
theorem sigquit_frame_found (s : State) (h1 : s.a.slot.isSome = true) (h2 : s.a.stopping = false)
    (hfresh : ∀ f ∈ s.frames, f.fid ≠ s.nextId) :
    (sigQuit s).2.frames.find? (·.fid = s.nextId) =
      some { fid := s.nextId, k := .pass, parent := .callback "sigquit", armed := true } := by
  rw [C08_sigquit_retries_when_busy s h1 h2 hfresh]
  simp only [List.find?_append]
  have : s.frames.find? (fun x => decide (x.fid = s.nextId)) = none := by
    apply List.find?_eq_none.mpr
    intro f hf; simpa using hfresh f hf
  simp [this]

/-- … that continuation hands the result to the timer callback, i.e. queues `callback "sigquit"` … -/
theorem C08_sigquit_resume_queues_callback (rec : Rec) (v : Val) (n : String) (s : State) :
    runResume rec .pass v (.callback n) s = enqueue (.callback n) s := rfl

/-- … **and the callback is `sigQuit` again**: the signal is retried every 100 ms until the slot is
    free (`C08_sigquit_dispatches_when_free`). -/
theorem C08_sigquit_callback_retries (rec : Rec) (n : String) : runReady1 rec (.callback n) = sigQuit := rfl

/-! ### 2. `stopping` is set by an accepted quit; what can clear it -/

/-- every write the model makes to the arbiter record keeps `stopping` set — except the one of the failed arbiter
    restart (`clearRestarting was`, fix 273f512 as refined: it restores the value `was` found on entry), which is not
    in this list -/
theorem stopping_kept_by_writes (a : Arbiter) (h : a.stopping = true) :
    { a with stopping := true }.stopping = true ∧ { a with restarting := true, stopping := true }.stopping = true ∧
    (∀ b, { a with loopStop := b }.stopping = true) ∧ (∀ b, { a with socketEvent := b }.stopping = true) ∧
    (∀ b, { a with sockReady := b }.stopping = true) ∧ (∀ ns ws, { a with names := ns, watchers := ws }.stopping = true) ∧
    (∀ v, { a with slot := v }.stopping = true) ∧ { a with ctlClosed := true, pubClosed := true }.stopping = true :=
  ⟨rfl, rfl, fun _ => h, fun _ => h, fun _ => h, fun _ _ => h, fun _ => h, h⟩

theorem restartingStoppingStable : ArbStable (fun a => a.restarting = true → a.stopping = true) :=
  ⟨⟨fun _ _ _ => rfl, fun _ _ _ => rfl, fun _ _ _ h => by simp at h, fun _ _ h => h, fun _ _ h => h, fun _ _ h => h,
    fun _ _ _ h => h, fun _ _ h => h⟩, fun _ h => h⟩

/-- **while the arbiter is restarting it is stopping**: `_restarting` is never set without `_stopping`, along every
    run — `Arbiter.restart` sets both, and its failure path (fix 273f512) clears `_restarting` whatever it does to `_stopping`. -/
theorem C08_restarting_implies_stopping (s : State) (ops : List Op) (h : s.a.restarting = true → s.a.stopping = true) :
    (run s ops).a.restarting = true → (run s ops).a.stopping = true :=
  run_pres (Spec.ofLeafX (arbPLeafX _ restartingStoppingStable)) s ops h

example : (initState [{ name := "a" }] [{}] 0).a.restarting = true → (initState [{ name := "a" }] [{}] 0).a.stopping = true := by
  decide +kernel

/- FULL STATEMENT (was `C08_stopping_is_forever`, proved until fix 273f512 from "no write clears `stopping`"):
     ∀ (s : State) (ops : List Op), s.a.stopping = true → (run s ops).a.stopping = true
   With the refinement of 273f512 (`was_stopping = self._stopping` read before `_stopping = True`, restored by the
   `except`) a flag set by a shutdown is no longer cleared by a failed arbiter restart (`C08_failed_restart_keeps_shutdown_flag`,
   `C08_restart_restores_the_flag_it_found`).  The statement over ALL states is still not literally true: in a state
   taken while an arbiter restart of a daemon that was not shutting down is in flight, `stopping` is set (by the restart
   itself, `was_stopping = False`) and the failure of that restart clears it again — by design.  True, and not proved:
   "`stopping = true ∧ restarting = false` is for ever along every run from a reachable state"; it needs the invariant
   that a `restartInsideAfterStop was` continuation is pending only while `restarting` is set, and that `was = true`
   whenever the flag was set on entry, over the heap of suspended coroutines (the generic preservation framework
   quantifies over every frame that could be pushed and cannot express it).  What is proved: -/
/-- a watcher whose worker the daemon may not signal, started -/
def c08fS : State := run (initState [{ name := "alpha" }] [{ eperm := true }] 0) [.start, .wake, .wake]
def c08fReq (cmd : String) : Op := .req "c" (some (.obj [("command", .str cmd), ("id", .str "q"), ("properties", .obj [])]))

/-- **a failed arbiter restart does not undo a shutdown (the former counter-example, evaluated on the refined fix)**: a
    `quit` that fails (the worker cannot be signalled) leaves `_stopping` set with the slot free; a `restart` of the
    arbiter is then accepted, fails for the same reason, and its `except` restores the `_stopping` it found — set:
    the daemon is still shutting down, `_restarting` is clear; whereas the same failed restart of a daemon that was
    not shutting down leaves both flags clear. -/
theorem C08_failed_restart_keeps_shutdown_flag :
    (run c08fS [c08fReq "quit"]).a.stopping = true ∧ (run c08fS [c08fReq "quit"]).a.slot = none ∧
    (run c08fS [c08fReq "quit", c08fReq "restart"]).a.stopping = true ∧
    (run c08fS [c08fReq "quit", c08fReq "restart"]).a.restarting = false ∧
    (run c08fS [c08fReq "restart"]).a.stopping = false ∧ (run c08fS [c08fReq "restart"]).a.restarting = false := by
  decide +kernel

/-- **`Arbiter.restart` restores the flag it found**: the restart reads `_stopping` before it sets it and hands the value
    to the continuation that waits for the stop of the watchers (`restartInsideAfterStop was`); when that stop ends
    with an exception — any exception, any state — the continuation sets `_restarting = False`, `_stopping = was` and
    lets the exception go on; in particular a restart entered with the flag set (`was = true`) leaves it set. -/
theorem C08_restart_restores_the_flag_it_found (rec : Rec) (wt : Waiter) (s : State) (was : Bool) (e : Exc) :
    arbRestartInside rec wt s =
      await rec (.arbStopWatchers (iterWatchers false (setRestarting s).2).1 true) (.restartInsideAfterStop s.a.stopping) wt
        (iterWatchers false (setRestarting s).2).2 ∧
    runResume rec (.restartInsideAfterStop was) (.exc e) wt s =
      deliver rec wt (.exc e) { s with a := { s.a with restarting := false, stopping := was } } ∧
    (runResume rec (.restartInsideAfterStop true) (.exc e) wt s =
      deliver rec wt (.exc e) { s with a := { s.a with restarting := false, stopping := true } }) :=
  ⟨rfl, rfl, rfl⟩

/-- **`stopping` is cleared by one statement only** (partial, see the comment above for the run-level statement that is
    missing): the only definition of the model that can write `stopping := false` is `clearRestarting was`, and the only
    place that runs it is the continuation of `Arbiter.restart(inside_circusd=True)` when the stop of the watchers ended
    with an exception — with the value found on entry; every other continuation, on every value, and every other write
    to the arbiter record (`stopping_kept_by_writes`) leaves the flag alone; `manage_watchers` and a signal-initiated
    reload do nothing while it is set. -/
theorem C08_stopping_is_forever_partial (rec : Rec) (wt : Waiter) (s : State) :
    (∀ was e, runResume rec (.restartInsideAfterStop was) (.exc e) wt s =
        deliver rec wt (.exc e) { s with a := { s.a with restarting := false, stopping := was } }) ∧
    (∀ was v, (∀ e, v ≠ .exc e) → runResume rec (.restartInsideAfterStop was) v wt s = arbStopTail rec wt s) ∧
    (∀ k e, (∀ was, k ≠ .restartInsideAfterStop was) → k ≠ .pass → (∀ n r, k ≠ .multi n r) → (∀ f i, k ≠ .multiSlot f i) →
        runResume rec k (.exc e) wt s = deliver rec wt (.exc e) s) := by
  refine ⟨fun _ _ => rfl, ?_, ?_⟩
  · intro was v hv
    cases v <;> first | rfl | exact absurd rfl (hv _)
  · intro k e h1 h2 h3 h4
    cases k <;> first | rfl | exact absurd rfl (h1 _) | exact absurd rfl h2 | exact absurd rfl (h3 _ _) | exact absurd rfl (h4 _ _)

theorem ve_quit (props : JVal) : validateExecute "quit" props = (do
    let t ← syncCoroutine "arbiter_stop" .arbStop []
    pure (t.map fun tid => ExecRes.future tid "")) := by
  unfold validateExecute
  simp [requiredProps]

/-- an accepted `quit`, spelled out: the slot is taken, the stop coroutine runs up to its first
    suspension (or to its end) with `stopping` set first, and the request gets a future -/
theorem quit_accepted (props : JVal) (s : State) (h1 : s.a.slot = none) (h2 : s.a.restarting = false) :
    validateExecute "quit" props s =
      (.ok (.future s.nextId ""),
        (armTop s.nextId (exec fuelDefault (.call .arbStop (.top s.nextId))
          (newTop [.release] (setSlot (some "arbiter_stop") s).2).2).2).2) := by
  rw [ve_quit]
  unfold syncCoroutine
  simp only [bind, getA]
  erw [if_neg (by simp [h2]), if_neg (by simp [h1])]
  rfl

/- FULL STATEMENT (was `C08_quit_sets_stopping`, proved until fix 273f512 from "no write clears `stopping`"):
     (∃ tid, (validateExecute "quit" props s).1 = .ok (.future tid "")) ∧ (validateExecute "quit" props s).2.a.stopping = true
   for every state `s` with a free slot, not restarting, not hung. -/
/-- **an accepted quit sets `stopping` before anything else** (slot free, not restarting, daemon not hung): the request
    gets a future, and the state in which `Arbiter.stop` starts to stop the watchers (its one `yield`, over the
    watchers `ws` in stop order) has `stopping` set.  Partial: that the flag is still set when `validateExecute`
    returns needs, since fix 273f512, the invariant that no frame of a failed-restart handler
    (`restartInsideAfterStop false`) can be resumed while the slot is free (`C08_stopping_is_forever_partial`); at run level
    `C08_quit_terminates_stubborn` / `C08_quit_terminates_obedient` (Props/C08Run.lean) do have `stopping` set at the end. -/
theorem C08_quit_sets_stopping_partial (props : JVal) (s : State) (h1 : s.a.slot = none) (h2 : s.a.restarting = false)
    (hb : s.blocked = false) :
    (∃ tid, (validateExecute "quit" props s).1 = .ok (.future tid "")) ∧
    ∃ ws s3, s3.a.stopping = true ∧
      (validateExecute "quit" props s).2 =
        (armTop s.nextId (await (exec 99999) (.arbStopWatchers ws true) .quitAfterStop (.top s.nextId) s3).2).2 := by
  rw [quit_accepted props s h1 h2]
  refine ⟨⟨_, rfl⟩, ?_⟩
  generalize hs2 : (newTop [TopCb.release] (setSlot (some "arbiter_stop") s).2).2 = s2
  have hb2 : s2.blocked = false := by rw [← hs2]; exact hb
  have hfd : fuelDefault = 99999 + 1 := rfl
  refine ⟨(iterWatchers false (setStopping s2).2).1, (iterWatchers false (setStopping s2).2).2, rfl, ?_⟩
  rw [hfd, exec.eq_2]
  simp only [bind, getS]
  erw [if_neg (by simp [hb2])]
  rfl

example : (initState [{ name := "a" }] [{}] 0).a.slot = none ∧ (initState [{ name := "a" }] [{}] 0).a.restarting = false ∧
    (initState [{ name := "a" }] [{}] 0).blocked = false := by decide +kernel

/-- **no respawn during or after shutdown**: with `stopping` set the periodic `manage_watchers`
    returns at once — no reaping, no `manage_processes`, hence no spawn. -/
theorem C08_no_respawn_when_stopping (rec : Rec) (wt : Waiter) (s : State) (h : s.a.stopping = true) :
    manageWatchers rec wt s = deliver rec wt .unit s := by
  unfold manageWatchers
  simp only [bind, getA]
  erw [if_pos h]

/-- … and a (signal-initiated) reload is dropped as well -/
theorem C08_no_reload_when_stopping (rec : Rec) (g sq : Bool) (wt : Waiter) (s : State) (h : s.a.stopping = true) :
    runCall rec (.arbReload g sq) wt s = deliver rec wt .unit s := by
  simp only [runCall, bind, getA]
  erw [if_pos h]

/-! ### 3. `Arbiter.stop` stops every watcher -/

theorem mem_registered_uids (s : State) (u : Nat) :
    u ∈ (registered s).1.map (·.uid) ↔ u ∈ s.a.watchers ∧ ∃ w ∈ s.ws, w.uid = u := by
  simp only [registered, bind, getS, pure, List.mem_map, List.mem_filterMap]
  constructor
  · rintro ⟨w, ⟨u', hu', hf⟩, rfl⟩
    have h1 := List.find?_some hf
    have h2 := List.mem_of_find?_eq_some hf
    simp only [decide_eq_true_eq] at h1
    exact ⟨by rw [h1]; exact hu', w, h2, rfl⟩
  · rintro ⟨hu, w, hw, hwu⟩
    cases hf : s.ws.find? (fun x => decide (x.uid = u)) with
    | none =>
      have := List.find?_eq_none.mp hf w hw
      simp [hwu] at this
    | some w' =>
      have h1 := List.find?_some hf
      simp only [decide_eq_true_eq] at h1
      exact ⟨w', ⟨u, hu, hf⟩, h1⟩

/-- the children of a `gen.multi` are started one after the other, child `i` reporting to slot `i` -/
def startAll (rec : Rec) (fm : Nat) : List Call → Nat → State → State
  | [], _, s => s
  | c :: cs, i, s => startAll rec fm cs (i + 1) (rec (.call c (.frame fm i)) s).2

theorem forIn_startAll (rec : Rec) (fm : Nat) : ∀ (cs : List Call) (i : Nat) (s : State),
    ((forIn cs i (fun c r => (do
        rec (.call c (.frame fm r))
        pure (ForInStep.yield (r + 1)) : M (ForInStep Nat))) : M Nat) s).2 = startAll rec fm cs i s := by
  intro cs
  induction cs with
  | nil => intro i s; rfl
  | cons c cs ih =>
    intro i s
    rw [List.forIn_cons]
    simp only [bind, pure, startAll]
    exact ih (i + 1) _

/-- `yield [c1, …, cn]` starts every child (in order), then suspends -/
theorem awaitMulti_starts_all (rec : Rec) (cs : List Call) (k : Kont) (parent : Waiter) (s : State) (h : cs ≠ []) :
    (awaitMulti rec cs k parent s).2 =
      (armFrame s.nextId (armFrame (s.nextId + 1)
        (startAll rec (s.nextId + 1) cs 0
          (newFrame (.multi cs.length []) (.frame s.nextId 0) (newFrame k parent s).2).2)).2).2 := by
  unfold awaitMulti
  simp only [bind]
  erw [if_neg (by simpa using h)]
  have := forIn_startAll rec (s.nextId + 1) cs 0 (newFrame (.multi cs.length []) (.frame s.nextId 0) (newFrame k parent s).2).2
  rw [← this]
  rfl

/-- **`Arbiter.stop` targets every registered watcher**: it marks the arbiter as stopping, takes
    `iter_watchers(reverse=False)` — a permutation of *all* registered watchers — and awaits
    `_stop_watchers(close_output_streams=True)`, which awaits `w._stop(True)` for each of them (every
    one is started, `awaitMulti_starts_all`); the loop is only stopped (`quitAfterStop` →
    `arbStopTail`) once all of them have delivered.  With `C02_stop_completes` (a finished `_stop`
    leaves the watcher `stopped` with no listed process) this is "stops every watcher". -/
theorem C08_stop_targets_every_watcher (rec : Rec) (wt : Waiter) (s : State) :
    let ws := (iterWatchers false (setStopping s).2).1
    arbStop rec wt s = await rec (.arbStopWatchers ws true) .quitAfterStop wt (setStopping s).2 ∧
    ws.Perm ((registered s).1.map (·.uid)) ∧
    (∀ u ∈ s.a.watchers, (∃ w ∈ s.ws, w.uid = u) → u ∈ ws) ∧
    (∀ rec' wt', runCall rec' (.arbStopWatchers ws true) wt' =
      awaitMulti rec' (ws.map fun w => .stop_ w true) .ignore wt') ∧
    (∀ rec' wt' v, runResume rec' .quitAfterStop v wt' = match v with
      | .exc e => deliver rec' wt' (.exc e)
      | _ => arbStopTail rec' wt') := by
  intro ws
  have hperm : ws.Perm ((registered s).1.map (·.uid)) := (sortWatchers_perm _ false).map _
  refine ⟨rfl, hperm, ?_, fun _ _ => rfl, ?_⟩
  · intro u hu hw
    exact hperm.mem_iff.mpr ((mem_registered_uids s u).mpr ⟨hu, hw⟩)
  · intro rec' wt' v
    cases v <;> rfl

/-- **every one of them is really started**: `_stop_watchers` starts `w._stop(True)` for each watcher
    of the list, in list order, child `i` reporting to slot `i` of the `gen.multi` frame, before it
    suspends (`startAll` is the explicit left-to-right fold). -/
theorem C08_stop_starts_every_stop (rec : Rec) (ws : List Nat) (wt : Waiter) (s : State) (h : ws ≠ []) :
    (runCall rec (.arbStopWatchers ws true) wt s).2 =
      (armFrame s.nextId (armFrame (s.nextId + 1)
        (startAll rec (s.nextId + 1) (ws.map fun w => .stop_ w true) 0
          (newFrame (.multi ws.length []) (.frame s.nextId 0) (newFrame .ignore wt s).2).2)).2).2 := by
  have := awaitMulti_starts_all rec (ws.map fun w => Call.stop_ w true) .ignore wt s (by simpa using h)
  rw [List.length_map] at this
  exact this

/-! ### 4. the stopped loop closes everything, for ever -/

/-- when all watchers are stopped the loop is told to stop … -/
theorem C08_stop_tail_sets_loop_stop (rec : Rec) (wt : Waiter) (s : State) :
    arbStopTail rec wt s = deliver rec wt .unit { s with a := { s.a with loopStop := true } } := rfl

/-- … **a stopped loop makes `Arbiter.start` close the sockets**, at the end of the very step in
    which the ready queue has drained … -/
theorem C08_step_tail_closes (s : State) (h : (settle 100000 s).2.a.loopStop = true) :
    stepTail s = stopController (setLoopStop false (settle 100000 s).2).2 := by
  unfold stepTail
  simp only [bind, getA]
  erw [if_pos h]

/-- … and a loop that was not stopped closes nothing: the step ends when the ready queue is empty -/
theorem C08_step_tail_keeps_running (s : State) (h : (settle 100000 s).2.a.loopStop = false) :
    stepTail s = ((), (settle 100000 s).2) := by
  unfold stepTail
  simp only [bind, getA]
  erw [if_neg (by simp [h])]
  rfl

/-- … **and `stop_controller_and_close_sockets` closes the control and the PUB side**: both flags are
    set whatever the state; starting from open sockets (daemon not hung) exactly the two `close`
    entries are logged, control first. -/
theorem C08_loop_stop_closes_everything (s : State) :
    (stopController s).2.a.ctlClosed = true ∧ (stopController s).2.a.pubClosed = true ∧
    (s.a.ctlClosed = false → s.a.pubClosed = false → s.blocked = false →
      (stopController s).2 = { s with log := s.log ++ [Obs.close "ctrl", Obs.close "evpub"],
                                      a := { s.a with ctlClosed := true, pubClosed := true } }) := by
  have hflags : ∀ s1 : State, (setClosed s1).2.a.ctlClosed = true ∧ (setClosed s1).2.a.pubClosed = true :=
    fun _ => ⟨rfl, rfl⟩
  unfold stopController
  simp only [bind, getA]
  by_cases c1 : (!s.a.ctlClosed) = true <;> by_cases c2 : (!s.a.pubClosed) = true
  · erw [if_pos c1]; erw [if_pos c2]
    refine ⟨(hflags _).1, (hflags _).2, ?_⟩
    intro _ _ hb
    simp [emit, modS, hb, Obs.isRep, Obs.isEv, setClosed, modA]
  · erw [if_pos c1]; erw [if_neg c2]
    refine ⟨(hflags _).1, (hflags _).2, ?_⟩
    intro _ h2; simp [h2] at c2
  · erw [if_neg c1]; erw [if_pos c2]
    refine ⟨(hflags _).1, (hflags _).2, ?_⟩
    intro h1; simp [h1] at c1
  · erw [if_neg c1]; erw [if_neg c2]
    refine ⟨(hflags _).1, (hflags _).2, ?_⟩
    intro h1; simp [h1] at c1

/-- closing twice logs nothing more -/
theorem C08_close_is_idempotent (s : State) (h1 : s.a.ctlClosed = true) (h2 : s.a.pubClosed = true) :
    stopController s = ((), s) := by
  unfold stopController
  simp only [bind, getA]
  erw [if_neg (by simp [h1])]
  erw [if_neg (by simp [h2])]
  simp only [setClosed, modA, modS]
  cases s with
  | mk k a objs ws frames sleepers tops ready doneVals nextId log blocked =>
    cases a
    simp_all

theorem closedStable : ArbStable (fun a => a.ctlClosed = true ∧ a.pubClosed = true) :=
  ⟨⟨fun _ h => h, fun _ h => h, fun _ _ h => h, fun _ _ h => h, fun _ _ h => h, fun _ _ h => h, fun _ _ _ h => h, fun _ _ h => h⟩, fun _ _ => ⟨rfl, rfl⟩⟩

/-- **closed is for ever**: once the control and PUB sockets are closed they stay closed along every
    continuation of the run. -/
theorem C08_closed_is_forever (s : State) (ops : List Op) (h1 : s.a.ctlClosed = true) (h2 : s.a.pubClosed = true) :
    (run s ops).a.ctlClosed = true ∧ (run s ops).a.pubClosed = true :=
  run_pres (Spec.ofLeafX (arbPLeafX _ closedStable)) s ops ⟨h1, h2⟩

/-- **nothing is published after the close**, and no reply is written: `notify_event` and
    `send_response` are no-ops on closed sockets. -/
theorem C08_nothing_published_after_close (s : State) :
    (s.a.pubClosed = true → ∀ u topic pid x, notify u topic pid x s = ((), s)) ∧
    (s.a.ctlClosed = true → ∀ cid id cast st errno body, sendReply cid id cast st errno body s = ((), s)) := by
  constructor
  · intro h u topic pid x
    unfold notify
    simp only [bind, getA, getW]
    erw [if_pos h]; rfl
  · intro h cid id cast st errno body
    unfold sendReply
    simp only [bind, getA]
    cases cid with
    | none => rfl
    | some c => simp only; erw [if_pos (by simp [h])]; rfl

/-! ### 5. the reply to `quit` is written before the sockets are closed -/

/-- **no stimulus closes a socket by itself**: handling a request frame, a signal, a timer, a periodic
    check, a death — everything a step does *before* the loop drains (`stepOp`), with all the
    coroutines it runs — leaves the control and PUB sockets exactly as they were.  Only `stepTail`
    (the stopped loop, `C08_step_tail_closes`) closes them.  (Composition proofs over writer
    structures without `setClosed`: Core/NoClose.lean.) -/
theorem C08_stimulus_never_closes (op : Op) (s : State) :
    (stepOp op s).2.a.ctlClosed = s.a.ctlClosed ∧ (stepOp op s).2.a.pubClosed = s.a.pubClosed :=
  stepOp_presC (SpecC.ofLeafXC (arbPLeafXC _ (socketsStableC s.a.ctlClosed s.a.pubClosed))) op s ⟨rfl, rfl⟩

/-- … in particular `Controller.handle_message` / `dispatch` with whatever command -/
theorem C08_dispatch_never_closes (cid : Option String) (msg : Option JVal) (s : State) :
    (handleMessage cid msg s).2.a.ctlClosed = s.a.ctlClosed ∧ (handleMessage cid msg s).2.a.pubClosed = s.a.pubClosed :=
  handleMessage_presC (SpecC.ofLeafXC (arbPLeafXC _ (socketsStableC s.a.ctlClosed s.a.pubClosed))) cid msg s ⟨rfl, rfl⟩

/-- **the `ok` reply of an accepted, non-waiting `quit` is written by `handle_message` itself, on a
    control socket that is still open**: `dispatch` attaches the reply callback and calls
    `send_response` at once, on the state `s2` the stop coroutine left at its first suspension (or
    at its end); in `s2` the control socket is as open as it was when the request arrived, so
    (unless the daemon hung in a blocking reap) the reply is the last thing written.  The sockets
    are only closed afterwards, by `stepTail`. -/
theorem C08_quit_reply_before_close (cid : String) (j : JVal) (name : String) (s : State)
    (hobj : j.isObj = true) (hcmd : j.get? "command" = some (.str name)) (hq : pyLower name = "quit")
    (hprops : ((j.get? "properties").getD (.obj [])).isObj = true)
    (hw : ((((j.get? "properties").getD (.obj [])).get? "waiting").map JVal.truthy).getD false = false)
    (hcast : j.get? "msg_type" ≠ some (.str "cast"))
    (h1 : s.a.slot = none) (h2 : s.a.restarting = false) (ho : s.a.ctlClosed = false) :
    ∃ s2, handleMessage (some cid) (some j) s = sendReply (some cid) ((j.get? "id").getD .null) false "ok" "-" "-" s2 ∧
      s2.a.ctlClosed = false ∧
      (s2.blocked = false →
        (handleMessage (some cid) (some j) s).2.log = s2.log ++ [Obs.rep cid ((j.get? "id").getD .null) "ok" "-" "-"]) := by
  have hs : (clearDone s).2.a.slot = none := h1
  have hr : (clearDone s).2.a.restarting = false := h2
  have hqa := quit_accepted ((j.get? "properties").getD (.obj [])) (clearDone s).2 hs hr
  have hc1 := (validateExecute_never_closes "quit" ((j.get? "properties").getD (.obj [])) (clearDone s).2).1
  generalize hve : validateExecute "quit" ((j.get? "properties").getD (.obj [])) (clearDone s).2 = ve at hqa hc1
  obtain ⟨r, s1⟩ := ve
  have hr1 : r = .ok (.future (clearDone s).2.nextId "") := congrArg Prod.fst hqa
  subst hr1
  simp only at hc1
  have key : handleMessage (some cid) (some j) s =
      sendReply (some cid) ((j.get? "id").getD .null) false "ok" "-" "-"
        (addDoneCallback (clearDone s).2.nextId
          (.reply (some cid) ((j.get? "id").getD .null) false "quit" false "") s1).2 := by
    unfold handleMessage
    simp only
    erw [if_neg (by simp [hobj])]
    simp only [hcmd, hq]
    erw [if_neg (by decide)]
    erw [if_neg (by simp [hprops])]
    simp only [bind]
    rw [hve]
    simp only
    erw [if_neg (by decide)]
    simp only [hw]
    erw [if_pos rfl]
  refine ⟨_, key, ?_, ?_⟩
  · rw [(addDoneCallback_never_closes _ _ s1).1, hc1]
    exact ho
  · intro hb
    rw [key]
    refine sendReply_exact cid _ _ _ _ _ ?_ hb
    rw [(addDoneCallback_never_closes _ _ s1).1, hc1]
    exact ho

/-! ### non-vacuity -/

def c08Quit : JVal := .obj [("command", .str "QUIT"), ("id", .str "7"), ("properties", .obj [])]

/-- two registered watchers, one worker each; the slot is held by a running `watcher_stop` -/
def c08S : State :=
  { ws := [{ name := "a", uid := 1, status := .active, pids := [100], priority := 2 },
           { name := "b", uid := 2, status := .active, pids := [101], priority := 1 }],
    a := { watchers := [1, 2], names := [("a", 1), ("b", 2)], slot := some "watcher_stop" },
    objs := [{ pid := 100, wid := 1, started := 0 }, { pid := 101, wid := 1, started := 0 }],
    k := { procs := [{ pid := 100, ppid := some 0, st := .run, status := 0, doom := none, behav := {} },
                     { pid := 101, ppid := some 0, st := .run, status := 0, doom := none, behav := {} }],
           nextPid := 102 },
    nextId := 3 }

def c08Free : State := { c08S with a := { c08S.a with slot := none } }

-- the hypotheses of the retry theorem, and what the retry looks like
example : c08S.a.slot.isSome = true ∧ c08S.a.stopping = false ∧ (∀ f ∈ c08S.frames, f.fid ≠ c08S.nextId) := by
  decide +kernel
example : (sigQuit c08S).2.sleepers.map (fun sl => (sl.sid, sl.deadline)) = [(4, 100)] ∧
    (sigQuit c08S).2.frames.length = 1 ∧ (sigQuit c08S).2.a.stopping = false := by decide +kernel
-- with the slot free the same signal runs the whole shutdown (the workers die at once on SIGTERM):
-- every watcher stopped with no process left, the loop told to stop, and the step closes the sockets
example : (sigQuit c08Free).2.a.stopping = true ∧ (sigQuit c08Free).2.a.loopStop = true ∧
    ((sigQuit c08Free).2.ws.map (·.status)) = [.stopped, .stopped] ∧
    ((sigQuit c08Free).2.ws.map (·.pids)) = [[], []] := by decide +kernel
example : (stepM (.sigreq true) c08Free).2.a.ctlClosed = true ∧ (stepM (.sigreq true) c08Free).2.a.pubClosed = true ∧
    (stepM (.sigreq true) c08Free).2.k.snapshot = [] ∧
    ((stepM (.sigreq true) c08Free).2.log.map showObs).drop 10 = ["o close ctrl", "o close evpub"] := by decide +kernel
-- `iter_watchers(reverse=False)`: ascending priority, all of them
example : (iterWatchers false (setStopping c08Free).2).1 = [2, 1] := by decide +kernel
-- the hypotheses of `C08_quit_reply_before_close`
example : c08Quit.isObj = true ∧ pyLower "QUIT" = "quit" ∧ c08Free.a.slot = none ∧ c08Free.a.restarting = false ∧
    c08Free.a.ctlClosed = false := by decide +kernel
example : ((handleMessage (some "c") (some c08Quit) c08Free).2.log.filter Obs.isRep).map showObs =
    ["o rep c s55 ok - -"] ∧ (handleMessage (some "c") (some c08Quit) c08Free).2.a.ctlClosed = false := by decide +kernel

end Circus.Core
