import CircusProofs.Core.SlotInv
/-!
# C10 — state-changing operations are serialized; the exclusive slot is always freed

On the core model (`run (initState cfg …) ops`, any operation list):
* `C10_slot_inv` — in every reachable state at most one release callback is pending, and the
  exclusive slot is taken **iff** exactly one is: the slot is never taken without somebody who
  will free it, never free while an exclusive operation is still registered;
* `C10_refused_no_effect` — an exclusive operation arriving while the slot is taken (or while
  the arbiter restarts) is refused with ConflictError and the state is *identical*;
* `C10_release_whatever_outcome` — when the operation's future completes, with a result or with
  an exception, the release runs (synchronous completion) or is queued on the loop (later
  completion): the outcome value plays no role;
* `C10_taken_means_pending` — a taken slot always has its release registered somewhere.
What is not a theorem: that every registered future eventually completes (no lost continuation
in the frame heap); the check's oracle (`slot-wedged`) looks for that on every run.
-/
namespace Circus.Core

/-- **mutual exclusion, in every reachable state** -/
theorem C10_slot_inv (cfg : List Watcher) (bs : List Behav) (aw : Nat) (ops : List Op) :
    let s := run (initState cfg bs aw) ops
    relCount s ≤ 1 ∧ (s.a.slot.isSome ↔ relCount s = 1) :=
  slotInv_run _ ops (slotInv_init cfg bs aw)

/-- **refused ⇒ nothing changed**: `util.synchronized` raises ConflictError before doing anything -/
theorem C10_refused_no_effect (name : String) (c : Call) (extra : List TopCb) (s : State)
    (h : s.a.restarting = true ∨ s.a.slot.isSome = true) :
    syncCoroutine name c extra s = (.error .conflict, s) := by
  unfold syncCoroutine
  simp only [bind, getA]
  by_cases hr : s.a.restarting = true
  · erw [if_pos hr]; rfl
  · erw [if_neg hr]
    have hsl : s.a.slot.isSome = true := by rcases h with h | h; exact absurd h hr; exact h
    erw [if_pos hsl]; rfl

theorem C10_refused_no_effect_plain {α : Type} (name : String) (body : M (R α)) (s : State)
    (h : s.a.restarting = true ∨ s.a.slot.isSome = true) :
    syncPlain name body s = (.error .conflict, s) := by
  unfold syncPlain
  simp only [bind, getA]
  by_cases hr : s.a.restarting = true
  · erw [if_pos hr]; rfl
  · erw [if_neg hr]
    have hsl : s.a.slot.isSome = true := by rcases h with h | h; exact absurd h hr; exact h
    erw [if_pos hsl]; rfl

/-- **accepted ⇒ the slot is taken by this operation** (and only then is the coroutine started) -/
theorem C10_accepted_takes_slot (name : String) (c : Call) (s : State)
    (h1 : s.a.restarting = false) (h2 : s.a.slot = none) :
    ∃ tid, (syncCoroutine name c [] s).1 = .ok tid := by
  unfold syncCoroutine
  simp only [bind, getA]
  have hr : ¬ s.a.restarting = true := by simp [h1]
  have hs : ¬ s.a.slot.isSome = true := by simp [h2]
  erw [if_neg hr, if_neg hs]
  exact ⟨_, rfl⟩

/-- **the release does not depend on how the operation ended** — synchronous completion -/
theorem C10_release_whatever_outcome_sync (v : Val) (cbs : List TopCb) (s : State) (h : TopCb.release ∈ cbs) :
    (deliverCbs false v cbs s).2.a.slot = none := by
  have := deliverCbs_wp false v cbs (fun sl _ => sl = none) s
  simp only [SlotView] at this
  apply this
  have hge : relCbs cbs ≥ 1 := by
    unfold relCbs
    exact List.countP_pos_iff.mpr ⟨_, h, rfl⟩
  simp [hge]

/-- … and completion in a later loop iteration: the release callback is queued, for any outcome -/
theorem C10_release_whatever_outcome_async (v : Val) (cbs : List TopCb) (s : State) (h : TopCb.release ∈ cbs) :
    relReady (deliverCbs true v cbs s).2.ready ≥ 1 ∨ relTops (deliverCbs true v cbs s).2.tops ≥ 1 := by
  have := deliverCbs_wp true v cbs (fun _ n => n ≥ 1) s
  simp only [SlotView, relCount] at this
  have hge : relCbs cbs ≥ 1 := by
    unfold relCbs
    exact List.countP_pos_iff.mpr ⟨_, h, rfl⟩
  have h2 := this (by simp; omega)
  omega

/-- **a taken slot always has its release registered** (so it is freed as soon as that future ends) -/
theorem C10_taken_means_pending (cfg : List Watcher) (bs : List Behav) (aw : Nat) (ops : List Op) :
    let s := run (initState cfg bs aw) ops
    s.a.slot.isSome = true → relTops s.tops + relReady s.ready = 1 := by
  intro s hs
  exact (C10_slot_inv cfg bs aw ops).2.mp hs

/-- conversely the slot is free as soon as no release is pending anywhere -/
theorem C10_free_when_nothing_pending (cfg : List Watcher) (bs : List Behav) (aw : Nat) (ops : List Op) :
    let s := run (initState cfg bs aw) ops
    s.tops = [] → s.ready = [] → s.a.slot = none := by
  intro s ht hr
  have h := C10_slot_inv cfg bs aw ops
  have hc : relCount s = 0 := by simp [relCount, ht, hr, relTops, relReady]
  cases hsl : s.a.slot with
  | none => rfl
  | some x =>
    have h1 : s.a.slot.isSome = true := by rw [hsl]; rfl
    have h2 : relCount s = 1 := h.2.mp h1
    rw [hc] at h2
    cases h2

/-! non-vacuity: a state with the slot taken and one pending release satisfies the invariant -/
example : SlotInv { a := { slot := some "watcher_stop" }, tops := [{ tid := 1, cbs := [.release, .watch] }] } := by
  simp [SlotInv, SlotView, relCount, relTops, relReady, relCbs, List.countP_cons, TopCb.isRelease]

end Circus.Core
