import CircusProofs.Core.PidInv
import CircusProofs.Core.StoppedEmpty
import CircusProofs.Props.C02
/-!
# C04 — process accounting is exact: no leaked, untracked or phantom worker

Proved on the core model:
* `C04_pid_inv` — in every reachable state (all request histories, hook outcomes, exec failures,
  deaths injected at every kernel-call boundary) the pid accounting invariant `PidInv` holds:
  what the watchers list are pids the kernel handed out, present in the process table, each with
  its `Process` object, listed once and under one watcher only.  Corollaries
  `C04_no_pid_under_two_watchers`, `C04_no_pid_listed_twice`, `C04_listed_pids_are_kernel_processes`,
  `C04_fresh_pid_never_listed`, `C04_total_listed_nodup`.
* `C04_numprocesses_counts_listed`, `C04_list_reports_active_listed`, `C04_active_sublist`: what the
  commands report is computed from that same `pids` list.
* `C04_reap_pops`, `C04_reap_pops_any_hook_outcome` (the `before_reap` / `after_reap` hooks gate nothing),
  `C04_manage_drops_dead`: a listed pid whose status reads dead at its turn of the
  periodic `manage_processes` loop is handed to `reap_process` and is not listed after the loop;
  `C04_dead_pid_dropped_by_check`: a listed pid that is dead in the kernel when the loop starts is
  not listed when it ends (dead stays dead: `KMono`).
* `C04_spawnAdopt_registers`, `C04_spawn_registers_before_hooks`, `C04_veto_keeps_listed_until_callback`:
  `spawn_process` registers the child before the `after_spawn` hook runs; on a veto the child stays
  registered until the `popProc` done-callback of the detached kill runs.
* `C04_stopped_means_no_process` — in every reachable state in which the daemon does not hang, a
  watcher that reports `stopped` lists no process (`numprocesses` 0, empty `list`).  Not a
  per-writer invariant: proved in Core/StoppedEmpty.lean over the weak chain of Generic.lean, with
  the places that write `stopped` (`_stop` after `reap_processes`; `spawn_processes` of an on-demand
  watcher behind `pids.isEmpty`) and the one that adopts a process (`spawn_process`, behind
  `status = stopped → return`) done by hand.
-/
namespace Circus.Core

/-! ## 1. the accounting invariant along all runs -/

/-- **exact accounting, every reachable state**: from the initial state of any configuration
    (whose configured watchers list no process yet — `Watcher.__init__` starts with an empty
    `processes` dict) every op list leads to a state satisfying `PidInv`: listed pids are below the
    kernel's pid counter, are pids of the process table, carry a `Process` object, are listed at
    most once per watcher and by at most one watcher object; watcher identities are distinct. -/
theorem C04_pid_inv (cfg : List Watcher) (behavs : List Behav) (warm : Nat)
    (hcfg : ∀ w ∈ cfg, w.pids = []) (ops : List Op) :
    PidInv (run (initState cfg behavs warm) ops) :=
  pidInv_run _ ops (pidInv_init cfg behavs warm hcfg)

/-- in a heap with pairwise distinct identities an identity names one object -/
theorem eq_of_uid_eq {ws : List Watcher} (hnd : (ws.map (·.uid)).Nodup) {a b : Watcher}
    (ha : a ∈ ws) (hb : b ∈ ws) (h : a.uid = b.uid) : a = b := by
  induction ws with
  | nil => cases ha
  | cons x xs ih =>
    simp only [List.map_cons, List.nodup_cons] at hnd
    rcases List.mem_cons.mp ha with rfl | ha'
    · rcases List.mem_cons.mp hb with rfl | hb'
      · rfl
      · exact absurd (List.mem_map.mpr ⟨b, hb', h.symm⟩) hnd.1
    · rcases List.mem_cons.mp hb with rfl | hb'
      · exact absurd (List.mem_map.mpr ⟨a, ha', h⟩) hnd.1
      · exact ih hnd.2 ha' hb'

/-- what `getW` returns when it lists something is an object of the heap with that identity -/
theorem getW_listed {u : Nat} {s : State} {p : Nat} (hp : p ∈ (getW u s).1.pids) :
    (getW u s).1 ∈ s.ws ∧ (getW u s).1.uid = u := by
  simp only [getW] at hp ⊢
  cases hfind : s.ws.find? (fun w => decide (w.uid = u)) with
  | none => rw [hfind] at hp; simp [defaultWatcher] at hp
  | some w =>
    simp only [Option.getD_some]
    exact ⟨List.mem_of_find?_eq_some hfind, by simpa using List.find?_some hfind⟩

/-- **reported under exactly one watcher** (objects): in every reachable state, two watcher objects
    that both list a pid are the same object. -/
theorem C04_no_pid_under_two_watchers (cfg : List Watcher) (behavs : List Behav) (warm : Nat)
    (hcfg : ∀ w ∈ cfg, w.pids = []) (ops : List Op) :
    ∀ w1 ∈ (run (initState cfg behavs warm) ops).ws, ∀ w2 ∈ (run (initState cfg behavs warm) ops).ws,
      ∀ p, p ∈ w1.pids → p ∈ w2.pids → w1 = w2 := by
  intro w1 h1 w2 h2 p hp1 hp2
  have hI := C04_pid_inv cfg behavs warm hcfg ops
  apply eq_of_uid_eq hI.uidNodup h1 h2
  apply Classical.byContradiction
  intro hne
  exact hI.listedDisj w1 h1 w2 h2 hne p hp1 hp2

/-- **reported under exactly one watcher** (as the commands see it): in every reachable state, if the
    watchers designated by `u1` and `u2` both report pid `p` then `u1 = u2`. -/
theorem C04_no_pid_under_two_watchers_getW (cfg : List Watcher) (behavs : List Behav) (warm : Nat)
    (hcfg : ∀ w ∈ cfg, w.pids = []) (ops : List Op) (u1 u2 p : Nat)
    (h1 : p ∈ (getW u1 (run (initState cfg behavs warm) ops)).1.pids)
    (h2 : p ∈ (getW u2 (run (initState cfg behavs warm) ops)).1.pids) : u1 = u2 := by
  obtain ⟨m1, e1⟩ := getW_listed h1
  obtain ⟨m2, e2⟩ := getW_listed h2
  have := C04_no_pid_under_two_watchers cfg behavs warm hcfg ops _ m1 _ m2 p h1 h2
  rw [← e1, ← e2, this]

/-- **no pid is listed twice** by a watcher, in every reachable state (so `numprocesses` counts
    processes, not entries). -/
theorem C04_no_pid_listed_twice (cfg : List Watcher) (behavs : List Behav) (warm : Nat)
    (hcfg : ∀ w ∈ cfg, w.pids = []) (ops : List Op) :
    (∀ w ∈ (run (initState cfg behavs warm) ops).ws, w.pids.Nodup) ∧
    ∀ u, (getW u (run (initState cfg behavs warm) ops)).1.pids.Nodup := by
  have hI := C04_pid_inv cfg behavs warm hcfg ops
  refine ⟨hI.listedNodup, ?_⟩
  intro u
  cases hl : (getW u (run (initState cfg behavs warm) ops)).1.pids with
  | nil => exact List.nodup_nil
  | cons p rest =>
    rw [← hl]
    exact hI.listedNodup _ (getW_listed (p := p) (by rw [hl]; simp)).1

/-- **no phantom**: in every reachable state every listed pid is a pid of the kernel's process
    table, was handed out by the pid counter, and has its `Process` object on the heap. -/
theorem C04_listed_pids_are_kernel_processes (cfg : List Watcher) (behavs : List Behav) (warm : Nat)
    (hcfg : ∀ w ∈ cfg, w.pids = []) (ops : List Op) :
    ∀ w ∈ (run (initState cfg behavs warm) ops).ws, ∀ p ∈ w.pids,
      p ∈ (run (initState cfg behavs warm) ops).k.procs.map (·.pid) ∧
      p < (run (initState cfg behavs warm) ops).k.nextPid ∧
      ∃ o ∈ (run (initState cfg behavs warm) ops).objs, o.pid = p := by
  intro w hw p hp
  have hI := C04_pid_inv cfg behavs warm hcfg ops
  refine ⟨hI.listedInK w hw p hp, hI.listedLt w hw p hp, ?_⟩
  obtain ⟨o, ho, he⟩ := List.mem_map.mp (hI.listedObj w hw p hp)
  exact ⟨o, ho, he⟩

/-- **the next pid is nobody's yet**: in every reachable state the pid the next successful `Popen()`
    will return (the kernel's pid counter) is listed by no watcher, is not in the process table and
    has no `Process` object. -/
theorem C04_fresh_pid_never_listed (cfg : List Watcher) (behavs : List Behav) (warm : Nat)
    (hcfg : ∀ w ∈ cfg, w.pids = []) (ops : List Op) :
    (∀ w ∈ (run (initState cfg behavs warm) ops).ws, (run (initState cfg behavs warm) ops).k.nextPid ∉ w.pids) ∧
    (run (initState cfg behavs warm) ops).k.nextPid ∉ (run (initState cfg behavs warm) ops).k.procs.map (·.pid) ∧
    ∀ o ∈ (run (initState cfg behavs warm) ops).objs, o.pid ≠ (run (initState cfg behavs warm) ops).k.nextPid := by
  have hI := C04_pid_inv cfg behavs warm hcfg ops
  refine ⟨?_, ?_, ?_⟩
  · intro w hw hp
    exact Nat.lt_irrefl _ (hI.listedLt w hw _ hp)
  · intro hp
    exact Nat.lt_irrefl _ (hI.kLt _ hp)
  · intro o ho he
    have := hI.objLt o ho
    omega

/-- pairwise disjoint duplicate-free lists concatenate to a duplicate-free list -/
theorem flatMap_pids_nodup (ws : List Watcher) (hu : (ws.map (·.uid)).Nodup)
    (hn : ∀ w ∈ ws, w.pids.Nodup)
    (hd : ∀ w1 ∈ ws, ∀ w2 ∈ ws, w1.uid ≠ w2.uid → ∀ p ∈ w1.pids, p ∉ w2.pids) :
    (ws.flatMap (·.pids)).Nodup := by
  induction ws with
  | nil => exact List.nodup_nil
  | cons x xs ih =>
    simp only [List.map_cons, List.nodup_cons] at hu
    simp only [List.flatMap_cons]
    rw [List.nodup_append]
    refine ⟨hn x (by simp), ih hu.2 (fun w hw => hn w (by simp [hw]))
      (fun a ha b hb => hd a (by simp [ha]) b (by simp [hb])), ?_⟩
    intro a ha b hb hab
    subst hab
    obtain ⟨y, hy, hay⟩ := List.mem_flatMap.mp hb
    have hne : x.uid ≠ y.uid := fun h => hu.1 (List.mem_map.mpr ⟨y, hy, h.symm⟩)
    exact hd x (by simp) y (by simp [hy]) hne a ha hay

/-- **the grand total is exact**: in every reachable state the concatenation of all `processes`
    dicts has no duplicate, so the sum `numprocesses` reports without a name counts distinct
    processes. -/
theorem C04_total_listed_nodup (cfg : List Watcher) (behavs : List Behav) (warm : Nat)
    (hcfg : ∀ w ∈ cfg, w.pids = []) (ops : List Op) :
    ((run (initState cfg behavs warm) ops).ws.flatMap (·.pids)).Nodup := by
  have hI := C04_pid_inv cfg behavs warm hcfg ops
  exact flatMap_pids_nodup _ hI.uidNodup hI.listedNodup hI.listedDisj

/-! ## 2. what the commands report -/

theorem getWatcherCmd_ok (n : String) (u : Nat) (s : State) (h : s.a.names.lookup (pyLower n) = some u) :
    getWatcherCmd (.str n) s = (.ok u, s) := by
  simp only [getWatcherCmd, lookupWatcher, bind, getA, pure, h]

/-- **`numprocesses name`** reports the length of the watcher's `pids` list and changes nothing. -/
theorem C04_numprocesses_counts_listed (props name : JVal) (u : Nat) (s : State)
    (hn : props.get? "name" = some name) (hu : getWatcherCmd name s = (.ok u, s)) :
    execReadOnly "numprocesses" props s =
      (.ok (.value ("numprocesses=" ++ toString (getW u s).1.pids.length)), s) := by
  unfold execReadOnly
  simp only [hn, bind, hu]
  rfl

/-- **`numprocesses`** without a name reports the sum of the lengths of the `pids` lists of the
    registered watchers and changes nothing. -/
theorem C04_numprocesses_total (props : JVal) (s : State) (hn : props.get? "name" = none) :
    execReadOnly "numprocesses" props s =
      (.ok (.value ("numprocesses=" ++ toString (((registered s).1.map fun w => w.pids.length).foldl (· + ·) 0))), s) := by
  unfold execReadOnly
  simp only [hn, bind]
  rfl

/-- the loop body of `get_active_processes` -/
def activeBody : Nat → List Nat → M (ForInStep (List Nat)) := fun pid out => do
  let st ← procStatus pid
  if !isDead st then pure (ForInStep.yield (out ++ [pid])) else pure (ForInStep.yield out)

theorem activeProcs_eq (u : Nat) (s : State) :
    activeProcs u s = (forIn (getW u s).1.pids [] activeBody : M (List Nat)) s := rfl

/-- a loop that appends the current element or nothing collects a sublist -/
theorem forIn_collect_sublist (l : List Nat) (f : Nat → List Nat → M (ForInStep (List Nat)))
    (hf : ∀ a b s, (f a b s).1 = .yield b ∨ (f a b s).1 = .yield (b ++ [a])) (init : List Nat) (s : State) :
    ∃ sub, sub.Sublist l ∧ ((forIn l init f : M (List Nat)) s).1 = init ++ sub := by
  induction l generalizing init s with
  | nil => exact ⟨[], List.Sublist.refl _, by simp only [List.forIn_nil, List.append_nil]; rfl⟩
  | cons a rest ih =>
    rw [List.forIn_cons]
    simp only [bind]
    have h := hf a init s
    cases hfa : f a init s with
    | mk r s1 =>
      rw [hfa] at h
      simp only at h
      rcases h with rfl | rfl
      · obtain ⟨sub, hs, he⟩ := ih init s1
        exact ⟨sub, List.Sublist.cons a hs, he⟩
      · obtain ⟨sub, hs, he⟩ := ih (init ++ [a]) s1
        refine ⟨a :: sub, List.Sublist.cons_cons a hs, ?_⟩
        simp only at he ⊢
        rw [he]; simp

/-- **`get_active_processes`** returns a sublist of the watcher's `pids` list: only listed pids, each
    at most as often as listed, in listing order. -/
theorem C04_active_sublist (u : Nat) (s : State) : (activeProcs u s).1.Sublist (getW u s).1.pids := by
  rw [activeProcs_eq]
  obtain ⟨sub, hs, he⟩ := forIn_collect_sublist (getW u s).1.pids activeBody (by
      intro a b t
      unfold activeBody
      simp only [bind, ite_run]
      split
      · right; rfl
      · left; rfl) [] s
  rw [he]
  exact hs

theorem activeProcs_subset (u : Nat) (s : State) : ∀ p ∈ (activeProcs u s).1, p ∈ (getW u s).1.pids :=
  fun _ hp => (C04_active_sublist u s).subset hp

/-- **`list name`** reports exactly what `get_active_processes` returns — a sublist of the `pids`
    list `numprocesses` counts. -/
theorem C04_list_reports_active_listed (props name : JVal) (u : Nat) (s : State)
    (hn : props.get? "name" = some name) (hu : getWatcherCmd name s = (.ok u, s)) :
    (execReadOnly "list" props s).1 = .ok (.value ("pids=" ++ showList (activeProcs u s).1)) ∧
    (activeProcs u s).1.Sublist (getW u s).1.pids := by
  refine ⟨?_, C04_active_sublist u s⟩
  unfold execReadOnly
  simp only [hn, bind, hu]
  rfl

/-- **`status name`** reports the `status` field of the designated watcher and changes nothing. -/
theorem C04_status_reports_field (props name : JVal) (u : Nat) (s : State)
    (hn : props.get? "name" = some name) (hu : getWatcherCmd name s = (.ok u, s)) :
    execReadOnly "status" props s = (.ok (.statusPayload (statusName (getW u s).1.status)), s) := by
  unfold execReadOnly
  simp only [hn, bind, hu]
  rfl

/-! ## 3. dead pids leave on the next check -/

/-- **`reap_process` pops**: after `reap_process(pid)` the watcher does not list the pid any more —
    whatever the kernel answers to the `waitpid`/status calls, whatever the hooks do. -/
theorem C04_reap_pops (u pid : Nat) (st : Option Nat) (s : State) :
    pid ∉ (getW u (reapProcess u pid st s).2).1.pids := by
  intro h
  have := reapProcess_removes u pid (getW u s).1.pids st s (fun x hx => hx) pid h
  simp at this

/-- **… for every outcome of the reap hooks**: `before_reap` runs before the pop and `after_reap`
    after the `reap` event, but neither is a gate — whether `before_reap` evaluates to true or false
    (`r`; a raising hook counts as false unless it is in the ignore-failure list) and whatever
    `after_reap` does, the pid is not listed after `reap_process(pid)`.  (A variant of the code that
    returned early on a false `before_reap` would keep a dead pid listed for ever.) -/
theorem C04_reap_pops_any_hook_outcome (u pid : Nat) (st : Option Nat) (s : State) (r : Bool)
    (_hr : (callHook u "before_reap" s).1 = r) : pid ∉ (getW u (reapProcess u pid st s).2).1.pids :=
  C04_reap_pops u pid st s

/-- … and lists nothing it did not list before -/
theorem reapProcess_subset (u pid : Nat) (st : Option Nat) (s : State) :
    ∀ x ∈ (getW u (reapProcess u pid st s).2).1.pids, x ∈ (getW u s).1.pids ∧ x ≠ pid := by
  intro x h
  have := reapProcess_removes u pid (getW u s).1.pids st s (fun x hx => hx) x h
  simpa using this

/-- the body of the first loop of `manage_processes` -/
def manageBody (u : Nat) : Nat → PUnit.{1} → M (ForInStep PUnit.{1}) := fun pid _ => do
  let st ← procStatus pid
  if isDead st then do
    reapProcess u pid none
    pure (ForInStep.yield PUnit.unit)
  else pure (ForInStep.yield PUnit.unit)

/-- `manage_processes` on a watcher that is not stopped: walk over the listed pids, then go on with
    the expiry / respawn part from the state the loop ends in -/
theorem manageProcesses_loop (rec : Rec) (u : Nat) (wt : Waiter) (s : State)
    (hst : (getW u s).1.status ≠ .stopped) :
    manageProcesses rec u wt s =
      (if (getW u s).1.maxAge > 0 then await rec (.removeExpired u) (.manageAfterExpire u []) wt
       else manageAfterExpire rec u wt)
        ((forIn (getW u s).1.pids PUnit.unit (manageBody u) : M PUnit) s).2 := by
  unfold manageProcesses
  simp only [bind]
  erw [if_neg hst]
  rfl

/-- a pid whose status reads dead is handed to `reap_process` … -/
theorem manageBody_dead (u pid : Nat) (s : State) (h : isDead (procStatus pid s).1 = true) :
    manageBody u pid PUnit.unit s = (ForInStep.yield PUnit.unit, (reapProcess u pid none (procStatus pid s).2).2) := by
  unfold manageBody
  simp only [bind]
  erw [if_pos h]
  rfl

/-- … any other one is left alone -/
theorem manageBody_alive (u pid : Nat) (s : State) (h : ¬ isDead (procStatus pid s).1 = true) :
    manageBody u pid PUnit.unit s = (ForInStep.yield PUnit.unit, (procStatus pid s).2) := by
  unfold manageBody
  simp only [bind]
  erw [if_neg h]
  rfl

theorem manageBody_pidsSub (u : Nat) (L : List Nat) (pid : Nat) : Pres (PidsSub u L) (manageBody u pid PUnit.unit) := by
  have L := pidsSubLeafW u L
  unfold manageBody
  pres

theorem manageLoop_pidsSub (u : Nat) (L : List Nat) (l : List Nat) :
    Pres (PidsSub u L) (forIn l PUnit.unit (manageBody u) : M PUnit) :=
  Pres.for_in l PUnit.unit (manageBody u) (fun a _ => manageBody_pidsSub u L a)

/-- the states in which the loop reads the status of each pid, in order -/
def manageTurns (u : Nat) : List Nat → State → List (Nat × State)
  | [], _ => []
  | pid :: rest, s => (pid, s) :: manageTurns u rest (manageBody u pid PUnit.unit s).2

/-- **dead pids leave on the next check**: every pid of the walked list whose status reads dead
    (`DEAD_OR_ZOMBIE` / `UNEXISTING`) at its turn of the loop is not listed by the watcher when the
    loop ends (it went through `reap_process`, and nothing in the loop adds a pid). -/
theorem C04_manage_drops_dead (u : Nat) (l : List Nat) (s : State) :
    ∀ e ∈ manageTurns u l s, isDead (procStatus e.1 e.2).1 = true →
      e.1 ∉ (getW u ((forIn l PUnit.unit (manageBody u) : M PUnit) s).2).1.pids := by
  induction l generalizing s with
  | nil => intro e he; cases he
  | cons pid rest ih =>
    intro e he hdead
    rw [List.forIn_cons]
    simp only [bind]
    simp only [manageTurns, List.mem_cons] at he
    rcases he with rfl | he
    · simp only at hdead ⊢
      rw [manageBody_dead u pid s hdead]
      simp only
      intro hin
      have hsub : PidsSub u (getW u (reapProcess u pid none (procStatus pid s).2).2).1.pids
          (reapProcess u pid none (procStatus pid s).2).2 := fun x hx => hx
      have := manageLoop_pidsSub u _ rest _ hsub pid hin
      exact C04_reap_pops u pid none _ this
    · by_cases hd : isDead (procStatus pid s).1 = true
      · have := ih (manageBody u pid PUnit.unit s).2 e he hdead
        rw [manageBody_dead u pid s hd] at this ⊢
        exact this
      · have := ih (manageBody u pid PUnit.unit s).2 e he hdead
        rw [manageBody_alive u pid s hd] at this ⊢
        exact this

/-- the loop never lists anything new -/
theorem manageLoop_subset (u : Nat) (l : List Nat) (s : State) :
    ∀ x ∈ (getW u ((forIn l PUnit.unit (manageBody u) : M PUnit) s).2).1.pids, x ∈ (getW u s).1.pids :=
  manageLoop_pidsSub u (getW u s).1.pids l s (fun _ hx => hx)

/-! ### end to end: dead in the kernel when the loop starts ⇒ not listed when it ends -/

/-- the writers reachable from the first loop of `manage_processes`, with kernel calls that keep
    dead processes dead -/
structure LeafD (I : State → Prop) : Prop where
  emit : ∀ o, Pres I (emit o)
  runK : ∀ {α : Type} (f : Kernel → Kernel × α), KMonoOp f → Pres I (runK f)
  emitEv : ∀ w t p x, Pres I (emitEv w t p x)
  popPid : ∀ u p, Pres I (popPid u p)
  bumpHook : ∀ u h i, Pres I (bumpHook u h i)
  setObjStopping : ∀ p b, Pres I (setObjStopping p b)
  setRc : ∀ p rc, Pres I (setRc p rc)
  markBlocked : Pres I markBlocked

section
variable {I : State → Prop}

attribute [local aesop safe apply] Pres.pure Pres.getS Pres.getK Pres.getA Pres.getW Pres.getO Pres.nowMs
  Pres.bind Pres.ite Pres.for_in LeafD.emit LeafD.emitEv LeafD.popPid LeafD.bumpHook LeafD.setObjStopping LeafD.setRc LeafD.markBlocked

macro "presd" : tactic =>
  `(tactic| aesop (config := { terminal := true, useDefaultSimpSet := false, useSimpAll := false, maxRuleApplications := 3000 }))

theorem kKill_presd (L : LeafD I) (pid sig : Nat) (via : String) : Pres I (kKill pid sig via) := by
  have h := L.runK _ (KMono.killD pid sig)
  unfold kKill; aesop (add safe apply h) (config := { terminal := true, useDefaultSimpSet := false, useSimpAll := false })
attribute [local aesop safe apply] kKill_presd
theorem kWaitpid_presd (L : LeafD I) (pid : Option Nat) : Pres I (kWaitpid pid) := by
  have h := L.runK _ (KMono.waitpid pid)
  unfold kWaitpid; aesop (add safe apply h) (config := { terminal := true, useDefaultSimpSet := false, useSimpAll := false })
attribute [local aesop safe apply] kWaitpid_presd
theorem kStateOf_presd (L : LeafD I) (pid : Nat) : Pres I (kStateOf pid) := L.runK _ (KMono.stateOf pid)
attribute [local aesop safe apply] kStateOf_presd
theorem kSleep_presd (L : LeafD I) (ms : Nat) : Pres I (kSleep ms) := L.runK _ (KMono.sleep ms)
attribute [local aesop safe apply] kSleep_presd
theorem notify_presd (L : LeafD I) (u : Nat) (t : String) (p : Option Nat) (x : String) : Pres I (notify u t p x) := by
  unfold notify; presd
attribute [local aesop safe apply] notify_presd
/-- the `before_reap` / `after_reap` hooks of `reap_process` -/
theorem callHook_presd (L : LeafD I) (u : Nat) (h : String) : Pres I (callHook u h) := by
  unfold callHook; presd
attribute [local aesop safe apply] callHook_presd
theorem procStatus_presd (L : LeafD I) (pid : Nat) : Pres I (procStatus pid) := by
  unfold procStatus; presd
attribute [local aesop safe apply] procStatus_presd
theorem isAlive_presd (L : LeafD I) (pid : Nat) : Pres I (isAlive pid) := by
  unfold isAlive; presd
attribute [local aesop safe apply] isAlive_presd
theorem objStop_presd (L : LeafD I) (pid : Nat) : Pres I (objStop pid) := by
  unfold objStop; presd
attribute [local aesop safe apply] objStop_presd
theorem setBlocked_presd (L : LeafD I) : Pres I setBlocked := by
  unfold setBlocked; presd
attribute [local aesop safe apply] setBlocked_presd
theorem reapWait_presd (L : LeafD I) (pid fuel : Nat) : Pres I (reapWait pid fuel) := by
  induction fuel with
  | zero => unfold reapWait; presd
  | succ n ih => unfold reapWait; aesop (add safe apply ih) (config := { terminal := true, useDefaultSimpSet := false, useSimpAll := false, maxRuleApplications := 3000 })
attribute [local aesop safe apply] reapWait_presd
theorem reapTail_presd (L : LeafD I) (u p : Nat) (st : Option Nat) : Pres I (reapTail u p st) := by
  unfold reapTail; presd
attribute [local aesop safe apply] reapTail_presd
theorem reapProcess_presd (L : LeafD I) (u p : Nat) (st : Option Nat) : Pres I (reapProcess u p st) := by
  unfold reapProcess; presd
attribute [local aesop safe apply] reapProcess_presd
theorem manageBody_presd (L : LeafD I) (u pid : Nat) : Pres I (manageBody u pid PUnit.unit) := by
  unfold manageBody; presd

end

theorem deadLeafD (pid : Nat) : LeafD (fun s => s.k.DeadIn pid) where
  emit := fun o => by intro s hs; simp only [emit, modS]; split <;> exact hs
  runK := fun f hf => by intro s hs; exact (hf s.k).deadIn hs
  emitEv := fun w t p x => by intro s hs; simp only [emitEv, modS]; split <;> exact hs
  popPid := fun u p => fun s hs => hs
  bumpHook := fun u h i => fun s hs => hs
  setObjStopping := fun p b => fun s hs => hs
  setRc := fun p rc => fun s hs => hs
  markBlocked := fun s hs => hs

/-- a process the kernel does not know as running reads `DEAD_OR_ZOMBIE` or `UNEXISTING` -/
theorem procStatus_dead (pid : Nat) (s : State) (hd : s.k.DeadIn pid) : isDead (procStatus pid s).1 = true := by
  have hd1 : s.k.tick.DeadIn pid := (KMono.tick s.k).deadIn hd
  unfold procStatus kStateOf runK
  simp only [bind, Kernel.stateOf]
  cases hf : s.k.tick.find pid with
  | none => rfl
  | some p =>
    have := hd1 p hf
    simp only
    cases hst : p.st with
    | run => exact absurd hst this
    | zombie => rfl
    | gone => rfl

/-- **no dead pid stays listed beyond one periodic check**: a pid the watcher lists and the kernel
    does not know as a running process (zombie, gone) when the loop of `manage_processes` starts is
    not listed when the loop ends — whatever else dies or is reaped meanwhile (dead stays dead). -/
theorem C04_dead_pid_dropped_by_check (u pid : Nat) (l : List Nat) (s : State)
    (hd : s.k.DeadIn pid) (hl : pid ∈ l) :
    pid ∉ (getW u ((forIn l PUnit.unit (manageBody u) : M PUnit) s).2).1.pids := by
  induction l generalizing s with
  | nil => cases hl
  | cons a rest ih =>
    by_cases ha : a = pid
    · subst ha
      exact C04_manage_drops_dead u (a :: rest) s (a, s) List.mem_cons_self (procStatus_dead a s hd)
    · have hrest : pid ∈ rest := by
        rcases List.mem_cons.mp hl with h | h
        · exact absurd h.symm ha
        · exact h
      have hd1 := manageBody_presd (deadLeafD pid) u a s hd
      have := ih (manageBody u a PUnit.unit s).2 hd1 hrest
      rw [List.forIn_cons]
      simp only [bind]
      by_cases hdd : isDead (procStatus a s).1 = true
      · rw [manageBody_dead u a s hdd] at this ⊢; exact this
      · rw [manageBody_alive u a s hdd] at this ⊢; exact this

/-! ## 4. `spawn_process` registers the child before the hooks run -/

/-- **what a successful `Popen()` registers**: the returned pid is the kernel's pid counter (fresh);
    afterwards the watcher `u` lists it (appended at the end), every other watcher lists what it
    listed, the `Process` object with the chosen `wid` exists and the pid is in the process table;
    identity counter, arbiter, frames, futures are untouched.

    (Restated: `Process.started` is the time BEFORE the fork, `s.k.now`; the kernel clock afterwards is
    that time plus the `spawnMs` the fork took under the behaviour used — it used to read
    `started := s1.k.now`, which holds only when the fork takes no time.) -/
theorem C04_spawnAdopt_registers (u wid pid : Nat) (s s1 : State)
    (h : spawnAdopt u wid s = (some pid, s1)) (hw : ∃ w ∈ s.ws, w.uid = u) :
    pid = s.k.nextPid ∧
    (getW u s1).1.pids = (getW u s).1.pids ++ [pid] ∧
    (∀ x, x ≠ u → (getW x s1).1 = (getW x s).1) ∧
    (∃ o ∈ s1.objs, o.pid = pid ∧ o.wid = wid) ∧
    pid ∈ s1.k.procs.map (·.pid) ∧
    s1.objs = s.objs ++ [{ pid := pid, wid := wid, started := s.k.now }] ∧
    s1.k.now = s.k.now + s.k.tick.behavAt.spawnMs ∧
    s1.a = s.a ∧ s1.nextId = s.nextId ∧ s1.tops = s.tops ∧ s1.frames = s.frames ∧ s1.ready = s.ready := by
  cases hr : (s.k.spawn).2 with
  | none => rw [spawnAdopt_none u wid s hr] at h; cases h
  | some p =>
    rw [spawnAdopt_some u wid s p hr] at h
    simp only [Prod.mk.injEq, Option.some.injEq] at h
    obtain ⟨hp, hs1⟩ := h
    subst hp
    subst hs1
    obtain ⟨hpid, n, _, hpr⟩ := spawn_some (k := s.k) (k' := (s.k.spawn).1) (pid := p) (by rw [← hr])
    have hfind : ∀ x, (getW x { s with
        k := (s.k.spawn).1,
        objs := s.objs ++ [{ pid := p, wid := wid, started := s.k.now }],
        log := if s.blocked then s.log else s.log ++ [Obs.spawn p ((s.ws.find? (·.uid = u)).getD defaultWatcher).name wid],
        ws := s.ws.map fun w => if w.uid = u then { w with pids := w.pids ++ [p] } else w }).1 =
        ((s.ws.find? (fun w => decide (w.uid = x))).map
          (fun w => if x = u then { w with pids := w.pids ++ [p] } else w)).getD defaultWatcher := by
      intro x
      simp only [getW]
      rw [find_map_upd x u (fun w => { w with pids := w.pids ++ [p] }) (fun _ => rfl)]
    have hnow : (s.k.spawn).1.now = s.k.now + s.k.tick.behavAt.spawnMs :=
      spawn_some_now (k := s.k) (k' := (s.k.spawn).1) (pid := p) (by rw [← hr])
    refine ⟨hpid, ?_, ?_, ⟨_, List.mem_append_right _ (List.mem_singleton.mpr rfl), rfl, rfl⟩, ?_, rfl, hnow, rfl, rfl, rfl, rfl, rfl⟩
    · rw [hfind u]
      obtain ⟨w, hwm, hwu⟩ := hw
      cases hf : s.ws.find? (fun w => decide (w.uid = u)) with
      | none =>
        have := List.find?_eq_none.mp hf w hwm
        simp [hwu] at this
      | some w0 => simp [getW, hf]
    · intro x hx
      rw [hfind x]
      simp only [getW]
      cases hf : s.ws.find? (fun w => decide (w.uid = x)) with
      | none => rfl
      | some w0 => simp [hx]
    · simp only [hpr, hpid]
      exact List.mem_append_right _ (by simp [List.mem_range'_1])


/-- the writers reachable from `call_hook` and from a `kill_process` whose result goes to the
    top-level future `tid` (none of them is `popPid`) -/
structure LeafV (tid : Nat) (I : State → Prop) : Prop extends LeafK I where
  emitEv : ∀ w t p x, Pres I (emitEv w t p x)
  bumpHook : ∀ u h i, Pres I (bumpHook u h i)
  setObjStopping : ∀ p b, Pres I (setObjStopping p b)
  setRc : ∀ p rc, Pres I (setRc p rc)
  freshId : Pres I freshId
  pushFrame : ∀ f, Pres I (pushFrame f)
  armFrame : ∀ f, Pres I (armFrame f)
  pushSleeper : ∀ sl, Pres I (pushSleeper sl)
  deliverTop : ∀ v, Pres I (deliverTop tid v)

theorem deliver_top (rec : Rec) (tid : Nat) (v : Val) : deliver rec (.top tid) v = deliverTop tid v := rfl

section
variable {I : State → Prop} {tid : Nat}

attribute [local aesop safe apply] Pres.pure Pres.getS Pres.getK Pres.getA Pres.getW Pres.getO Pres.nowMs
  Pres.bind Pres.ite Pres.for_in LeafK.emit kKill_pres kWaitpid_pres kStateOf_pres kChildren_pres kSleep_pres
  LeafV.toLeafK LeafV.emitEv LeafV.bumpHook LeafV.setObjStopping LeafV.setRc LeafV.freshId LeafV.pushFrame
  LeafV.armFrame LeafV.pushSleeper LeafV.deliverTop

macro "presv" : tactic =>
  `(tactic| aesop (config := { terminal := true, useDefaultSimpSet := false, useSimpAll := false, maxRuleApplications := 3000 }))

theorem notify_presv (L : LeafV tid I) (u : Nat) (t : String) (p : Option Nat) (x : String) : Pres I (notify u t p x) := by
  unfold notify; presv
attribute [local aesop safe apply] notify_presv
theorem callHook_presv (L : LeafV tid I) (u : Nat) (h : String) : Pres I (callHook u h) := by
  unfold callHook; presv
attribute [local aesop safe apply] callHook_presv
theorem isAlive_presv (L : LeafV tid I) (pid : Nat) : Pres I (isAlive pid) := by
  unfold isAlive; presv
attribute [local aesop safe apply] isAlive_presv
theorem objStop_presv (L : LeafV tid I) (pid : Nat) : Pres I (objStop pid) := by
  unfold objStop; presv
attribute [local aesop safe apply] objStop_presv
theorem sendSignal_presv (L : LeafV tid I) (u p sg : Nat) : Pres I (sendSignal u p sg) := by
  unfold sendSignal; presv
attribute [local aesop safe apply] sendSignal_presv
theorem sendSignalChild_presv (L : LeafV tid I) (p c sg : Nat) : Pres I (sendSignalChild p c sg) := by
  unfold sendSignalChild; presv
attribute [local aesop safe apply] sendSignalChild_presv
theorem signalKids_presv (L : LeafV tid I) (u p sg : Nat) (cs : List Nat) : Pres I (signalKids u p sg cs) := by
  induction cs with
  | nil => unfold signalKids; presv
  | cons c cs ih =>
    unfold signalKids
    aesop (add safe apply ih) (config := { terminal := true, useDefaultSimpSet := false, useSimpAll := false, maxRuleApplications := 3000 })
attribute [local aesop safe apply] signalKids_presv
theorem sendSignalProcess_presv (L : LeafV tid I) (u p sg : Nat) (r : Bool) : Pres I (sendSignalProcess u p sg r) := by
  unfold sendSignalProcess; presv
attribute [local aesop safe apply] sendSignalProcess_presv
theorem newFrame_presv (L : LeafV tid I) (k : Kont) (p : Waiter) : Pres I (newFrame k p) := by
  unfold newFrame; presv
attribute [local aesop safe apply] newFrame_presv
theorem addSleeper_presv (L : LeafV tid I) (ms : Nat) (w : Waiter) : Pres I (addSleeper ms w) := by
  unfold addSleeper; presv
attribute [local aesop safe apply] addSleeper_presv
theorem awaitSleep_presv (L : LeafV tid I) (ms : Nat) (k : Kont) (p : Waiter) : Pres I (awaitSleep ms k p) := by
  unfold awaitSleep; presv
attribute [local aesop safe apply] awaitSleep_presv
theorem killFinish_presv (L : LeafV tid I) (rec : Rec) (u pid : Nat) (esc : Bool) :
    Pres I (killFinish rec u pid esc (.top tid)) := by
  unfold killFinish; simp only [deliver_top]; presv
attribute [local aesop safe apply] killFinish_presv
theorem killLoop_presv (L : LeafV tid I) (rec : Rec) (u pid sig i polls : Nat) :
    Pres I (killLoop rec u pid sig i polls (.top tid)) := by
  unfold killLoop; presv
attribute [local aesop safe apply] killLoop_presv
/-- `kill_process` whose result goes to a top-level future touches the state only through the
    writers of `LeafV` (in particular it never calls back into the interpreter) -/
theorem killProcess_presv (L : LeafV tid I) (rec : Rec) (u pid : Nat) (sig gt : Option Nat) :
    Pres I (killProcess rec u pid sig gt (.top tid)) := by
  unfold killProcess; simp only [deliver_top]; presv

end

/-! what `deliverTop` leaves alone -/

theorem deliverCbs_frame (armed : Bool) (v : Val) (cbs : List TopCb) (s : State) :
    (deliverCbs armed v cbs s).2.ws = s.ws ∧ (deliverCbs armed v cbs s).2.tops = s.tops ∧
    ∀ x ∈ s.ready, x ∈ (deliverCbs armed v cbs s).2.ready := by
  induction cbs generalizing s with
  | nil => exact ⟨rfl, rfl, fun _ h => h⟩
  | cons cb rest ih =>
    unfold deliverCbs
    simp only [bind]
    have hstep : ∀ s1 : State, s1.ws = s.ws → s1.tops = s.tops → (∀ x ∈ s.ready, x ∈ s1.ready) →
        (deliverCbs armed v rest s1).2.ws = s.ws ∧ (deliverCbs armed v rest s1).2.tops = s.tops ∧
        ∀ x ∈ s.ready, x ∈ (deliverCbs armed v rest s1).2.ready := by
      intro s1 h1 h2 h3
      obtain ⟨i1, i2, i3⟩ := ih s1
      exact ⟨i1.trans h1, i2.trans h2, fun x hx => i3 x (h3 x hx)⟩
    cases cb <;> cases armed <;>
      first
        | exact hstep _ rfl rfl (fun _ h => h)
        | exact hstep _ rfl rfl (fun x h => List.mem_append_left _ h)

theorem deliverTop_frame (tid : Nat) (v : Val) (s : State) :
    (deliverTop tid v s).2.ws = s.ws ∧ ∀ x ∈ s.ready, x ∈ (deliverTop tid v s).2.ready := by
  unfold deliverTop
  simp only [bind, getS]
  cases hf : s.tops.find? (fun t => decide (t.tid = tid)) with
  | none => exact ⟨rfl, fun _ h => h⟩
  | some t =>
    simp only
    obtain ⟨h1, _, h3⟩ := deliverCbs_frame t.armed v t.cbs (finishTop tid v s).2
    exact ⟨h1, h3⟩

/-- the rest of one `spawn_process` attempt once `Popen()` has succeeded: the hook, then either the
    detached kill of the rejected worker or the `spawn` event (`now` = `process.started`, the time
    read before the fork, is what a successful attempt returns) -/
def spawnAfterAdopt (rec : Rec) (wuid pid now : Nat) : M SpawnRes := do
  let r ← callHook wuid "after_spawn"
  if !r then
    let tid ← newTop [.popProc wuid pid]
    rec (.call (.killProcess wuid pid none none) (.top tid))
    armTop tid
    pure .rFalse
  else
    notify wuid "spawn" (some pid)
    pure (.started now)

/-- one attempt of `spawn_process` once a `wid` is found: `Popen()`; on an exec failure the next
    attempt, on success the hook part runs from the state in which the child is registered -/
theorem spawnTry_step (rec : Rec) (u tries wid : Nat) (s : State)
    (hwid : nextWid (getW u s).1.np (usedWids u s).1 = some wid) :
    spawnTry rec u (tries + 1) s =
      match spawnAdopt u wid s with
      | (none, s1) => spawnTry rec u tries s1
      | (some pid, s1) => spawnAfterAdopt rec u pid s.k.now s1 := by
  conv => lhs; unfold spawnTry
  simp only [bind]
  have h1 : (getW u s).2 = s := rfl
  have h2 : (usedWids u s).2 = s := rfl
  rw [h1, h2, hwid]
  simp only
  have h3 : (nowMs s).2 = s := rfl
  have h4 : (nowMs s).1 = s.k.now := rfl
  rw [h3, h4]
  cases hsp : spawnAdopt u wid s with
  | mk r s1 =>
    cases r with
    | none => rfl
    | some pid => rfl


theorem pidsAreLeafV (x : Nat) (P : List Nat) (tid : Nat) : LeafV tid (WProp x (fun w => w.pids = P)) where
  emit := fun o => by apply wprop_same; intro s; simp only [emit, modS]; split <;> rfl
  runK := fun f _ => by apply wprop_same; intro s; rfl
  emitEv := fun w t p x => by apply wprop_same; intro s; simp only [emitEv, modS]; split <;> rfl
  bumpHook := fun u' h i => wprop_modW x u' _ _ (fun _ => rfl) (fun _ hw => hw)
  setObjStopping := fun p b => by apply wprop_same; intro s; rfl
  setRc := fun p rc => by apply wprop_same; intro s; rfl
  freshId := by apply wprop_same; intro s; rfl
  pushFrame := fun f => by apply wprop_same; intro s; rfl
  armFrame := fun f => by apply wprop_same; intro s; rfl
  pushSleeper := fun sl => by apply wprop_same; intro s; rfl
  deliverTop := fun v => by apply wprop_same; intro s; exact (deliverTop_frame tid v s).1

/-- the pop of the rejected worker `pid` of watcher `u` is pending: the future `tid` of its kill is
    still in the table with the `popProc` callback, or that callback is on the ready queue -/
def PopPending (tid u pid : Nat) (s : State) : Prop :=
  (∃ t ∈ s.tops, t.tid = tid ∧ t.cbs = [TopCb.popProc u pid]) ∨ ∃ v, Ready.topCb (.popProc u pid) v ∈ s.ready

theorem popPending_same {tid u pid : Nat} {m : M α} (h : ∀ s, (m s).2.tops = s.tops ∧ (m s).2.ready = s.ready) :
    Pres (PopPending tid u pid) m := by
  intro s hs
  unfold PopPending
  rw [(h s).1, (h s).2]; exact hs

theorem mem_eraseP_of_ne_find {l : List TopFut} {p : TopFut → Bool} {t t0 : TopFut}
    (hf : l.find? p = some t0) (ht : t ∈ l) (hne : t ≠ t0) : t ∈ l.eraseP p := by
  induction l with
  | nil => cases ht
  | cons a l' ih =>
    by_cases hp : p a = true
    · simp only [List.find?_cons, hp, Option.some.injEq] at hf
      subst hf
      simp only [List.eraseP_cons, hp]
      rcases List.mem_cons.mp ht with h | h
      · exact absurd h hne
      · simpa using h
    · have hp' : p a = false := by simpa using hp
      simp only [List.find?_cons, hp'] at hf
      simp only [List.eraseP_cons, hp']
      rcases List.mem_cons.mp ht with h | h
      · simp [h]
      · simp [ih hf h]

theorem popPending_deliverTop (tid u pid : Nat) (v : Val) : Pres (PopPending tid u pid) (deliverTop tid v) := by
  intro s hs
  rcases hs with ⟨t, ht, htid, hcbs⟩ | ⟨v0, hv0⟩
  · unfold deliverTop
    simp only [bind, getS]
    cases hf : s.tops.find? (fun t => decide (t.tid = tid)) with
    | none =>
      exfalso
      have := List.find?_eq_none.mp hf t ht
      simp [htid] at this
    | some t0 =>
      simp only
      by_cases hc : t0.cbs = [TopCb.popProc u pid]
      · right
        rw [hc]
        refine ⟨v, ?_⟩
        simp [deliverCbs, bind, enqueue, modS, pure]
      · left
        obtain ⟨_, h2, _⟩ := deliverCbs_frame t0.armed v t0.cbs (finishTop tid v s).2
        rw [h2]
        simp only [finishTop, modS]
        exact ⟨t, mem_eraseP_of_ne_find hf ht (by intro h; subst h; exact hc hcbs), htid, hcbs⟩
  · right; exact ⟨v0, (deliverTop_frame tid v s).2 _ hv0⟩

theorem popPendingLeafV (tid u pid : Nat) : LeafV tid (PopPending tid u pid) where
  emit := fun o => by apply popPending_same; intro s; simp only [emit, modS]; split <;> exact ⟨rfl, rfl⟩
  runK := fun f _ => popPending_same (fun _ => ⟨rfl, rfl⟩)
  emitEv := fun w t p x => by apply popPending_same; intro s; simp only [emitEv, modS]; split <;> exact ⟨rfl, rfl⟩
  bumpHook := fun u' h i => popPending_same (fun _ => ⟨rfl, rfl⟩)
  setObjStopping := fun p b => popPending_same (fun _ => ⟨rfl, rfl⟩)
  setRc := fun p rc => popPending_same (fun _ => ⟨rfl, rfl⟩)
  freshId := popPending_same (fun _ => ⟨rfl, rfl⟩)
  pushFrame := fun f => popPending_same (fun _ => ⟨rfl, rfl⟩)
  armFrame := fun f => popPending_same (fun _ => ⟨rfl, rfl⟩)
  pushSleeper := fun sl => popPending_same (fun _ => ⟨rfl, rfl⟩)
  deliverTop := popPending_deliverTop tid u pid

/-- the interpreter running a `kill_process` for a top-level future -/
theorem exec_kill_presv {I : State → Prop} {tid : Nat} (L : LeafV tid I) (n u pid : Nat) (sig gt : Option Nat) :
    Pres I (exec n (.call (.killProcess u pid sig gt) (.top tid))) := by
  cases n with
  | zero => unfold exec; exact L.emit _
  | succ n =>
    intro s hs
    unfold exec
    simp only [bind, getS]
    by_cases hb : s.blocked = true
    · erw [if_pos hb]; exact hs
    · erw [if_neg hb]
      exact killProcess_presv L (exec n) u pid sig gt s hs

/-- the veto branch: a future with the single done-callback `popProc`, the kill started detached
    with that future as its waiter, `False` returned -/
theorem spawnAfterAdopt_veto (rec : Rec) (u pid now : Nat) (s1 : State) (hv : (callHook u "after_spawn" s1).1 = false) :
    spawnAfterAdopt rec u pid now s1 =
      (SpawnRes.rFalse,
        (armTop (callHook u "after_spawn" s1).2.nextId
          (rec (.call (.killProcess u pid none none) (.top (callHook u "after_spawn" s1).2.nextId))
            (newTop [.popProc u pid] (callHook u "after_spawn" s1).2).2).2).2) := by
  unfold spawnAfterAdopt
  simp only [bind]
  erw [if_pos (by rw [hv]; rfl)]
  rfl

/-- **a vetoed child stays registered until its kill is done**: when the `after_spawn` hook rejects
    the new worker, `spawn_process` returns `False` from a state in which every watcher lists
    exactly what it listed when the hook was called (the rejected pid included: neither the hook nor
    the detached `kill_process` pops anything) and in which the pop is pending — the future of the
    kill still carries the `popProc` done-callback, or (the kill finished at once) that callback
    sits on the loop's ready queue; running that callback is `processes.pop(pid)`. -/
theorem C04_veto_keeps_listed_until_callback (n u pid now : Nat) (s1 : State)
    (hv : (callHook u "after_spawn" s1).1 = false) :
    (∀ x, (getW x (spawnAfterAdopt (exec n) u pid now s1).2).1.pids = (getW x s1).1.pids) ∧
    PopPending (callHook u "after_spawn" s1).2.nextId u pid (spawnAfterAdopt (exec n) u pid now s1).2 ∧
    ∀ v, runTopCb v (.popProc u pid) = popPid u pid := by
  rw [spawnAfterAdopt_veto (exec n) u pid now s1 hv]
  generalize htid : (callHook u "after_spawn" s1).2.nextId = tid
  refine ⟨?_, ?_, fun _ => rfl⟩
  · intro x
    have h2 : WProp x (fun w => w.pids = (getW x s1).1.pids) (callHook u "after_spawn" s1).2 :=
      callHook_presv (pidsAreLeafV x _ tid) u "after_spawn" s1 rfl
    have h3 : WProp x (fun w => w.pids = (getW x s1).1.pids) (newTop [.popProc u pid] (callHook u "after_spawn" s1).2).2 := h2
    have h4 := exec_kill_presv (pidsAreLeafV x (getW x s1).1.pids tid) n u pid none none _ h3
    exact h4
  · have h3 : PopPending tid u pid (newTop [.popProc u pid] (callHook u "after_spawn" s1).2).2 := by
      left
      refine ⟨{ tid := tid, cbs := [.popProc u pid] }, ?_, rfl, rfl⟩
      simp only [newTop, bind, freshId, pushTop, modS, pure, htid]
      simp
    have h4 := exec_kill_presv (popPendingLeafV tid u pid) n u pid none none _ h3
    rcases h4 with ⟨t, ht, htt, hc⟩ | h
    · left
      refine ⟨if t.tid = tid then { t with armed := true } else t, ?_, ?_, ?_⟩
      · simp only [armTop, modS]
        exact List.mem_map.mpr ⟨t, ht, rfl⟩
      · split <;> exact htt
      · split <;> exact hc
    · right; exact h


/-- the accept branch: nothing but the `spawn` event; the result is the start time read before the fork -/
theorem spawnAfterAdopt_accept (rec : Rec) (u pid now : Nat) (s1 : State) (hv : (callHook u "after_spawn" s1).1 = true) :
    spawnAfterAdopt rec u pid now s1 =
      (SpawnRes.started now, (notify u "spawn" (some pid) "-" (callHook u "after_spawn" s1).2).2) := by
  unfold spawnAfterAdopt
  simp only [bind]
  erw [if_neg (by rw [hv]; simp)]
  rfl

/-- **registered before the hooks run**: in one attempt of `spawn_process`, when `Popen()` succeeds
    with `pid`, everything that follows — first of all the `after_spawn` hook — runs from the state
    `s1` in which watcher `u` already lists `pid` (at the end of its `processes` dict), the
    `Process` object exists and the pid is in the kernel's table; until the hook has answered nothing
    else happened (`spawnAfterAdopt` starts with the hook call). -/
theorem C04_spawn_registers_before_hooks (rec : Rec) (u tries wid pid : Nat) (s s1 : State)
    (hw : ∃ w ∈ s.ws, w.uid = u)
    (hwid : nextWid (getW u s).1.np (usedWids u s).1 = some wid)
    (hsp : spawnAdopt u wid s = (some pid, s1)) :
    spawnTry rec u (tries + 1) s = spawnAfterAdopt rec u pid s.k.now s1 ∧
    (getW u s1).1.pids = (getW u s).1.pids ++ [pid] ∧
    (∃ o ∈ s1.objs, o.pid = pid ∧ o.wid = wid) ∧
    pid ∈ s1.k.procs.map (·.pid) := by
  have h := spawnTry_step rec u tries wid s hwid
  rw [hsp] at h
  obtain ⟨_, h2, _, h4, h5, _⟩ := C04_spawnAdopt_registers u wid pid s s1 hsp hw
  exact ⟨h, h2, h4, h5⟩

/-- an exec failure registers nothing: the next attempt starts from a state with the same watcher
    and `Process` heaps -/
theorem C04_execfail_registers_nothing (rec : Rec) (u tries wid : Nat) (s s1 : State)
    (hwid : nextWid (getW u s).1.np (usedWids u s).1 = some wid)
    (hsp : spawnAdopt u wid s = (none, s1)) :
    spawnTry rec u (tries + 1) s = spawnTry rec u tries s1 ∧ s1.ws = s.ws ∧ s1.objs = s.objs ∧
    KStep s.k s1.k := by
  have h := spawnTry_step rec u tries wid s hwid
  rw [hsp] at h
  refine ⟨h, ?_⟩
  cases hr : (s.k.spawn).2 with
  | some p => rw [spawnAdopt_some u wid s p hr] at hsp; cases hsp
  | none =>
    rw [spawnAdopt_none u wid s hr] at hsp
    simp only [Prod.mk.injEq, true_and] at hsp
    subst hsp
    exact ⟨rfl, rfl, spawn_none (k' := (s.k.spawn).1) (by rw [← hr])⟩

/-- after the `popProc` callback the rejected pid is gone from the watcher's dict -/
theorem C04_popProc_pops (v : Val) (u pid : Nat) (s : State) :
    pid ∉ (getW u (runTopCb v (.popProc u pid) s).2).1.pids := by
  show pid ∉ (getW u (popPid u pid s).2).1.pids
  rw [getW_popPid]
  simp

/-! ## 5. stopped means no process -/

/-- **a watcher reports `stopped` only with zero processes**: in every reachable state (all request
    histories over any configuration whose watchers start with an empty `processes` dict, all hook
    outcomes, exec failures, deaths at every kernel-call boundary, on-demand watchers and socket
    events included) in which the daemon is not hung in `reap_process`, every watcher object whose
    status is `stopped` lists no pid — so `numprocesses` answers 0 and `list` answers nothing for
    it. -/
theorem C04_stopped_means_no_process (cfg : List Watcher) (behavs : List Behav) (warm : Nat)
    (hcfg : ∀ w ∈ cfg, w.pids = []) (ops : List Op)
    (hb : (run (initState cfg behavs warm) ops).blocked = false) :
    (∀ w ∈ (run (initState cfg behavs warm) ops).ws, w.status = .stopped → w.pids = []) ∧
    ∀ u, (getW u (run (initState cfg behavs warm) ops)).1.status = .stopped →
      (getW u (run (initState cfg behavs warm) ops)).1.pids = [] ∧
      (activeProcs u (run (initState cfg behavs warm) ops)).1 = [] := by
  have h := stoppedEmpty_run cfg behavs warm (fun w hw _ => hcfg w hw) ops
  rcases h with h | h
  · rw [hb] at h; cases h
  · refine ⟨h, ?_⟩
    intro u hst
    have hp := getW_stopped_empty h u hst
    refine ⟨hp, ?_⟩
    have hsub := C04_active_sublist u (run (initState cfg behavs warm) ops)
    rw [hp] at hsub
    exact List.sublist_nil.mp hsub

/-! ## non-vacuity: the hypotheses on concrete states -/

/-- two watchers, three workers running -/
def exCfg : List Watcher := [{ name := "a", np := 2 }, { name := "b" }]
def exS : State := run (initState exCfg [{}] 0) [.start, .wake, .wake, .wake]
/-- … then worker 100 dies -/
def exD : State := run (initState exCfg [{}] 0) [.start, .wake, .wake, .wake, .die 100 9]
/-- the same with a `before_reap` hook that says no and an `after_reap` hook that raises -/
def exHD : State := run (initState [{ name := "a", np := 2, hooks := [("before_reap", { outs := ["false"], ignore := false }),
    ("after_reap", { outs := ["raise"], ignore := false })] }, { name := "b" }] [{}] 0) [.start, .wake, .wake, .wake, .die 100 9]
/-- a watcher whose `after_spawn` hook rejects every worker, right after `Popen()` -/
def vetoCfg : List Watcher := [{ name := "v", hooks := [("after_spawn", { outs := ["false"], ignore := false })] }]
def exV : State := (spawnAdopt 1 1 (initState vetoCfg [{}] 0)).2

example : ∀ w ∈ exCfg, w.pids = [] := by decide
example : exS.ws.map (fun w => (w.uid, w.pids)) = [(1, [100, 101]), (2, [102])] ∧ exS.k.nextPid = 103 := by
  decide +kernel
example : PidInv exS := C04_pid_inv exCfg [{}] 0 (by decide) _
-- `numprocesses` / `list` / `status` hypotheses
example : (JVal.obj [("name", .str "A")]).get? "name" = some (.str "A") ∧
    getWatcherCmd (.str "A") exS = (.ok 1, exS) ∧ (getW 1 exS).1.pids.length = 2 :=
  ⟨rfl, getWatcherCmd_ok "A" 1 exS (by decide +kernel), by decide +kernel⟩
example : (activeProcs 1 exD).1 = [101] ∧ (getW 1 exD).1.pids = [100, 101] := by decide +kernel
-- `manage_processes`: the dead worker is found dead at its turn, and is gone after the loop
example : (getW 1 exD).1.status ≠ .stopped := by decide +kernel
example : (getW 1 exD).1.pids = [100, 101] ∧ (100, exD) ∈ manageTurns 1 [100, 101] exD ∧
    isDead (procStatus 100 exD).1 = true :=
  ⟨by decide +kernel, List.mem_cons_self, by decide +kernel⟩
example : (getW 1 ((forIn (getW 1 exD).1.pids PUnit.unit (manageBody 1) : M PUnit) exD).2).1.pids = [101] := by
  decide +kernel
-- … also when the watcher's `before_reap` hook says no and its `after_reap` hook raises
example : (getW 1 exHD).1.pids = [100, 101] ∧ (callHook 1 "before_reap" exHD).1 = false ∧
    isDead (procStatus 100 exHD).1 = true ∧
    (getW 1 (reapProcess 1 100 none exHD).2).1.pids = [101] ∧
    (getW 1 ((forIn (getW 1 exHD).1.pids PUnit.unit (manageBody 1) : M PUnit) exHD).2).1.pids = [101] := by
  decide +kernel
-- `spawn_process`: a free wid, a successful `Popen()`
example : (∃ w ∈ exS.ws, w.uid = 2) ∧ nextWid (getW 2 exS).1.np (usedWids 2 exS).1 = some 2 ∧
    (spawnAdopt 2 2 exS).1 = some 103 := by decide +kernel
-- an exec failure at the first attempt
example : (spawnAdopt 1 1 (initState exCfg [{ execFail := true }] 0)).1 = none := by decide +kernel
-- the veto
example : (callHook 1 "after_spawn" exV).1 = false ∧ (getW 1 exV).1.pids = [100] := by decide +kernel
example : (spawnAfterAdopt (exec 100) 1 100 0 exV).2.ready.length = 1 ∧
    (getW 1 (spawnAfterAdopt (exec 100) 1 100 0 exV).2).1.pids = [100] := by decide +kernel
-- … and for real: the whole start with a rejecting hook ends stopped, nothing listed, the worker reaped
example : (run (initState vetoCfg [{}] 0) [.start]).ws.map (fun w => (w.pids, w.status)) = [([], .stopped)] ∧
    (run (initState vetoCfg [{}] 0) [.start]).k.procs.map (fun p => (p.pid, p.st)) = [(100, .gone)] := by
  decide +kernel

-- dead in the kernel, still listed: the hypotheses of `C04_dead_pid_dropped_by_check`
example : exD.k.DeadIn 100 ∧ 100 ∈ (getW 1 exD).1.pids := by
  refine ⟨?_, by decide +kernel⟩
  intro p hp
  have h : (exD.k.find 100).map (·.st) = some .zombie := by decide +kernel
  rw [hp] at h
  simp only [Option.map_some, Option.some.injEq] at h
  rw [h]; simp

-- stopped with nothing listed, not blocked: the watcher whose hook rejects its worker has been through a
-- real `_stop` (kill, reap, status write) …
example : (run (initState vetoCfg [{}] 0) [.start]).blocked = false ∧
    (run (initState vetoCfg [{}] 0) [.start]).ws.map (fun w => (w.status, w.pids)) = [(.stopped, [])] := by
  decide +kernel
-- … while watchers that are not stopped do list processes
example : exS.blocked = false ∧ exS.ws.map (fun w => (w.status, w.pids)) = [(.active, [100, 101]), (.starting, [102])] := by
  decide +kernel

end Circus.Core
