import CircusProofs.Core.Pres
/-!
# C14 — hooks gate exactly the transitions they are documented to gate

Theorems about the core model's `callHook`, `sendSignal`, `startW`, `startAfterSpawn`,
`spawnProcess`, `stopW` (transliterations of `Watcher.call_hook`, `send_signal`, `_start`,
`spawn_process`, `_stop`, `reap_process`).  Hook outcomes are scripted (`true | false | raise`, cycling), the
ignore-failure flag is part of `Watcher.ignoreFail`.
-/
namespace Circus.Core

/-- the scripted outcome of the `i`-th call -/
def hookOutcome (spec : HookSpec) (i : Nat) : String :=
  spec.outs.getD (i % (if spec.outs.length = 0 then 1 else spec.outs.length)) "true"

/-- what the documentation says a hook call evaluates to -/
def hookValue (w : Watcher) (hname : String) (outcome : String) : Bool :=
  if outcome = "raise" then w.ignoreFail.contains hname else outcome = "true"

/-- **no hook configured**: the call evaluates to true, nothing is published, nothing changes -/
theorem C14_call_hook_absent (u : Nat) (h : String) (s : State)
    (hn : ((getW u s).1.hooks.lookup h) = none) : callHook u h s = (true, s) := by
  unfold callHook
  simp only [bind, hn]
  rfl

theorem notify_open (u : Nat) (topic : String) (pid : Option Nat) (x : String) (s : State)
    (hb : s.blocked = false) (hp : s.a.pubClosed = false) :
    notify u topic pid x s = ((), { s with log := s.log ++ [Obs.ev (resName (getW u s).1.name) topic pid x] }) := by
  unfold notify
  simp only [bind, getA, getW]
  erw [if_neg (by simp [hp])]
  simp [emitEv, modS, hb]

/-- **every hook call is reported by exactly one event and evaluates as documented**: an exception
    counts as false unless the hook is in the ignore-failure list, in which case as true; the event is
    `hook_failure` exactly for an exception, `hook_success` otherwise. -/
theorem C14_call_hook (u : Nat) (h : String) (s : State) (spec : HookSpec)
    (hs : ((getW u s).1.hooks.lookup h) = some spec) (hb : s.blocked = false) (hp : s.a.pubClosed = false) :
    let w := (getW u s).1
    let o := hookOutcome spec ((w.hookCalls.lookup h).getD 0)
    (callHook u h s).1 = hookValue w h o ∧
    ∃ name, (callHook u h s).2.log =
      s.log ++ [Obs.ev name (if o = "raise" then "hook_failure" else "hook_success") none h] := by
  intro w o
  have hb1 : ∀ i, (bumpHook u h i s).2.blocked = false := fun i => hb
  have hp1 : ∀ i, (bumpHook u h i s).2.a.pubClosed = false := fun i => hp
  have hl1 : ∀ i, (bumpHook u h i s).2.log = s.log := fun i => rfl
  unfold callHook
  simp only [bind, hs]
  by_cases ho : hookOutcome spec ((w.hookCalls.lookup h).getD 0) = "raise"
  · have ho' : o = "raise" := ho
    erw [if_pos ho]
    simp only [bind, pure, show (getW u s).2 = s from rfl]
    rw [notify_open _ _ _ _ _ (hb1 _) (hp1 _)]
    simp only [hookValue, ho', if_true, hl1]
    exact ⟨rfl, _, rfl⟩
  · have ho' : ¬ o = "raise" := ho
    erw [if_neg ho]
    simp only [bind, pure, show (getW u s).2 = s from rfl]
    rw [notify_open _ _ _ _ _ (hb1 _) (hp1 _)]
    simp only [hookValue, ho', if_false, hl1]
    exact ⟨rfl, _, rfl⟩

/-- finite table: the 3 outcomes × 2 flags -/
theorem C14_outcome_table (w : Watcher) (h : String) :
    hookValue w h "true" = true ∧ hookValue w h "false" = false ∧
    hookValue w h "raise" = w.ignoreFail.contains h := by
  simp [hookValue]

/-- **a false `before_signal` suppresses the signal** (every signal but SIGKILL): `send_signal` then
    only runs the two hooks — no `kill()` is issued. -/
theorem C14_signal_vetoed (u p sig : Nat) (s : State) (hp : (getW u s).1.pids.contains p = true)
    (hr : (callHook u "before_signal" s).1 = false) (hk : sig ≠ 9) :
    sendSignal u p sig s = (.ok, (callHook u "after_signal" (callHook u "before_signal" s).2).2) := by
  unfold sendSignal
  simp only [bind]
  erw [if_pos hp]
  have hcond : (decide (sig ≠ 9) && !(callHook u "before_signal" (getW u s).snd).fst) = true := by
    have : (getW u s).snd = s := rfl
    rw [this, hr]; simp [hk]
  erw [if_pos hcond]
  simp only [pure]
  erw [if_pos rfl]
  rfl

/-- **SIGKILL is always sent**, whatever `before_signal` says: the `kill()` call follows the hook (the
    `after_signal` hook runs only when that call did not raise — the worker was there and the daemon was
    permitted to signal it) -/
theorem C14_sigkill_always_sent (u p : Nat) (s : State) (hp : (getW u s).1.pids.contains p = true) :
    (sendSignal u p 9 s).2 =
      (if (kKill p 9 "" (callHook u "before_signal" s).2).1 = .ok
       then (callHook u "after_signal" (kKill p 9 "" (callHook u "before_signal" s).2).2).2
       else (kKill p 9 "" (callHook u "before_signal" s).2).2) := by
  unfold sendSignal
  simp only [bind]
  erw [if_pos hp]
  have hcond : ¬ ((decide (9 ≠ 9) && !(callHook u "before_signal" (getW u s).snd).fst) = true) := by simp
  erw [if_neg hcond]
  by_cases hk : (kKill p 9 "" (callHook u "before_signal" s).2).1 = .ok
  · have h1 : (kKill p 9 "" (callHook u "before_signal" (getW u s).snd).snd).fst = SigRes.ok := hk
    erw [if_pos h1]
    rw [if_pos hk]
    rfl
  · have h1 : ¬ ((kKill p 9 "" (callHook u "before_signal" (getW u s).snd).snd).fst = SigRes.ok) := hk
    erw [if_neg h1]
    rw [if_neg hk]
    rfl

/-- **a false `before_start` aborts the start**: for a stopped watcher the start coroutine ends at once
    after the hook call — status still `stopped`, nothing spawned.  (`hp`: not an on-demand watcher
    still waiting for its socket event — such a start returns even before the hook.) -/
theorem C14_before_start_gate (rec : Rec) (u : Nat) (wt : Waiter) (s : State)
    (hp : (pendingSocketEvent u s).1 = false)
    (hst : (getW u s).1.status = .stopped) (hr : (callHook u "before_start" s).1 = false) :
    startW rec u wt s = deliver rec wt .unit (callHook u "before_start" s).2 := by
  unfold startW
  simp only [bind]
  have h0 : ¬ ((pendingSocketEvent u s).1 = true) := by simp [hp]
  erw [if_neg h0]
  have hs0 : (pendingSocketEvent u s).2 = s := rfl
  simp only [hs0]
  have h1 : ¬ ((getW u s).1.status ≠ Status.stopped) := by simp [hst]
  erw [if_neg h1]
  have h2 : (!(callHook u "before_start" (getW u s).snd).fst) = true := by
    have : (getW u s).snd = s := rfl
    rw [this, hr]; rfl
  erw [if_pos h2]
  rfl

/-- **a false `before_spawn` spawns nothing**: `spawn_process` returns False right after the hook -/
theorem C14_before_spawn_gate (rec : Rec) (u : Nat) (s : State)
    (hst : (getW u s).1.status ≠ .stopped) (hr : (callHook u "before_spawn" s).1 = false) :
    spawnProcess rec u s = (.rFalse, (callHook u "before_spawn" s).2) := by
  unfold spawnProcess
  simp only [bind]
  erw [if_neg hst]
  have h2 : (!(callHook u "before_spawn" (getW u s).snd).fst) = true := by
    have : (getW u s).snd = s := rfl
    rw [this, hr]; rfl
  erw [if_pos h2]
  rfl

/-- … and a False from `spawn_process` makes `spawn_processes` stop the watcher (`_stop`) -/
theorem C14_spawn_false_stops (rec : Rec) (u rem : Nat) (wt : Waiter) (s : State)
    (h : (spawnProcess rec u s).1 = .rFalse) :
    spawnLoop rec u (rem + 1) wt s = await rec (.stop_ u false) .spawnAfterStop wt (spawnProcess rec u s).2 := by
  unfold spawnLoop
  simp only [bind]
  generalize hsp : spawnProcess rec u s = r at h
  obtain ⟨res, s1⟩ := r
  simp only at h
  subst h
  rfl

/-- **a false `after_start` (or no worker left) aborts the start**: the watcher is stopped again,
    with its output streams closed (`_stop(True)`) -/
theorem C14_after_start_gate (rec : Rec) (u : Nat) (wt : Waiter) (s : State)
    (hp : (getW u s).1.pids.isEmpty = false) (hr : (callHook u "after_start" s).1 = false) :
    startAfterSpawn rec u wt s = await rec (.stop_ u true) .startTail wt (callHook u "after_start" s).2 := by
  unfold startAfterSpawn
  simp only [bind]
  have h1 : ¬ ((getW u s).1.pids.isEmpty = true) := by simp [hp]
  erw [if_neg h1]
  have h2 : (!(callHook u "after_start" (getW u s).snd).fst) = true := by
    have : (getW u s).snd = s := rfl
    rw [this, hr]; rfl
  erw [if_pos h2]
  rfl

theorem C14_no_worker_aborts (rec : Rec) (u : Nat) (wt : Waiter) (s : State)
    (hp : (getW u s).1.pids.isEmpty = true) :
    startAfterSpawn rec u wt s = await rec (.stop_ u true) .startTail wt s := by
  unfold startAfterSpawn
  simp only [bind]
  erw [if_pos hp]
  simp only [pure]
  have h2 : (!false) = true := rfl
  erw [if_pos h2]
  rfl

/-- **`before_stop` never prevents a stop**: whatever the hook returns or raises, `_stop` goes on to
    kill the processes — the hook's value is not looked at. -/
theorem C14_stop_ungated (rec : Rec) (u : Nat) (close : Bool) (wt : Waiter) (s : State)
    (hst : (getW u s).1.status ≠ .stopped) :
    stopW rec u close wt s =
      await rec (.killProcesses u none none) (.stopAfterKill u close) wt
        (callHook u "before_stop" (setStatus u .stopping s).2).2 := by
  unfold stopW
  simp only [bind]
  have h1 : ¬ ((getW u s).1.status = Status.stopped) := hst
  erw [if_neg h1]
  rfl

/-- **`after_stop` never prevents a stop**: after the processes are gone the watcher is marked
    `stopped` before `after_stop` is even called, and the hook's value is not looked at. -/
theorem C14_after_stop_ungated (rec : Rec) (u : Nat) (close : Bool) (wt : Waiter) (s : State) :
    ∃ s1, stopAfterKill rec u close wt s = deliver rec wt .unit (callHook u "after_stop" (setStatus u .stopped s1).2).2 :=
  ⟨_, rfl⟩

/-- the state in which `reap_process` publishes the `reap` event once the wait status is known: after
    the status check and, for a dead process, `Process.stop()` -/
def reapReady (pid : Nat) (s : State) : State :=
  if isDead (procStatus pid s).1 = true then (objStop pid (procStatus pid s).2).2 else (procStatus pid s).2

/-- **`before_reap` and `after_reap` gate nothing**: for a listed pid, whatever `before_reap` returns
    or raises, `reap_process` goes on to pop the entry and to run the rest with the same `status`
    argument — the hook's value is not looked at; in that rest the process is waited for
    (`status=None`: the `waitpid` loop `reapWait` runs first) and the `reap` event is published with
    the decoded status (resp. the cached return code after ECHILD) *before* `after_reap` is even
    called, and the value of `after_reap` is not looked at either (it is the last thing that runs). -/
theorem C14_reap_hooks_ungated (u pid : Nat) (st : Option Nat) (s : State)
    (hp : (getW u s).1.pids.contains pid = true) :
    reapProcess u pid st s = reapTail u pid st (popPid u pid (callHook u "before_reap" s).2).2 ∧
    (∀ x s1, reapTail u pid (some x) s1 =
      ((), (callHook u "after_reap" (notify u "reap" (some pid) (toString (exitCodeOf x)) (reapReady pid s1)).2).2)) ∧
    (∀ x s1, (reapWait pid spinLimit s1).1 = some (some x) →
      reapTail u pid none s1 = reapTail u pid (some x) (reapWait pid spinLimit s1).2) ∧
    (∀ s1, (reapWait pid spinLimit s1).1 = some none →
      reapTail u pid none s1 =
        ((), (callHook u "after_reap" (objStop pid (notify u "reap" (some pid)
          (match (getO pid (reapWait pid spinLimit s1).2).1.rc with | some c => toString c | none => "None")
          (reapWait pid spinLimit s1).2).2).2).2)) := by
  refine ⟨?_, ?_, ?_, ?_⟩
  · unfold reapProcess
    simp only [bind]
    have hc : ¬ ((!(getW u s).fst.pids.contains pid) = true) := by rw [hp]; simp
    erw [if_neg hc]
    rfl
  · intro x s1
    unfold reapTail reapReady
    simp only [bind, pure]
    by_cases hd : isDead (procStatus pid s1).1 = true
    · erw [if_pos hd]; rw [if_pos hd]
    · erw [if_neg hd]; rw [if_neg hd]
  · intro x s1 hw
    unfold reapTail
    simp only [bind, pure]
    generalize reapWait pid spinLimit s1 = rw at hw
    obtain ⟨r, s2⟩ := rw
    simp only at hw
    subst hw
    rfl
  · intro s1 hw
    unfold reapTail
    simp only [bind, pure]
    generalize reapWait pid spinLimit s1 = rw at hw
    obtain ⟨r, s2⟩ := rw
    simp only at hw
    subst hw
    rfl

/-! non-vacuity -/
/-- one worker (pid 100) that has exited; `before_reap` says no, `after_reap` raises -/
def c14R : State :=
  run (initState [{ name := "w", hooks := [("before_reap", { outs := ["false"], ignore := false }), ("after_reap", { outs := ["raise"], ignore := false })] }]
    [{}] 0) [.start, .wake, .wake, .wake, .die 100 0]
example : (getW 1 c14R).1.pids.contains 100 = true ∧ (callHook 1 "before_reap" c14R).1 = false ∧
    (getW 1 (reapProcess 1 100 none c14R).2).1.pids = [] ∧
    ((reapProcess 1 100 none c14R).2.log.drop c14R.log.length).map showObs =
      ["o ev 119 hook_success - before_reap", "o reap 100 0", "o ev 119 reap 100 0", "o ev 119 hook_failure - after_reap"] := by
  decide +kernel

example : hookValue { name := "w" } "before_stop" "raise" = true ∧ hookValue { name := "w" } "before_start" "raise" = false := by
  constructor <;> decide +kernel
example : hookOutcome { outs := ["true", "false", "raise"], ignore := false } 4 = "false" := by decide +kernel

/-! ### hooks installed at run time: `set <w> hooks.<name> = "dotted.name[,flag]"` -/

/-- **the ignore-failure flag of a hook installed with `set` is the flag of that request** — whatever was installed under the
    name before, with or without the flag (for the names that are not ignored by default).  Before fix 512dcc9 the flag of a
    replaced hook stuck for ever (F32). -/
theorem C14_set_hook_flag_is_the_requests (w : Watcher) (h : String) (outs : List String) (ig : Bool)
    (hd : defaultIgnoreFail.contains h = false) :
    (applyOpt (.hook h outs ig) w).ignoreFail.contains h = ig := by
  cases ig with
  | true =>
    simp only [applyOpt]
    by_cases hc : h ∈ w.ignoreFail
    · simp [hc]
    · simp [hc]
  | false =>
    simp only [applyOpt, hd]
    simp

/-- … the flags of all other hooks are left alone … -/
theorem C14_set_hook_leaves_other_flags (w : Watcher) (h h2 : String) (outs : List String) (ig : Bool) (hne : h2 ≠ h) :
    (applyOpt (.hook h outs ig) w).ignoreFail.contains h2 = w.ignoreFail.contains h2 := by
  simp only [applyOpt]
  split
  · split
    · rfl
    · simp [List.contains_eq_mem, List.mem_append, hne]
  · split
    · rfl
    · simp only [List.contains_eq_mem, List.mem_filter]
      simp [hne]

/-- … a name that is ignored by default stays ignored (`before_stop`, `after_stop`, `before_signal`, `after_signal`:
    "before_stop and after_stop outcomes never prevent a stop") … -/
theorem C14_set_hook_keeps_default_ignored (w : Watcher) (h : String) (outs : List String) (ig : Bool)
    (hd : defaultIgnoreFail.contains h = true) (hw : w.ignoreFail.contains h = true) :
    (applyOpt (.hook h outs ig) w).ignoreFail.contains h = true := by
  have hd' : h ∈ defaultIgnoreFail := by simpa [List.contains_eq_mem] using hd
  have hw' : h ∈ w.ignoreFail := by simpa [List.contains_eq_mem] using hw
  cases ig <;> simp [applyOpt, hd', hw']

/-- … and the hook that runs from now on is the one of the request: its scripted outcomes are looked up first. -/
theorem C14_set_hook_installs (w : Watcher) (h : String) (outs : List String) (ig : Bool) :
    (applyOpt (.hook h outs ig) w).hooks.lookup h = some { outs := outs, ignore := ig } := by
  simp [applyOpt, List.lookup]

/-- **a hook replacement that is refused changes nothing**: when the value of `set <w> hooks.<name>` cannot be read (it is no
    string, its flag is no boolean word, or the dotted name does not resolve) `Watcher.set_opt` raises before anything is
    written — the hook that was installed stays installed, with the flag it had, and no `updated` event is published. -/
theorem C14_refused_set_hook_changes_nothing (u : Nat) (key : String) (val : JVal) (s : State)
    (hk : key.startsWith "hooks" = true) (h : hookChange key val = none) :
    setOpt u key val s = (false, s) := by
  have hne : ¬ key = "numprocesses" := by
    intro e; rw [e] at hk; revert hk; decide +kernel
  unfold setOpt
  rw [ite_run, if_neg hne]
  have ho : optChange key val = none := by
    unfold optChange; rw [if_pos hk]; exact h
  rw [ho]; rfl

example : hookChange "hooks.before_start" (.int 5) = none ∧ ("hooks.before_start".startsWith "hooks") = true := by
  constructor
  · rfl
  · decide +kernel

-- F32 (repaired): a hook installed with the flag, then replaced without it: the new hook's exception counts as false again
example : ((applyOpt (.hook "before_start" ["raise"] false) (applyOpt (.hook "before_start" ["raise"] true) { name := "w" })).ignoreFail.contains
    "before_start") = false := by decide +kernel

end Circus.Core
