import CircusProofs.Lemmas.Client
/-!
# C06 (client clause) — "The client library returns from a call only the reply that bears that
call's id, discarding stale or foreign replies, and reports a timeout otherwise."

Property theorems only.  `es` is an arbitrary list of things that happen at the client's
`poll`: reordering, duplication, delay and loss of replies are the quantifier over that list.
`Foreign cid f` = `f` is a JSON object whose id is not `cid`; `Skippable` = foreign reply or
interrupted poll (definitions in `Lemmas/Client.lean`).
-/
namespace Circus.Client

/-- **only its own id** — whatever arrives, a call that returns a reply returns one that was
    really received, bears the call's id, and was preceded only by discarded (foreign) replies
    and interrupted polls. -/
theorem C06_client_only_own_id (cid : Str) (sendFails : Bool) (es : List Event) (id : JId) (body : Nat)
    (h : call cid sendFails es = .ok id body) :
    id = .str cid ∧ ∃ pre post, es = pre ++ .msg (.obj id body) :: post ∧ ∀ x ∈ pre, Skippable cid x := by
  unfold call at h
  cases sendFails with
  | true => simp at h
  | false =>
    simp only [Bool.false_eq_true, if_false] at h
    rcases recvLoop_decided cid es with ⟨hp, _⟩ | ⟨pre, e, post, o, h1, h2, h3, h4⟩
    · rw [hp] at h; exact absurd h (by simp)
    · rw [h4] at h
      subst h
      cases e with
      | msg f =>
        cases f with
        | obj id' body' =>
          simp only [decides, onFrame] at h3
          split at h3
          · exact absurd h3 (by simp)
          · rename_i hid
            injection h3 with h3
            injection h3 with hi hb
            subst hi hb
            exact ⟨Classical.not_not.mp hid, pre, post, h1, h2⟩
        | invalid => simp [decides, onFrame] at h3
        | nonObject t => simp [decides, onFrame] at h3
      | timeout => simp [decides] at h3
      | pollError => simp [decides] at h3
      | eintr => simp [decides] at h3

/-- **first match** — the first reply bearing the call's id is the one returned, when only
    foreign replies and interrupted polls precede it; whatever follows (duplicates of it, other
    replies, timeouts) is irrelevant. -/
theorem C06_client_first_match (cid : Str) (pre post : List Event) (body : Nat)
    (hpre : ∀ x ∈ pre, Skippable cid x) :
    call cid false (pre ++ .msg (.obj (.str cid) body) :: post) = .ok (.str cid) body := by
  simp only [call, Bool.false_eq_true, if_false]
  rw [recvLoop_skip cid pre _ hpre, recvLoop_cons]
  simp [decides, onFrame]

/-- **timeout** — the call reports `CallError("Timed out.")` exactly when a poll times out before
    any reply with the call's id arrived, everything before it having been discarded. -/
theorem C06_client_timeout (cid : Str) (es : List Event) :
    call cid false es = .callErrorTimeout ↔
      ∃ pre post, es = pre ++ .timeout :: post ∧ ∀ x ∈ pre, Skippable cid x := by
  simp only [call, Bool.false_eq_true, if_false]
  constructor
  · intro h
    rcases recvLoop_decided cid es with ⟨hp, _⟩ | ⟨pre, e, post, o, h1, h2, h3, h4⟩
    · rw [hp] at h; exact absurd h (by simp)
    · rw [h4] at h
      subst h
      cases e with
      | timeout => exact ⟨pre, post, h1, h2⟩
      | msg f =>
        cases f with
        | obj id' body' =>
          simp only [decides, onFrame] at h3
          split at h3 <;> simp at h3
        | invalid => simp [decides, onFrame] at h3
        | nonObject t => simp [decides, onFrame] at h3
      | pollError => simp [decides] at h3
      | eintr => simp [decides] at h3
  · rintro ⟨pre, post, rfl, hpre⟩
    rw [recvLoop_skip cid pre _ hpre, recvLoop_cons]
    rfl

/-- **foreign replies are discarded** — inserting any list of well-formed stale / foreign replies
    at any point of the event list does not change the result of the call. -/
theorem C06_client_foreign_discarded (cid : Str) (sendFails : Bool) (a b : List Event) (fs : List Frame)
    (hfs : ∀ f ∈ fs, Foreign cid f) :
    call cid sendFails (a ++ fs.map .msg ++ b) = call cid sendFails (a ++ b) := by
  unfold call
  cases sendFails with
  | true => rfl
  | false =>
    simp only [Bool.false_eq_true, if_false]
    have hsk : ∀ x ∈ fs.map Event.msg, Skippable cid x := by
      intro x hx
      obtain ⟨f, hf, rfl⟩ := List.mem_map.mp hx
      exact hfs f hf
    induction a with
    | nil => simp only [List.nil_append]; exact recvLoop_skip cid _ b hsk
    | cons e a ih =>
      simp only [List.cons_append, recvLoop_cons]
      cases decides cid e with
      | some o => rfl
      | none => simpa using ih

/-- **decided once** — once the events seen so far decide the call (anything but "still
    waiting"), nothing that arrives later — duplicates of the reply, late replies to earlier calls,
    timeouts — changes the outcome. -/
theorem C06_client_duplicates_ignored (cid : Str) (sendFails : Bool) (es later : List Event)
    (h : call cid sendFails es ≠ .pending) :
    call cid sendFails (es ++ later) = call cid sendFails es := by
  unfold call at h ⊢
  cases sendFails with
  | true => rfl
  | false =>
    simp only [Bool.false_eq_true, if_false] at h ⊢
    induction es with
    | nil => exact absurd rfl h
    | cons e es ih =>
      simp only [List.cons_append, recvLoop_cons] at h ⊢
      cases hd : decides cid e with
      | some o => rfl
      | none => rw [hd] at h; exact ih h

/-- **reordering and duplication** — if everything that arrives is either the reply to this call
    (possibly several copies), a foreign reply or an interrupted poll, and the reply does arrive,
    then the call returns it: in particular the result is the same for every permutation and every
    duplication of such an event list. -/
theorem C06_client_reorder (cid : Str) (es : List Event) (body : Nat)
    (hall : ∀ e ∈ es, e = .msg (.obj (.str cid) body) ∨ Skippable cid e)
    (hmem : .msg (.obj (.str cid) body) ∈ es) :
    call cid false es = .ok (.str cid) body := by
  simp only [call, Bool.false_eq_true, if_false]
  induction es with
  | nil => simp at hmem
  | cons e es ih =>
    rw [recvLoop_cons]
    rcases hall e (by simp) with rfl | hs
    · simp [decides, onFrame]
    · rw [decides_none_iff.mpr hs]
      refine ih (fun x hx => hall x (by simp [hx])) ?_
      rcases List.mem_cons.mp hmem with h | h
      · subst h
        simp [Skippable, Foreign] at hs
      · exact h

theorem C06_client_reorder_perm (cid : Str) (es es' : List Event) (body : Nat)
    (hall : ∀ e ∈ es, e = .msg (.obj (.str cid) body) ∨ Skippable cid e)
    (hmem : .msg (.obj (.str cid) body) ∈ es) (hperm : ∀ e, e ∈ es' ↔ e ∈ es) :
    call cid false es' = call cid false es := by
  rw [C06_client_reorder cid es body hall hmem,
    C06_client_reorder cid es' body (fun e he => hall e ((hperm e).mp he)) ((hperm _).mpr hmem)]

/-- **still waiting** — the call neither returns nor raises as long as only foreign replies and
    interrupted polls have arrived (no reply is invented, no early error). -/
theorem C06_client_pending_iff (cid : Str) (es : List Event) :
    call cid false es = .pending ↔ ∀ e ∈ es, Skippable cid e := by
  simp only [call, Bool.false_eq_true, if_false]
  constructor
  · intro h
    rcases recvLoop_decided cid es with ⟨_, h2⟩ | ⟨pre, e, post, o, _, _, h3, h4⟩
    · exact h2
    · rw [h4] at h; exact absurd h (decides_ne_pending h3)
  · intro h
    have := recvLoop_skip cid es [] h
    simpa [recvLoop] using this

/-- **errors** — a failed send, a failed poll and an undecodable frame are reported as `CallError`;
    a frame that is valid JSON but not an object escapes as `AttributeError` (what the code does
    today — candidate finding F14; "foreign reply" in the property is read as a JSON object). -/
theorem C06_client_errors (cid : Str) (pre post : List Event) (hpre : ∀ x ∈ pre, Skippable cid x) :
    (∀ es, call cid true es = .callErrorZmq) ∧
    call cid false (pre ++ .pollError :: post) = .callErrorZmq ∧
    call cid false (pre ++ .msg .invalid :: post) = .callErrorJson ∧
    (∀ t, call cid false (pre ++ .msg (.nonObject t) :: post) = .attributeError) := by
  refine ⟨fun _ => rfl, ?_, ?_, fun t => ?_⟩ <;>
    simp only [call, Bool.false_eq_true, if_false] <;>
    rw [recvLoop_skip cid pre _ hpre, recvLoop_cons] <;> rfl

/-- **the async client is the same filter** — `AsyncCircusClient.call` over multipart deliveries is
    the sync loop over the frames in arrival order (so every theorem above except the timeout one
    applies to it; it has no timeout branch of its own). -/
theorem C06_client_async_same_filter (cid : Str) (bs : List (List Frame)) :
    asyncCall cid bs = call cid false (bs.flatten.map .msg) := by
  simp only [call, Bool.false_eq_true, if_false]
  induction bs with
  | nil => rfl
  | cons b bs ih =>
    simp only [asyncCall, List.flatten_cons, List.map_append]
    rw [asyncBatch_eq cid b, ih]
    cases asyncBatch cid b <;> rfl

theorem C06_client_async_never_timeout (cid : Str) (bs : List (List Frame)) :
    asyncCall cid bs ≠ .callErrorTimeout := by
  rw [C06_client_async_same_filter]
  intro h
  obtain ⟨pre, post, h1, _⟩ := (C06_client_timeout cid _).mp h
  have : Event.timeout ∈ (bs.flatten.map Event.msg) := by rw [h1]; simp
  obtain ⟨f, _, hf⟩ := List.mem_map.mp this
  exact absurd hf (by simp)

/-! ### non-vacuity -/

private def cid : Str := [99, 48]
private def stale : Event := .msg (.obj (.str [115]) 1)
private def numId : Event := .msg (.obj (.nonStr 5) 2)
private def noId : Event := .msg (.obj .missing 3)
private def own (n : Nat) : Event := .msg (.obj (.str cid) n)

example : Skippable cid stale ∧ Skippable cid numId ∧ Skippable cid noId ∧ Skippable cid .eintr := by
  simp [Skippable, Foreign, stale, numId, noId, cid]
example : call cid false [stale, .eintr, numId, own 7, own 8, .timeout] = .ok (.str cid) 7 := by decide
example : call cid false [stale, noId, .timeout, own 7] = .callErrorTimeout := by decide
example : call cid false [stale, own 7] ≠ .pending := by decide
example : call cid false [stale, noId] = .pending := by decide
example : call cid false [stale, .msg (.nonObject 0), own 7] = .attributeError := by decide
example : call cid false [stale, .msg .invalid, own 7] = .callErrorJson := by decide
example : call cid true [own 7] = .callErrorZmq := by decide
example : asyncCall cid [[.obj (.str [115]) 1], [], [.obj .missing 3, .obj (.str cid) 9, .obj (.str cid) 10]]
    = .ok (.str cid) 9 := by decide
example : call cid false [own 7, stale, own 7] = call cid false [stale, own 7, own 7, numId] := by decide

end Circus.Client
