import CircusProofs.Lemmas.Pidfile
/-!
# C08 (pid-file clauses) — "At startup it refuses to run when the pid file names another live
process, and takes over a stale, empty or garbled one; … removes the pid file it created."

Property theorems only.  All statements quantify over every file content (absent included),
every liveness oracle, every own pid and every `Pidfile` object state.
-/
namespace Circus.Pidfile
open Circus.PyInt

/-- the pid file names another live process: it exists, reads (`Reads`: decimal integer literal,
    `Lemmas/Pidfile.lean`) as a positive pid different from `pid`, and `os.kill(w, 0)` succeeds.
    `w ≤ INT_MAX`: a number beyond a C int is no pid at all — `os.kill` cannot even be asked
    (OverflowError), the liveness oracle is not consulted for it. -/
def NamesLiveOther (file : Option Str) (live : Int → Live) (pid : Int) : Prop :=
  ∃ txt w, file = some txt ∧ Reads txt w ∧ 0 < w ∧ w ≤ INT_MAX ∧ w ≠ pid ∧ live w = .alive

/-- the pid file is absent, empty, garbled (no integer literal), non-positive, a number that is no
    valid pid (beyond a C int), or names a dead pid -/
inductive Stale (live : Int → Live) : Option Str → Prop
  | absent : Stale live none
  | empty : Stale live (some [])
  | garbled (txt : Str) : txt ≠ [] → (∀ w, ¬ IsIntLit txt w) → Stale live (some txt)
  | nonPositive (txt : Str) (w : Int) : Reads txt w → w ≤ 0 → Stale live (some txt)
  | notAPid (txt : Str) (w : Int) : Reads txt w → INT_MAX < w → Stale live (some txt)
  | deadPid (txt : Str) (w : Int) : Reads txt w → 0 < w → live w = .dead → Stale live (some txt)

/-- **refuse** — `create` raises the "pid file … is stale" RuntimeError (which `circusd.main`
    turns into `sys.exit(1)`) exactly when the file names another live process; the file and the
    object are left as they were. -/
theorem C08_pidfile_refuse_iff (st : St) (live : Int → Live) (dirOk : Bool) (pid : Int) :
    ((create st live dirOk pid).2 = .raised .runtimeStale ↔ NamesLiveOther st.file live pid) ∧
    ((create st live dirOk pid).2 = .raised .runtimeStale → (create st live dirOk pid).1 = st) := by
  unfold create
  cases hv : validate st.file live with
  | none =>
    refine ⟨⟨?_, ?_⟩, ?_⟩
    · cases dirOk <;> simp
    · rintro ⟨txt, w, hf, hw, hpos, hfit, _, hl⟩
      have := (validate_owner_iff st.file live w).mpr ⟨txt, hf, (intOr0_iff_reads _ _).mpr hw, hpos, hfit, hl⟩
      rw [hv] at this; exact absurd this (by simp)
    · cases dirOk <;> simp
  | raised e =>
    refine ⟨⟨?_, ?_⟩, ?_⟩
    · intro h
      simp only at h
      injection h with h
      rw [validate_raised st.file live e hv] at h; exact absurd h (by simp)
    · rintro ⟨txt, w, hf, hw, hpos, hfit, _, hl⟩
      have := (validate_owner_iff st.file live w).mpr ⟨txt, hf, (intOr0_iff_reads _ _).mpr hw, hpos, hfit, hl⟩
      rw [hv] at this; exact absurd this (by simp)
    · intro _; rfl
  | owner old =>
    obtain ⟨txt, hf, hw, hpos, hfit, hl⟩ := (validate_owner_iff st.file live old).mp hv
    by_cases hp : old = pid
    · simp only [hp, if_true]
      refine ⟨⟨fun h => absurd h (by simp), ?_⟩, fun h => absurd h (by simp)⟩
      rintro ⟨txt', w, hf', hw', _, _, hne, _⟩
      rw [hf] at hf'
      injection hf' with hf'
      subst hf'
      have hw' := (intOr0_iff_reads _ _).mpr hw'
      rw [hw] at hw'
      injection hw' with hw'
      exact absurd (hp ▸ hw'.symm) hne
    · simp only [hp, if_false]
      exact ⟨⟨fun _ => ⟨txt, old, hf, (intOr0_iff_reads _ _).mp hw, hpos, hfit, hp, hl⟩, fun _ => trivial⟩, fun _ => trivial⟩

/-- **EPERM is a separate outcome** — when `os.kill` fails with an errno other than ESRCH
    (the pid exists but belongs to somebody else) `create` re-raises that OSError — exactly then —
    and nothing is written: the daemon does not run over the other process either. -/
theorem C08_pidfile_eperm (st : St) (live : Int → Live) (dirOk : Bool) (pid : Int) :
    ((create st live dirOk pid).2 = .raised .osError ↔
      ∃ txt w, st.file = some txt ∧ Reads txt w ∧ 0 < w ∧ w ≤ INT_MAX ∧ live w = .eperm) ∧
    ((create st live dirOk pid).2 = .raised .osError → (create st live dirOk pid).1 = st) := by
  rw [create_raised_iff st live dirOk pid .osError rfl, validate_osError_iff]
  have e : (∃ txt w, st.file = some txt ∧ intOr0 txt = some w ∧ 0 < w ∧ w ≤ INT_MAX ∧ live w = .eperm) ↔
      (∃ txt w, st.file = some txt ∧ Reads txt w ∧ 0 < w ∧ w ≤ INT_MAX ∧ live w = .eperm) := by
    constructor <;> rintro ⟨txt, w, h1, h2, h3⟩
    · exact ⟨txt, w, h1, (intOr0_iff_reads _ _).mp h2, h3⟩
    · exact ⟨txt, w, h1, (intOr0_iff_reads _ _).mpr h2, h3⟩
  exact ⟨e, fun h => by
    rw [create_raised_untouched st live dirOk pid .osError ((validate_osError_iff _ _).mpr h)]⟩

/-- **takeover** — an absent, empty, garbled, non-positive, not-a-pid or dead-pid file is taken
    over: `create` succeeds and afterwards the file holds exactly `"<pid>\n"` and the object
    remembers `pid`.  Full strength: every file content, every liveness oracle (since the repair
    "a pid file holding a number that is no valid pid is taken over like any garbled one" no
    side condition on the size of the number is needed). -/
theorem C08_pidfile_takeover (st : St) (live : Int → Live) (pid : Int) (h : Stale live st.file) :
    create st live true pid = ({ file := some (render pid ++ [10]), pid := pid }, .ok) := by
  obtain ⟨f, p0⟩ := st
  simp only at h
  have hv : validate f live = .none := by
    cases h with
    | absent => rfl
    | empty => simp [validate, intOr0]
    | garbled txt hne hp =>
      have : intOr0 txt = none := by
        rw [intOr0_none_iff]
        rintro w (⟨h, _⟩ | h)
        · exact hne h
        · exact hp w h
      simp [validate, this]
    | nonPositive txt w hw hle =>
      rw [validate_parsed txt live w ((intOr0_iff_reads _ _).mpr hw)]; simp [hle]
    | notAPid txt w hw hbig =>
      rw [validate_parsed txt live w ((intOr0_iff_reads _ _).mpr hw)]
      by_cases h0 : w ≤ 0 <;> simp [h0, hbig]
    | deadPid txt w hw hpos hl =>
      rw [validate_parsed txt live w ((intOr0_iff_reads _ _).mpr hw)]
      by_cases hbig : w > INT_MAX <;> simp [Int.not_le.mpr hpos, hbig, hl]
  unfold create
  rw [hv]
  rfl

/-- every file is either stale (→ taken over), names a live process (→ refused unless it is the
    caller itself), or names a pid `os.kill` answers EPERM for (→ OSError): the three theorems
    `C08_pidfile_takeover`, `C08_pidfile_refuse_iff`, `C08_pidfile_eperm` cover all contents. -/
theorem C08_pidfile_cases (file : Option Str) (live : Int → Live) :
    Stale live file ∨ ∃ txt w, file = some txt ∧ Reads txt w ∧ 0 < w ∧ w ≤ INT_MAX ∧
      (live w = .alive ∨ live w = .eperm) := by
  cases file with
  | none => exact Or.inl .absent
  | some txt =>
    cases hi : intOr0 txt with
    | none =>
      refine Or.inl (.garbled txt ?_ ?_)
      · rintro rfl; simp [intOr0] at hi
      · intro w hw; exact (intOr0_none_iff txt).mp hi w (Or.inr hw)
    | some w =>
      have hr := (intOr0_iff_reads _ _).mp hi
      by_cases h0 : w ≤ 0
      · exact Or.inl (.nonPositive txt w hr h0)
      · by_cases h1 : INT_MAX < w
        · exact Or.inl (.notAPid txt w hr h1)
        · cases hl : live w with
          | dead => exact Or.inl (.deadPid txt w hr (by omega) hl)
          | alive => exact Or.inr ⟨txt, w, rfl, hr, by omega, by omega, Or.inl hl⟩
          | eperm => exact Or.inr ⟨txt, w, rfl, hr, by omega, by omega, Or.inr hl⟩

/-- the same take-over with a missing directory is the other RuntimeError (exit 1), nothing written -/
theorem C08_pidfile_nodir (st : St) (live : Int → Live) (pid : Int) (hv : validate st.file live = .none) :
    create st live false pid = ({ st with pid := pid }, .raised .runtimeNoDir) := by
  unfold create; rw [hv]; rfl

/-- **unlink** — `unlink` removes an existing file iff it reads as the object's own pid or is
    garbled (the code falls back to `self.pid`), and otherwise leaves everything as it was; the
    object's pid is never changed. -/
theorem C08_pidfile_unlink (st : St) (txt : Str) (h : st.file = some txt) :
    ((unlink st).file = none ↔ (Reads txt st.pid ∨ ∀ w, ¬ Reads txt w)) ∧
    ((unlink st).file = none ∨ unlink st = st) ∧ (unlink st).pid = st.pid := by
  rw [← intOr0_iff_reads, ← intOr0_none_iff]
  simp only [unlink, h]
  cases hw : intOr0 txt with
  | none => simp
  | some w =>
    by_cases hp : w = st.pid
    · simp [hp]
    · simp [hp, h]

/-- `unlink` of an absent file does nothing -/
theorem C08_pidfile_unlink_absent (st : St) (h : st.file = none) : unlink st = st := by
  unfold unlink; rw [h]

/-- **roundtrip** — for the object `circusd.main` builds (`self.pid` = the pid handed to `create`):
    whenever `create` succeeds, `unlink` afterwards leaves no file.  (`pid` has at most 4300
    digits — Python's int/str conversion limit; every real pid has at most 10.) -/
theorem C08_pidfile_roundtrip (st : St) (live : Int → Live) (dirOk : Bool) (pid : Int)
    (hself : st.pid = pid) (hp : pid.natAbs < 10 ^ maxStrDigits)
    (hok : (create st live dirOk pid).2 = .ok) :
    (unlink (create st live dirOk pid).1).file = none := by
  unfold create at hok ⊢
  cases hv : validate st.file live with
  | raised e => rw [hv] at hok; exact absurd hok (by simp)
  | owner old =>
    rw [hv] at hok
    obtain ⟨txt, hf, hw, _, _, _⟩ := (validate_owner_iff st.file live old).mp hv
    by_cases ho : old = pid
    · simp only [ho, if_true]
      exact ((C08_pidfile_unlink st txt hf).1).mpr (Or.inl ((intOr0_iff_reads _ _).mp (by rw [hw, ho, hself])))
    · simp only [ho, if_false] at hok; exact absurd hok (by simp)
  | none =>
    rw [hv] at hok
    cases dirOk with
    | false => exact absurd hok (by simp)
    | true =>
      simp only [if_true]
      exact ((C08_pidfile_unlink { file := some (render pid ++ [10]), pid := pid } _ rfl).1).mpr
        (Or.inl ((intOr0_iff_reads _ _).mp (intOr0_render pid hp)))

/-- **a number that is no pid** (the former finding `pidfile-huge-pid-overflow`, repaired in
    /repo): the file `"2147483648\n"` is taken over whatever the liveness oracle says — `create`
    succeeds and writes the own pid, `circusd.main` starts the arbiter, and a regular end removes
    the file and exits with status 0. -/
theorem C08_pidfile_huge_number_taken_over (live : Int → Live) (own : Int)
    (hp : own.natAbs < 10 ^ maxStrDigits) :
    let file : Option Str := some [50, 49, 52, 55, 52, 56, 51, 54, 52, 56, 10]
    Stale live file ∧
    create { file := file, pid := own } live true own = ({ file := some (render own ++ [10]), pid := own }, .ok) ∧
    main true file live true own [.finished false] = (none, .status 0, true) := by
  have hw : intOr0 [50, 49, 52, 55, 52, 56, 51, 54, 52, 56, 10] = some 2147483648 := by decide +kernel
  have hst : Stale live (some [50, 49, 52, 55, 52, 56, 51, 54, 52, 56, 10]) :=
    .notAPid _ 2147483648 ((intOr0_iff_reads _ _).mp hw) (by decide)
  have hc := C08_pidfile_takeover
    { file := some [50, 49, 52, 55, 52, 56, 51, 54, 52, 56, 10], pid := own } live own hst
  refine ⟨hst, hc, ?_⟩
  have hun : (unlink { file := some (render own ++ [10]), pid := own }).file = none :=
    ((C08_pidfile_unlink { file := some (render own ++ [10]), pid := own } _ rfl).1).mpr
      (Or.inl ((intOr0_iff_reads _ _).mp (intOr0_render own hp)))
  unfold main
  simp only [if_true, hc, mainLoop, hun]

/-- **main** — (1) when the pid file names another live process `main` exits with status 1, the
    file is untouched and the arbiter is never started; (2) otherwise, when `create` succeeds, any
    number of restarts later a regular end of the loop exits with status 0 and the pid file is
    gone; while the daemon is still running (turns used up) the file is whatever `create` left. -/
theorem C08_pidfile_main (file : Option Str) (live : Int → Live) (dirOk : Bool) (own : Int)
    (hp : own.natAbs < 10 ^ maxStrDigits) :
    (NamesLiveOther file live own →
      ∀ turns, main true file live dirOk own turns = (file, .status 1, false)) ∧
    ((create { file := file, pid := own } live dirOk own).2 = .ok →
      ∀ pre t post, (∀ x ∈ pre, x.continues = true) → t.endsCleanly = true →
        main true file live dirOk own (pre ++ t :: post) = (none, .status 0, true)) ∧
    ((create { file := file, pid := own } live dirOk own).2 = .ok →
      ∀ pre, (∀ x ∈ pre, x.continues = true) →
        main true file live dirOk own pre =
          ((create { file := file, pid := own } live dirOk own).1.file, .running, true)) := by
  refine ⟨?_, ?_, ?_⟩
  · intro h turns
    have hr := C08_pidfile_refuse_iff { file := file, pid := own } live dirOk own
    have h2 := hr.1.mpr h
    have h1 := hr.2 h2
    unfold main
    simp only [if_true]
    generalize hc : create { file := file, pid := own } live dirOk own = c at h1 h2
    obtain ⟨s, r⟩ := c
    simp only at h1 h2
    subst h1 h2
    rfl
  · intro hok pre t post hpre ht
    have hrt := C08_pidfile_roundtrip { file := file, pid := own } live dirOk own rfl hp hok
    unfold main
    simp only [if_true]
    generalize hc : create { file := file, pid := own } live dirOk own = c at hok hrt
    obtain ⟨s, r⟩ := c
    simp only at hok hrt
    subst hok
    simp only [mainLoop_continues s pre (t :: post) hpre]
    cases t with
    | finished b => cases b <;> simp_all [mainLoop, Turn.endsCleanly]
    | futureException => simp [mainLoop, hrt]
    | interruptedLate => simp [mainLoop, hrt]
    | _ => simp [Turn.endsCleanly] at ht
  · intro hok pre hpre
    unfold main
    simp only [if_true]
    generalize hc : create { file := file, pid := own } live dirOk own = c at hok
    obtain ⟨s, r⟩ := c
    simp only at hok
    subst hok
    have := mainLoop_continues s pre [] hpre
    simp only [List.append_nil] at this
    simp [this, mainLoop]

/-! ### non-vacuity -/

private def liveTbl : Int → Live := fun p => if p = 123 then .alive else if p = 77 then .eperm else .dead
private def s123 : Str := [49, 50, 51, 10]          -- "123\n"
private def st0 (f : Option Str) : St := { file := f, pid := 4242 }

-- refuse: "123\n", 123 alive
example : NamesLiveOther (some s123) liveTbl 4242 :=
  ⟨s123, 123, rfl, (intOr0_iff_reads _ _).mp (by decide +kernel), by decide, by decide, by decide, rfl⟩
example : (create (st0 (some s123)) liveTbl true 4242).2 = .raised .runtimeStale := by decide +kernel
-- eperm: "77"
example : (create (st0 (some [55, 55])) liveTbl true 4242).2 = .raised .osError := by decide +kernel
-- takeover: absent / empty / garbled "12abc" / "-5" / dead "99\n"
example : create (st0 none) liveTbl true 4242 = ({ file := some [52, 50, 52, 50, 10], pid := 4242 }, .ok) := by decide +kernel
example : Stale liveTbl (some [49, 50, 97, 98, 99]) :=
  .garbled _ (by decide) (fun w h => by
    have hn : parse [49, 50, 97, 98, 99] = none := by decide +kernel
    rw [(parse_iff_lit _ w).mpr h] at hn; exact absurd hn (by simp))
example : Stale liveTbl (some [45, 53]) := .nonPositive _ (-5) ((intOr0_iff_reads _ _).mp (by decide +kernel)) (by decide)
example : Stale liveTbl (some [57, 57, 10]) := .deadPid _ 99 ((intOr0_iff_reads _ _).mp (by decide +kernel)) (by decide) rfl
example : (create (st0 (some [49, 50, 97, 98, 99])) liveTbl true 4242).1.file = some [52, 50, 52, 50, 10] := by decide +kernel
-- a number beyond a C int: taken over even if the oracle says "alive"; `unlink` (no os.kill) reads it as a foreign pid
example : create (st0 (some [50, 49, 52, 55, 52, 56, 51, 54, 52, 56, 10])) (fun _ => .alive) true 4242
    = ({ file := some [52, 50, 52, 50, 10], pid := 4242 }, .ok) := by decide +kernel
example : (unlink (st0 (some [50, 49, 52, 55, 52, 56, 51, 54, 52, 56, 10]))).file
    = some [50, 49, 52, 55, 52, 56, 51, 54, 52, 56, 10] := by decide +kernel
example : (4242 : Int).natAbs < 10 ^ maxStrDigits := by decide +kernel
-- unlink: own pid removed, foreign pid kept, garbled removed, empty kept
example : (unlink (st0 (some [52, 50, 52, 50, 10]))).file = none := by decide +kernel
example : (unlink (st0 (some s123))).file = some s123 := by decide +kernel
example : (unlink (st0 (some [97]))).file = none := by decide +kernel
example : (unlink (st0 (some []))).file = some [] := by decide +kernel
-- roundtrip hypotheses are satisfiable; main: restart, then regular end
example : (create (st0 (some [])) liveTbl true 4242).2 = .ok ∧ (st0 (some [])).pid = 4242 := by decide +kernel
example : main true (some []) liveTbl true 4242 [.finished true, .interruptedEarly, .finished false, .raisedLate]
    = (none, .status 0, true) := by decide +kernel
example : main true (some s123) liveTbl true 4242 [.finished false] = (some s123, .status 1, false) := by decide +kernel
-- `raisedEarly` (start() itself raises while `restart` is still True) leaves the pid file behind
example : main true none liveTbl true 4242 [.raisedEarly] = (some [52, 50, 52, 50, 10], .uncaught none, true) := by
  decide +kernel

end Circus.Pidfile
