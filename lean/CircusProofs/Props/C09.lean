import CircusProofs.Core.Narrow
import CircusProofs.Core.HookFrame
import CircusProofs.Props.C02
import CircusProofs.Props.C14
/-!
# C09 — published events let a subscriber reconstruct the live process set

Events are the `Obs.ev wname topic pid extra` entries of the ghost log, written only by `emitEv`
through `notify` (`Watcher.notify_event`): nothing is published once the PUB socket is closed
(`a.pubClosed`) or while the daemon hangs (`blocked`).  `evsOf s` is what a subscriber has seen.

* decoding of wait statuses (`exitCodeOf`) for all exit codes and all signals;
* `reap_process`: an unlisted pid publishes nothing and calls no hook; for a listed one the
  `before_reap` hook runs first (its own `hook_success` / `hook_failure` event, the pid still listed),
  then the entry is popped, then exactly one `reap` event carrying the decoded status is published,
  then the `after_reap` hook runs (its own event); neither hook result is looked at;
* `spawn_process`: exactly one `spawn` event for the adopted pid, none when `after_spawn` vetoes
  or the exec fails;
* `_start` / `_stop`: `start` is published in the same atomic section that sets `active`, `stop`
  in the one that sets `stopped`.

Not proved here (see the end of the file): the run-level statement "at most one `reap` event per
pid along every run", which needs pid freshness (`PidInv`, Props/C04.lean).
-/
namespace Circus.Core

/-! ### 1. decoding wait statuses -/

/-- **a worker that exits by itself**: for every exit code the `exit_code` of the reap event is the
    exit status (mod 256, as the kernel delivers it) -/
theorem C09_exit_code_of_exit (c : Nat) : exitCodeOf (wstatExit c) = ((c % 256 : Nat) : Int) := by
  unfold exitCodeOf wstatExit
  have h : (c % 256 * 256) % 128 = 0 := by omega
  simp only [h, ne_eq, not_true_eq_false, if_false]
  congr 1
  omega

/-- **a worker killed by a signal**: for every terminating signal (1..127) the `exit_code` is minus
    the signal number -/
theorem C09_exit_code_of_signal (sg : Nat) (h0 : 0 < sg) (h1 : sg < 128) : exitCodeOf (wstatSig sg) = -(sg : Int) := by
  unfold exitCodeOf wstatSig
  have h : sg % 128 % 128 = sg := by omega
  simp only [h]
  rw [if_pos (by omega)]

/-- a "signal" that is a multiple of 128 (never delivered by the simulated kernel: signals are
    1..64) would be read as exit code 0 -/
theorem C09_exit_code_of_signal_zero (sg : Nat) (h : sg % 128 = 0) : exitCodeOf (wstatSig sg) = 0 := by
  unfold exitCodeOf wstatSig
  simp [h]

/-- the two decodings never collide: an exit is never read as a signal death -/
theorem C09_exit_code_of_exit_nonneg (c : Nat) : 0 ≤ exitCodeOf (wstatExit c) := by
  rw [C09_exit_code_of_exit]; exact Int.natCast_nonneg _

example : exitCodeOf (wstatExit 0) = 0 ∧ exitCodeOf (wstatExit 3) = 3 ∧ exitCodeOf (wstatExit 255) = 255 ∧
    exitCodeOf (wstatSig 9) = -9 ∧ exitCodeOf (wstatSig 15) = -15 ∧ exitCodeOf (wstatSig 64) = -64 := by decide

/-! ### the subscriber's view and what keeps it -/

/-- the published events, oldest first -/
def evsOf (s : State) : List Obs := s.log.filter Obs.isEv

/-- what identifies a watcher to a subscriber and to `reap_process` -/
def wview (w : Watcher) : Nat × String × List Nat × Status := (w.uid, w.name, w.pids, w.status)

/-- arbiter, `blocked`, the pids of the `Process` heap and the watchers' identity, name, pid list and
    status are as in `s0` -/
structure Keep (s0 s : State) : Prop where
  a : s.a = s0.a
  blocked : s.blocked = s0.blocked
  opids : s.objs.map (·.pid) = s0.objs.map (·.pid)
  wv : s.ws.map wview = s0.ws.map wview

theorem Keep.refl (s : State) : Keep s s := ⟨rfl, rfl, rfl, rfl⟩
theorem Keep.trans {a b c : State} (h1 : Keep a b) (h2 : Keep b c) : Keep a c :=
  ⟨h2.a.trans h1.a, h2.blocked.trans h1.blocked, h2.opids.trans h1.opids, h2.wv.trans h1.wv⟩

theorem keep_step {s0 : State} {m : M α} (h : ∀ s, Keep s (m s).2) : Pres (Keep s0) m :=
  fun s hs => hs.trans (h s)

theorem map_map_keep {β γ : Type} (l : List β) (f : β → β) (g : β → γ) (hf : ∀ x, g (f x) = g x) :
    (l.map f).map g = l.map g := by
  induction l with
  | nil => rfl
  | cons x xs ih => simp [hf x, ih]

theorem keep_emit (o : Obs) (s : State) : Keep s (emit o s).2 := by
  simp only [emit, modS]
  split
  · exact Keep.refl s
  · exact ⟨rfl, rfl, rfl, rfl⟩

theorem keep_emitEv (w t : String) (p : Option Nat) (x : String) (s : State) : Keep s (emitEv w t p x s).2 := by
  simp only [emitEv, modS]
  split
  · exact Keep.refl s
  · exact ⟨rfl, rfl, rfl, rfl⟩

theorem keep_modO (pid : Nat) (f : PObj → PObj) (hf : ∀ o, (f o).pid = o.pid) (s : State) : Keep s (modO pid f s).2 := by
  refine ⟨rfl, rfl, ?_, rfl⟩
  simp only [modO, modS]
  apply map_map_keep
  intro o; split
  · exact hf o
  · rfl

theorem keep_modW (u : Nat) (f : Watcher → Watcher) (hf : ∀ w, wview (f w) = wview w) (s : State) : Keep s (modW u f s).2 := by
  refine ⟨rfl, rfl, rfl, ?_⟩
  simp only [modW, modS]
  apply map_map_keep
  intro w; split
  · exact hf w
  · rfl

theorem keepLeafN (s0 : State) : LeafN (Keep s0) where
  emit := fun o => keep_step (keep_emit o)
  kill := fun _ _ => keep_step fun _ => ⟨rfl, rfl, rfl, rfl⟩
  waitpid := fun _ => keep_step fun _ => ⟨rfl, rfl, rfl, rfl⟩
  stateOf := fun _ => keep_step fun _ => ⟨rfl, rfl, rfl, rfl⟩
  children := fun _ _ => keep_step fun _ => ⟨rfl, rfl, rfl, rfl⟩
  setObjStopping := fun p _ => keep_step (keep_modO p _ (fun _ => rfl))
  setRc := fun p _ => keep_step (keep_modO p _ (fun _ => rfl))
  bumpHook := fun u _ _ => keep_step (keep_modW u _ (fun _ => rfl))
  evHookF := fun w p x => keep_step (keep_emitEv w _ p x)
  evHookS := fun w p x => keep_step (keep_emitEv w _ p x)
  evKill := fun w p x => keep_step (keep_emitEv w _ p x)

/-- looking a watcher up only depends on the views -/
theorem find_view (u : Nat) : ∀ (l l' : List Watcher), l'.map wview = l.map wview →
    wview ((l'.find? (·.uid = u)).getD defaultWatcher) = wview ((l.find? (·.uid = u)).getD defaultWatcher) := by
  intro l
  induction l with
  | nil => intro l' h; cases l' with
    | nil => rfl
    | cons x xs => simp at h
  | cons w ws ih =>
    intro l' h
    cases l' with
    | nil => simp at h
    | cons w' ws' =>
      simp only [List.map_cons, List.cons.injEq] at h
      have hu : w'.uid = w.uid := congrArg Prod.fst h.1
      simp only [List.find?_cons, hu]
      by_cases hq : w.uid = u
      · simp [hq, h.1]
      · simp only [hq, decide_false]
        exact ih ws' h.2

theorem Keep.view {s0 s : State} (h : Keep s0 s) (u : Nat) : wview (getW u s).1 = wview (getW u s0).1 :=
  find_view u s0.ws s.ws h.wv

theorem Keep.name {s0 s : State} (h : Keep s0 s) (u : Nat) : (getW u s).1.name = (getW u s0).1.name :=
  congrArg (fun v => v.2.1) (h.view u)
theorem Keep.pids {s0 s : State} (h : Keep s0 s) (u : Nat) : (getW u s).1.pids = (getW u s0).1.pids :=
  congrArg (fun v => v.2.2.1) (h.view u)
theorem Keep.status {s0 s : State} (h : Keep s0 s) (u : Nat) : (getW u s).1.status = (getW u s0).1.status :=
  congrArg (fun v => v.2.2.2) (h.view u)

/-- the subscriber has seen exactly `l` -/
def EvsIs (l : List Obs) (s : State) : Prop := evsOf s = l

theorem evsOf_emit (o : Obs) (s : State) : evsOf (emit o s).2 = evsOf s := by
  simp only [emit, modS]
  by_cases h : (s.blocked || o.isRep || o.isEv) = true
  · rw [if_pos h]
  · rw [if_neg h]
    have h' : o.isEv = false := by
      cases hh : o.isEv
      · rfl
      · simp [hh] at h
    simp [evsOf, List.filter_append, h']

theorem evsIs_same {l : List Obs} {m : M α} (h : ∀ s, evsOf (m s).2 = evsOf s) : Pres (EvsIs l) m :=
  fun s hs => (h s).trans hs

theorem evsIsLeafN0 (l : List Obs) : LeafN0 (EvsIs l) where
  emit := fun o => evsIs_same (evsOf_emit o)
  kill := fun _ _ => evsIs_same fun _ => rfl
  waitpid := fun _ => evsIs_same fun _ => rfl
  stateOf := fun _ => evsIs_same fun _ => rfl
  children := fun _ _ => evsIs_same fun _ => rfl
  setObjStopping := fun _ _ => evsIs_same fun _ => rfl
  setRc := fun _ _ => evsIs_same fun _ => rfl

/-- the number of published events satisfying `P` is `n` -/
def EvCnt (P : Obs → Bool) (n : Nat) (s : State) : Prop := (evsOf s).countP P = n

theorem evCnt_same {P : Obs → Bool} {n : Nat} {m : M α} (h : ∀ s, evsOf (m s).2 = evsOf s) : Pres (EvCnt P n) m := by
  intro s hs; unfold EvCnt; rw [h s]; exact hs

theorem evsOf_emitEv (w t : String) (p : Option Nat) (x : String) (s : State) :
    evsOf (emitEv w t p x s).2 = if s.blocked then evsOf s else evsOf s ++ [Obs.ev w t p x] := by
  simp only [emitEv, modS]
  split
  · rfl
  · simp [evsOf, List.filter_append, Obs.isEv]

theorem evCnt_emitEv {P : Obs → Bool} {n : Nat} (w t : String) (p : Option Nat) (x : String)
    (hP : P (Obs.ev w t p x) = false) : Pres (EvCnt P n) (emitEv w t p x) := by
  intro s hs
  unfold EvCnt
  rw [evsOf_emitEv]
  split
  · exact hs
  · rw [List.countP_append]; simp [hP]; exact hs

/-- a predicate on events that ignores hook and kill events -/
structure Quiet3 (P : Obs → Bool) : Prop where
  hookF : ∀ w p x, P (Obs.ev w "hook_failure" p x) = false
  hookS : ∀ w p x, P (Obs.ev w "hook_success" p x) = false
  kill : ∀ w p x, P (Obs.ev w "kill" p x) = false

theorem evCntLeafN (P : Obs → Bool) (n : Nat) (Q : Quiet3 P) : LeafN (EvCnt P n) where
  emit := fun o => evCnt_same (evsOf_emit o)
  kill := fun _ _ => evCnt_same fun _ => rfl
  waitpid := fun _ => evCnt_same fun _ => rfl
  stateOf := fun _ => evCnt_same fun _ => rfl
  children := fun _ _ => evCnt_same fun _ => rfl
  setObjStopping := fun _ _ => evCnt_same fun _ => rfl
  setRc := fun _ _ => evCnt_same fun _ => rfl
  bumpHook := fun _ _ _ => evCnt_same fun _ => rfl
  evHookF := fun w p x => evCnt_emitEv w _ p x (Q.hookF w p x)
  evHookS := fun w p x => evCnt_emitEv w _ p x (Q.hookS w p x)
  evKill := fun w p x => evCnt_emitEv w _ p x (Q.kill w p x)

theorem evCntLeafNR (P : Obs → Bool) (n : Nat) (Q : Quiet3 P) (hR : ∀ w p x, P (Obs.ev w "reap" p x) = false) :
    LeafNR (EvCnt P n) where
  toLeafN := evCntLeafN P n Q
  popPid := fun _ _ => evCnt_same fun _ => rfl
  evReap := fun w p x => evCnt_emitEv w _ p x (hR w p x)
  sleep := fun _ => evCnt_same fun _ => rfl
  markBlocked := evCnt_same fun _ => rfl

theorem evCntLeafNC (P : Obs → Bool) (n : Nat) (Q : Quiet3 P) : LeafNC (EvCnt P n) where
  toLeafN := evCntLeafN P n Q
  freshId := evCnt_same fun _ => rfl
  pushFrame := fun _ => evCnt_same fun _ => rfl
  removeFrame := fun _ => evCnt_same fun _ => rfl
  setFrameK := fun _ _ => evCnt_same fun _ => rfl
  armFrame := fun _ => evCnt_same fun _ => rfl
  pushSleeper := fun _ => evCnt_same fun _ => rfl
  armTop := fun _ => evCnt_same fun _ => rfl
  pushTop := fun _ => evCnt_same fun _ => rfl
  finishTop := fun _ _ => evCnt_same fun _ => rfl
  enqueue := fun _ => evCnt_same fun _ => rfl
  setSlot := fun _ => evCnt_same fun _ => rfl

/-- events of one topic -/
def isTopic (t : String) : Obs → Bool
  | .ev _ t' _ _ => t' == t
  | _ => false

/-- `spawn` events carrying `pid` -/
def isSpawnOf (pid : Nat) : Obs → Bool
  | .ev _ t (some p) _ => t == "spawn" && p == pid
  | _ => false

/-- `reap` events carrying `pid` -/
def isReapOf (pid : Nat) : Obs → Bool
  | .ev _ t (some p) _ => t == "reap" && p == pid
  | _ => false

theorem quiet3_topic (t : String) (h1 : t ≠ "hook_failure") (h2 : t ≠ "hook_success") (h3 : t ≠ "kill") :
    Quiet3 (isTopic t) :=
  ⟨fun _ _ _ => by simp [isTopic, Ne.symm h1], fun _ _ _ => by simp [isTopic, Ne.symm h2],
   fun _ _ _ => by simp [isTopic, Ne.symm h3]⟩

theorem quiet3_spawnOf (pid : Nat) : Quiet3 (isSpawnOf pid) :=
  ⟨fun _ p _ => by cases p <;> simp [isSpawnOf], fun _ p _ => by cases p <;> simp [isSpawnOf],
   fun _ p _ => by cases p <;> simp [isSpawnOf]⟩

theorem notify_evs (u : Nat) (topic : String) (pid : Option Nat) (x : String) (s : State)
    (hb : s.blocked = false) (hp : s.a.pubClosed = false) :
    evsOf (notify u topic pid x s).2 = evsOf s ++ [Obs.ev (resName (getW u s).1.name) topic pid x] := by
  rw [notify_open u topic pid x s hb hp]
  simp [evsOf, List.filter_append, Obs.isEv]

theorem notify_keep (u : Nat) (topic : String) (pid : Option Nat) (x : String) (s : State) :
    Keep s (notify u topic pid x s).2 := by
  unfold notify
  simp only [bind, getA, getW]
  by_cases h : s.a.pubClosed = true
  · erw [if_pos h]; exact Keep.refl s
  · erw [if_neg h]; exact keep_emitEv _ _ _ _ s

/-- nothing is published on a closed PUB socket or by a hung daemon -/
theorem notify_silent (u : Nat) (topic : String) (pid : Option Nat) (x : String) (s : State)
    (h : s.a.pubClosed = true ∨ s.blocked = true) : notify u topic pid x s = ((), s) := by
  unfold notify
  simp only [bind, getA, getW]
  by_cases hc : s.a.pubClosed = true
  · erw [if_pos hc]; rfl
  · erw [if_neg hc]
    have hb : s.blocked = true := by rcases h with h | h; exact absurd h hc; exact h
    simp [emitEv, modS, hb]

theorem procStatus_keep (pid : Nat) (s : State) : Keep s (procStatus pid s).2 :=
  procStatus_narrow (keepLeafN s).toLeafN0 pid s (Keep.refl s)
theorem objStop_keep (pid : Nat) (s : State) : Keep s (objStop pid s).2 :=
  objStop_narrow (keepLeafN s).toLeafN0 pid s (Keep.refl s)
theorem kWaitpid_keep (pid : Nat) (s : State) : Keep s (kWaitpid (some pid) s).2 :=
  kWaitpid_narrow (keepLeafN s).toLeafN0 pid s (Keep.refl s)
theorem callHook_keep (u : Nat) (h : String) (s : State) : Keep s (callHook u h s).2 :=
  callHook_narrow (keepLeafN s) u h s (Keep.refl s)
theorem procStatus_evs (pid : Nat) (s : State) : evsOf (procStatus pid s).2 = evsOf s :=
  procStatus_narrow (evsIsLeafN0 (evsOf s)) pid s rfl
theorem objStop_evs (pid : Nat) (s : State) : evsOf (objStop pid s).2 = evsOf s :=
  objStop_narrow (evsIsLeafN0 (evsOf s)) pid s rfl
theorem kWaitpid_evs (pid : Nat) (s : State) : evsOf (kWaitpid (some pid) s).2 = evsOf s :=
  kWaitpid_narrow (evsIsLeafN0 (evsOf s)) pid s rfl

/-! ### 2. the reap event carries the decoded wait status -/

/-- the watcher objects are those of `ws0` -/
def WsIs (ws0 : List Watcher) (s : State) : Prop := s.ws = ws0

theorem wsIsLeafN0 (ws0 : List Watcher) : LeafN0 (WsIs ws0) where
  emit := fun o s hs => by simp only [emit, modS]; split <;> exact hs
  kill := fun _ _ _ hs => hs
  waitpid := fun _ _ hs => hs
  stateOf := fun _ _ hs => hs
  children := fun _ _ _ hs => hs
  setObjStopping := fun _ _ _ hs => hs
  setRc := fun _ _ _ hs => hs

theorem procStatus_ws (pid : Nat) (s : State) : (procStatus pid s).2.ws = s.ws :=
  procStatus_narrow (wsIsLeafN0 s.ws) pid s rfl
theorem objStop_ws (pid : Nat) (s : State) : (objStop pid s).2.ws = s.ws :=
  objStop_narrow (wsIsLeafN0 s.ws) pid s rfl
theorem kWaitpid_ws (pid : Nat) (s : State) : (kWaitpid (some pid) s).2.ws = s.ws :=
  kWaitpid_narrow (wsIsLeafN0 s.ws) pid s rfl
theorem notify_ws (u : Nat) (t : String) (p : Option Nat) (x : String) (s : State) : (notify u t p x s).2.ws = s.ws := by
  rcases notify_frame u t p x s with h | h <;> rw [h]
theorem getW_of_ws {s t : State} (h : t.ws = s.ws) (u : Nat) : (getW u t).1 = (getW u s).1 := by
  simp only [getW, h]

/-- what a call of hook `h` of watcher `w` publishes on an open PUB socket: nothing when no such hook
    is configured, otherwise one event named after the hook — `hook_failure` when the scripted outcome
    of this call is an exception, `hook_success` otherwise -/
def hookEvOf (w : Watcher) (h : String) : List Obs :=
  match w.hooks.lookup h with
  | none => []
  | some spec =>
    [Obs.ev (resName w.name)
      (if hookOutcome spec ((w.hookCalls.lookup h).getD 0) = "raise" then "hook_failure" else "hook_success") none h]

theorem hookEvOf_congr {w v : Watcher} (h : String) (h1 : v.hooks = w.hooks) (h2 : v.name = w.name)
    (h3 : v.hookCalls.lookup h = w.hookCalls.lookup h) : hookEvOf v h = hookEvOf w h := by
  simp only [hookEvOf, h1, h2, h3]

/-- a hook event is neither a `reap` nor a `spawn` event -/
theorem hookEvOf_not_reap (w : Watcher) (h : String) (q : Nat) : (hookEvOf w h).countP (isReapOf q) = 0 := by
  unfold hookEvOf
  split
  · rfl
  · simp [isReapOf]

/-- **what `call_hook` publishes** (PUB socket open, daemon not hung): exactly `hookEvOf` -/
theorem callHook_evs (u : Nat) (h : String) (s : State) (hb : s.blocked = false) (hp : s.a.pubClosed = false) :
    evsOf (callHook u h s).2 = evsOf s ++ hookEvOf (getW u s).1 h := by
  cases hl : (getW u s).1.hooks.lookup h with
  | none =>
    rw [C14_call_hook_absent u h s hl]
    simp [hookEvOf, hl]
  | some spec =>
    have hb1 : ∀ i, (bumpHook u h i s).2.blocked = false := fun i => hb
    have hp1 : ∀ i, (bumpHook u h i s).2.a.pubClosed = false := fun i => hp
    have hl1 : ∀ i, evsOf (bumpHook u h i s).2 = evsOf s := fun i => rfl
    have hn1 : ∀ i, (getW u (bumpHook u h i s).2).1.name = (getW u s).1.name := by
      intro i; obtain ⟨hc, he, _⟩ := getW_bumpHook u h i u s; rw [he]
    unfold callHook
    simp only [bind, hl]
    by_cases ho : hookOutcome spec (((getW u s).1.hookCalls.lookup h).getD 0) = "raise"
    · erw [if_pos ho]
      simp only [bind, pure, show (getW u s).2 = s from rfl]
      rw [notify_evs _ _ _ _ _ (hb1 _) (hp1 _), hl1, hn1]
      simp only [hookEvOf, hl, ho, if_true]
    · erw [if_neg ho]
      simp only [bind, pure, show (getW u s).2 = s from rfl]
      rw [notify_evs _ _ _ _ _ (hb1 _) (hp1 _), hl1, hn1]
      simp only [hookEvOf, hl, ho, if_false]

/-- the tail of `reap_process` once the wait status is known: status check, `Process.stop()` for a
    dead process — neither publishes nor touches a watcher — then the `reap` event, then the
    `after_reap` hook -/
theorem reapTail_known (u pid st : Nat) (s : State) :
    ∃ s1, Keep s s1 ∧ evsOf s1 = evsOf s ∧ s1.ws = s.ws ∧
      reapTail u pid (some st) s =
        ((), (callHook u "after_reap" (notify u "reap" (some pid) (toString (exitCodeOf st)) s1).2).2) := by
  unfold reapTail
  simp only [bind, pure]
  by_cases hd : isDead (procStatus pid s).1 = true
  · refine ⟨(objStop pid (procStatus pid s).2).2, (procStatus_keep pid s).trans (objStop_keep pid _),
      (objStop_evs pid _).trans (procStatus_evs pid s), (objStop_ws pid _).trans (procStatus_ws pid s), ?_⟩
    erw [if_pos hd]
  · refine ⟨(procStatus pid s).2, procStatus_keep pid s, procStatus_evs pid s, procStatus_ws pid s, ?_⟩
    erw [if_neg hd]

/-- the `reap` event followed by the `after_reap` hook, from a state whose watchers are those of `s` -/
theorem reap_then_hook_evs (u pid : Nat) (x : String) (s s1 : State) (hk : Keep s s1) (hws : s1.ws = s.ws)
    (hb : s.blocked = false) (hp : s.a.pubClosed = false) :
    evsOf (callHook u "after_reap" (notify u "reap" (some pid) x s1).2).2 =
      evsOf s1 ++ [Obs.ev (resName (getW u s).1.name) "reap" (some pid) x] ++ hookEvOf (getW u s).1 "after_reap" := by
  have hb1 : s1.blocked = false := hk.blocked.trans hb
  have hp1 : s1.a.pubClosed = false := by rw [hk.a]; exact hp
  have hk2 := notify_keep u "reap" (some pid) x s1
  rw [callHook_evs u _ _ (hk2.blocked.trans hb1) (by rw [hk2.a]; exact hp1),
    notify_evs u _ _ _ s1 hb1 hp1, getW_of_ws ((notify_ws u _ _ _ s1).trans hws), getW_of_ws hws]

/-- **the reap event carries the exit status** (status delivered by the arbiter's `waitpid(-1)`):
    with the PUB socket open and the daemon not hung, the part of `reap_process` after the pop
    publishes exactly one `reap` event — for this pid, `exit_code` = the decoded wait status —
    followed by what the `after_reap` hook call publishes (`hookEvOf`: nothing when no such hook is
    configured, else its one `hook_success` / `hook_failure` event), and nothing else. -/
theorem C09_reap_event_carries_exit_code (u pid st : Nat) (s : State)
    (hb : s.blocked = false) (hp : s.a.pubClosed = false) :
    evsOf (reapTail u pid (some st) s).2 =
      evsOf s ++ [Obs.ev (resName (getW u s).1.name) "reap" (some pid) (toString (exitCodeOf st))] ++
        hookEvOf (getW u s).1 "after_reap" := by
  obtain ⟨s1, hk, he, hws, hr⟩ := reapTail_known u pid st s
  rw [hr, reap_then_hook_evs u pid _ s s1 hk hws hb hp, he]

/-- the blocking wait publishes nothing and keeps watchers, arbiter and flags, when it returns -/
theorem reapWait_keep (pid : Nat) : ∀ (fuel : Nat) (s : State) (r : Option Nat),
    (reapWait pid fuel s).1 = some r → Keep s (reapWait pid fuel s).2 ∧ evsOf (reapWait pid fuel s).2 = evsOf s := by
  intro fuel
  induction fuel with
  | zero => intro s r h; simp [reapWait, bind, pure] at h
  | succ n ih =>
    intro s r h
    unfold reapWait at h ⊢
    simp only [bind] at h ⊢
    have hk := kWaitpid_keep pid s
    have he := kWaitpid_evs pid s
    generalize kWaitpid (some pid) s = kw at h hk he ⊢
    obtain ⟨res, s1⟩ := kw
    cases res with
    | echild => exact ⟨hk, he⟩
    | got p st => exact ⟨hk, he⟩
    | none =>
      simp only at h hk he ⊢
      have h2 : Keep s1 (kSleep 1 s1).2 := ⟨rfl, rfl, rfl, rfl⟩
      have h3 : evsOf (kSleep 1 s1).2 = evsOf s1 := rfl
      obtain ⟨h4, h5⟩ := ih (kSleep 1 s1).2 r h
      exact ⟨(hk.trans h2).trans h4, h5.trans (h3.trans he)⟩

/-- the blocking wait touches no watcher object, however it ends -/
theorem reapWait_ws (pid : Nat) : ∀ (fuel : Nat) (s : State), (reapWait pid fuel s).2.ws = s.ws := by
  intro fuel
  induction fuel with
  | zero =>
    intro s
    simp only [reapWait, setBlocked, bind, pure]
    show (emit .blocked s).2.ws = s.ws
    simp only [emit, modS]
    split <;> rfl
  | succ n ih =>
    intro s
    unfold reapWait
    simp only [bind]
    have he := kWaitpid_ws pid s
    generalize kWaitpid (some pid) s = kw at he ⊢
    obtain ⟨res, s1⟩ := kw
    cases res with
    | echild => exact he
    | got p st => exact he
    | none => exact (ih (kSleep 1 s1).2).trans he

/-- **… also when `reap_process` had to wait itself** (`status=None`: `waitpid(pid)` until the
    kernel delivers the status `st`): one `reap` event with the decoded status, then what the
    `after_reap` hook call publishes. -/
theorem C09_reap_event_carries_exit_code_waited (u pid st : Nat) (s : State)
    (hw : (reapWait pid spinLimit s).1 = some (some st))
    (hb : s.blocked = false) (hp : s.a.pubClosed = false) :
    evsOf (reapTail u pid none s).2 =
      evsOf s ++ [Obs.ev (resName (getW u s).1.name) "reap" (some pid) (toString (exitCodeOf st))] ++
        hookEvOf (getW u s).1 "after_reap" := by
  obtain ⟨hk, he⟩ := reapWait_keep pid spinLimit s _ hw
  have hstep : reapTail u pid none s = reapTail u pid (some st) (reapWait pid spinLimit s).2 := by
    unfold reapTail
    simp only [bind, pure]
    generalize reapWait pid spinLimit s = rw at hw
    obtain ⟨r, s1⟩ := rw
    simp only at hw
    subst hw
    rfl
  rw [hstep, C09_reap_event_carries_exit_code u pid st _ (hk.blocked.trans hb) (by rw [hk.a]; exact hp), he,
    getW_of_ws (reapWait_ws pid spinLimit s) u]

/-- **… and when `Popen.poll()` had already collected the process** (`is_alive` reaped it and cached
    `returncode = exitCodeOf st`, so `waitpid` says ECHILD): the event carries the cached code; the
    `after_reap` hook follows (after `Process.stop()`, which publishes nothing). -/
theorem C09_reap_event_after_poll (u pid : Nat) (c : Int) (s : State)
    (hw : (reapWait pid spinLimit s).1 = some none) (hrc : (getO pid (reapWait pid spinLimit s).2).1.rc = some c)
    (hb : s.blocked = false) (hp : s.a.pubClosed = false) :
    evsOf (reapTail u pid none s).2 =
      evsOf s ++ [Obs.ev (resName (getW u s).1.name) "reap" (some pid) (toString c)] ++
        hookEvOf (getW u s).1 "after_reap" := by
  obtain ⟨hk, he⟩ := reapWait_keep pid spinLimit s _ hw
  have hws := reapWait_ws pid spinLimit s
  have hstep : reapTail u pid none s =
      ((), (callHook u "after_reap"
        (objStop pid (notify u "reap" (some pid) (toString c) (reapWait pid spinLimit s).2).2).2).2) := by
    unfold reapTail
    simp only [bind, pure]
    generalize reapWait pid spinLimit s = rw at hw hrc
    obtain ⟨r, s1⟩ := rw
    simp only at hw hrc
    subst hw
    simp only [show (getO pid s1).2 = s1 from rfl, hrc]
  have hb1 : (reapWait pid spinLimit s).2.blocked = false := hk.blocked.trans hb
  have hp1 : (reapWait pid spinLimit s).2.a.pubClosed = false := by rw [hk.a]; exact hp
  have hk23 := (notify_keep u "reap" (some pid) (toString c) (reapWait pid spinLimit s).2).trans
    (objStop_keep pid (notify u "reap" (some pid) (toString c) (reapWait pid spinLimit s).2).2)
  rw [hstep, callHook_evs u _ _ (hk23.blocked.trans hb1) (by rw [hk23.a]; exact hp1), objStop_evs,
    notify_evs u _ _ _ _ hb1 hp1, he,
    getW_of_ws (((objStop_ws pid _).trans (notify_ws u _ _ _ _)).trans hws) u, getW_of_ws hws u]

/-- `Popen.poll()` caches exactly the decoded status it collected -/
theorem C09_poll_caches_exit_code (pid p st : Nat) (s : State) (hrc : (getO pid s).1.rc = none)
    (hw : (kWaitpid (some pid) s).1 = .got p st) :
    isAlive pid s = (false, (setRc pid (exitCodeOf st) (kWaitpid (some pid) s).2).2) := by
  unfold isAlive
  simp only [bind, show (getO pid s).2 = s from rfl, hrc]
  generalize kWaitpid (some pid) s = kw at hw
  obtain ⟨r, s1⟩ := kw
  simp only at hw
  subst hw
  rfl

/-! ### 3. at most one reap event per call, none for an unlisted pid -/

/-- **no reap event for a pid the watcher does not list**: `reap_process` returns at once, nothing
    changes, nothing is published (this is what makes a second reap of the same pid silent). -/
theorem C09_no_reap_event_for_unlisted (u pid : Nat) (st : Option Nat) (s : State)
    (h : pid ∉ (getW u s).1.pids) : reapProcess u pid st s = ((), s) := by
  unfold reapProcess
  simp only [bind]
  erw [if_pos (by simpa using h)]
  rfl

/-- **`before_reap` hook, then the pop, then the rest**: for a listed pid `reap_process` first calls
    the `before_reap` hook — which sees the pid still listed, publishes its own event only, and whose
    result (true, false, exception) is not looked at — then removes the pid from the `processes` dict,
    then runs the waiting / publishing tail: in that tail (the `reap` event, `Process.stop()`, the
    `after_reap` hook and anything they call) the pid is no longer listed. -/
theorem C09_reap_pops_after_before_reap_hook (u pid : Nat) (st : Option Nat) (s : State)
    (h : pid ∈ (getW u s).1.pids) :
    reapProcess u pid st s = reapTail u pid st (popPid u pid (callHook u "before_reap" s).2).2 ∧
      pid ∈ (getW u (callHook u "before_reap" s).2).1.pids ∧
      pid ∉ (getW u (popPid u pid (callHook u "before_reap" s).2).2).1.pids := by
  refine ⟨?_, ?_, ?_⟩
  · unfold reapProcess
    simp only [bind]
    erw [if_neg (by simpa using h)]
    rfl
  · rw [getW_callHook_pids]; exact h
  · rw [getW_popPid]; simp

/-- after `reap_process(pid)` the pid is not listed (whatever happened in between) -/
theorem reapProcess_unlists (u pid : Nat) (st : Option Nat) (s : State) :
    pid ∉ (getW u (reapProcess u pid st s).2).1.pids := by
  have h := reapProcess_removes u pid (getW u s).1.pids st s (fun x hx => hx)
  intro hm
  have := h pid hm
  simp at this

/-- **at most one reap event per pid and call; reaping is idempotent**: a second `reap_process` for
    the same pid — nested, or right after the first — finds the pid unlisted and does nothing.
    No hypothesis is needed (not even that the pid list is duplicate free: `pop` drops the key). -/
theorem C09_reap_at_most_once_per_call (u pid : Nat) (st st2 : Option Nat) (s : State) :
    reapProcess u pid st2 (reapProcess u pid st s).2 = ((), (reapProcess u pid st s).2) :=
  C09_no_reap_event_for_unlisted u pid st2 _ (reapProcess_unlists u pid st s)

/-- the blocking wait publishes nothing, however it ends -/
theorem reapWait_evs (pid : Nat) : ∀ (fuel : Nat) (s : State), evsOf (reapWait pid fuel s).2 = evsOf s := by
  intro fuel
  induction fuel with
  | zero =>
    intro s
    simp only [reapWait, setBlocked, bind, pure]
    exact evsOf_emit .blocked s
  | succ n ih =>
    intro s
    unfold reapWait
    simp only [bind]
    have he := kWaitpid_evs pid s
    generalize kWaitpid (some pid) s = kw at he ⊢
    obtain ⟨res, s1⟩ := kw
    cases res with
    | echild => exact he
    | got p st => exact he
    | none => exact (ih (kSleep 1 s1).2).trans he

theorem notify_reap_other (u pid q : Nat) (hq : q ≠ pid) (x : String) (s1 : State) :
    (evsOf (notify u "reap" (some pid) x s1).2).countP (isReapOf q) = (evsOf s1).countP (isReapOf q) := by
  by_cases hopen : s1.a.pubClosed = true ∨ s1.blocked = true
  · rw [notify_silent u _ _ _ s1 hopen]
  · have h1 : s1.blocked = false := by cases hh : s1.blocked <;> simp_all
    have h2 : s1.a.pubClosed = false := by cases hh : s1.a.pubClosed <;> simp_all
    rw [notify_evs u _ _ _ s1 h1 h2, List.countP_append]
    simp [isReapOf, Ne.symm hq]

theorem quiet3_reapOf (pid : Nat) : Quiet3 (isReapOf pid) :=
  ⟨fun _ p _ => by cases p <;> simp [isReapOf], fun _ p _ => by cases p <;> simp [isReapOf],
   fun _ p _ => by cases p <;> simp [isReapOf]⟩

/-- a hook call publishes no `reap` event -/
theorem callHook_reapCnt (u : Nat) (h : String) (q : Nat) (s : State) :
    (evsOf (callHook u h s).2).countP (isReapOf q) = (evsOf s).countP (isReapOf q) :=
  callHook_narrow (evCntLeafN _ _ (quiet3_reapOf q)) u h s rfl

theorem reapTail_known_other (u pid q : Nat) (hq : q ≠ pid) (x : Nat) (s : State) :
    (evsOf (reapTail u pid (some x) s).2).countP (isReapOf q) = (evsOf s).countP (isReapOf q) := by
  obtain ⟨s1, _, he, _, hr⟩ := reapTail_known u pid x s
  rw [hr, callHook_reapCnt, notify_reap_other u pid q hq, he]

/-- **a call of `reap_process(pid)` publishes no `reap` event for any other pid** -/
theorem C09_reap_process_publishes_only_its_pid (u pid q : Nat) (st : Option Nat) (s : State) (hq : q ≠ pid) :
    (evsOf (reapProcess u pid st s).2).countP (isReapOf q) = (evsOf s).countP (isReapOf q) := by
  by_cases hl : pid ∈ (getW u s).1.pids
  · rw [(C09_reap_pops_after_before_reap_hook u pid st s hl).1]
    have hpop : evsOf (popPid u pid (callHook u "before_reap" s).2).2 = evsOf (callHook u "before_reap" s).2 := rfl
    rw [← callHook_reapCnt u "before_reap" q s, ← hpop]
    generalize (popPid u pid (callHook u "before_reap" s).2).2 = s0
    cases st with
    | some x => exact reapTail_known_other u pid q hq x s0
    | none =>
      have hw := reapWait_evs pid spinLimit s0
      unfold reapTail
      simp only [bind, pure]
      generalize reapWait pid spinLimit s0 = rw at hw
      obtain ⟨r, s1⟩ := rw
      simp only at hw ⊢
      rw [← hw]
      cases r with
      | none => rfl
      | some r =>
        cases r with
        | none =>
          simp only
          rw [callHook_reapCnt, objStop_evs, notify_reap_other u pid q hq]
          rfl
        | some x => exact reapTail_known_other u pid q hq x s1
  · rw [C09_no_reap_event_for_unlisted u pid st s hl]

/-- the pop changes, of any watcher, the pid list only -/
theorem getW_popPid_rest (u pid v : Nat) (s : State) :
    ∃ ps, (getW v (popPid u pid s).2).1 = { (getW v s).1 with pids := ps } := by
  simp only [getW, popPid, modW, modS]
  rw [find_map_uid _ (by intro w; by_cases hu : w.uid = u <;> simp [hu])]
  cases s.ws.find? (fun w => decide (w.uid = v)) with
  | none => exact ⟨defaultWatcher.pids, rfl⟩
  | some w =>
    simp only [Option.map_some, Option.getD_some]
    by_cases hu : w.uid = u
    · rw [if_pos hu]; exact ⟨_, rfl⟩
    · rw [if_neg hu]; exact ⟨w.pids, rfl⟩

/-- **the whole event sequence of one `reap_process`** (PUB socket open, daemon not hung, status
    delivered by the arbiter's `waitpid(-1)`): for a listed pid the subscriber sees, in this order,
    what the `before_reap` hook call publishes (`hookEvOf`: nothing without such a hook, else its one
    `hook_success` / `hook_failure` event), then exactly one `reap` event for the pid with the decoded
    exit status, then what the `after_reap` hook call publishes — and nothing else. -/
theorem C09_reap_event_sequence (u pid st : Nat) (s : State) (h : pid ∈ (getW u s).1.pids)
    (hb : s.blocked = false) (hp : s.a.pubClosed = false) :
    evsOf (reapProcess u pid (some st) s).2 =
      evsOf s ++ hookEvOf (getW u s).1 "before_reap" ++
        [Obs.ev (resName (getW u s).1.name) "reap" (some pid) (toString (exitCodeOf st))] ++
        hookEvOf (getW u s).1 "after_reap" := by
  rw [(C09_reap_pops_after_before_reap_hook u pid (some st) s h).1]
  have hbA : (callHook u "before_reap" s).2.blocked = false := (callHook_blocked u _ s).trans hb
  have hpA : (callHook u "before_reap" s).2.a.pubClosed = false := by rw [callHook_a]; exact hp
  have hevB : evsOf (popPid u pid (callHook u "before_reap" s).2).2 =
      evsOf s ++ hookEvOf (getW u s).1 "before_reap" := callHook_evs u "before_reap" s hb hp
  obtain ⟨ps, hB⟩ := getW_popPid_rest u pid u (callHook u "before_reap" s).2
  have hname : (getW u (popPid u pid (callHook u "before_reap" s).2).2).1.name = (getW u s).1.name := by
    rw [hB]; exact getW_callHook_name u _ u s
  have hhook : hookEvOf (getW u (popPid u pid (callHook u "before_reap" s).2).2).1 "after_reap" =
      hookEvOf (getW u s).1 "after_reap" := by
    refine hookEvOf_congr _ ?_ hname ?_
    · rw [hB]; exact getW_callHook_hooks u _ u s
    · rw [hB]; exact getW_callHook_calls u "before_reap" u "after_reap" (by decide) s
  rw [C09_reap_event_carries_exit_code u pid st (popPid u pid (callHook u "before_reap" s).2).2 hbA hpA, hevB, hname,
    hhook]

/-! ### 4. exactly one spawn event per adopted worker -/

/-- one attempt of `spawn_process` -/
theorem spawnTry_succ (rec : Rec) (u n : Nat) (s : State) :
    spawnTry rec u (n + 1) s =
      match nextWid (getW u s).1.np (usedWids u s).1 with
      | none => (.raised "RuntimeError", s)
      | some wid =>
        match spawnAdopt u wid s with
        | (none, s1) => spawnTry rec u n s1
        | (some pid, s1) =>
          if (callHook u "after_spawn" s1).1 = true then
            (.started s.k.now, (notify u "spawn" (some pid) "-" (callHook u "after_spawn" s1).2).2)
          else
            (.rFalse,
              (armTop (newTop [.popProc u pid] (callHook u "after_spawn" s1).2).1
                (rec (.call (.killProcess u pid none none) (.top (newTop [.popProc u pid] (callHook u "after_spawn" s1).2).1))
                  (newTop [.popProc u pid] (callHook u "after_spawn" s1).2).2).2).2) := by
  rw [spawnTry.eq_2]
  simp only [bind, pure]
  have e1 : (usedWids u (getW u s).2) = (usedWids u s) := rfl
  rw [e1]
  have e2 : (usedWids u s).2 = s := rfl
  cases nextWid (getW u s).1.np (usedWids u s).1 with
  | none => rfl
  | some wid =>
    have e3 : (nowMs s).2 = s := rfl
    have e4 : (nowMs s).1 = s.k.now := rfl
    simp only [e2, e3, e4]
    cases spawnAdopt u wid s with
    | mk p s1 =>
      cases p with
      | none => rfl
      | some pid =>
        simp only
        cases hr : (callHook u "after_spawn" s1).1
        · erw [if_pos (by rfl)]
          simp
        · erw [if_neg (by simp)]
          simp

theorem spawnAdopt_none_evs (u wid : Nat) (s s1 : State) (h : spawnAdopt u wid s = (none, s1)) :
    Keep s s1 ∧ evsOf s1 = evsOf s ∧ s1.ws = s.ws := by
  unfold spawnAdopt at h
  simp only at h
  cases hk : s.k.spawn with
  | mk k' r =>
    rw [hk] at h
    cases r with
    | some pid => simp at h
    | none =>
      simp only [Prod.mk.injEq, true_and] at h
      subst h
      refine ⟨⟨rfl, rfl, rfl, rfl⟩, ?_, rfl⟩
      simp only [evsOf]
      split
      · rfl
      · simp [List.filter_append, Obs.isEv]

theorem spawnAdopt_some_evs (u wid pid : Nat) (s s1 : State) (h : spawnAdopt u wid s = (some pid, s1)) :
    s1.a = s.a ∧ s1.blocked = s.blocked ∧ s1.objs.map (·.pid) = s.objs.map (·.pid) ++ [pid] ∧ evsOf s1 = evsOf s ∧
    s1.ws = s.ws.map (fun w => if w.uid = u then { w with pids := w.pids ++ [pid] } else w) := by
  unfold spawnAdopt at h
  simp only at h
  cases hk : s.k.spawn with
  | mk k' r =>
    rw [hk] at h
    cases r with
    | none => simp at h
    | some pid' =>
      simp only [Prod.mk.injEq, Option.some.injEq] at h
      obtain ⟨hp, hs⟩ := h
      subst hp; subst hs
      refine ⟨rfl, rfl, by simp, ?_, rfl⟩
      simp only [evsOf]
      split
      · rfl
      · simp [List.filter_append, Obs.isEv]

/-- after `Popen()` succeeded the watcher lists the new pid (and keeps its name) -/
theorem getW_adopt (u v pid : Nat) (s s1 : State)
    (hws : s1.ws = s.ws.map (fun w => if w.uid = u then { w with pids := w.pids ++ [pid] } else w)) :
    (getW v s1).1.name = (getW v s).1.name ∧ (u ∈ s.ws.map (·.uid) → pid ∈ (getW u s1).1.pids) := by
  simp only [getW, hws]
  constructor
  · rw [find_map_upd v u (fun w => { w with pids := w.pids ++ [pid] }) (fun _ => rfl)]
    cases s.ws.find? (fun x => decide (x.uid = v)) with
    | none => rfl
    | some w => simp only [Option.map_some, Option.getD_some]; split <;> rfl
  · intro hu
    rw [find_map_upd u u (fun w => { w with pids := w.pids ++ [pid] }) (fun _ => rfl)]
    obtain ⟨w, hw, hwu⟩ := List.mem_map.mp hu
    cases hf : s.ws.find? (fun x => decide (x.uid = u)) with
    | none =>
      have := List.find?_eq_none.mp hf w hw
      simp [hwu] at this
    | some w' => simp

/-- `spawn_process` adopted exactly one worker, `pid`, and announced exactly it -/
structure SpawnedOne (u : Nat) (s s' : State) (pid : Nat) : Prop where
  /-- exactly one `Process` object was created, for `pid` -/
  adopted : s'.objs.map (·.pid) = s.objs.map (·.pid) ++ [pid]
  /-- the watcher lists it -/
  listed : u ∈ s.ws.map (·.uid) → pid ∈ (getW u s').1.pids
  /-- exactly one `spawn` event for `pid` was published -/
  one : (evsOf s').countP (isSpawnOf pid) = (evsOf s).countP (isSpawnOf pid) + 1
  /-- and none for any other pid -/
  others : ∀ q, q ≠ pid → (evsOf s').countP (isSpawnOf q) = (evsOf s).countP (isSpawnOf q)
  /-- it is the last thing published -/
  last : ∃ pre, evsOf s' = pre ++ [Obs.ev (resName (getW u s).1.name) "spawn" (some pid) "-"]

theorem callHook_spawnCnt (u : Nat) (h : String) (q : Nat) (s : State) :
    (evsOf (callHook u h s).2).countP (isSpawnOf q) = (evsOf s).countP (isSpawnOf q) :=
  callHook_narrow (evCntLeafN _ _ (quiet3_spawnOf q)) u h s rfl

/-- **every adopted worker is announced by exactly one spawn event carrying its pid**: when
    `spawn_process` succeeds (after any number of failed `Popen()` attempts) exactly one `Process`
    object was created, its pid is listed by the watcher, exactly one `spawn` event for that pid was
    published (as the last event of the call) and none for any other pid. -/
theorem C09_spawn_event_exactly_one (rec : Rec) (u : Nat) : ∀ (tries : Nat) (s : State) (t : Nat),
    s.blocked = false → s.a.pubClosed = false → (spawnTry rec u tries s).1 = .started t →
    ∃ pid, SpawnedOne u s (spawnTry rec u tries s).2 pid := by
  intro tries
  induction tries with
  | zero => intro s t _ _ h; simp [spawnTry, pure] at h
  | succ n ih =>
    intro s t hb hp h
    rw [spawnTry_succ] at h ⊢
    cases hnw : nextWid (getW u s).1.np (usedWids u s).1 with
    | none => rw [hnw] at h; simp at h
    | some wid =>
      rw [hnw] at h
      simp only at h ⊢
      cases hsp : spawnAdopt u wid s with
      | mk p s1 =>
        rw [hsp] at h
        cases p with
        | none =>
          simp only at h ⊢
          obtain ⟨hk, he, hws⟩ := spawnAdopt_none_evs u wid s s1 hsp
          obtain ⟨pid, hS⟩ := ih s1 t (hk.blocked.trans hb) (by rw [hk.a]; exact hp) h
          refine ⟨pid, ⟨?_, ?_, ?_, ?_, ?_⟩⟩
          · rw [hS.adopted, hk.opids]
          · intro hu; exact hS.listed (by rw [hws]; exact hu)
          · rw [hS.one, he]
          · intro q hq; rw [hS.others q hq, he]
          · obtain ⟨pre, hpre⟩ := hS.last
            exact ⟨pre, by rw [hpre, hk.name]⟩
        | some pid =>
          simp only at h ⊢
          obtain ⟨ha, hbl, hobj, he, hws⟩ := spawnAdopt_some_evs u wid pid s s1 hsp
          have hk2 := callHook_keep u "after_spawn" s1
          by_cases hr : (callHook u "after_spawn" s1).1 = true
          · rw [if_pos hr]
            simp only
            have hb2 : (callHook u "after_spawn" s1).2.blocked = false := hk2.blocked.trans (hbl.trans hb)
            have hp2 : (callHook u "after_spawn" s1).2.a.pubClosed = false := by rw [hk2.a, ha]; exact hp
            have hk3 := notify_keep u "spawn" (some pid) "-" (callHook u "after_spawn" s1).2
            have he3 := notify_evs u "spawn" (some pid) "-" _ hb2 hp2
            have hn := getW_adopt u u pid s s1 hws
            refine ⟨pid, ⟨?_, ?_, ?_, ?_, ?_⟩⟩
            · rw [hk3.opids, hk2.opids, hobj]
            · intro hu; rw [hk3.pids, hk2.pids]; exact hn.2 hu
            · rw [he3, List.countP_append, callHook_spawnCnt, he]
              simp [isSpawnOf]
            · intro q hq
              rw [he3, List.countP_append, callHook_spawnCnt, he]
              simp [isSpawnOf, Ne.symm hq]
            · exact ⟨_, by rw [he3, hk2.name, hn.1]⟩
          · rw [if_neg hr] at h
            simp at h

/-- **no spawn event unless `spawn_process` succeeds** (here with the real interpreter as `rec`):
    when the `after_spawn` hook vetoes — the worker is adopted, then killed by a detached
    `kill_process` — as well as when `Popen()` fails on every attempt, when no worker id is free
    (`RuntimeError`), or when no attempt is left, no `spawn` event is published for any pid. -/
theorem C09_no_spawn_event_unless_started (fuel u : Nat) : ∀ (tries : Nat) (s : State),
    (∀ t, (spawnTry (exec fuel) u tries s).1 ≠ .started t) →
    ∀ q, (evsOf (spawnTry (exec fuel) u tries s).2).countP (isSpawnOf q) = (evsOf s).countP (isSpawnOf q) := by
  intro tries
  induction tries with
  | zero => intro s _ q; rfl
  | succ n ih =>
    intro s h q
    rw [spawnTry_succ] at h ⊢
    cases hnw : nextWid (getW u s).1.np (usedWids u s).1 with
    | none => rfl
    | some wid =>
      rw [hnw] at h
      simp only at h ⊢
      cases hsp : spawnAdopt u wid s with
      | mk p s1 =>
        rw [hsp] at h
        cases p with
        | none =>
          simp only at h ⊢
          rw [ih s1 h q, (spawnAdopt_none_evs u wid s s1 hsp).2.1]
        | some pid =>
          simp only at h ⊢
          obtain ⟨_, _, _, he, _⟩ := spawnAdopt_some_evs u wid pid s s1 hsp
          by_cases hr : (callHook u "after_spawn" s1).1 = true
          · rw [if_pos hr] at h
            exact absurd rfl (h _)
          · rw [if_neg hr]
            simp only
            have L := evCntLeafNC (isSpawnOf q) ((evsOf s1).countP (isSpawnOf q)) (quiet3_spawnOf q)
            rw [← he]
            have h1 := callHook_narrow L.toLeafN u "after_spawn" s1 rfl
            have h2 := newTop_narrow L [.popProc u pid] _ h1
            have h3 := exec_kill_top_narrow L fuel u pid (newTop [.popProc u pid] (callHook u "after_spawn" s1).2).1 none none _ h2
            exact L.armTop _ _ h3

/-- the vetoing case spelled out: the worker was adopted (it is killed by the detached
    `kill_process`, and forgotten by the `popProc` callback once that kill is done), the call
    returns False, and the subscriber never hears of a spawn -/
theorem C09_no_spawn_event_on_veto (fuel u n wid pid : Nat) (s s1 : State)
    (hw : nextWid (getW u s).1.np (usedWids u s).1 = some wid) (hs : spawnAdopt u wid s = (some pid, s1))
    (hv : (callHook u "after_spawn" s1).1 = false) :
    (∃ s', spawnTry (exec fuel) u (n + 1) s = (.rFalse, s')) ∧
    (evsOf (spawnTry (exec fuel) u (n + 1) s).2).countP (isSpawnOf pid) = (evsOf s).countP (isSpawnOf pid) := by
  have hres : ∃ s', spawnTry (exec fuel) u (n + 1) s = (.rFalse, s') := by
    rw [spawnTry_succ, hw]
    simp only [hs, hv]
    exact ⟨_, rfl⟩
  refine ⟨hres, C09_no_spawn_event_unless_started fuel u (n + 1) s ?_ pid⟩
  intro t
  obtain ⟨s', hs'⟩ := hres
  rw [hs']
  simp

/-! ### 5. `start` / `stop` events agree with the status -/

theorem Keep.uids {s0 s : State} (h : Keep s0 s) : s.ws.map (·.uid) = s0.ws.map (·.uid) := by
  have := congrArg (List.map Prod.fst) h.wv
  simp only [List.map_map] at this
  exact this

theorem getW_setStatus (u v : Nat) (st : Status) (s : State) :
    (getW v (setStatus u st s).2).1.name = (getW v s).1.name ∧
    (u ∈ s.ws.map (·.uid) → (getW u (setStatus u st s).2).1.status = st) := by
  simp only [getW, setStatus, modW, modS]
  constructor
  · rw [find_map_upd v u (fun w => { w with status := st }) (fun _ => rfl)]
    cases s.ws.find? (fun x => decide (x.uid = v)) with
    | none => rfl
    | some w => simp only [Option.map_some, Option.getD_some]; split <;> rfl
  · intro hu
    rw [find_map_upd u u (fun w => { w with status := st }) (fun _ => rfl)]
    obtain ⟨w, hw, hwu⟩ := List.mem_map.mp hu
    cases hf : s.ws.find? (fun x => decide (x.uid = u)) with
    | none =>
      have := List.find?_eq_none.mp hf w hw
      simp [hwu] at this
    | some w' => simp

theorem setStatus_frame (u : Nat) (st : Status) (s : State) :
    (setStatus u st s).2.a = s.a ∧ (setStatus u st s).2.blocked = s.blocked ∧ evsOf (setStatus u st s).2 = evsOf s :=
  ⟨rfl, rfl, rfl⟩

/-- **`start` is published exactly when the status becomes `active`**: `_start`, after the workers
    are spawned, either (no worker, or `after_start` says no: `ok = false`) goes on to `_stop` without
    touching the status and without a `start` event, or (`ok = true`) sets `active` and publishes
    `start` back to back, in the same atomic section, before anybody is resumed.  Up to that point
    (the hook call) no `start` event is published and the status is unchanged (`Keep`). -/
theorem C09_start_event_agrees_with_status (rec : Rec) (u : Nat) (wt : Waiter) (s : State) :
    ∃ (ok : Bool) (s1 : State), Keep s s1 ∧
      (evsOf s1).countP (isTopic "start") = (evsOf s).countP (isTopic "start") ∧
      (ok = false → startAfterSpawn rec u wt s = await rec (.stop_ u true) .startTail wt s1) ∧
      (ok = true →
        startAfterSpawn rec u wt s =
          deliver rec wt .unit (notify u "start" none "-" (setStatus u .active s1).2).2 ∧
        (u ∈ s.ws.map (·.uid) →
          (getW u (notify u "start" none "-" (setStatus u .active s1).2).2).1.status = .active) ∧
        (s.blocked = false → s.a.pubClosed = false →
          evsOf (notify u "start" none "-" (setStatus u .active s1).2).2 =
            evsOf s1 ++ [Obs.ev (resName (getW u s).1.name) "start" none "-"])) := by
  have hcnt : (evsOf (callHook u "after_start" s).2).countP (isTopic "start") = (evsOf s).countP (isTopic "start") :=
    callHook_narrow (evCntLeafN _ _ (quiet3_topic "start" (by decide) (by decide) (by decide))) u _ s rfl
  -- the decision
  have key : ∀ (ok : Bool) (s1 : State), Keep s s1 →
      (ok = true →
        (u ∈ s.ws.map (·.uid) →
          (getW u (notify u "start" none "-" (setStatus u .active s1).2).2).1.status = .active) ∧
        (s.blocked = false → s.a.pubClosed = false →
          evsOf (notify u "start" none "-" (setStatus u .active s1).2).2 =
            evsOf s1 ++ [Obs.ev (resName (getW u s).1.name) "start" none "-"])) := by
    intro ok s1 hk _
    obtain ⟨hn, hst⟩ := getW_setStatus u u .active s1
    constructor
    · intro hu
      rw [(notify_keep u "start" none "-" _).status]
      exact hst (by rw [hk.uids]; exact hu)
    · intro hb hp
      have hb1 : (setStatus u .active s1).2.blocked = false := hk.blocked.trans hb
      have hp1 : (setStatus u .active s1).2.a.pubClosed = false := by
        show s1.a.pubClosed = false
        rw [hk.a]; exact hp
      rw [notify_evs u "start" none "-" (setStatus u .active s1).2 hb1 hp1, hn, hk.name]
      rfl
  unfold startAfterSpawn
  simp only [bind]
  by_cases he : (getW u s).1.pids.isEmpty = true
  · refine ⟨false, s, Keep.refl s, rfl, ?_, by simp⟩
    intro _
    erw [if_pos he]
    simp only [pure]
    erw [if_pos rfl]
    rfl
  · erw [if_neg he]
    cases hr : (callHook u "after_start" s).1
    · refine ⟨false, (callHook u "after_start" s).2, callHook_keep u _ s, hcnt, ?_, by simp⟩
      intro _
      have h2 : (!(callHook u "after_start" (getW u s).snd).fst) = true := by
        have : (getW u s).snd = s := rfl
        rw [this, hr]; rfl
      erw [if_pos h2]
      rfl
    · refine ⟨true, (callHook u "after_start" s).2, callHook_keep u _ s, hcnt, by simp, ?_⟩
      intro hok
      refine ⟨?_, key true _ (callHook_keep u _ s) hok⟩
      have h2 : ¬ ((!(callHook u "after_start" (getW u s).snd).fst) = true) := by
        have : (getW u s).snd = s := rfl
        rw [this, hr]; simp
      erw [if_neg h2]
      rfl

theorem arbIs_same {a0 : Arbiter} {m : M α} (h : ∀ s, (m s).2.a = s.a) : Pres (fun s => s.a = a0) m :=
  fun s hs => (h s).trans hs

/-- nothing in `reap_process(es)` touches the arbiter (in particular not its sockets) -/
theorem arbIsLeafNR (a0 : Arbiter) : LeafNR (fun s => s.a = a0) where
  emit := fun o => arbIs_same fun s => by simp only [emit, modS]; split <;> rfl
  kill := fun _ _ => arbIs_same fun _ => rfl
  waitpid := fun _ => arbIs_same fun _ => rfl
  stateOf := fun _ => arbIs_same fun _ => rfl
  children := fun _ _ => arbIs_same fun _ => rfl
  setObjStopping := fun _ _ => arbIs_same fun _ => rfl
  setRc := fun _ _ => arbIs_same fun _ => rfl
  bumpHook := fun _ _ _ => arbIs_same fun _ => rfl
  evHookF := fun _ _ _ => arbIs_same fun s => by simp only [emitEv, modS]; split <;> rfl
  evHookS := fun _ _ _ => arbIs_same fun s => by simp only [emitEv, modS]; split <;> rfl
  evKill := fun _ _ _ => arbIs_same fun s => by simp only [emitEv, modS]; split <;> rfl
  popPid := fun _ _ => arbIs_same fun _ => rfl
  evReap := fun _ _ _ => arbIs_same fun s => by simp only [emitEv, modS]; split <;> rfl
  sleep := fun _ => arbIs_same fun _ => rfl
  markBlocked := arbIs_same fun _ => rfl

/-- **`stop` is published in the atomic section that sets `stopped`**: the tail of `_stop` (all kills
    done) reaps what is left — publishing `reap` events only — then publishes `stop`, sets the status
    and calls `after_stop` without a suspension point in between: the state handed to whoever waited
    for the stop reports `stopped`, and exactly one `stop` event was published during the call
    (unless the daemon hung in `reap_process`, which publishes nothing more at all). -/
theorem C09_stop_event_agrees_with_status (rec : Rec) (u : Nat) (close : Bool) (wt : Waiter) (s : State)
    (hp : s.a.pubClosed = false) :
    ∃ s4, stopAfterKill rec u close wt s = deliver rec wt .unit s4 ∧
      (getW u s4).1.status = .stopped ∧
      (evsOf s4).countP (isTopic "stop") =
        (evsOf s).countP (isTopic "stop") + (if (reapProcesses u s).2.blocked then 0 else 1) ∧
      s4.blocked = (reapProcesses u s).2.blocked := by
  refine ⟨(callHook u "after_stop" (setStatus u .stopped (notify u "stop" none "-" (reapProcesses u s).2).2).2).2,
    rfl, ?_, ?_, ?_⟩
  · rw [(callHook_keep u "after_stop" _).status]
    unfold setStatus
    rw [getW_modW_self u (fun w => { w with status := .stopped }) (fun _ => rfl) (by simp [defaultWatcher])]
  · have Q := quiet3_topic "stop" (by decide) (by decide) (by decide)
    have h1 : (evsOf (reapProcesses u s).2).countP (isTopic "stop") = (evsOf s).countP (isTopic "stop") :=
      reapProcesses_narrow (evCntLeafNR _ _ Q (fun _ _ _ => by simp [isTopic])) u s rfl
    have ha : (reapProcesses u s).2.a = s.a := reapProcesses_narrow (arbIsLeafNR s.a) u s rfl
    generalize (reapProcesses u s).2 = s1 at h1 ha
    have h4 : ∀ s3, (evsOf (callHook u "after_stop" s3).2).countP (isTopic "stop") = (evsOf s3).countP (isTopic "stop") :=
      fun s3 => callHook_narrow (evCntLeafN _ _ Q) u _ s3 rfl
    rw [h4, (setStatus_frame u .stopped _).2.2]
    cases hb : s1.blocked
    · rw [notify_evs u "stop" none "-" s1 hb (by rw [ha]; exact hp), List.countP_append, h1]
      simp [isTopic]
    · rw [notify_silent u "stop" none "-" s1 (Or.inr hb), h1]
      simp
  · rw [(callHook_keep u "after_stop" _).blocked]
    show (notify u "stop" none "-" (reapProcesses u s).2).2.blocked = _
    exact (notify_keep u "stop" none "-" _).blocked

/-- **watcher start/stop events agree with the status the watcher reports** (both halves) -/
theorem C09_start_stop_events_agree_with_status (rec : Rec) (u : Nat) (close : Bool) (wt : Waiter) (s : State)
    (hb : s.blocked = false) (hp : s.a.pubClosed = false) (hu : u ∈ s.ws.map (·.uid)) :
    -- `_start`: either no `start` event and the status untouched, or `active` and `start` together
    (∃ s1, Keep s s1 ∧ (evsOf s1).countP (isTopic "start") = (evsOf s).countP (isTopic "start") ∧
      (startAfterSpawn rec u wt s = await rec (.stop_ u true) .startTail wt s1 ∨
       ∃ s2, startAfterSpawn rec u wt s = deliver rec wt .unit s2 ∧ (getW u s2).1.status = .active ∧
         evsOf s2 = evsOf s1 ++ [Obs.ev (resName (getW u s).1.name) "start" none "-"])) ∧
    -- `_stop`: `stopped` and (unless the daemon hung) exactly one `stop`
    (∃ s4, stopAfterKill rec u close wt s = deliver rec wt .unit s4 ∧ (getW u s4).1.status = .stopped ∧
      (s4.blocked = true ∨ (evsOf s4).countP (isTopic "stop") = (evsOf s).countP (isTopic "stop") + 1)) := by
  constructor
  · obtain ⟨ok, s1, hk, hc, hf, ht⟩ := C09_start_event_agrees_with_status rec u wt s
    refine ⟨s1, hk, hc, ?_⟩
    cases ok with
    | false => exact Or.inl (hf rfl)
    | true =>
      obtain ⟨h1, h2, h3⟩ := ht rfl
      exact Or.inr ⟨_, h1, h2 hu, h3 hb hp⟩
  · obtain ⟨s4, h1, h2, h3, h4⟩ := C09_stop_event_agrees_with_status rec u close wt s hp
    refine ⟨s4, h1, h2, ?_⟩
    cases hbl : (reapProcesses u s).2.blocked
    · right; rw [h3, hbl]; rfl
    · left; rw [h4, hbl]

/-! ### non-vacuity -/

/-- watcher "W a" (uid 1, active, `after_spawn` hook saying no) lists worker 100, which has exited
    with code 3 and is a zombie, and worker 101, killed by SIGTERM and a zombie too -/
def c09S : State :=
  { ws := [{ name := "W a", uid := 1, status := .active, np := 3, pids := [100, 101],
             hooks := [("after_spawn", { outs := ["false"], ignore := false })] }],
    a := { watchers := [1], names := [("w a", 1)] },
    objs := [{ pid := 100, wid := 1, started := 0 }, { pid := 101, wid := 2, started := 0 }],
    k := { procs := [{ pid := 100, ppid := some 0, st := .zombie, status := wstatExit 3, doom := none, behav := {} },
                     { pid := 101, ppid := some 0, st := .zombie, status := wstatSig 15, doom := none, behav := {} }],
           nextPid := 102 } }

/-- the same without the vetoing hook -/
def c09T : State := { c09S with ws := c09S.ws.map fun w => { w with hooks := [] } }

/-- the same with a `before_reap` hook that says no and an `after_reap` hook that raises -/
def c09R : State := { c09S with ws := c09S.ws.map fun w =>
  { w with hooks := [("before_reap", { outs := ["false"], ignore := false }), ("after_reap", { outs := ["raise"], ignore := false })] } }

-- hypotheses of the reap theorems hold: the wait delivers the status, the PUB socket is open
example : (reapWait 100 spinLimit c09S).1 = some (some (wstatExit 3)) ∧ c09S.blocked = false ∧
    c09S.a.pubClosed = false ∧ 100 ∈ (getW 1 c09S).1.pids := by decide +kernel
-- one reap event with exit code 3; a signal death reads -15; a second reap is silent
example : (evsOf (reapProcess 1 100 none c09S).2).map showObs = ["o ev 119.95.97 reap 100 3"] := by decide +kernel
example : (evsOf (reapProcess 1 101 none c09S).2).map showObs = ["o ev 119.95.97 reap 101 -15"] := by decide +kernel
example : (evsOf (reapProcess 1 100 (some (wstatSig 9)) c09S).2).map showObs = ["o ev 119.95.97 reap 100 -9"] := by
  decide +kernel
example : (evsOf (reapProcess 1 100 none (reapProcess 1 100 none c09S).2).2).map showObs =
    ["o ev 119.95.97 reap 100 3"] := by decide +kernel
-- with reap hooks (`before_reap` says no, `after_reap` raises): hook event, reap event, hook event; the pid is popped
example : (evsOf (reapProcess 1 100 (some (wstatExit 3)) c09R).2).map showObs =
      ["o ev 119.95.97 hook_success - before_reap", "o ev 119.95.97 reap 100 3", "o ev 119.95.97 hook_failure - after_reap"] ∧
    (callHook 1 "before_reap" c09R).1 = false ∧ (getW 1 (reapProcess 1 100 (some (wstatExit 3)) c09R).2).1.pids = [101] ∧
    100 ∈ (getW 1 c09R).1.pids ∧ c09R.blocked = false ∧ c09R.a.pubClosed = false := by decide +kernel
example : (evsOf (reapProcess 1 100 none c09R).2).map showObs =
      ["o ev 119.95.97 hook_success - before_reap", "o ev 119.95.97 reap 100 3", "o ev 119.95.97 hook_failure - after_reap"] := by
  decide +kernel
-- spawn: vetoed by `after_spawn` (worker 102 adopted, killed, no spawn event) / accepted (one event)
example : (match (spawnTry (exec 100) 1 3 c09S).1 with | .rFalse => true | _ => false) = true ∧
    (evsOf (spawnTry (exec 100) 1 3 c09S).2).map showObs =
      ["o ev 119.95.97 hook_success - after_spawn", "o ev 119.95.97 kill 102 -"] := by decide +kernel
example : (match (spawnTry (exec 100) 1 3 c09T).1 with | .started 0 => true | _ => false) = true ∧
    (evsOf (spawnTry (exec 100) 1 3 c09T).2).map showObs = ["o ev 119.95.97 spawn 102 -"] ∧
    (getW 1 (spawnTry (exec 100) 1 3 c09T).2).1.pids = [100, 101, 102] := by decide +kernel
-- start / stop
example : (evsOf (startAfterSpawn (exec 100) 1 .none c09S).2).map showObs = ["o ev 119.95.97 start - -"] ∧
    (getW 1 (startAfterSpawn (exec 100) 1 .none c09S).2).1.status = .active ∧ 1 ∈ c09S.ws.map (·.uid) := by
  decide +kernel
example : (evsOf (stopAfterKill (exec 100) 1 true .none c09S).2).map showObs =
      ["o ev 119.95.97 reap 100 3", "o ev 119.95.97 reap 101 -15", "o ev 119.95.97 stop - -"] ∧
    (getW 1 (stopAfterKill (exec 100) 1 true .none c09S).2).1.status = .stopped ∧
    (getW 1 (stopAfterKill (exec 100) 1 true .none c09S).2).1.pids = [] ∧
    (reapProcesses 1 c09S).2.blocked = false := by decide +kernel

/-! observation (not a violation of the per-watcher statements above, but a subscriber must treat
    `remove` as "forget this watcher's pids"): after `rm` with `nostop` the worker keeps running
    unmanaged; when it dies the arbiter's `waitpid(-1)` collects it (`o reap 100 0`) and no `reap`
    event is ever published for the announced pid 100 -/
example : (run (initState [{ name := "w", np := 1 }] [{}] 0)
      [.start, .wake, .wake, .wake,
       .req "c" (some (.obj [("command", .str "rm"), ("properties", .obj [("name", .str "w"), ("nostop", .bool true)])])),
       .die 100 0, .check, .check]).log.map showObs =
    ["o spawn 100 119 1", "o ev 119 spawn 100 -", "o ev 119 start - -", "o nosleeper", "o ev 119 remove - -",
     "o rep c n ok - -", "o reap 100 0"] := by decide +kernel

/-! ### 6. what is not proved here

Run-level statement (kept as a comment, not claimed):
`∀ cfg bs aw ops pid, ((evsOf (run (initState cfg bs aw) ops)).countP (isReapOf pid)) ≤ 1`.
The local ingredients are above: a call of `reap_process(pid)` pops the entry before the `reap`
event (`C09_reap_pops_after_before_reap_hook`), publishes at most its one event (`C09_reap_event_carries_exit_code*`), no
event for another pid (`C09_reap_process_publishes_only_its_pid`), none for an unlisted pid
(`C09_no_reap_event_for_unlisted`).  What is missing is pid freshness along runs — a pid that was
popped is never listed again, because `spawnAdopt` only lists `k.nextPid`, which grows strictly
(`PidInv`, Props/C04.lean, not a dependency of this file) — and a ghost-log invariant tying
"reaped once" to "below `nextPid` and unlisted".  No model behaviour contradicting it was found.
-/

end Circus.Core
