import CircusProofs.Core.Narrow
import CircusProofs.Core.ArbInv
import CircusProofs.Core.Calm
import CircusProofs.Props.C03
import CircusProofs.Props.C06
import CircusProofs.Core.OptionsCmd
/-!
# C05 — the daemon never blocks: every request completes in bounded time

All waits of `kill_process` / `spawn_processes` / `Arbiter.start_watchers` are `tornado_sleep`
(`awaitSleep`: a sleeper plus a suspended frame, control returns to the loop); the one blocking
wait is `Watcher.reap_process`'s `waitpid(WNOHANG)` + `time.sleep` loop (`reapWait`, `kSleep`;
`setBlocked` when it would spin for ever); `Controller.dispatch` replies immediately to
non-waiting requests and to every read-only command.

`reapWait` is the only caller of `kSleep` and of `setBlocked` in the model (syntactic fact:
`grep kSleep lean/CircusModel/Core` finds the definition and the one use in `reapWait`); what is
proved below is the semantic counterpart — the kernel's `slept` counter and the `blocked` flag are
untouched by everything else in `kill_process`, `spawn_processes`, hooks, signalling.
-/
namespace Circus.Core

/-! ### kernel calls other than `sleep` keep the `slept` counter -/

namespace Kernel

theorem slept_foldl {β : Type} (l : List β) (f : Kernel → β → Kernel) (hf : ∀ k b, (f k b).slept = k.slept) (k : Kernel) :
    (l.foldl f k).slept = k.slept := by
  induction l generalizing k with
  | nil => rfl
  | cons x xs ih => exact (ih (f k x)).trans (hf k x)

theorem slept_die (k : Kernel) (pid st : Nat) : (k.die pid st).slept = k.slept := by
  unfold Kernel.die
  split
  · split <;> rfl
  · rfl

theorem slept_resolve (k : Kernel) : k.resolve.slept = k.slept := by
  unfold Kernel.resolve
  apply slept_foldl
  intro k p0
  split
  · split
    · split <;> rfl
    · rfl
  · rfl

theorem slept_tick (k : Kernel) : k.tick.slept = k.slept := by
  unfold Kernel.tick
  simp only
  rw [slept_resolve, slept_foldl _ _ (fun k f => slept_die k _ _)]

theorem slept_doomAt (k : Kernel) (pid dl st : Nat) : (k.doomAt pid dl st).slept = k.slept := rfl

theorem slept_kill (k : Kernel) (pid sig : Nat) : (k.kill pid sig).1.slept = k.slept := by
  simp only [Kernel.kill]
  rw [← slept_tick k]
  generalize k.tick = k1
  split
  · rfl
  · split
    · rfl
    · split
      · simp only
        rw [slept_resolve]
        split
        · rfl
        · split
          · rfl
          · split <;> rfl
      · rfl

theorem slept_killD (k : Kernel) (pid sig : Nat) : (k.killD pid sig).1.slept = k.slept := by
  simp only [Kernel.killD]
  split
  · exact slept_tick k
  · exact slept_kill k pid sig

theorem slept_waitpid (k : Kernel) (pid : Option Nat) : (k.waitpid pid).1.slept = k.slept := by
  simp only [Kernel.waitpid]
  rw [← slept_tick k]
  generalize k.tick = k1
  split
  · rfl
  · rfl
  · split
    · rfl
    · split
      · rfl
      · split <;> rfl

theorem slept_stateOf (k : Kernel) (pid : Nat) : (k.stateOf pid).1.slept = k.slept := slept_tick k

theorem slept_children (k : Kernel) (pid : Nat) (r : Bool) : (k.children pid r).1.slept = k.slept := by
  simp only [Kernel.children]
  rw [← slept_tick k]
  generalize k.tick = k1
  split
  · rfl
  · split
    · rfl
    · split <;> rfl

theorem slept_spawn (k : Kernel) : k.spawn.1.slept = k.slept := by
  simp only [Kernel.spawn]
  rw [← slept_tick k]
  generalize k.tick = k1
  split <;> rfl

/-- whereas the blocking sleep does advance it -/
theorem slept_sleep (k : Kernel) (ms : Nat) : (k.sleep ms).slept = k.slept + (if ms = 0 then 1 else ms) := by
  unfold Kernel.sleep
  rw [slept_tick]

end Kernel

/-! ### 1. read-only commands do not look at the exclusive slot, answer at once, change nothing -/

/-- the commands that go through `util.synchronized` or start a coroutine -/
def stateChanging : List String :=
  ["start", "stop", "restart", "incr", "decr", "reload", "set", "kill", "signal", "rm", "add", "quit", "reloadconfig"]

/-- any other slot holder / restart flag -/
def slotTo (v : Option String) (r : Bool) (s : State) : State := { s with a := { s.a with slot := v, restarting := r } }

def ticksN : Nat → Kernel → Kernel
  | 0, k => k
  | n + 1, k => ticksN n k.tick

theorem ticksN_add (a b : Nat) (k : Kernel) : ticksN b (ticksN a k) = ticksN (a + b) k := by
  induction a generalizing k with
  | zero => simp [ticksN]
  | succ a ih => rw [Nat.add_right_comm]; exact ih k.tick

theorem slept_ticksN (n : Nat) (k : Kernel) : (ticksN n k).slept = k.slept := by
  induction n generalizing k with
  | zero => rfl
  | succ n ih => exact (ih k.tick).trans (Kernel.slept_tick k)

/-- only kernel-call boundaries passed: the clock of system calls ticked `n` times, nothing else in
    the whole state changed -/
def Ticks (s s' : State) : Prop := ∃ n, s' = { s with k := ticksN n s.k }

theorem Ticks.refl (s : State) : Ticks s s := ⟨0, rfl⟩
theorem Ticks.trans {a b c : State} (h1 : Ticks a b) (h2 : Ticks b c) : Ticks a c := by
  obtain ⟨n, rfl⟩ := h1
  obtain ⟨m, rfl⟩ := h2
  exact ⟨n + m, by simp [ticksN_add]⟩

/-- a read-only program: it only passes kernel-call boundaries, and it neither looks at nor writes
    the exclusive slot and the restart flag -/
structure RO (m : M α) : Prop where
  ticks : ∀ s, Ticks s (m s).2
  comm : ∀ v r s, m (slotTo v r s) = ((m s).1, slotTo v r (m s).2)

theorem RO.pure (a : α) : RO (pure a : M α) := ⟨fun s => Ticks.refl s, fun _ _ _ => rfl⟩

theorem RO.bind {m : M α} {f : α → M β} (hm : RO m) (hf : ∀ a, RO (f a)) : RO (m >>= f) := by
  constructor
  · intro s
    exact (hm.ticks s).trans ((hf (m s).1).ticks (m s).2)
  · intro v r s
    show f (m (slotTo v r s)).1 (m (slotTo v r s)).2 = _
    rw [hm.comm v r s]
    exact (hf (m s).1).comm v r (m s).2

theorem RO.ite {c : Prop} [Decidable c] {a b : M α} (ha : RO a) (hb : RO b) : RO (if c then a else b) := by
  split <;> assumption

theorem RO.for_in {γ β : Type} (l : List γ) (init : β) (f : γ → β → M (ForInStep β))
    (hf : ∀ a b, RO (f a b)) : RO (ForIn.forIn l init f) := by
  induction l generalizing init with
  | nil => exact RO.pure init
  | cons x xs ih =>
    simp only [List.forIn_cons]
    apply RO.bind (hf x init)
    intro r
    cases r with
    | done b => exact RO.pure b
    | yield b => exact ih b

theorem RO.getW (u : Nat) : RO (getW u) := ⟨fun s => Ticks.refl s, fun _ _ _ => rfl⟩
theorem RO.getO (p : Nat) : RO (getO p) := ⟨fun s => Ticks.refl s, fun _ _ _ => rfl⟩
theorem RO.kStateOf (pid : Nat) : RO (kStateOf pid) := ⟨fun _ => ⟨1, rfl⟩, fun _ _ _ => rfl⟩
theorem RO.lookupWatcher (n : String) : RO (lookupWatcher n) := ⟨fun s => Ticks.refl s, fun _ _ _ => rfl⟩
theorem RO.registered : RO registered := ⟨fun s => Ticks.refl s, fun _ _ _ => rfl⟩

attribute [aesop safe apply (rule_sets := [ReadOnly])] RO.pure RO.bind RO.ite RO.for_in RO.getW RO.getO RO.kStateOf
  RO.lookupWatcher RO.registered

macro "ro" : tactic => `(tactic| aesop (rule_sets := [ReadOnly]) (config := { terminal := true, useDefaultSimpSet := false, useSimpAll := false, maxRuleApplications := 3000 }))

@[aesop safe apply (rule_sets := [ReadOnly])]
theorem RO.procStatus (pid : Nat) : RO (procStatus pid) := by unfold Circus.Core.procStatus; ro
@[aesop safe apply (rule_sets := [ReadOnly])]
theorem RO.activeProcs (u : Nat) : RO (activeProcs u) := by unfold Circus.Core.activeProcs; ro
@[aesop safe apply (rule_sets := [ReadOnly])]
theorem RO.getWatcherCmd (n : JVal) : RO (getWatcherCmd n) := by unfold Circus.Core.getWatcherCmd; ro

theorem Kernel.children_fst (k : Kernel) (pid : Nat) (r : Bool) : (k.children pid r).1 = k.tick := by
  unfold Kernel.children
  dsimp only
  split
  · rfl
  · split
    · rfl
    · split <;> rfl

theorem RO.kChildren (pid : Nat) (r : Bool) : RO (kChildren pid r) :=
  ⟨fun s => ⟨1, by show ({ s with k := (s.k.children pid r).1 } : State) = _; rw [Kernel.children_fst]; rfl⟩,
   fun _ _ _ => rfl⟩
attribute [aesop safe apply (rule_sets := [ReadOnly])] RO.kChildren

@[aesop safe apply (rule_sets := [ReadOnly])]
theorem RO.procInfo (pid : Nat) : RO (procInfo pid) := by unfold Circus.Core.procInfo; ro
@[aesop safe apply (rule_sets := [ReadOnly])]
theorem RO.watcherInfo (u : Nat) : RO (watcherInfo u) := by unfold Circus.Core.watcherInfo; ro
@[aesop safe apply (rule_sets := [ReadOnly])]
theorem RO.statsProc (w : Watcher) (p : Int) : RO (statsProc w p) := by unfold Circus.Core.statsProc; ro
@[aesop safe apply (rule_sets := [ReadOnly])]
theorem RO.statsWatcher (u : Nat) (n : JVal) : RO (statsWatcher u n) := by unfold Circus.Core.statsWatcher; ro
@[aesop safe apply (rule_sets := [ReadOnly])]
theorem RO.statsAllLoop (ws : List Watcher) (parts : List (String × String)) : RO (statsAllLoop ws parts) := by
  induction ws generalizing parts with
  | nil => unfold Circus.Core.statsAllLoop; ro
  | cons w ws ih => unfold Circus.Core.statsAllLoop; ro
@[aesop safe apply (rule_sets := [ReadOnly])]
theorem RO.statsAll : RO statsAll := by unfold Circus.Core.statsAll; ro
@[aesop safe apply (rule_sets := [ReadOnly])]
theorem RO.execStats (props : JVal) : RO (execStats props) := by unfold Circus.Core.execStats; ro

@[aesop safe apply (rule_sets := [ReadOnly])]
theorem RO.execOptions (props : JVal) : RO (execOptions props) := by unfold Circus.Core.execOptions; ro
@[aesop safe apply (rule_sets := [ReadOnly])]
theorem RO.execGet (props : JVal) : RO (execGet props) := by unfold Circus.Core.execGet; ro

theorem RO.execReadOnly (cmd : String) (props : JVal) : RO (execReadOnly cmd props) := by
  unfold Circus.Core.execReadOnly
  split
  · split
    · ro
    · ro
  · split
    · ro
    · exact ⟨fun s => Ticks.refl s, fun _ _ _ => rfl⟩
  · split
    · ro
    · ro
  · exact ⟨fun s => Ticks.refl s, fun _ _ _ => rfl⟩
  · ro
  · exact RO.execStats props
  · exact RO.execOptions props
  · exact RO.execGet props
  · ro
  · ro
  · ro
  · ro

/-- never a future: the command is answered from the value it returns -/
def NoFut (m : M (R ExecRes)) : Prop := ∀ s tid x, (m s).1 ≠ .ok (.future tid x)

theorem NoFut.bind {m : M α} {f : α → M (R ExecRes)} (hf : ∀ a, NoFut (f a)) : NoFut (m >>= f) :=
  fun s => hf (m s).1 (m s).2
theorem NoFut.ite {c : Prop} [Decidable c] {a b : M (R ExecRes)} (ha : NoFut a) (hb : NoFut b) :
    NoFut (if c then a else b) := by
  split <;> assumption
theorem NoFut.error (e : Exc) : NoFut (pure (.error e)) := fun _ _ _ h => by cases h
theorem NoFut.value (b : String) : NoFut (pure (.ok (.value b))) := fun _ _ _ h => by cases h
theorem NoFut.status (b : String) : NoFut (pure (.ok (.statusPayload b))) := fun _ _ _ h => by cases h
theorem NoFut.unmodelled : NoFut (pure (.ok .unmodelled)) := fun _ _ _ h => by cases h

attribute [aesop safe apply (rule_sets := [ReadOnly])] NoFut.bind NoFut.ite NoFut.error NoFut.value NoFut.status
  NoFut.unmodelled

theorem NoFut.statsTail (ok : Bool) (b : String) : NoFut (pure (statsTail ok b)) := by
  intro s tid x h
  unfold Circus.Core.statsTail at h
  cases ok <;> cases h
attribute [aesop safe apply (rule_sets := [ReadOnly])] NoFut.statsTail
@[aesop safe apply (rule_sets := [ReadOnly])]
theorem NoFut.statsProc (w : Watcher) (p : Int) : NoFut (statsProc w p) := by unfold Circus.Core.statsProc; ro
@[aesop safe apply (rule_sets := [ReadOnly])]
theorem NoFut.statsWatcher (u : Nat) (n : JVal) : NoFut (statsWatcher u n) := by unfold Circus.Core.statsWatcher; ro
@[aesop safe apply (rule_sets := [ReadOnly])]
theorem NoFut.statsAll : NoFut statsAll := by unfold Circus.Core.statsAll; ro
@[aesop safe apply (rule_sets := [ReadOnly])]
theorem NoFut.execStats (props : JVal) : NoFut (execStats props) := by
  unfold Circus.Core.execStats
  ro

theorem NoFut.getBody (w : Watcher) (keys : JVal) : NoFut (pure (getBody w keys)) :=
  fun _ tid x => getBody_ne_future w keys tid x
theorem NoFut.globalOptionsBody (props : JVal) : NoFut (pure (globalOptionsBody props)) :=
  fun _ tid x => globalOptionsBody_ne_future props tid x
attribute [aesop safe apply (rule_sets := [ReadOnly])] NoFut.getBody NoFut.globalOptionsBody
@[aesop safe apply (rule_sets := [ReadOnly])]
theorem NoFut.execOptions (props : JVal) : NoFut (execOptions props) := by unfold Circus.Core.execOptions; ro
@[aesop safe apply (rule_sets := [ReadOnly])]
theorem NoFut.execGet (props : JVal) : NoFut (execGet props) := by unfold Circus.Core.execGet; ro

theorem NoFut.execReadOnly (cmd : String) (props : JVal) : NoFut (execReadOnly cmd props) := by
  unfold Circus.Core.execReadOnly
  ro

/-- for every command that is not state-changing, `validate` + `execute` is the required-keys check
    followed by the read-only execution -/
theorem validateExecute_readonly (cmd : String) (props : JVal) (h : cmd ∉ stateChanging) :
    validateExecute cmd props =
      if (requiredProps cmd).any (fun p => !props.has p) then pure (.error .message) else execReadOnly cmd props := by
  unfold validateExecute
  simp only [stateChanging, List.mem_cons, List.not_mem_nil, or_false, not_or] at h
  split
  · rfl
  · split <;> simp_all

theorem RO.validateExecute (cmd : String) (props : JVal) (h : cmd ∉ stateChanging) : RO (validateExecute cmd props) := by
  rw [validateExecute_readonly cmd props h]
  exact RO.ite (RO.pure _) (RO.execReadOnly cmd props)

theorem NoFut.validateExecute (cmd : String) (props : JVal) (h : cmd ∉ stateChanging) : NoFut (validateExecute cmd props) := by
  rw [validateExecute_readonly cmd props h]
  exact NoFut.ite (NoFut.error _) (NoFut.execReadOnly cmd props)

/-- **read-only requests are independent of the exclusive slot, are answered at once and change
    nothing**: for `status`, `list`, `numprocesses`, `numwatchers`, and for every command name that
    falls through to the read-only executor (`dstats`, `get`, `globaloptions`, `ipython`, `listen`,
    `listsockets`, `options`, `stats`, …), in every daemon state:
    * replacing the slot holder and the restart flag by any other values changes neither the
      returned value nor the state delta — so it never fails with a conflict because a long
      operation is in flight;
    * the result is never a future: the reply is computed in the call itself;
    * watchers, arbiter, `Process` objects, frames, sleepers, futures, ready queue, log and the
      `blocked` flag are untouched; the kernel only sees `n` call boundaries (the `status` reads of
      `list`). -/
theorem C05_readonly_independent_of_slot (cmd : String) (props : JVal) (s : State) (h : cmd ∉ stateChanging) :
    (∀ v r, validateExecute cmd props (slotTo v r s) =
      ((validateExecute cmd props s).1, slotTo v r (validateExecute cmd props s).2)) ∧
    (∀ tid x, (validateExecute cmd props s).1 ≠ .ok (.future tid x)) ∧
    (∃ n, (validateExecute cmd props s).2 = { s with k := ticksN n s.k }) :=
  ⟨fun v r => (RO.validateExecute cmd props h).comm v r s, NoFut.validateExecute cmd props h s,
   (RO.validateExecute cmd props h).ticks s⟩

/-- … spelled out field by field -/
theorem C05_readonly_changes_nothing (cmd : String) (props : JVal) (s : State) (h : cmd ∉ stateChanging) :
    let s' := (validateExecute cmd props s).2
    s'.ws = s.ws ∧ s'.a = s.a ∧ s'.objs = s.objs ∧ s'.frames = s.frames ∧ s'.sleepers = s.sleepers ∧
    s'.tops = s.tops ∧ s'.ready = s.ready ∧ s'.log = s.log ∧ s'.blocked = s.blocked ∧ s'.nextId = s.nextId ∧
    s'.k.slept = s.k.slept := by
  obtain ⟨n, hn⟩ := (RO.validateExecute cmd props h).ticks s
  simp only [hn, true_and]
  exact slept_ticksN n s.k

/-- in particular a taken slot is no obstacle: same answer as with a free slot -/
theorem C05_readonly_never_conflicts (cmd : String) (props : JVal) (s : State) (h : cmd ∉ stateChanging) :
    (validateExecute cmd props s).1 = (validateExecute cmd props (slotTo none false s)).1 := by
  rw [(RO.validateExecute cmd props h).comm none false s]


/-! ### 2. … and are answered in the same step -/

/-- `send_response` on an open control socket, exactly -/
theorem sendReply_state (cid : String) (id : JVal) (a b d : String) (s : State)
    (ho : s.a.ctlClosed = false) (hb : s.blocked = false) :
    sendReply (some cid) id false a b d s = ((), { s with log := s.log ++ [Obs.rep cid id a b d] }) := by
  unfold sendReply
  simp only [bind, getA]
  erw [if_neg (by simp [ho])]
  simp [emitRep, modS, hb]

/-- **a read-only request is answered during the call of `handle_message` itself**, whatever is in
    flight (slot taken, arbiter restarting or stopping, coroutines suspended): for a known command
    that is not state-changing, sent as a call (not a cast) on an open control socket to a daemon
    that is not hung, exactly one reply bearing the request id is appended to the log, and the whole
    effect of the request is that reply, `n` kernel-call boundaries, and the cleared per-request
    `doneVals` scratch list. -/
theorem C05_readonly_replies_in_same_step (cid : String) (j : JVal) (name : String) (s : State)
    (hobj : j.isObj = true) (hcmd : j.get? "command" = some (.str name))
    (hknown : commandNames.contains (pyLower name) = true) (hro : pyLower name ∉ stateChanging)
    (hprops : ((j.get? "properties").getD (.obj [])).isObj = true)
    (hcast : j.get? "msg_type" ≠ some (.str "cast"))
    (ho : s.a.ctlClosed = false) (hb : s.blocked = false) :
    ∃ st errno body n,
      (handleMessage (some cid) (some j) s).2 =
        { s with k := ticksN n s.k, doneVals := [],
                 log := s.log ++ [Obs.rep cid ((j.get? "id").getD .null) st errno body] } := by
  have hRO := RO.validateExecute (pyLower name) ((j.get? "properties").getD (.obj [])) hro
  have hNF := NoFut.validateExecute (pyLower name) ((j.get? "properties").getD (.obj [])) hro (clearDone s).2
  obtain ⟨n, hn⟩ := hRO.ticks (clearDone s).2
  unfold handleMessage
  simp only
  erw [if_neg (by simp [hobj])]
  simp only [hcmd]
  erw [if_neg (by rw [hknown]; decide)]
  erw [if_neg (by simp [hprops])]
  simp only [bind]
  generalize validateExecute (pyLower name) ((j.get? "properties").getD (.obj [])) (clearDone s).2 = ve at hn hNF
  obtain ⟨r, s1⟩ := ve
  simp only at hn hNF ⊢
  subst hn
  have ho1 : ({ (clearDone s).2 with k := ticksN n (clearDone s).2.k } : State).a.ctlClosed = false := ho
  have hb1 : ({ (clearDone s).2 with k := ticksN n (clearDone s).2.k } : State).blocked = false := hb
  cases r with
  | error e => exact ⟨_, _, _, n, by simp only; rw [sendReply_state cid _ _ _ _ _ ho1 hb1]; rfl⟩
  | ok res =>
    cases res with
    | value body => exact ⟨_, _, _, n, by simp only; rw [sendReply_state cid _ _ _ _ _ ho1 hb1]; rfl⟩
    | statusPayload st => exact ⟨_, _, _, n, by simp only; rw [sendReply_state cid _ _ _ _ _ ho1 hb1]; rfl⟩
    | unmodelled => exact ⟨_, _, _, n, by simp only; rw [sendReply_state cid _ _ _ _ _ ho1 hb1]; rfl⟩
    | future tid xform => exact absurd rfl (hNF tid xform)

/-! ### 2b. `options` and `get`: what they answer, whatever is in flight -/

/-- **`options` / `get` do not care who holds the exclusive slot**: replacing the slot holder and the restart flag by
    any other values changes neither the answer nor anything else — the state after the command is the state before
    it (not even a kernel call is made) — and the answer is never a future: it is computed in the call itself. -/
theorem C05_options_get_whatever_the_slot (cmd : String) (hc : cmd = "options" ∨ cmd = "get") (props : JVal) (s : State)
    (v : Option String) (r : Bool) :
    validateExecute cmd props (slotTo v r s) = ((validateExecute cmd props s).1, slotTo v r s) ∧
    (validateExecute cmd props s).2 = s ∧
    (∀ tid x, (validateExecute cmd props s).1 ≠ .ok (.future tid x)) := by
  rcases hc with rfl | rfl
  · refine ⟨?_, ?_, NoFut.validateExecute "options" props (by decide) s⟩
    · rw [validateExecute_options_eq, validateExecute_options_eq,
        execOptions_fst_congr props s (slotTo v r s) rfl rfl]
    · rw [validateExecute_options_eq]
  · refine ⟨?_, ?_, NoFut.validateExecute "get" props (by decide) s⟩
    · rw [validateExecute_get_eq, validateExecute_get_eq, execGet_fst_congr props s (slotTo v r s) rfl rfl]
    · rw [validateExecute_get_eq]

/-- **an `options` request is answered inside `handle_message`, with the options of the named watcher, whatever is in
    flight**: for every daemon state `s` — slot free or taken by any operation, arbiter restarting or stopping,
    coroutines suspended — an `options` request (command name in any letter case) for a registered watcher (name in any
    letter case), sent as a call on an open control socket to a daemon that is not hung, has exactly this effect: one
    `ok` reply carrying the request id and the body computed from that watcher's record is appended to the log, and the
    per-request scratch list `doneVals` is cleared.  Nothing else changes; no kernel call is made. -/
theorem C05_options_answered_at_once (cid : String) (j : JVal) (name n : String) (u : Nat) (s : State)
    (hcmd : j.get? "command" = some (.str name)) (hname : pyLower name = "options")
    (hn : ((j.get? "properties").getD (.obj [])).get? "name" = some (.str n))
    (hu : s.a.names.lookup (pyLower n) = some u)
    (hcast : j.get? "msg_type" ≠ some (.str "cast"))
    (ho : s.a.ctlClosed = false) (hb : s.blocked = false) :
    (handleMessage (some cid) (some j) s).2 =
      { s with doneVals := [],
               log := s.log ++ [Obs.rep cid ((j.get? "id").getD .null) "ok" "-" (optionsBody (getW u s).1)] } := by
  have hobj : j.isObj = true := isObj_of_get_some hcmd
  have hprops : ((j.get? "properties").getD (.obj [])).isObj = true := isObj_of_get_some hn
  have hve : validateExecute (pyLower name) ((j.get? "properties").getD (.obj [])) (clearDone s).2 =
      (.ok (.value (optionsBody (getW u s).1)), (clearDone s).2) := by
    rw [hname, validateExecute_options _ _ (has_of_get_some hn)]
    exact execOptions_known _ _ n u hn hu
  have ho1 : (clearDone s).2.a.ctlClosed = false := ho
  have hb1 : (clearDone s).2.blocked = false := hb
  unfold handleMessage
  simp only
  erw [if_neg (by simp [hobj])]
  simp only [hcmd]
  erw [if_neg (by rw [hname]; decide)]
  erw [if_neg (by simp [hprops])]
  simp only [bind]
  rw [hve]
  simp only      -- the `msg_type` match is decided by `hcast` (side condition of its equation)
  rw [sendReply_state cid _ _ _ _ _ ho1 hb1]
  rfl

/-- the same for `get`: the answer is `getBody` of the watcher's record and the keys asked for — the named options,
    or the error of a key that is no option name (errno 3) / of keys that cannot be iterated (errno 5) — written in
    the call itself, whatever is in flight -/
theorem C05_get_answered_at_once (cid : String) (j : JVal) (name n : String) (u : Nat) (keys : JVal) (s : State)
    (hcmd : j.get? "command" = some (.str name)) (hname : pyLower name = "get")
    (hn : ((j.get? "properties").getD (.obj [])).get? "name" = some (.str n))
    (hk : ((j.get? "properties").getD (.obj [])).get? "keys" = some keys)
    (hu : s.a.names.lookup (pyLower n) = some u)
    (hcast : j.get? "msg_type" ≠ some (.str "cast"))
    (ho : s.a.ctlClosed = false) (hb : s.blocked = false) :
    ∃ st errno body,
      (handleMessage (some cid) (some j) s).2 =
        { s with doneVals := [], log := s.log ++ [Obs.rep cid ((j.get? "id").getD .null) st errno body] } ∧
      (∀ b, getBody (getW u s).1 keys = .ok (.value b) → st = "ok" ∧ errno = "-" ∧ body = b) ∧
      (∀ e, getBody (getW u s).1 keys = .error e → st = "error" ∧ errno = errnoOf e ∧ body = "-") := by
  have hobj : j.isObj = true := isObj_of_get_some hcmd
  have hprops : ((j.get? "properties").getD (.obj [])).isObj = true := isObj_of_get_some hn
  have hve : validateExecute (pyLower name) ((j.get? "properties").getD (.obj [])) (clearDone s).2 =
      (getBody (getW u s).1 keys, (clearDone s).2) := by
    rw [hname, validateExecute_get _ _ (has_of_get_some hn) (has_of_get_some hk)]
    have h := execGet_known ((j.get? "properties").getD (.obj [])) (clearDone s).2 n u hn hu
    rw [hk] at h
    exact h
  have ho1 : (clearDone s).2.a.ctlClosed = false := ho
  have hb1 : (clearDone s).2.blocked = false := hb
  have hnf := getBody_ne_future (getW u s).1 keys
  unfold handleMessage
  simp only
  erw [if_neg (by simp [hobj])]
  simp only [hcmd]
  erw [if_neg (by rw [hname]; decide)]
  erw [if_neg (by simp [hprops])]
  simp only [bind]
  rw [hve]
  simp only      -- the `msg_type` match is decided by `hcast` (side condition of its equation)
  generalize getBody (getW u s).1 keys = gb at hnf ⊢
  cases gb with
  | error e =>
    refine ⟨"error", errnoOf e, "-", ?_, (fun b h => by cases h), (fun e' h => by cases h; exact ⟨rfl, rfl, rfl⟩)⟩
    simp only; rw [sendReply_state cid _ _ _ _ _ ho1 hb1]; rfl
  | ok res =>
    cases res with
    | value b =>
      refine ⟨"ok", "-", b, ?_, (fun b' h => by cases h; exact ⟨rfl, rfl, rfl⟩), (fun e h => by cases h)⟩
      simp only; rw [sendReply_state cid _ _ _ _ _ ho1 hb1]; rfl
    | statusPayload st =>
      refine ⟨st, "-", "-", ?_, (fun b h => by cases h), (fun e h => by cases h)⟩
      simp only; rw [sendReply_state cid _ _ _ _ _ ho1 hb1]; rfl
    | unmodelled =>
      refine ⟨"*", "*", "*", ?_, (fun b h => by cases h), (fun e h => by cases h)⟩
      simp only; rw [sendReply_state cid _ _ _ _ _ ho1 hb1]; rfl
    | future tid x => exact absurd rfl (hnf tid x)

/-! ### 3. non-waiting state-changing requests are answered before the operation finishes -/

/-- **a request that is not `waiting` gets its `ok` at once**: whenever `execute` hands back a future
    (every accepted state-changing command does) and the request did not ask to wait, `dispatch`
    writes the `ok` reply in the same call — after attaching its (then silent) done-callback — on
    the state `s2` the operation reached at its first suspension.  Whether the future `tid` is still
    pending in `s2` plays no role; the control socket is as open in `s2` as it was in `s`
    (`dispatch` never closes it). -/
theorem C05_nonwaiting_replies_at_once (cid : Option String) (j : JVal) (name : String) (s : State)
    (tid : Nat) (xform : String)
    (hobj : j.isObj = true) (hcmd : j.get? "command" = some (.str name))
    (hknown : commandNames.contains (pyLower name) = true)
    (hprops : ((j.get? "properties").getD (.obj [])).isObj = true)
    (hw : ((((j.get? "properties").getD (.obj [])).get? "waiting").map JVal.truthy).getD false = false)
    (hfut : (validateExecute (pyLower name) ((j.get? "properties").getD (.obj [])) (clearDone s).2).1 =
              .ok (.future tid xform)) :
    ∃ s2, handleMessage cid (some j) s =
        sendReply cid ((j.get? "id").getD .null)
          (match j.get? "msg_type" with | some (.str "cast") => true | _ => false) "ok" "-" "-" s2 ∧
      s2.a.ctlClosed = s.a.ctlClosed ∧
      (∃ s1, validateExecute (pyLower name) ((j.get? "properties").getD (.obj [])) (clearDone s).2 =
          (.ok (.future tid xform), s1) ∧
        (s2 = s1 ∨ ∃ cb, s2 = (addDoneCallback tid cb s1).2)) := by
  have hc1 := (validateExecute_never_closes (pyLower name) ((j.get? "properties").getD (.obj [])) (clearDone s).2).1
  generalize hve : validateExecute (pyLower name) ((j.get? "properties").getD (.obj [])) (clearDone s).2 = ve at hfut hc1
  obtain ⟨r, s1⟩ := ve
  simp only at hfut hc1
  subst hfut
  by_cases hf : xform.startsWith "failed:" = true
  · refine ⟨s1, ?_, hc1, s1, rfl, Or.inl rfl⟩
    unfold handleMessage
    simp only
    erw [if_neg (by simp [hobj])]
    simp only [hcmd]
    erw [if_neg (by rw [hknown]; decide)]
    erw [if_neg (by simp [hprops])]
    simp only [bind]
    rw [hve]
    simp only
    erw [if_pos hf]
    simp only [hw]
    erw [if_neg (by simp)]
    rfl
  · refine ⟨(addDoneCallback tid (.reply cid ((j.get? "id").getD .null)
        (match j.get? "msg_type" with | some (.str "cast") => true | _ => false) (pyLower name) false xform) s1).2,
      ?_, ?_, s1, rfl, Or.inr ⟨_, rfl⟩⟩
    · unfold handleMessage
      simp only
      erw [if_neg (by simp [hobj])]
      simp only [hcmd]
      erw [if_neg (by rw [hknown]; decide)]
      erw [if_neg (by simp [hprops])]
      simp only [bind]
      rw [hve]
      simp only
      erw [if_neg hf]
      simp only [hw]
      erw [if_pos rfl]
      rfl
    · rw [(addDoneCallback_never_closes _ _ s1).1]
      exact hc1

/-- … so with somebody to answer (a client identity, a call) on an open socket, and the daemon not
    hung by a blocking reap, the `ok` reply is the last thing `handle_message` writes -/
theorem C05_nonwaiting_reply_is_written (cid : String) (j : JVal) (name : String) (s : State)
    (tid : Nat) (xform : String)
    (hobj : j.isObj = true) (hcmd : j.get? "command" = some (.str name))
    (hknown : commandNames.contains (pyLower name) = true)
    (hprops : ((j.get? "properties").getD (.obj [])).isObj = true)
    (hw : ((((j.get? "properties").getD (.obj [])).get? "waiting").map JVal.truthy).getD false = false)
    (hcast : j.get? "msg_type" ≠ some (.str "cast"))
    (hfut : (validateExecute (pyLower name) ((j.get? "properties").getD (.obj [])) (clearDone s).2).1 =
              .ok (.future tid xform))
    (ho : s.a.ctlClosed = false) (hb : (handleMessage (some cid) (some j) s).2.blocked = false) :
    ∃ pre, (handleMessage (some cid) (some j) s).2.log = pre ++ [Obs.rep cid ((j.get? "id").getD .null) "ok" "-" "-"] := by
  obtain ⟨s2, h1, h2, _⟩ := C05_nonwaiting_replies_at_once (some cid) j name s tid xform hobj hcmd hknown hprops hw hfut
  have hcast' : (match j.get? "msg_type" with | some (JVal.str "cast") => true | _ => false) = false := by
    split
    · rename_i h; exact absurd h hcast
    · rfl
  rw [hcast'] at h1
  have hb2 : s2.blocked = false := by
    rw [h1] at hb
    cases hbb : s2.blocked
    · rfl
    · have : (sendReply (some cid) ((j.get? "id").getD .null) false "ok" "-" "-" s2).2.blocked = true := by
        unfold sendReply
        simp only [bind, getA]
        erw [if_neg (by simp [h2, ho])]
        simp [emitRep, modS, hbb]
      rw [this] at hb; cases hb
  exact ⟨s2.log, by rw [h1]; exact sendReply_exact cid _ _ _ _ s2 (h2.trans ho) hb2⟩

/-- the daemon has slept `n` ms inside a blocking call during this step, and does not hang -/
def NoSleep (n : Nat) (s : State) : Prop := s.k.slept = n ∧ s.blocked = false

theorem noSleep_same {n : Nat} {m : M α} (h : ∀ s, (m s).2.k.slept = s.k.slept ∧ (m s).2.blocked = s.blocked) :
    Pres (NoSleep n) m := by
  intro s hs
  exact ⟨(h s).1.trans hs.1, (h s).2.trans hs.2⟩

theorem noSleep_emit (n : Nat) (o : Obs) : Pres (NoSleep n) (emit o) :=
  noSleep_same fun s => by simp only [emit, modS]; split <;> exact ⟨rfl, rfl⟩

theorem noSleep_emitEv (n : Nat) (w t : String) (p : Option Nat) (x : String) : Pres (NoSleep n) (emitEv w t p x) :=
  noSleep_same fun s => by simp only [emitEv, modS]; split <;> exact ⟨rfl, rfl⟩

theorem noSleepLeafNS (n : Nat) : LeafNS (NoSleep n) where
  emit := noSleep_emit n
  kill := fun pid sig => noSleep_same fun s => ⟨Kernel.slept_killD s.k pid sig, rfl⟩
  waitpid := fun pid => noSleep_same fun s => ⟨Kernel.slept_waitpid s.k pid, rfl⟩
  stateOf := fun pid => noSleep_same fun s => ⟨Kernel.slept_stateOf s.k pid, rfl⟩
  children := fun pid r => noSleep_same fun s => ⟨Kernel.slept_children s.k pid r, rfl⟩
  setObjStopping := fun _ _ => noSleep_same fun _ => ⟨rfl, rfl⟩
  setRc := fun _ _ => noSleep_same fun _ => ⟨rfl, rfl⟩
  bumpHook := fun _ _ _ => noSleep_same fun _ => ⟨rfl, rfl⟩
  evHookF := fun w p x => noSleep_emitEv n w _ p x
  evHookS := fun w p x => noSleep_emitEv n w _ p x
  evKill := fun w p x => noSleep_emitEv n w _ p x
  freshId := noSleep_same fun _ => ⟨rfl, rfl⟩
  pushFrame := fun _ => noSleep_same fun _ => ⟨rfl, rfl⟩
  removeFrame := fun _ => noSleep_same fun _ => ⟨rfl, rfl⟩
  setFrameK := fun _ _ => noSleep_same fun _ => ⟨rfl, rfl⟩
  armFrame := fun _ => noSleep_same fun _ => ⟨rfl, rfl⟩
  pushSleeper := fun _ => noSleep_same fun _ => ⟨rfl, rfl⟩
  armTop := fun _ => noSleep_same fun _ => ⟨rfl, rfl⟩
  pushTop := fun _ => noSleep_same fun _ => ⟨rfl, rfl⟩
  finishTop := fun _ _ => noSleep_same fun _ => ⟨rfl, rfl⟩
  enqueue := fun _ => noSleep_same fun _ => ⟨rfl, rfl⟩
  setSlot := fun _ => noSleep_same fun _ => ⟨rfl, rfl⟩
  evSpawn := fun w p x => noSleep_emitEv n w _ p x
  spawnAdopt := fun u w => noSleep_same fun s => by
    have hk := Kernel.slept_spawn s.k
    unfold spawnAdopt; simp only
    cases h : s.k.spawn with
    | mk k' r =>
      rw [h] at hk
      cases r <;> exact ⟨hk, rfl⟩

/-! ### 4. the waits of `kill_process`, `spawn_processes`, `start_watchers` are non-blocking -/

/-- **`kill_process` never calls `time.sleep` and never hangs the daemon** — covered:
    `killProcess` (entry: stop signal, hooks, `kill` event), `killLoop` (every poll: `is_alive`, i.e.
    one `waitpid(WNOHANG)`, then a 100 ms `tornado_sleep`), `killFinish` (SIGKILL escalation to the
    process and its descendants, `Process.stop()`).  Whatever the worker does (ignores the signal,
    dies at any moment), if handing the result to the waiter keeps "`slept = n`, not hung", so does
    the whole function: its waits are sleepers, control returns to the loop. -/
theorem C05_kill_wait_is_nonblocking (n : Nat) (rec : Rec) (wt : Waiter)
    (hd : ∀ v, Pres (NoSleep n) (deliver rec wt v)) (u p : Nat) :
    (∀ sig gt, Pres (NoSleep n) (killProcess rec u p sig gt wt)) ∧
    (∀ sig i polls, Pres (NoSleep n) (killLoop rec u p sig i polls wt)) ∧
    (∀ esc, Pres (NoSleep n) (killFinish rec u p esc wt)) :=
  ⟨fun sig gt => killProcess_narrow (noSleepLeafNS n).toLeafNC rec wt hd u p sig gt,
   fun sig i polls => killLoop_narrow (noSleepLeafNS n).toLeafNC rec wt hd u p sig i polls,
   fun esc => killFinish_narrow (noSleepLeafNS n).toLeafNC rec wt hd u p esc⟩

/-- handing a result to a top-level future (the `kill` command, a detached kill), to a timer
    callback or to nobody starts no coroutine, hence never sleeps -/
theorem deliver_noSleep (n : Nat) (rec : Rec) (wt : Waiter) (h : ∀ fid slot, wt ≠ .frame fid slot) (v : Val) :
    Pres (NoSleep n) (deliver rec wt v) := by
  cases wt with
  | none => exact fun _ hs => hs
  | callback nm => exact (noSleepLeafNS n).toLeafNC.enqueue _
  | top tid => exact deliver_top_narrow (noSleepLeafNS n).toLeafNC rec tid v
  | frame fid slot => exact absurd rfl (h fid slot)

/-- … so for such a waiter the statement is unconditional: **no `kill_process` activation ever
    advances the blocking-sleep counter or hangs the daemon**, in any state, for any interpreter -/
theorem C05_kill_wait_is_nonblocking_top (rec : Rec) (wt : Waiter) (h : ∀ fid slot, wt ≠ .frame fid slot)
    (u p sig i polls : Nat) (s : State) (hb : s.blocked = false) :
    (killLoop rec u p sig i polls wt s).2.k.slept = s.k.slept ∧ (killLoop rec u p sig i polls wt s).2.blocked = false :=
  (C05_kill_wait_is_nonblocking s.k.slept rec wt (deliver_noSleep _ rec wt h) u p).2.1 sig i polls s ⟨rfl, hb⟩

/-- **`spawn_processes` and `Arbiter.start_watchers` wait by `tornado_sleep` only**: `spawnLoop` (one
    `spawn_process` — hooks, `Popen()`, retries on exec failure, the detached kill after a vetoing
    `after_spawn` — then the warmup delay as a sleeper) and `arbStartAfterStart` (the arbiter's
    warmup delay) keep "`slept = n`, not hung" whenever the coroutines they start or resume do. -/
theorem C05_spawn_wait_is_nonblocking (n : Nat) (rec : Rec) (hrec : ∀ t, Pres (NoSleep n) (rec t)) :
    (∀ u rem wt, Pres (NoSleep n) (spawnLoop rec u rem wt)) ∧
    (∀ u, Pres (NoSleep n) (spawnProcess rec u)) ∧
    (∀ rest wt, Pres (NoSleep n) (arbStartAfterStart rec rest wt)) :=
  ⟨fun u rem wt => spawnLoop_narrow (noSleepLeafNS n) rec hrec u rem wt,
   fun u => spawnProcess_narrow (noSleepLeafNS n) rec hrec u,
   fun rest wt => arbStartAfterStart_narrow (noSleepLeafNS n).toLeafNC rec rest wt⟩

/-- the warmup wait itself, spelled out: `arbStartAfterStart` only parks a frame and a sleeper due
    `warmup_delay` from now — nothing else changes, no coroutine runs -/
theorem C05_arb_warmup_is_a_sleeper (rec : Rec) (rest : List Nat) (wt : Waiter) (s : State) :
    arbStartAfterStart rec rest wt s = awaitSleep s.a.warmup (.arbStartAfterSleep rest) wt s := rfl

/-! ### 5. only `reap_process` sleeps -/

/-- **everything in watcher.py / process.py except `reap_process` is free of blocking sleeps**:
    status reads, `is_alive`, `Process.stop()`, hooks, signalling the process / a child / the whole
    family keep the `slept` counter and never set `blocked`. -/
theorem C05_only_reap_sleeps (n : Nat) :
    (∀ pid, Pres (NoSleep n) (procStatus pid)) ∧ (∀ pid, Pres (NoSleep n) (isAlive pid)) ∧
    (∀ pid, Pres (NoSleep n) (objStop pid)) ∧ (∀ u, Pres (NoSleep n) (activeProcs u)) ∧
    (∀ u h, Pres (NoSleep n) (callHook u h)) ∧ (∀ u p sg, Pres (NoSleep n) (sendSignal u p sg)) ∧
    (∀ p c sg, Pres (NoSleep n) (sendSignalChild p c sg)) ∧
    (∀ u p sg r, Pres (NoSleep n) (sendSignalProcess u p sg r)) := by
  have L := (noSleepLeafNS n).toLeafNC.toLeafN
  exact ⟨procStatus_narrow L.toLeafN0, isAlive_narrow L.toLeafN0, objStop_narrow L.toLeafN0,
    activeProcs_narrow L.toLeafN0, callHook_narrow L, sendSignal_narrow L, sendSignalChild_narrow L,
    sendSignalProcess_narrow L⟩

/-- `blocked` is set in exactly one place: the waiting loop of `reap_process` giving up -/
theorem C05_blocked_only_from_reap_wait (pid : Nat) (s : State) :
    reapWait pid 0 s = (none, (setBlocked s).2) ∧ (setBlocked s).2.blocked = true := ⟨rfl, rfl⟩

/-- one iteration of the waiting loop: exactly one `waitpid(pid, WNOHANG)`; it returns at once unless
    the kernel says "still running" — **only then** does it sleep (1 ms) and try again. -/
theorem C05_reap_wait_sleeps_only_while_running (pid fuel : Nat) (s : State) :
    (∀ p st, (kWaitpid (some pid) s).1 = .got p st →
      reapWait pid (fuel + 1) s = (some (some st), (kWaitpid (some pid) s).2)) ∧
    ((kWaitpid (some pid) s).1 = .echild →
      reapWait pid (fuel + 1) s = (some none, (kWaitpid (some pid) s).2)) ∧
    ((kWaitpid (some pid) s).1 = .none →
      reapWait pid (fuel + 1) s = reapWait pid fuel (kSleep 1 (kWaitpid (some pid) s).2).2 ∧
      ∃ kp, s.k.tick.find pid = some kp ∧ kp.st = .run ∧ kp.ppid = some 0) := by
  have hstep : reapWait pid (fuel + 1) s =
      match (kWaitpid (some pid) s).1 with
      | .none => reapWait pid fuel (kSleep 1 (kWaitpid (some pid) s).2).2
      | .echild => (some none, (kWaitpid (some pid) s).2)
      | .got _ st => (some (some st), (kWaitpid (some pid) s).2) := by
    rw [reapWait.eq_2]
    simp only [bind]
    cases (kWaitpid (some pid) s).1 <;> rfl
  refine ⟨fun p st h => by rw [hstep, h], fun h => by rw [hstep, h], fun h => ⟨by rw [hstep, h], ?_⟩⟩
  -- what `waitpid` saw
  have hk : (kWaitpid (some pid) s).1 = (s.k.waitpid (some pid)).2 := by
    simp only [kWaitpid, bind, runK]
    cases (s.k.waitpid (some pid)).2 <;> rfl
  rw [hk] at h
  simp only [Kernel.waitpid] at h
  cases hf : s.k.tick.find pid with
  | none => rw [hf] at h; simp at h
  | some kp =>
    rw [hf] at h
    simp only at h
    refine ⟨kp, rfl, ?_⟩
    by_cases c1 : (kp.ppid ≠ some 0 || kp.st = .gone) = true
    · rw [if_pos c1] at h; simp at h
    · rw [if_neg c1] at h
      by_cases c2 : kp.st = .run
      · simp only [Bool.or_eq_true, decide_eq_true_eq, not_or, ne_eq] at c1
        exact ⟨c2, Classical.not_not.mp c1.1⟩
      · rw [if_neg c2] at h; simp at h

theorem kWaitpid_eq (pid : Nat) (s : State) :
    kWaitpid (some pid) s =
      ((s.k.waitpid (some pid)).2,
        match (s.k.waitpid (some pid)).2 with
        | .got p st => (emit (.reap p st) { s with k := (s.k.waitpid (some pid)).1 }).2
        | _ => { s with k := (s.k.waitpid (some pid)).1 }) := by
  simp only [kWaitpid, bind, runK]
  cases (s.k.waitpid (some pid)).2 <;> rfl

/-- **reaping a zombie does not sleep**: in a calm kernel (no armed fault, no death due), if `pid` is a
    dead, not yet collected child of the daemon, the waiting loop of `reap_process` returns its
    status after ONE `waitpid` — no `time.sleep`, not hung, one kernel call. -/
theorem C05_reap_zombie_does_not_sleep (pid fuel : Nat) (s : State) (p : KProc) (hc : s.k.Calm)
    (hf : s.k.find pid = some p) (hp : p.ppid = some 0) (hz : p.st = .zombie) :
    (reapWait pid (fuel + 1) s).1 = some (some p.status) ∧
    (reapWait pid (fuel + 1) s).2.k.slept = s.k.slept ∧
    (reapWait pid (fuel + 1) s).2.blocked = s.blocked ∧
    (reapWait pid (fuel + 1) s).2.k.calls = s.k.calls + 1 := by
  have hw : s.k.waitpid (some pid) = ((s.k.bump 1).upd pid fun q => { q with st := .gone }, .got pid p.status) := by
    simp only [Kernel.waitpid, Kernel.tick_calm _ hc, Kernel.bump_find, hf, hp, hz]
    simp
  have hk := kWaitpid_eq pid s
  rw [hw] at hk
  simp only at hk
  have h1 := (C05_reap_wait_sleeps_only_while_running pid fuel s).1 pid p.status (by rw [hk])
  rw [h1, hk]
  refine ⟨rfl, ?_, ?_, ?_⟩ <;> (simp only [emit, modS]; split <;> rfl)

/-- … and if the process is not (or no longer) the daemon's child — unknown pid, re-parented, already
    collected: `ECHILD` — it returns "already dead" likewise after one `waitpid`, without sleeping. -/
theorem C05_reap_echild_does_not_sleep (pid fuel : Nat) (s : State) (hc : s.k.Calm)
    (hf : ∀ p, s.k.find pid = some p → p.ppid ≠ some 0 ∨ p.st = .gone) :
    reapWait pid (fuel + 1) s = (some none, { s with k := s.k.bump 1 }) := by
  have hw : s.k.waitpid (some pid) = (s.k.bump 1, .echild) := by
    simp only [Kernel.waitpid, Kernel.tick_calm _ hc, Kernel.bump_find]
    cases hfd : s.k.find pid with
    | none => rfl
    | some p =>
      simp only
      rcases hf p hfd with h | h
      · rw [if_pos (by simp [h])]
      · rw [if_pos (by simp [h])]
  have hk := kWaitpid_eq pid s
  rw [hw] at hk
  simp only at hk
  have h1 := (C05_reap_wait_sleeps_only_while_running pid fuel s).2.1 (by rw [hk])
  rw [h1, hk]

/-! ### 6. a kill suspends at most `polls` times, 100 ms each -/

/-- the timer of a suspended kill re-enters the polling loop with the poll counter it was parked with -/
theorem C05_kill_timer_reenters_loop (rec : Rec) (u p sig i polls : Nat) (wt : Waiter) :
    runResume rec (.killWait u p sig i polls) .unit wt = killLoop rec u p sig i polls wt := rfl

/-- timers, suspended frames and the id counter are as given -/
def QuietFrames (l : List Sleeper) (f : List Frame) (n : Nat) (s : State) : Prop :=
  s.sleepers = l ∧ s.frames = f ∧ s.nextId = n

theorem quietFrames_same {l : List Sleeper} {f : List Frame} {n : Nat} {m : M α}
    (h : ∀ s, (m s).2.sleepers = s.sleepers ∧ (m s).2.frames = s.frames ∧ (m s).2.nextId = s.nextId) :
    Pres (QuietFrames l f n) m :=
  fun s hs => ⟨(h s).1.trans hs.1, (h s).2.1.trans hs.2.1, (h s).2.2.trans hs.2.2⟩

theorem quietFramesLeafN (l : List Sleeper) (f : List Frame) (n : Nat) : LeafN (QuietFrames l f n) where
  emit := fun o => quietFrames_same fun s => by simp only [emit, modS]; split <;> exact ⟨rfl, rfl, rfl⟩
  kill := fun _ _ => quietFrames_same fun _ => ⟨rfl, rfl, rfl⟩
  waitpid := fun _ => quietFrames_same fun _ => ⟨rfl, rfl, rfl⟩
  stateOf := fun _ => quietFrames_same fun _ => ⟨rfl, rfl, rfl⟩
  children := fun _ _ => quietFrames_same fun _ => ⟨rfl, rfl, rfl⟩
  setObjStopping := fun _ _ => quietFrames_same fun _ => ⟨rfl, rfl, rfl⟩
  setRc := fun _ _ => quietFrames_same fun _ => ⟨rfl, rfl, rfl⟩
  bumpHook := fun _ _ _ => quietFrames_same fun _ => ⟨rfl, rfl, rfl⟩
  evHookF := fun _ _ _ => quietFrames_same fun s => by simp only [emitEv, modS]; split <;> exact ⟨rfl, rfl, rfl⟩
  evHookS := fun _ _ _ => quietFrames_same fun s => by simp only [emitEv, modS]; split <;> exact ⟨rfl, rfl, rfl⟩
  evKill := fun _ _ _ => quietFrames_same fun s => by simp only [emitEv, modS]; split <;> exact ⟨rfl, rfl, rfl⟩

/-- finishing a kill (with or without SIGKILL escalation) parks nothing: no sleeper, no frame — it
    hands `True` to the waiter, or the `AccessDenied` of a SIGKILL the daemon was not permitted to send -/
theorem killFinish_no_sleeper (rec : Rec) (u p : Nat) (esc : Bool) (wt : Waiter) (s : State) :
    ∃ v s1, killFinish rec u p esc wt s = deliver rec wt v s1 ∧ (v = .bool true ∨ v = accessDenied) ∧
      s1.sleepers = s.sleepers ∧ s1.frames = s.frames := by
  have L := quietFramesLeafN s.sleepers s.frames s.nextId
  have h0 : QuietFrames s.sleepers s.frames s.nextId s := ⟨rfl, rfl, rfl⟩
  cases esc with
  | false =>
    refine ⟨_, _, C03_finish_plain rec u p wt s, Or.inl rfl, ?_⟩
    have h1 : QuietFrames s.sleepers s.frames s.nextId (setObjStopping p false s).2 := L.setObjStopping p false s h0
    have h2 := objStop_narrow L.toLeafN0 p _ h1
    exact ⟨h2.1, h2.2.1⟩
  | true =>
    have h1 := sendSignalProcess_narrow L u p 9 true s h0
    cases hok : (sendSignalProcess u p 9 true s).1
    · have h2 := L.setObjStopping p false _ h1
      exact ⟨_, _, C03_escalation_denied rec u p wt s hok, Or.inr rfl, h2.1, h2.2.1⟩
    · refine ⟨_, _, C03_escalation_is_sigkill rec u p wt s hok, Or.inl rfl, ?_⟩
      have h2 := L.setObjStopping p false _ h1
      have h3 := objStop_narrow L.toLeafN0 p _ h2
      exact ⟨h3.1, h3.2.1⟩

/-- **a kill is bounded**: each activation of the polling loop either (only while `i < polls` and the
    worker is still alive) parks exactly one 100 ms timer whose firing re-enters the loop with `i + 1`
    (`C05_kill_timer_reenters_loop`), or finishes — in particular at `i = polls` — delivering its result
    (`True`, or `AccessDenied` when the daemon was not permitted to send the SIGKILL) without any further timer.
    So a kill suspends at most `polls = pollsOf graceful_timeout` times. -/
theorem C05_kill_bounded (rec : Rec) (u p sig i polls : Nat) (wt : Waiter) (s : State) :
    (i < polls ∧ (isAlive p s).1 = true ∧
      killLoop rec u p sig i polls wt s = awaitSleep 100 (.killWait u p sig (i + 1) polls) wt (isAlive p s).2 ∧
      ∃ fid sid, (killLoop rec u p sig i polls wt s).2.sleepers =
        s.sleepers ++ [{ sid := sid, deadline := (isAlive p s).2.k.now + 100, waiter := .frame fid 0 }]) ∨
    (∃ v s1, killLoop rec u p sig i polls wt s = deliver rec wt v s1 ∧ (v = .bool true ∨ v = accessDenied) ∧
      s1.sleepers = s.sleepers ∧ s1.frames = s.frames) := by
  have hal : (isAlive p s).2.sleepers = s.sleepers ∧ (isAlive p s).2.frames = s.frames := by
    have := isAlive_narrow (quietFramesLeafN s.sleepers s.frames s.nextId).toLeafN0 p s ⟨rfl, rfl, rfl⟩
    exact ⟨this.1, this.2.1⟩
  by_cases hi : i < polls
  · cases ha : (isAlive p s).1
    · right
      rw [C03_no_sigkill_to_exited rec u p sig i polls wt s hi ha]
      obtain ⟨v, s1, h1, hv, h2, h3⟩ := killFinish_no_sleeper rec u p false wt (isAlive p s).2
      exact ⟨v, s1, h1, hv, h2.trans hal.1, h3.trans hal.2⟩
    · left
      have he := C03_waits_while_alive rec u p sig i polls wt s hi ha
      refine ⟨hi, rfl, he, ?_⟩
      obtain ⟨fid, sid, hs⟩ := C03_sleep_is_100ms (.killWait u p sig (i + 1) polls) wt (isAlive p s).2
      exact ⟨fid, sid, by rw [he, hs, hal.1]⟩
  · right
    rw [C03_sigkill_at_timeout rec u p sig i polls wt s hi]
    exact killFinish_no_sleeper rec u p true wt s

/-- at `i = polls` the loop does not suspend any more -/
theorem C05_kill_ends_at_polls (rec : Rec) (u p sig i polls : Nat) (wt : Waiter) (s : State) (hi : polls ≤ i) :
    ∃ v s1, killLoop rec u p sig i polls wt s = deliver rec wt v s1 ∧ (v = .bool true ∨ v = accessDenied) ∧
      s1.sleepers = s.sleepers ∧ s1.frames = s.frames := by
  rcases C05_kill_bounded rec u p sig i polls wt s with h | h
  · exact absurd h.1 (by omega)
  · exact h

/-- **total waiting time of a kill**: at most `pollsOf gt` suspensions of 100 ms each, i.e. the grace
    period rounded up to the next 100 ms — less than `graceful_timeout + 100 ms`; every suspension
    strictly decreases the remaining budget `polls - i`. -/
theorem C05_kill_total_wait (gt i : Nat) :
    pollsOf gt * 100 < gt + 100 ∧ gt ≤ pollsOf gt * 100 ∧
    (i < pollsOf gt → pollsOf gt - (i + 1) < pollsOf gt - i) :=
  ⟨(C03_polls_bounds gt).2, (C03_polls_bounds gt).1, fun h => by omega⟩

/-! ### non-vacuity -/

/-- watcher "w" (uid 1, active, graceful_timeout 250 ms) with a stubborn worker 100 (ignores SIGTERM)
    and a zombie 101 (exit code 1); a `watcher_stop` holds the exclusive slot -/
def c05S : State :=
  { ws := [{ name := "w", uid := 1, status := .active, np := 2, pids := [100, 101], graceful := 250 }],
    a := { watchers := [1], names := [("w", 1)], slot := some "watcher_stop" },
    objs := [{ pid := 100, wid := 1, started := 0 }, { pid := 101, wid := 2, started := 0 }],
    k := { procs := [{ pid := 100, ppid := some 0, st := .run, status := 0, doom := none, behav := { term := none } },
                     { pid := 101, ppid := some 0, st := .zombie, status := wstatExit 1, doom := none, behav := {} }],
           nextPid := 102 },
    nextId := 2 }

/-- the same with the slot free -/
def c05Free : State := { c05S with a := { c05S.a with slot := none } }

def c05Req (cmd : String) (props : List (String × JVal)) : JVal :=
  .obj [("command", .str cmd), ("id", .int 9), ("properties", .obj props)]

-- the read-only hypotheses: known commands, not state-changing
example : (["status", "list", "numprocesses", "numwatchers", "dstats", "get", "globaloptions", "ipython", "listen",
    "listsockets", "options", "stats"].all fun c => commandNames.contains c && !stateChanging.contains c) = true := by
  decide +kernel
example : commandNames.all (fun c => stateChanging.contains c ||
    ["status", "list", "numprocesses", "numwatchers", "dstats", "get", "globaloptions", "ipython", "listen",
     "listsockets", "options", "stats"].contains c) = true := by decide +kernel
-- with the slot taken: read-only requests are answered at once, a state-changing one is refused
example : (handleMessage (some "c") (some (c05Req "status" [("name", .str "w")])) c05S).2.log.map showObs =
    ["o rep c i9 active - -"] := by decide +kernel
example : (handleMessage (some "c") (some (c05Req "list" [("name", .str "w")])) c05S).2.log.map showObs =
    ["o rep c i9 ok - pids=[100]"] ∧
    (handleMessage (some "c") (some (c05Req "list" [("name", .str "w")])) c05S).2.k.calls = 5 := by decide +kernel
example : (handleMessage (some "c") (some (c05Req "numprocesses" [])) c05S).2.log.map showObs =
    ["o rep c i9 ok - numprocesses=2"] := by decide +kernel
example : (handleMessage (some "c") (some (c05Req "stop" [("name", .str "w")])) c05S).2.log.map showObs =
    ["o rep c i9 error 5 -"] := by decide +kernel
-- `options` / `get` while the `watcher_stop` holds the slot: the hypotheses of `C05_options_answered_at_once` /
-- `C05_get_answered_at_once` hold for these frames, and the reply is the one the theorems name
example : (handleMessage (some "c") (some (c05Req "options" [("name", .str "w")])) c05S).2 =
    { c05S with doneVals := [], log := c05S.log ++ [Obs.rep "c" (.int 9) "ok" "-" (optionsBody (getW 1 c05S).1)] } :=
  C05_options_answered_at_once "c" _ "options" "w" 1 c05S rfl (by decide +kernel) rfl (by decide +kernel)
    (by intro h; cases h) rfl rfl
example : (handleMessage (some "c") (some (c05Req "options" [("name", .str "w")])) c05S).2.log.map showObs =
    ["o rep c i9 ok - options=graceful_timeout:250;max_age:0;max_retry:5;numprocesses:2;on_demand:false;priority:0;respawn:true;send_hup:false;singleton:false;stop_children:false;stop_signal:15;warmup_delay:0"] := by
  decide +kernel
example : (handleMessage (some "c") (some (c05Req "get" [("name", .str "w"), ("keys", .arr [.str "graceful_timeout", .str "env"])])) c05S).2.log.map showObs =
      ["o rep c i9 ok - options=graceful_timeout:250"] ∧
    (handleMessage (some "c") (some (c05Req "get" [("name", .str "w"), ("keys", .arr [.str "nosuch"])])) c05S).2.log.map showObs =
      ["o rep c i9 error 3 -"] ∧
    (handleMessage (some "c") (some (c05Req "get" [("name", .str "w"), ("keys", .int 3)])) c05S).2.log.map showObs =
      ["o rep c i9 error 5 -"] := by decide +kernel
example : ∃ st errno body, (handleMessage (some "c") (some (c05Req "get" [("name", .str "w"), ("keys", .str "x")])) c05S).2 =
    { c05S with doneVals := [], log := c05S.log ++ [Obs.rep "c" (.int 9) st errno body] } := by
  obtain ⟨st, errno, body, h, _⟩ := C05_get_answered_at_once "c" (c05Req "get" [("name", .str "w"), ("keys", .str "x")])
    "get" "w" 1 (.str "x") c05S rfl (by decide +kernel) rfl rfl (by decide +kernel) (by intro h; cases h) rfl rfl
  exact ⟨st, errno, body, h⟩
example : validateExecute "options" (.obj [("name", .str "w")]) c05S =
    ((validateExecute "options" (.obj [("name", .str "w")]) c05Free).1, c05S) :=
  (C05_options_get_whatever_the_slot "options" (.inl rfl) (.obj [("name", .str "w")]) c05Free (some "watcher_stop") false).1
-- slot free: a non-waiting `stop` of a stubborn worker is answered `ok` while the operation is still
-- running (future 2 pending, one 100 ms timer, watcher `stopping`), without any blocking sleep
example : (match (validateExecute "stop" (.obj [("name", .str "w")]) (clearDone c05Free).2).1 with
    | .ok (.future 2 "") => true | _ => false) = true := by decide +kernel
example : (handleMessage (some "c") (some (c05Req "stop" [("name", .str "w")])) c05Free).2.log.map showObs =
      ["o sig 100 15 r", "o ev 119 kill 100 -", "o rep c i9 ok - -"] ∧
    (handleMessage (some "c") (some (c05Req "stop" [("name", .str "w")])) c05Free).2.tops.map (·.tid) = [2] ∧
    (handleMessage (some "c") (some (c05Req "stop" [("name", .str "w")])) c05Free).2.sleepers.map (·.deadline) = [100] ∧
    (handleMessage (some "c") (some (c05Req "stop" [("name", .str "w")])) c05Free).2.k.slept = 0 ∧
    (handleMessage (some "c") (some (c05Req "stop" [("name", .str "w")])) c05Free).2.blocked = false := by decide +kernel
-- reaping: the zombie is collected by one `waitpid` without sleeping; a running process makes the
-- loop sleep once per iteration and finally gives up (`blocked`)
example : (c05S.k.find 101).map (fun p => (p.ppid, p.st, p.status)) = some (some 0, .zombie, 256) ∧
    c05S.k.armed = [] ∧ (c05S.k.procs.all fun p => p.doom.isNone) = true := by decide +kernel
example : (reapWait 101 5 c05S).1 = some (some 256) ∧ (reapWait 101 5 c05S).2.k.slept = 0 ∧
    (reapWait 100 5 c05S).1 = none ∧ (reapWait 100 5 c05S).2.k.slept = 5 ∧ (reapWait 100 5 c05S).2.blocked = true := by
  decide +kernel
-- the kill loop: graceful_timeout 250 ms = 3 polls; poll 0 parks a 100 ms timer, poll 3 escalates
example : pollsOf 250 = 3 ∧
    (killLoop (exec 10) 1 100 15 0 3 .none c05S).2.sleepers.map (·.deadline) = [100] ∧
    (killLoop (exec 10) 1 100 15 3 3 .none c05S).2.sleepers = [] ∧
    (killLoop (exec 10) 1 100 15 3 3 .none c05S).2.log.map showObs =
      ["o sig 100 9 r", "o ev 119 kill 100 -", "o reap 100 9"] := by decide +kernel

end Circus.Core
