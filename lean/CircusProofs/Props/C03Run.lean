import CircusProofs.Core.SigRun
import CircusProofs.Core.StopRun
import CircusProofs.Props.C03
/-!
# C03 along all runs — stop signal first, SIGKILL only from an exhausted kill loop, never to a collected pid

Props/C03.lean has the per-call theorems about `killProcess` / `killLoop` / `killFinish`.  Here, over
every run of the core model from `initState cfg …` (any op list: requests over several watchers,
hooks, exec failures, deaths at every kernel-call boundary, reloads, `kill` / `signal` requests, …):

All of it holds for **every** list of worker behaviours, those the daemon is not permitted to signal included
(`Behav.eperm` / `kidEperm`: the kernel refuses the daemon's `kill` with EPERM, psutil raises `AccessDenied`).  A refused
signal is recorded in the log with the tag `"!"` (`Obs.sig p sg st "!"`): it is no delivery — the entries the theorems
speak of are the delivered ones (`via = ""`), a refused SIGKILL needs no justification and a refused stop signal is no
evidence `Began`.  A `kill_process` whose first signal is refused ends with `AccessDenied` before it marks its worker
`stopping` (no loop is ever pending for it); one whose SIGKILL is refused clears the flag and ends with `AccessDenied`
(since fix 60e14d0; the former finding F34) — no loop is pending then either, so the frame invariant and the uniqueness of the loop are untouched.

* `C03_run_signal_invariant` — the invariant `SI` (Core/SigDefs.lean) holds in every reachable state;
* `C03_run_pending_kill_loop` — **the frame invariant**: every suspended `kill_process` (a frame
  `Kont.killWait u p sig i polls`, or that continuation on the ready queue after its timer fired) has
  `1 ≤ i ≤ polls`, the `Process` object of `p` exists and has `stopping = true`, and the first phase
  of `kill_process` has run for `p` (`Began`);
* `C03_run_one_kill_loop_per_pid` — at most one kill loop is pending per pid (a second `kill_process`
  on a pid whose flag is set waits in `killWaitOther`; only the loop itself clears the flag);
* `C03_run_escalation_preceded_by_stop_signal` — **stop signal first**: whenever a pending kill loop
  could deliver SIGKILL to its worker (the watcher still lists the pid, the daemon does not hang, the
  process has not been collected), the stop signal for that pid **is in the log** — so it precedes
  whatever the loop sends later —, the only exemption being a watcher whose `before_signal` hook has
  been consulted about a signal other than SIGKILL (the hook may veto it; SIGKILL is never vetoed:
  `C03_counterexample_vetoed_stop_signal_then_sigkill` is the concrete run).  The three side
  conditions are exactly the cases in which the escalation sends nothing to the pid:
  `C03_escalation_nothing_to_unlisted`, `C03_escalation_nothing_when_hanging`,
  `C03_escalation_nothing_when_gone`.
* `C03_run_escalation_only_when_exhausted` — **never earlier**: a pending loop is resumed by its 100 ms
  timer (`C03_sleep_is_100ms`) with `i ≤ polls`; while `i < polls` the resumption only polls
  (`C03_waits_while_alive`, `C03_no_sigkill_to_exited`); it escalates exactly when `i = polls`, i.e.
  at its `polls`-th resumption, `polls · 100 ms ≥ graceful_timeout` after the stop signal
  (`C03_polls_bounds`).
* `C03_run_reaped_is_gone`, `C03_run_no_sigkill_to_reaped` — **never to a collected worker**: a pid whose
  collection (`reap`) is in the log is gone in the kernel, and `send_signal_process(pid, …)` — the
  escalation — then sends nothing at all (`children()` raises `NoSuchProcess`, which it swallows):
  neither to the pid nor to former children.

* `C03_run_sigkill_never_first_signal_in_step`, `C03_run_sigkill_never_first_signal` — **the log-level
  form**: in every step whose stimulus does not itself bring signal 9 in (`OpSafe`: everything but a `signal` /
  `kill` request for signal 9 and a `set` / `add` request with `stop_signal: 9`; after any history), and along
  every run without such requests, every SIGKILL entry `sig p 9 st ""` of the log is preceded by an
  earlier signal entry for `p` — the daemon escalates, it never opens with SIGKILL —, the exemptions being
  a watcher with `stop_signal = 9`, a consulted `before_signal` hook, and pids that are not children of the
  daemon (a worker's own children); for workers — pids with a `Process` object, which are children of the
  daemon for ever (`C03_run_workers_are_daemon_children`) — the last exemption drops out
  (`C03_run_sigkill_to_worker_never_first_in_step`, `C03_run_sigkill_to_worker_never_first`).  Those requests are exempt because they ask for signal 9
  themselves (`C03_counterexample_requested_sigkill_is_first`).

* `C03_counterexample_sigkill_to_worker_that_exited_in_time` — what does *not* hold: `kill_process` does not poll
  again when its loop ends by count, so a worker that exits between the last poll and the timeout is sent SIGKILL
  as a zombie (harmless; same trace on the real code).

Which signals are meant: the escalation is the call `sendSignalProcess u p 9 true` in `killFinish`
(`C03_escalation_is_sigkill`).  A SIGKILL entry in the log can also stem from a `signal` / `kill` request
that names signal 9 or from a watcher whose `stop_signal` is 9 — then it *is* the requested / configured
signal, sent by the first phase (`sendSignal` in `killProcess`) or by `execSignal`, and not an
escalation.  The ghost log does not tell the two apart (`via` only separates `send_signal`,
`terminate` and outside signals), so the statements are about the code path: what every pending kill
loop knows, and what its escalation does from such a state.

Mechanism (Core/Sig*.lean): `SI J` (`J = none`: every run; `J = some ⟨n0, X⟩`: with the justification of
the SIGKILL entries from log position `n0` on) is contextual — the interpreter keeps it only for tasks whose
continuation was pending (`TaskOk`) — so it is proved with its own Hoare-style chain
(`exec_si : RecSI (exec n)`), not with the writer-obligation chains of Generic.lean; what a
continuation knows is monotone along every state change (`Ext`).
-/
namespace Circus.Core

/-- a kill loop for `p` is pending: suspended on its timer, or queued for the event loop -/
def PendingLoop (s : State) (u p sig i polls : Nat) : Prop :=
  (∃ f ∈ s.frames, f.k = .killWait u p sig i polls) ∨ (∃ v w, Ready.resume (.killWait u p sig i polls) v w ∈ s.ready)

theorem PendingLoop.ok {s : State} (h : SI none s) {u p sig i polls : Nat} (hp : PendingLoop s u p sig i polls) :
    LoopOk s u p sig i polls := by
  rcases hp with ⟨f, hf, hk⟩ | ⟨v, w, hr⟩
  · have := h.fr f hf
    rw [hk] at this
    exact this
  · exact h.rd _ hr _ rfl

/-- **the signal invariant holds in every reachable state** -/
theorem C03_run_signal_invariant (cfg : List Watcher) (behavs : List Behav) (warm : Nat)
    (hcfg : ∀ w ∈ cfg, w.pids = []) (ops : List Op) : SI none (run (initState cfg behavs warm) ops) :=
  si_run _ ops (si_init cfg behavs warm hcfg)

/-- **the frame invariant of `kill_process`**: in every reachable state, a pending kill loop
    `killWait u p sig i polls` has polled at least once and at most `polls` times (`1 ≤ i ≤ polls`), the
    `Process` object of `p` exists and carries `stopping = true`, and the first phase has run for `p`
    with the signal `sig` the loop remembers (`Began`: the stop signal is in the log, or the daemon
    hangs, or a `before_signal` hook was consulted about a signal other than 9, or the watcher did not
    list the pid, or the process was already gone). -/
theorem C03_run_pending_kill_loop (cfg : List Watcher) (behavs : List Behav) (warm : Nat)
    (hcfg : ∀ w ∈ cfg, w.pids = []) (ops : List Op) (u p sig i polls : Nat)
    (hp : PendingLoop (run (initState cfg behavs warm) ops) u p sig i polls) :
    1 ≤ i ∧ i ≤ polls ∧ HasObj (run (initState cfg behavs warm) ops) p ∧
    Stopping (run (initState cfg behavs warm) ops) p ∧ Began (run (initState cfg behavs warm) ops) u p sig := by
  have h := hp.ok (C03_run_signal_invariant cfg behavs warm hcfg ops)
  exact ⟨h.pos, h.le, h.obj, h.stopping, h.began⟩

/-- **at most one kill loop per pid**: in every reachable state the kill loops pending for a pid
    number at most one; in particular two suspended `killWait` frames for the same pid are the same
    frame, and a pid with a suspended loop has none queued. -/
theorem C03_run_one_kill_loop_per_pid (cfg : List Watcher) (behavs : List Behav) (warm : Nat)
    (hcfg : ∀ w ∈ cfg, w.pids = []) (ops : List Op) (p : Nat) :
    pendCount (run (initState cfg behavs warm) ops) p ≤ 1 ∧
    (∀ f ∈ (run (initState cfg behavs warm) ops).frames, ∀ g ∈ (run (initState cfg behavs warm) ops).frames,
      f.k.loopPid = some p → g.k.loopPid = some p → f = g) ∧
    (∀ f ∈ (run (initState cfg behavs warm) ops).frames, ∀ r ∈ (run (initState cfg behavs warm) ops).ready,
      f.k.loopPid = some p → r.loopPid ≠ some p) := by
  have h := (C03_run_signal_invariant cfg behavs warm hcfg ops).uniq p
  refine ⟨h, ?_, ?_⟩
  · intro f hf g hg hfp hgp
    unfold pendCount at h
    exact countP_le_one_unique _ (fun f => f.k.loopPid == some p) (by omega) hf hg (by simp [hfp]) (by simp [hgp])
  · intro f hf r hr hfp hrp
    have h1 := pendCount_pos_of_frame hf hfp
    unfold pendCount at h h1
    have : 0 < (run (initState cfg behavs warm) ops).ready.countP (fun r => r.loopPid == some p) :=
      List.countP_pos_iff.mpr ⟨r, hr, by simp [hrp]⟩
    have : 0 < (run (initState cfg behavs warm) ops).frames.countP (fun f => f.k.loopPid == some p) :=
      List.countP_pos_iff.mpr ⟨f, hf, by simp [hfp]⟩
    omega

/-- **stop signal first**: in every reachable state, for every pending kill loop of a pid its watcher
    still lists, while the daemon does not hang and the process has not been collected — the three
    conditions under which the escalation can deliver SIGKILL to the worker at all —, the stop signal
    the loop was started with (`sig`: the requested signal, or the watcher's `stop_signal`) has been
    sent to `p` through `Watcher.send_signal` and is in the log, hence before anything the loop sends
    from now on; or `sig ≠ 9` and the watcher's `before_signal` hook has been consulted (it may have
    vetoed that signal; it cannot veto SIGKILL). -/
theorem C03_run_escalation_preceded_by_stop_signal (cfg : List Watcher) (behavs : List Behav) (warm : Nat)
    (hcfg : ∀ w ∈ cfg, w.pids = []) (ops : List Op) (u p sig i polls : Nat)
    (hp : PendingLoop (run (initState cfg behavs warm) ops) u p sig i polls)
    (hl : Listed (run (initState cfg behavs warm) ops) u p)
    (hb : (run (initState cfg behavs warm) ops).blocked = false)
    (hg : ¬ (run (initState cfg behavs warm) ops).k.GoneIn p) :
    (∃ st, Obs.sig p sig st "" ∈ (run (initState cfg behavs warm) ops).log) ∨
    (sig ≠ 9 ∧ HookCalled (run (initState cfg behavs warm) ops) u "before_signal") := by
  have h := (hp.ok (C03_run_signal_invariant cfg behavs warm hcfg ops)).began
  rcases h with h | h | h | h | h
  · exact Or.inl h
  · rw [hb] at h; cases h
  · exact Or.inr h
  · exact absurd hl h
  · exact absurd h hg

/-- the escalation sends nothing to a pid its watcher does not list (`send_signal` returns at once) -/
theorem C03_escalation_nothing_to_unlisted (u p sg : Nat) (s : State) (h : ¬ Listed s u p) :
    sendSignal u p sg s = (.ok, s) := sendSignal_unlisted u p sg s h

/-- … nothing at all is logged once the daemon hangs … -/
theorem C03_escalation_nothing_when_hanging (u p sg : Nat) (r : Bool) (s : State) (h : s.blocked = true) :
    (sendSignalProcess u p sg r s).2.log = s.log :=
  (sendSignalProcess_s (blockedLeafS s.log) u p sg r s ⟨h, rfl⟩).2

/-- … and nothing is sent — neither to the pid nor to any child — when the process is gone:
    `children()` raises `NoSuchProcess`, which `send_signal_process` swallows for the whole group -/
theorem C03_escalation_nothing_when_gone (u p sg : Nat) (r : Bool) (s : State) (h : s.k.GoneIn p) :
    sendSignalProcess u p sg r s = (true, (kChildren p r s).2) ∧ (sendSignalProcess u p sg r s).2.log = s.log := by
  have hc : (kChildren p r s).1 = none := Kernel.children_gone s.k p r h
  have he : sendSignalProcess u p sg r s = (true, (kChildren p r s).2) := by
    rw [sendSignalProcess_eq]
    simp only [bind]
    rw [hc]
    rfl
  exact ⟨he, by rw [he]; rfl⟩

/-- **never earlier**: a pending kill loop of a reachable state has `i ≤ polls`; resumed, it escalates
    exactly when `i = polls` (then `killLoop = killFinish … true`, whose first action is
    `send_signal_process(p, SIGKILL, recursive)`), and otherwise polls once more.  Since each
    suspension is a 100 ms timer, the escalation is the loop's `polls`-th resumption. -/
theorem C03_run_escalation_only_when_exhausted (cfg : List Watcher) (behavs : List Behav) (warm : Nat)
    (hcfg : ∀ w ∈ cfg, w.pids = []) (ops : List Op) (u p sig i polls : Nat)
    (hp : PendingLoop (run (initState cfg behavs warm) ops) u p sig i polls)
    (rec : Rec) (wt : Waiter) (s' : State) :
    (i = polls → killLoop rec u p sig i polls wt s' = killFinish rec u p true wt s') ∧
    (i ≠ polls → i < polls ∧
      killLoop rec u p sig i polls wt s' =
        (if (isAlive p s').1 = true then awaitSleep 100 (.killWait u p sig (i + 1) polls) wt (isAlive p s').2
         else killFinish rec u p false wt (isAlive p s').2)) := by
  have h := hp.ok (C03_run_signal_invariant cfg behavs warm hcfg ops)
  refine ⟨fun he => C03_sigkill_at_timeout rec u p sig i polls wt s' (by omega), fun hne => ?_⟩
  have hlt : i < polls := by have := h.le; omega
  refine ⟨hlt, ?_⟩
  by_cases ha : (isAlive p s').1 = true
  · rw [if_pos ha]; exact C03_waits_while_alive rec u p sig i polls wt s' hlt ha
  · rw [if_neg ha]; exact C03_no_sigkill_to_exited rec u p sig i polls wt s' hlt (by simpa using ha)

/-- **a collected pid is gone**: in every reachable state a pid whose `reap` (a successful `waitpid`)
    is in the log is marked gone in the kernel's process table — and stays so (`KGMono`) -/
theorem C03_run_reaped_is_gone (cfg : List Watcher) (behavs : List Behav) (warm : Nat)
    (hcfg : ∀ w ∈ cfg, w.pids = []) (ops : List Op) (p st : Nat)
    (hr : Obs.reap p st ∈ (run (initState cfg behavs warm) ops).log) :
    (run (initState cfg behavs warm) ops).k.GoneIn p :=
  (C03_run_signal_invariant cfg behavs warm hcfg ops).reap p st hr

/-- **no SIGKILL to a worker that was collected**: in every reachable state, once the `reap` of `p` is
    in the log, `send_signal_process(p, …)` for any watcher and any signal — in particular the
    escalation `sendSignalProcess u p 9 true` of a kill loop still pending for `p` — logs nothing: no
    signal to `p`, none to a child. -/
theorem C03_run_no_sigkill_to_reaped (cfg : List Watcher) (behavs : List Behav) (warm : Nat)
    (hcfg : ∀ w ∈ cfg, w.pids = []) (ops : List Op) (p st : Nat)
    (hr : Obs.reap p st ∈ (run (initState cfg behavs warm) ops).log) (u sg : Nat) (r : Bool) :
    (sendSignalProcess u p sg r (run (initState cfg behavs warm) ops)).2.log = (run (initState cfg behavs warm) ops).log :=
  (C03_escalation_nothing_when_gone u p sg r _ (C03_run_reaped_is_gone cfg behavs warm hcfg ops p st hr)).2

/-! ## the log: a SIGKILL is never the first signal the daemon sends a worker of its own accord -/

/-- **SIGKILL is never the first signal — one step, after any history**: let `s` be any reachable state
    (reached through any requests whatsoever) and `op` any stimulus that does not itself bring signal 9 in
    (`OpSafe`: everything — a timer firing, the periodic check, a death, any request, termination signals — but
    a `signal` / `kill` request whose `signum` is 9 and a `set` / `add` request with the option `stop_signal: 9`).  Then every SIGKILL the daemon
    sends through `Watcher.send_signal` during that step — an entry `sig p 9 st ""` of the log at a
    position ≥ the length of the log of `s` — is preceded in the log by an earlier signal entry for the
    same pid (the stop signal of the kill loop that now escalates), unless: some watcher's `stop_signal`
    is 9 (then SIGKILL is the stop signal), or a `before_signal` hook has been consulted (it may have
    vetoed the stop signal), or `p` is not a child of the daemon at all (a worker's own child, which
    `send_signal_process` signals along with the worker). -/
theorem C03_run_sigkill_never_first_signal_in_step (cfg : List Watcher) (behavs : List Behav) (warm : Nat)
    (hcfg : ∀ w ∈ cfg, w.pids = []) (ops : List Op) (op : Op) (hop : OpSafe op)
    (pre post : List Obs) (p : Nat) (st : PState)
    (hl : (step (run (initState cfg behavs warm) ops) op).log = pre ++ Obs.sig p 9 st "" :: post)
    (hn : (run (initState cfg behavs warm) ops).log.length ≤ pre.length) :
    (∃ sg st', Obs.sig p sg st' "" ∈ pre) ∨
    (∃ w ∈ (run (initState cfg behavs warm) ops).ws, w.stopSignal = 9) ∨
    (∃ u, HookCalled (step (run (initState cfg behavs warm) ops) op) u "before_signal") ∨
    (step (run (initState cfg behavs warm) ops) op).k.NDC p := by
  have h0 := C03_run_signal_invariant cfg behavs warm hcfg ops
  have h1 := stepM_si_j op hop _ h0.enter
  exact (h1.just _ rfl).log pre post p st hl hn

/-- **SIGKILL is never the first signal — whole runs**: along every run none of whose stimuli brings signal 9
    in itself (`OpSafe`: no `signal` / `kill` request for signal 9, no `set` / `add` request with `stop_signal: 9`), from a configuration in which no watcher has `stop_signal`
    9 and no `before_signal` hook is ever consulted, every SIGKILL the daemon sends to one of its own
    children through `Watcher.send_signal` is preceded in the log by an earlier signal entry for that
    pid: the daemon escalates, it never opens with SIGKILL.  (Stated with the three exemptions as
    alternatives of the conclusion.) -/
theorem C03_run_sigkill_never_first_signal (cfg : List Watcher) (behavs : List Behav) (warm : Nat)
    (hcfg : ∀ w ∈ cfg, w.pids = []) (ops : List Op) (hsafe : ∀ op ∈ ops, OpSafe op)
    (pre post : List Obs) (p : Nat) (st : PState)
    (hl : (run (initState cfg behavs warm) ops).log = pre ++ Obs.sig p 9 st "" :: post) :
    (∃ sg st', Obs.sig p sg st' "" ∈ pre) ∨
    (∃ w ∈ cfg, w.stopSignal = 9) ∨
    (∃ u, HookCalled (run (initState cfg behavs warm) ops) u "before_signal") ∨
    (run (initState cfg behavs warm) ops).k.NDC p := by
  have h0 := (si_init cfg behavs warm hcfg).enter
  have h1 := run_si_j _ ops hsafe h0
  rcases (h1.just _ rfl).log pre post p st hl (Nat.zero_le _) with h | ⟨w, hw, h9⟩ | h | h
  · exact Or.inl h
  · obtain ⟨w0, hw0, he⟩ := assignUids_stopSignal cfg 1 w hw
    exact Or.inr (Or.inl ⟨w0, hw0, he.trans h9⟩)
  · exact Or.inr (Or.inr (Or.inl h))
  · exact Or.inr (Or.inr (Or.inr h))

/-- **workers are children of the daemon, for ever**: in every reachable state every pid that has a
    `Process` object (every worker the daemon ever spawned) stands in the process table with the daemon
    as its parent — no death re-parents it, the daemon itself has no entry in the table.  (A worker's
    own child processes never have a `Process` object.) -/
theorem C03_run_workers_are_daemon_children (cfg : List Watcher) (behavs : List Behav) (warm : Nat)
    (hcfg : ∀ w ∈ cfg, w.pids = []) (ops : List Op) (p : Nat) (hp : HasObj (run (initState cfg behavs warm) ops) p) :
    (run (initState cfg behavs warm) ops).k.DC p := by
  obtain ⟨o, ho, rfl⟩ := List.mem_map.mp hp
  exact (C03_run_signal_invariant cfg behavs warm hcfg ops).wpar o ho

/-- … so for a **worker** (a pid with a `Process` object) the log-level statements read without the last
    alternative: in a step whose stimulus does not itself bring signal 9 in, a SIGKILL to a worker
    is preceded in the log by an earlier signal to it, unless some watcher's `stop_signal` is 9 or a
    `before_signal` hook has been consulted. -/
theorem C03_run_sigkill_to_worker_never_first_in_step (cfg : List Watcher) (behavs : List Behav) (warm : Nat)
    (hcfg : ∀ w ∈ cfg, w.pids = []) (ops : List Op) (op : Op) (hop : OpSafe op)
    (pre post : List Obs) (p : Nat) (st : PState)
    (hl : (step (run (initState cfg behavs warm) ops) op).log = pre ++ Obs.sig p 9 st "" :: post)
    (hn : (run (initState cfg behavs warm) ops).log.length ≤ pre.length)
    (hw : HasObj (step (run (initState cfg behavs warm) ops) op) p) :
    (∃ sg st', Obs.sig p sg st' "" ∈ pre) ∨
    (∃ w ∈ (run (initState cfg behavs warm) ops).ws, w.stopSignal = 9) ∨
    (∃ u, HookCalled (step (run (initState cfg behavs warm) ops) op) u "before_signal") := by
  rcases C03_run_sigkill_never_first_signal_in_step cfg behavs warm hcfg ops op hop pre post p st hl hn with h | h | h | h
  · exact Or.inl h
  · exact Or.inr (Or.inl h)
  · exact Or.inr (Or.inr h)
  · exfalso
    have hd := C03_run_workers_are_daemon_children cfg behavs warm hcfg (ops ++ [op]) p (by
      simpa [run, List.foldl_append] using hw)
    have : (run (initState cfg behavs warm) (ops ++ [op])).k = (step (run (initState cfg behavs warm) ops) op).k := by
      simp [run, List.foldl_append]
    rw [this] at hd
    exact hd.not_ndc h

/-- the same along whole runs without a request that brings signal 9 in -/
theorem C03_run_sigkill_to_worker_never_first (cfg : List Watcher) (behavs : List Behav) (warm : Nat)
    (hcfg : ∀ w ∈ cfg, w.pids = []) (ops : List Op) (hsafe : ∀ op ∈ ops, OpSafe op)
    (pre post : List Obs) (p : Nat) (st : PState)
    (hl : (run (initState cfg behavs warm) ops).log = pre ++ Obs.sig p 9 st "" :: post)
    (hw : HasObj (run (initState cfg behavs warm) ops) p) :
    (∃ sg st', Obs.sig p sg st' "" ∈ pre) ∨
    (∃ w ∈ cfg, w.stopSignal = 9) ∨
    (∃ u, HookCalled (run (initState cfg behavs warm) ops) u "before_signal") := by
  rcases C03_run_sigkill_never_first_signal cfg behavs warm hcfg ops hsafe pre post p st hl with h | h | h | h
  · exact Or.inl h
  · exact Or.inr (Or.inl h)
  · exact Or.inr (Or.inr h)
  · exact absurd h (C03_run_workers_are_daemon_children cfg behavs warm hcfg ops p hw).not_ndc

/-! ## concrete runs -/

/-- one worker that ignores the stop signal, graceful_timeout 200 ms = 2 polls -/
def c03Cfg : List Watcher := [{ name := "a", np := 1, graceful := 200 }]
def c03Pre : List Op := [.start, .wake, .wake, .req "c" (some (stopReq "a" true))]
def c03Run (more : List Op) : State := run (initState c03Cfg [{ term := none }] 0) (c03Pre ++ more)

def hasSig (log : List Obs) (p sg : Nat) : Bool :=
  log.any fun o => match o with | .sig q s _ via => q == p && s == sg && via == "" | _ => false
def loopAt (s : State) (u p sig i polls : Nat) : Bool :=
  s.frames.any fun f => match f.k with
    | .killWait u' p' sig' i' polls' => u' == u && p' == p && sig' == sig && i' == i && polls' == polls
    | _ => false

example : ∀ w ∈ c03Cfg, w.pids = [] := by decide

-- after the stop request: the loop is pending with i = 1 of 2, the stop signal is in the log, no SIGKILL yet;
-- after one timer: i = 2; the second timer is the escalation: SIGKILL, the worker is collected, the watcher stopped
example : loopAt (c03Run []) 1 100 15 1 2 = true ∧ hasSig (c03Run []).log 100 15 = true ∧ hasSig (c03Run []).log 100 9 = false ∧
    loopAt (c03Run [.wake]) 1 100 15 2 2 = true ∧ hasSig (c03Run [.wake]).log 100 9 = false ∧
    hasSig (c03Run [.wake, .wake]).log 100 9 = true ∧ (c03Run [.wake, .wake]).frames = [] ∧
    (c03Run [.wake, .wake]).k.procs.map (fun p => (p.pid, p.st)) = [(100, .gone)] ∧
    (c03Run []).blocked = false ∧ (c03Run []).ws.map (·.pids) = [[100]] := by decide +kernel

theorem loopAt_pending {s : State} {u p sig i polls : Nat} (h : loopAt s u p sig i polls = true) :
    PendingLoop s u p sig i polls := by
  left
  unfold loopAt at h
  obtain ⟨f, hf, hk⟩ := List.any_eq_true.mp h
  refine ⟨f, hf, ?_⟩
  cases hfk : f.k <;> rw [hfk] at hk <;> simp only [Bool.false_eq_true] at hk
  simp only [Bool.and_eq_true, beq_iff_eq] at hk
  obtain ⟨⟨⟨⟨rfl, rfl⟩, rfl⟩, rfl⟩, rfl⟩ := hk
  rfl

-- the hypotheses of the run-level theorems hold in that run (non-vacuity)
example : PendingLoop (run (initState c03Cfg [{ term := none }] 0) c03Pre) 1 100 15 1 2 :=
  loopAt_pending (s := c03Run []) (by decide +kernel)

theorem not_goneIn_of_state {k : Kernel} {p : Nat} {st : PState} (h : (k.find p).map (·.st) = some st) (hst : st ≠ .gone) :
    ¬ k.GoneIn p := by
  rintro ⟨kp, hf, hg⟩
  rw [hf] at h
  simp only [Option.map_some, Option.some.injEq] at h
  rw [hg] at h
  exact hst h.symm

-- the hypotheses of `C03_run_escalation_preceded_by_stop_signal` hold for that loop: listed, no hang, not gone
example : Listed (c03Run []) 1 100 ∧ (c03Run []).blocked = false ∧ ¬ (c03Run []).k.GoneIn 100 :=
  ⟨by unfold Listed; decide +kernel, by decide +kernel,
   not_goneIn_of_state (st := .run) (by decide +kernel) (by decide)⟩

-- … those of `C03_run_no_sigkill_to_reaped` after the escalation: the pid has been collected
example : (c03Run [.wake, .wake]).log.any (fun o => match o with | .reap 100 9 => true | _ => false) = true := by
  decide +kernel

-- … and the worker has its `Process` object (`C03_run_workers_are_daemon_children`, `…_to_worker_…`)
example : HasObj (c03Run []) 100 ∧ ((c03Run []).k.find 100).map (·.ppid) = some (some 0) :=
  ⟨by unfold HasObj; decide +kernel, by decide +kernel⟩

/-- a watcher whose `before_signal` hook vetoes every signal it may veto -/
def c03Veto : List Watcher :=
  [{ name := "a", np := 1, graceful := 100, hooks := [("before_signal", { outs := ["false"], ignore := false })] }]

/-- **the unconditional "the stop signal is delivered first" is false — by design**: a `before_signal`
    hook that returns false vetoes the stop signal, `kill_process` waits out the grace period
    nevertheless and then sends SIGKILL, which no hook can veto (C14: `C14_sigkill_never_vetoed`): the
    log of this run has a SIGKILL for pid 100 and no stop signal.  This is the hook exemption of
    `C03_run_escalation_preceded_by_stop_signal`. -/
theorem C03_counterexample_vetoed_stop_signal_then_sigkill :
    hasSig (run (initState c03Veto [{ term := none }] 0) (c03Pre ++ [.wake])).log 100 9 = true ∧
    hasSig (run (initState c03Veto [{ term := none }] 0) (c03Pre ++ [.wake])).log 100 15 = false ∧
    HookCalled (run (initState c03Veto [{ term := none }] 0) c03Pre) 1 "before_signal" := by
  refine ⟨by decide +kernel, by decide +kernel, ?_⟩
  unfold HookCalled
  decide +kernel

/-- the stimuli of the run above are all safe (none brings signal 9 in) -/
theorem stop_safe (name : String) (waiting : Bool) : msgSafe (some (stopReq name waiting)) := by
  intro j nm hj hc
  simp only [Option.some.injEq] at hj
  subst hj
  have : nm = "stop" := by
    simp [stopReq, JVal.get?, List.lookup] at hc
    exact hc.symm
  subst this
  refine ⟨fun h => ?_, fun h => ?_, fun h => ?_, fun h => ?_⟩ <;> exact absurd h (by decide +kernel)

/-- a `kill` request that names signal 15 (and a grace period) is safe too -/
def kill15Req : JVal :=
  .obj [("command", .str "kill"), ("properties", .obj [("name", .str "a"), ("signum", .int 15), ("graceful_timeout", .int 0)])]

example : OpSafe (.req "c" (some kill15Req)) := by
  intro j nm hj hc
  simp only [Option.some.injEq] at hj
  subst hj
  have : nm = "kill" := by
    simp [kill15Req, JVal.get?, List.lookup] at hc
    exact hc.symm
  subst this
  refine ⟨fun h => ?_, fun _ => ?_, fun h => ?_, fun h => ?_⟩
  · exact absurd h (by decide +kernel)
  · decide +kernel
  · exact absurd h (by decide +kernel)
  · exact absurd h (by decide +kernel)

-- `kill` with graceful_timeout 0: stop signal 15 and, in the same step, the SIGKILL — in this order
example : (run (initState c03Cfg [{ term := none }] 0) [.start, .wake, .wake, .req "c" (some kill15Req)]).log.map Obs.isNine =
    [false, false, false, false, false, true, false, false, false] ∧
    hasSig ((run (initState c03Cfg [{ term := none }] 0) [.start, .wake, .wake, .req "c" (some kill15Req)]).log.take 5) 100 15 = true := by
  decide +kernel

example : ∀ op ∈ c03Pre ++ [.wake, .wake], OpSafe op := by
  intro op hop
  simp only [c03Pre, List.cons_append, List.nil_append, List.mem_cons, List.mem_nil_iff, or_false] at hop
  rcases hop with rfl | rfl | rfl | rfl | rfl | rfl
  all_goals first | trivial | exact stop_safe "a" true

-- in that run the SIGKILL entry for 100 exists and the stop signal stands before it
example : (c03Run [.wake, .wake]).log.map Obs.isNine =
    [false, false, false, false, false, true, false, false, false, false, false] ∧
    ((c03Run [.wake, .wake]).log.take 5).any (fun o => match o with | .sig 100 15 _ "" => true | _ => false) = true := by
  decide +kernel

/-- a `signal` request that names signal 9 -/
def sig9Req : JVal :=
  .obj [("command", .str "signal"), ("properties", .obj [("name", .str "a"), ("signum", .int 9)])]

/-- **why requests that name signal 9 are exempt**: they ask for it themselves.  After
    `signal a 9` the log has a SIGKILL for pid 100 that no signal precedes — sent because it was asked
    for, not as an escalation. -/
theorem C03_counterexample_requested_sigkill_is_first :
    hasSig (run (initState c03Cfg [{ term := none }] 0) [.start, .wake, .wake, .req "c" (some sig9Req)]).log 100 9 = true ∧
    hasSig (run (initState c03Cfg [{ term := none }] 0) [.start, .wake, .wake, .req "c" (some sig9Req)]).log 100 15 = false := by
  decide +kernel

/-- one worker that obeys the stop signal after 250 ms, graceful_timeout 300 ms = 3 polls -/
def c03Late : List Watcher := [{ name := "a", np := 1, graceful := 300 }]

/-- **"never to a worker that exited in time" fails in the last polling interval** (the statement of
    the property taken literally; the signal is harmless): `kill_process` polls at 0, 100 and 200 ms, the
    worker exits at 250 ms — before the grace period of 300 ms is over —, and at 300 ms the loop ends by
    count and escalates *without polling again*: SIGKILL goes to the not yet collected (zombie) pid, which
    is then reaped with the wait status of the stop signal (15), not of SIGKILL.  On a POSIX kernel
    `kill(2)` on a zombie succeeds and does nothing.  What holds instead: no SIGKILL to a worker a poll
    has found dead (`C03_no_sigkill_to_exited`), none to a collected one (`C03_run_no_sigkill_to_reaped`).
    Replayed on the real code on the simulated kernel: same trace (`o sig 100 9 z`), corpus case
    `corpus/C03/sigkill-to-zombie-in-last-interval.json`. -/
theorem C03_counterexample_sigkill_to_worker_that_exited_in_time :
    (run (initState c03Late [{ term := some 250 }] 0) (c03Pre ++ [.wake, .wake, .wake])).log.any
      (fun o => match o with | .sig 100 9 .zombie "" => true | _ => false) = true ∧
    (run (initState c03Late [{ term := some 250 }] 0) (c03Pre ++ [.wake, .wake, .wake])).log.any
      (fun o => match o with | .reap 100 15 => true | _ => false) = true ∧
    (run (initState c03Late [{ term := some 250 }] 0) (c03Pre ++ [.wake, .wake])).k.procs.map (fun p => (p.pid, p.st)) =
      [(100, .run)] ∧
    (run (initState c03Late [{ term := some 250 }] 0) (c03Pre ++ [.wake, .wake])).k.now = 200 := by
  decide +kernel

end Circus.Core
