import CircusProofs.Core.Init
import CircusProofs.Core.PidInv
/-!
# C19 — watchers start in priority order, paced by the warmup delays

"At daemon start, and whenever several watchers are started or restarted together, they are started
in descending priority order, each one's workers all spawned before the next watcher begins;
consecutive spawns of one watcher are at least its warmup_delay apart and consecutive watchers at
least the global warmup_delay apart.  Watchers with autostart disabled are left stopped by the
daemon start."

Theorems about `sortWatchers` / `iterWatchers` / `sortUids` (`Arbiter.iter_watchers`), `stepOp .start`
and `execSSR` (who hands which list to `_start_watchers`), `arbStartNext` / `arbStartAfterStart`
(`Arbiter._start_watchers`), `spawnProcesses` / `spawnLoop` (`Watcher.spawn_processes`).  All of them
hold in every state, so also in states in which workers have died during the start-up sequence.
Virtual time is in ms.
-/
namespace Circus.Core

/-! ### `iter_watchers`: a stable sort by priority -/

theorem C19h.insertBy_mem (le : Watcher → Watcher → Bool) (x : Watcher) (l : List Watcher) (y : Watcher) :
    y ∈ insertBy le x l ↔ y = x ∨ y ∈ l :=
  (insertBy_perm le x l).mem_iff.trans List.mem_cons

/-- inserting into a list sorted by a transitive relation `R` that the test `le` decides totally -/
theorem C19h.insertBy_pairwise (le : Watcher → Watcher → Bool) (R : Watcher → Watcher → Prop)
    (htrue : ∀ a b, le a b = true → R a b) (hfalse : ∀ a b, le a b = false → R b a)
    (htrans : ∀ a b c, R a b → R b c → R a c)
    (x : Watcher) (l : List Watcher) (h : l.Pairwise R) : (insertBy le x l).Pairwise R := by
  induction l with
  | nil => simp [insertBy]
  | cons y ys ih =>
    unfold insertBy
    have hy := List.pairwise_cons.mp h
    split
    · rename_i hle
      refine List.pairwise_cons.mpr ⟨?_, h⟩
      intro z hz
      rcases List.mem_cons.mp hz with rfl | hz
      · exact htrue _ _ hle
      · exact htrans _ _ _ (htrue _ _ hle) (hy.1 z hz)
    · rename_i hle
      refine List.pairwise_cons.mpr ⟨?_, ih hy.2⟩
      intro z hz
      rcases (C19h.insertBy_mem le x ys z).mp hz with rfl | hz
      · exact hfalse _ _ (by simpa using hle)
      · exact hy.1 z hz

/-- `x` only jumps over elements that the filter `P` does not keep together with `x`: the filtered
    list does not see the insertion position -/
theorem C19h.insertBy_filter (le : Watcher → Watcher → Bool) (P : Watcher → Bool) (x : Watcher) (l : List Watcher)
    (h : ∀ y, le x y = false → P x = true → P y = false) :
    (insertBy le x l).filter P = (x :: l).filter P := by
  induction l with
  | nil => rfl
  | cons y ys ih =>
    unfold insertBy
    split
    · rfl
    · rename_i hle
      have hle' : le x y = false := by simpa using hle
      rw [List.filter_cons, ih]
      cases hx : P x
      · simp [List.filter_cons, hx]
      · have hy : P y = false := h y hle' hx
        simp [hx, hy]

/-- **descending priority order**: `iter_watchers()` (`reverse=True`) lists the watchers so that each
    one's priority is at least that of every later one — for every list of watchers, ties included. -/
theorem C19_sorted_desc (ws : List Watcher) :
    (sortWatchers ws true).Pairwise (fun a b => a.priority ≥ b.priority) := by
  unfold sortWatchers
  simp only [if_true]
  induction ws with
  | nil => exact List.Pairwise.nil
  | cons w ws ih =>
    simp only [List.foldr_cons]
    apply C19h.insertBy_pairwise _ _ _ _ _ _ _ ih
    · intro a b h; simpa using h
    · intro a b h; simp only [decide_eq_false_iff_not] at h; omega
    · intro a b c h1 h2; omega

/-- **ascending priority order** for `iter_watchers(reverse=False)` (the order of `_stop_watchers`) -/
theorem C19_sorted_asc (ws : List Watcher) :
    (sortWatchers ws false).Pairwise (fun a b => a.priority ≤ b.priority) := by
  unfold sortWatchers
  simp only [Bool.false_eq_true, if_false]
  induction ws with
  | nil => exact List.Pairwise.nil
  | cons w ws ih =>
    simp only [List.foldr_cons]
    apply C19h.insertBy_pairwise _ _ _ _ _ _ _ ih
    · intro a b h; simpa using h
    · intro a b h; simp only [decide_eq_false_iff_not] at h; omega
    · intro a b c h1 h2; omega

/-- **the sort only reorders**: no watcher is lost, invented or duplicated -/
theorem C19_sort_perm (ws : List Watcher) (r : Bool) : (sortWatchers ws r).Perm ws :=
  sortWatchers_perm ws r

/-- **ties keep their configuration order**, in both directions (Python's `sorted(…, reverse=True)`
    is stable and does *not* reverse equal elements): for every priority `p` the watchers of priority
    `p` appear in the sorted list exactly in the order they have in the original list. -/
theorem C19_sort_stable (ws : List Watcher) (r : Bool) (p : Int) :
    (sortWatchers ws r).filter (fun w => w.priority = p) = ws.filter (fun w => w.priority = p) := by
  unfold sortWatchers
  cases r
  · simp only [Bool.false_eq_true, if_false]
    induction ws with
    | nil => rfl
    | cons w ws ih =>
      simp only [List.foldr_cons]
      rw [C19h.insertBy_filter _ _ _ _ (by
        intro y hle hx
        simp only [decide_eq_false_iff_not, decide_eq_true_eq] at hle hx ⊢
        omega), List.filter_cons, ih]
      simp only [List.filter_cons]
  · simp only [if_true]
    induction ws with
    | nil => rfl
    | cons w ws ih =>
      simp only [List.foldr_cons]
      rw [C19h.insertBy_filter _ _ _ _ (by
        intro y hle hx
        simp only [decide_eq_false_iff_not, decide_eq_true_eq] at hle hx ⊢
        omega), List.filter_cons, ih]
      simp only [List.filter_cons]

/-- stability, pairwise form: two watchers of equal priority that both occur in the result occur
    there in an order in which they also occur in the original list (`Sublist` of a two element list) -/
theorem C19_sort_stable_pair (ws : List Watcher) (r : Bool) (a b : Watcher) (hp : a.priority = b.priority)
    (h : [a, b].Sublist (sortWatchers ws r)) : [a, b].Sublist ws := by
  have h1 : ([a, b].filter (fun w => decide (w.priority = a.priority))).Sublist
      ((sortWatchers ws r).filter (fun w => decide (w.priority = a.priority))) := h.filter _
  rw [C19_sort_stable] at h1
  have h2 : [a, b].filter (fun w => decide (w.priority = a.priority)) = [a, b] := by
    simp [hp]
  rw [h2] at h1
  exact h1.trans List.filter_sublist

/-! ### who is handed which list -/

/-- `iter_watchers(reverse)` = uids of the registered watcher objects, sorted -/
theorem C19h.iterWatchers_eq (r : Bool) (s : State) :
    iterWatchers r s = ((sortWatchers (registered s).1 r).map (·.uid), s) := rfl

theorem C19h.sortUids_eq (us : List Nat) (r : Bool) (s : State) :
    sortUids us r s = ((sortWatchers (us.filterMap fun u => s.ws.find? (·.uid = u)) r).map (·.uid), s) := rfl

/-- a watcher object found on the heap under a uid is what `getW` returns for its own uid -/
theorem C19h.getW_of_find (s : State) (u : Nat) (w : Watcher) (h : s.ws.find? (·.uid = u) = some w) :
    (getW w.uid s).1 = w := by
  have hu : w.uid = u := by simpa using List.find?_some h
  simp only [getW, hu, h, Option.getD_some]

/-- the uid list `l = (sortWatchers ws r).map uid` is ordered by the priorities the watcher objects
    have in state `s`, whenever every member of `ws` is the heap object of its uid -/
theorem C19h.uids_sorted (s : State) (ws : List Watcher) (hws : ∀ w ∈ ws, (getW w.uid s).1 = w) :
    ((sortWatchers ws true).map (·.uid)).Pairwise
        (fun a b => (getW a s).1.priority ≥ (getW b s).1.priority) ∧
    ((sortWatchers ws false).map (·.uid)).Pairwise
        (fun a b => (getW a s).1.priority ≤ (getW b s).1.priority) := by
  constructor
  · rw [List.pairwise_map]
    refine (C19_sorted_desc ws).imp_of_mem ?_
    intro a b ha hb hab
    rw [hws a ((sortWatchers_perm ws true).mem_iff.mp ha), hws b ((sortWatchers_perm ws true).mem_iff.mp hb)]
    exact hab
  · rw [List.pairwise_map]
    refine (C19_sorted_asc ws).imp_of_mem ?_
    intro a b ha hb hab
    rw [hws a ((sortWatchers_perm ws false).mem_iff.mp ha), hws b ((sortWatchers_perm ws false).mem_iff.mp hb)]
    exact hab

theorem C19h.registered_heap (s : State) : ∀ w ∈ (registered s).1, (getW w.uid s).1 = w := by
  intro w hw
  have hw' : w ∈ s.a.watchers.filterMap fun u => s.ws.find? (·.uid = u) := hw
  obtain ⟨u, _, hu⟩ := List.mem_filterMap.mp hw'
  exact C19h.getW_of_find s u w hu

/-- **`iter_watchers()` is in descending priority order of the live watcher objects** (and
    `iter_watchers(reverse=False)` ascending): stated on the uid list that is actually handed on, the
    priority being the one the watcher object with that uid has in the current state. -/
theorem C19_iter_watchers_sorted (s : State) :
    (iterWatchers true s).1.Pairwise (fun a b => (getW a s).1.priority ≥ (getW b s).1.priority) ∧
    (iterWatchers false s).1.Pairwise (fun a b => (getW a s).1.priority ≤ (getW b s).1.priority) :=
  C19h.uids_sorted s _ (C19h.registered_heap s)

/-- … and it lists exactly the registered watchers (as a permutation: nobody twice, nobody missing) -/
theorem C19_iter_watchers_perm (r : Bool) (s : State) :
    (iterWatchers r s).1.Perm ((registered s).1.map (·.uid)) :=
  (sortWatchers_perm _ r).map _

/-- same for the several-names case of `start`/`restart` (`sortUids`) -/
theorem C19_sort_uids_sorted (us : List Nat) (s : State) :
    (sortUids us true s).1.Pairwise (fun a b => (getW a s).1.priority ≥ (getW b s).1.priority) ∧
    (sortUids us false s).1.Pairwise (fun a b => (getW a s).1.priority ≤ (getW b s).1.priority) := by
  apply C19h.uids_sorted
  intro w hw
  obtain ⟨u, _, hu⟩ := List.mem_filterMap.mp hw
  exact C19h.getW_of_find s u w hu

/-- **daemon start**: the `start` stimulus (`Arbiter.start` → `start_watchers`) hands
    `iter_watchers()` — all registered watchers in descending priority order
    (`C19_iter_watchers_sorted`) — to `_start_watchers`, under the `arbiter_start_watchers` lock. -/
theorem C19_start_uses_priority_order (s : State) :
    stepOp .start s =
      (do clearDone
          let r ← syncCoroutine "arbiter_start_watchers" (.arbStartWatchers (iterWatchers true s).1) []
          match r with
          | .error _ => emit .conflict
          | .ok tid => addDoneCallback tid .watch : M Unit) s := rfl

/-- … and `_start_watchers(ws)` is the sequential loop `arbStartNext` over exactly that list -/
theorem C19_start_watchers_is_loop (rec : Rec) (ws : List Nat) (wt : Waiter) :
    runCall rec (.arbStartWatchers ws) wt = arbStartNext rec ws wt := rfl

/-- **`start` request without a name**: all registered watchers, descending priority order -/
theorem C19_start_cmd_uses_priority_order (props : JVal) (s : State) (hn : props.has "name" = false) :
    execSSR "start" props s =
      ((syncCoroutine "arbiter_start_watchers" (.arbStartWatchers (iterWatchers true s).1) [] s).1.map
          (fun tid => ExecRes.future tid ""),
       (syncCoroutine "arbiter_start_watchers" (.arbStartWatchers (iterWatchers true s).1) [] s).2) := by
  unfold execSSR
  simp only [bind]
  erw [if_neg (by simp [hn])]
  rfl

/-- **`restart` request without a name** restarts the whole daemon (`Arbiter.restart(inside_circusd=True)`):
    every watcher is stopped (ascending order), the loop is left, and the watchers come back through
    the daemon start, i.e. `C19_start_uses_priority_order`. -/
theorem C19_restart_cmd_all (props : JVal) (s : State) (hn : props.has "name" = false) :
    execSSR "restart" props s =
      ((syncCoroutine "arbiter_restart" .arbRestartInside [] s).1.map (fun tid => ExecRes.future tid ""),
       (syncCoroutine "arbiter_restart" .arbRestartInside [] s).2) := by
  unfold execSSR
  simp only [bind]
  erw [if_neg (by simp [hn])]
  rfl

/-- **several matched names** (glob): `start` hands the matched watchers sorted descending
    (`sortUids us true`, see `C19_sort_uids_sorted`) to `_start_watchers`; `restart` stops them in
    ascending order and then starts them in descending order. -/
theorem C19_start_cmd_several (kind : String) (props : JVal) (s : State) (u1 u2 : Nat) (us : List Nat)
    (hn : props.has "name" = true) (hm : (matchWatchers props s).1 = .ok (u1 :: u2 :: us)) :
    let desc := (sortUids (u1 :: u2 :: us) true (matchWatchers props s).2).1
    let asc := (sortUids (u1 :: u2 :: us) false (matchWatchers props s).2).1
    let call : String × Call :=
      if kind = "start" then ("arbiter_start_watchers", .arbStartWatchers desc)
      else if kind = "stop" then ("arbiter_stop_watchers", .arbStopWatchers asc false)
      else ("arbiter_restart", .arbRestart asc desc)
    execSSR kind props s =
      ((syncCoroutine call.1 call.2 [] (matchWatchers props s).2).1.map (fun tid => ExecRes.future tid ""),
       (syncCoroutine call.1 call.2 [] (matchWatchers props s).2).2) := by
  unfold execSSR
  simp only [bind]
  erw [if_pos hn]
  generalize matchWatchers props s = r at hm ⊢
  obtain ⟨res, s1⟩ := r
  simp only at hm
  subst hm
  dsimp only
  by_cases hk : kind = "start"
  · erw [if_pos hk]
    simp only [if_pos hk]
    rfl
  · by_cases hk2 : kind = "stop"
    · erw [if_neg hk, if_pos hk2]
      simp only [if_neg hk, if_pos hk2]
      rfl
    · erw [if_neg hk, if_neg hk2]
      simp only [if_neg hk, if_neg hk2]
      rfl

/-- `restart` of several watchers: `_stop_watchers` (ascending), then `_start_watchers` on the
    descending list -/
theorem C19_restart_several_then_start (rec : Rec) (asc desc : List Nat) (wt : Waiter) (v : Val) (hv : isExc v = false) :
    runCall rec (.arbRestart asc desc) wt = await rec (.arbStopWatchers asc false) (.arbRestartAfterStop desc) wt ∧
    runResume rec (.arbRestartAfterStop desc) v wt = await rec (.arbStartWatchers desc) .ignore wt := by
  refine ⟨rfl, ?_⟩
  cases v <;> first | rfl | simp [isExc] at hv

/-! ### `_start_watchers`: one watcher after the other -/

/-- what `yield child` does: a frame holding the continuation `k` is parked, the child runs with that
    frame as its only waiter; nothing of `k` runs before the child delivers to the frame -/
theorem C19h.await_eq (rec : Rec) (c : Call) (k : Kont) (wt : Waiter) (s : State) :
    await rec c k wt s =
      armFrame s.nextId
        (rec (.call c (.frame s.nextId 0))
          (pushFrame { fid := s.nextId, k := k, parent := wt } (freshId s).2).2).2 := rfl

/-- **one watcher at a time**: for a watcher with autostart, `_start_watchers` awaits its `_start()`;
    the rest of the list is only stored in the continuation `arbStartAfterStart rest` of the parked
    frame (`C19h.await_eq`) — no other watcher is touched until `_start` of this one has delivered.  And
    `_start` itself (`C19_start_awaits_spawn`) delivers only after `spawn_processes` has. -/
theorem C19_sequential (rec : Rec) (w : Nat) (rest : List Nat) (wt : Waiter) (s : State)
    (ha : (getW w s).1.autostart = true) :
    arbStartNext rec (w :: rest) wt s = await rec (.start_ w) (.arbStartAfterStart rest) wt s ∧
    runCall rec (.start_ w) = startW rec w ∧
    (∀ v, isExc v = false → runResume rec (.arbStartAfterStart rest) v wt = arbStartAfterStart rec rest wt) := by
  refine ⟨?_, rfl, ?_⟩
  · unfold arbStartNext
    simp only [bind]
    erw [if_pos ha]
    rfl
  · intro v hv
    cases v <;> first | rfl | simp [isExc] at hv

/-- an exception out of `_start` ends `_start_watchers`: the remaining watchers are not started -/
theorem C19_sequential_exception (rec : Rec) (rest : List Nat) (wt : Waiter) (e : Exc) :
    runResume rec (.arbStartAfterStart rest) (.exc e) wt = deliver rec wt (.exc e) := rfl

/-- `Watcher._start` of a stopped watcher whose `before_start` hook agrees: status `starting`, stale
    processes reaped, then it awaits `spawn_processes`; its own completion (`startAfterSpawn`) is the
    continuation of that await -/
theorem C19_start_awaits_spawn (rec : Rec) (u : Nat) (wt : Waiter) (s : State)
    (hp : (pendingSocketEvent u s).1 = false)
    (hst : (getW u s).1.status = .stopped) (hr : (callHook u "before_start" s).1 = true) :
    startW rec u wt s =
      await rec (.spawnProcesses u) (.startAfterSpawn u) wt
        (reapProcesses u (setStatus u .starting (callHook u "before_start" s).2).2).2 ∧
    runCall rec (.spawnProcesses u) = spawnProcesses rec u := by
  refine ⟨?_, rfl⟩
  unfold startW
  simp only [bind]
  have h0 : ¬ ((pendingSocketEvent u s).1 = true) := by simp [hp]
  erw [if_neg h0]
  have hs0 : (pendingSocketEvent u s).2 = s := rfl
  simp only [hs0]
  have h1 : ¬ ((getW u s).1.status ≠ Status.stopped) := by simp [hst]
  erw [if_neg h1]
  have h2 : ¬ ((!(callHook u "before_start" (getW u s).snd).fst) = true) := by
    have : (getW u s).snd = s := rfl
    rw [this, hr]; simp
  erw [if_neg h2]
  rfl

/-- **autostart disabled: left alone**: `_start_watchers` does nothing at all for such a watcher — no
    hook, no status change, no spawn, no sleep; the state is handed unchanged to the iteration over
    the rest of the list. -/
theorem C19_autostart_false_skipped (rec : Rec) (w : Nat) (rest : List Nat) (wt : Waiter) (s : State)
    (ha : (getW w s).1.autostart = false) :
    arbStartNext rec (w :: rest) wt s = rec (.resume (.arbStartAfterSleep rest) .unit wt) s ∧
    runResume rec (.arbStartAfterSleep rest) .unit wt = arbStartNext rec rest wt := by
  refine ⟨?_, rfl⟩
  unfold arbStartNext
  simp only [bind]
  erw [if_neg (by simp [ha])]
  rfl

/-- … with the real interpreter: the very next thing is the iteration over `rest`, in the same state -/
theorem C19_autostart_false_skipped_exec (fuel : Nat) (w : Nat) (rest : List Nat) (wt : Waiter) (s : State)
    (ha : (getW w s).1.autostart = false) (hb : s.blocked = false) :
    arbStartNext (exec (fuel + 1)) (w :: rest) wt s = arbStartNext (exec fuel) rest wt s := by
  rw [(C19_autostart_false_skipped _ w rest wt s ha).1]
  show exec (fuel + 1) _ s = _
  unfold exec
  simp only [bind, getS]
  erw [if_neg (by simp [hb])]
  rfl

/-- the end of the list: `_start_watchers` returns -/
theorem C19_start_watchers_done (rec : Rec) (wt : Waiter) : arbStartNext rec [] wt = deliver rec wt .unit := rfl

/-! ### the global warmup delay between two watchers -/

/-- what `yield tornado_sleep(ms)` does: one parked (armed) frame with the continuation, one timer due
    `ms` after now that wakes this frame; nothing else changes, nothing else runs -/
theorem C19h.awaitSleep_eq (ms : Nat) (k : Kont) (wt : Waiter) (s : State) :
    awaitSleep ms k wt s =
      ((), { s with
        frames := (s.frames ++ [({ fid := s.nextId, k := k, parent := wt } : Frame)]).map
                    (fun (g : Frame) => if g.fid = s.nextId then { g with armed := true } else g),
        sleepers := s.sleepers ++ [{ sid := s.nextId + 1, deadline := s.k.now + ms, waiter := .frame s.nextId 0 }],
        nextId := s.nextId + 2 }) := rfl

/-- **consecutive watchers are at least the global warmup_delay apart**: after `_start()` of one watcher
    has delivered, `_start_watchers` registers exactly one timer, due exactly `warmup_delay` (the
    arbiter's) after now, and suspends; kernel, watchers, log and ready queue are untouched.  Only the
    firing of that timer resumes the loop (`runResume … arbStartAfterSleep = arbStartNext rest`): the
    next watcher's `_start` begins no earlier than `now + warmup_delay`. -/
theorem C19_global_warmup_between_watchers (rec : Rec) (rest : List Nat) (wt : Waiter) (s : State) :
    let s1 := (arbStartAfterStart rec rest wt s).2
    s1.sleepers = s.sleepers ++
      [{ sid := s.nextId + 1, deadline := s.k.now + s.a.warmup, waiter := .frame s.nextId 0 }] ∧
    s1.frames = (s.frames ++ [({ fid := s.nextId, k := .arbStartAfterSleep rest, parent := wt } : Frame)]).map
                    (fun (g : Frame) => if g.fid = s.nextId then { g with armed := true } else g) ∧
    s1.k = s.k ∧ s1.ws = s.ws ∧ s1.objs = s.objs ∧ s1.log = s.log ∧ s1.ready = s.ready ∧ s1.a = s.a ∧
    s1.tops = s.tops ∧
    (∀ v, runResume rec (.arbStartAfterSleep rest) v wt =
        match v with | .exc e => deliver rec wt (.exc e) | _ => arbStartNext rec rest wt) := by
  refine ⟨rfl, rfl, rfl, rfl, rfl, rfl, rfl, rfl, rfl, ?_⟩
  intro v
  cases v <;> rfl

/-! ### `spawn_processes`: pacing by the watcher's warmup delay -/

/-- truncated subtraction never shortens the distance: sleeping `d - (now - t)` from `now` ends no
    earlier than `t + d`, and exactly at `t + d` when no more than `d` has already passed -/
theorem C19h.warmup_arith (t now d : Nat) (h : t ≤ now) :
    now + (d - (now - t)) ≥ t + d ∧ (now - t ≤ d → now + (d - (now - t)) = t + d) := by
  omega

/-- the four ways one round of `spawn_processes` can go -/
theorem C19h.spawnLoop_succ (rec : Rec) (u rem : Nat) (wt : Waiter) (s : State) :
    spawnLoop rec u (rem + 1) wt s =
      match (spawnProcess rec u s).1 with
      | .raised e => deliver rec wt (excVal e) (spawnProcess rec u s).2
      | .rFalse => await rec (.stop_ u false) .spawnAfterStop wt (spawnProcess rec u s).2
      | .rTrue => awaitSleep (getW u (spawnProcess rec u s).2).1.warmup (.spawnLoop u rem) wt (spawnProcess rec u s).2
      | .started t =>
        awaitSleep ((getW u (spawnProcess rec u s).2).1.warmup - ((spawnProcess rec u s).2.k.now - t))
          (.spawnLoop u rem) wt (spawnProcess rec u s).2 := by
  unfold spawnLoop
  simp only [bind]
  generalize spawnProcess rec u s = r
  obtain ⟨res, s1⟩ := r
  cases res <;> rfl

/-- **consecutive spawns of one watcher are at least its warmup_delay apart**: after a spawn at time
    `t` the loop suspends on exactly one timer, due at `now + (warmup_delay - (now - t))`, which is no
    earlier than `t + warmup_delay` (and exactly that when `now - t ≤ warmup_delay`); the next
    `spawn_process` happens only when this timer fires (continuation `spawnLoop u rem`). -/
theorem C19_spawn_pacing (rec : Rec) (u rem : Nat) (wt : Waiter) (s : State) (t : Nat)
    (hres : (spawnProcess rec u s).1 = .started t) :
    let s1 := (spawnProcess rec u s).2
    let w := (getW u s1).1
    let s2 := (spawnLoop rec u (rem + 1) wt s).2
    s2.sleepers = s1.sleepers ++
      [{ sid := s1.nextId + 1, deadline := s1.k.now + (w.warmup - (s1.k.now - t)), waiter := .frame s1.nextId 0 }] ∧
    s2.frames = (s1.frames ++ [({ fid := s1.nextId, k := .spawnLoop u rem, parent := wt } : Frame)]).map
                    (fun (g : Frame) => if g.fid = s1.nextId then { g with armed := true } else g) ∧
    s2.k = s1.k ∧ s2.ws = s1.ws ∧ s2.objs = s1.objs ∧ s2.log = s1.log ∧
    (t ≤ s1.k.now → s1.k.now + (w.warmup - (s1.k.now - t)) ≥ t + w.warmup) ∧
    (t ≤ s1.k.now → s1.k.now - t ≤ w.warmup → s1.k.now + (w.warmup - (s1.k.now - t)) = t + w.warmup) ∧
    runResume rec (.spawnLoop u rem) .unit wt = spawnLoop rec u rem wt := by
  intro s1 w s2
  have h := C19h.spawnLoop_succ rec u rem wt s
  rw [hres] at h
  simp only at h
  have hs2 : s2 = (awaitSleep (w.warmup - (s1.k.now - t)) (.spawnLoop u rem) wt s1).2 := by
    show (spawnLoop rec u (rem + 1) wt s).2 = _
    rw [h]
  rw [hs2, C19h.awaitSleep_eq]
  refine ⟨rfl, rfl, rfl, rfl, rfl, rfl, ?_, ?_, rfl⟩
  · intro h1; exact (C19h.warmup_arith t s1.k.now w.warmup h1).1
  · intro h1 h2; exact (C19h.warmup_arith t s1.k.now w.warmup h1).2 h2

/-! ### the hypothesis `t ≤ now` of the pacing theorem always holds -/

theorem C19h.notify_kernel (u : Nat) (topic : String) (pid : Option Nat) (x : String) (s : State) :
    (notify u topic pid x s).2.k = s.k := by
  unfold notify
  simp only [bind, getA, getW]
  by_cases hp : s.a.pubClosed = true
  · erw [if_pos hp]; rfl
  · erw [if_neg hp]
    simp only [emitEv, modS]
    split <;> rfl

theorem C19h.callHook_kernel (u : Nat) (h : String) (s : State) : (callHook u h s).2.k = s.k := by
  unfold callHook
  simp only [bind]
  cases hl : List.lookup h (getW u s).1.hooks with
  | none => rfl
  | some spec =>
    simp only
    by_cases ho : spec.outs.getD ((List.lookup h (getW u s).fst.hookCalls).getD 0 %
                        if spec.outs.length = 0 then 1 else spec.outs.length) "true" = "raise"
    · erw [if_pos ho]
      simp only [pure]
      rw [C19h.notify_kernel]; rfl
    · erw [if_neg ho]
      simp only [pure]
      rw [C19h.notify_kernel]; rfl

/-- `spawnAdopt` writes the kernel only through `Popen()` -/
theorem C19h.spawnAdopt_kernel (u wid : Nat) (s : State) : (spawnAdopt u wid s).2.k = (s.k.spawn).1 := by
  unfold spawnAdopt
  simp only
  cases s.k.spawn with
  | mk k' r => cases r <;> rfl

theorem C19h.spawnTry_started_le (rec : Rec) (u n : Nat) (s : State) (t : Nat)
    (h : (spawnTry rec u n s).1 = .started t) : s.k.now ≤ t ∧ t ≤ (spawnTry rec u n s).2.k.now := by
  induction n generalizing s with
  | zero => simp [spawnTry, pure] at h
  | succ n ih =>
    unfold spawnTry at h ⊢
    simp only [bind] at h ⊢
    cases hw : nextWid (getW u s).1.np (usedWids u (getW u s).2).1 with
    | none =>
      simp only [hw] at h
      simp [pure] at h
    | some wid =>
      simp only [hw] at h ⊢
      have hk : (spawnAdopt u wid (nowMs (usedWids u (getW u s).snd).snd).snd).2.k.now ≥ s.k.now := by
        rw [C19h.spawnAdopt_kernel]; exact spawn_now_le s.k
      have hn : (nowMs (usedWids u (getW u s).snd).snd).fst = s.k.now := rfl
      generalize spawnAdopt u wid (nowMs (usedWids u (getW u s).snd).snd).snd = r at h hk ⊢
      obtain ⟨p, s1⟩ := r
      cases p with
      | none =>
        obtain ⟨h1, h2⟩ := ih s1 h
        exact ⟨Nat.le_trans hk h1, h2⟩
      | some pid =>
        simp only at h hk ⊢
        by_cases hr : (!(callHook u "after_spawn" s1).fst) = true
        · erw [if_pos hr] at h
          simp [pure] at h
        · erw [if_neg hr] at h
          erw [if_neg hr]
          simp only [pure] at h ⊢
          rw [C19h.notify_kernel, C19h.callHook_kernel]
          injection h with h
          rw [hn] at h
          subst h
          exact ⟨Nat.le_refl _, hk⟩

/-- **the start time `spawn_process` reports is no later than the current (virtual) time** (and no
    earlier than the time at which `spawn_process` was entered): `process.started` is read before
    the fork, and inside `spawn_process` the kernel clock only moves forward (a kernel-call boundary
    keeps it, a successful `Popen()` adds the time the fork/exec took, hooks and `notify` do not
    touch the kernel), so the hypothesis `t ≤ now` of `C19_spawn_pacing` always holds.

    (Restated: before the model charged time for the fork this read `t = now`; with
    `Behav.spawnMs > 0` that is no longer true — the clock may be later than `started`.) -/
theorem C19_spawn_started_now (rec : Rec) (u : Nat) (s : State) (t : Nat)
    (h : (spawnProcess rec u s).1 = .started t) :
    s.k.now ≤ t ∧ t ≤ (spawnProcess rec u s).2.k.now := by
  unfold spawnProcess at h ⊢
  simp only [bind] at h ⊢
  by_cases hst : (getW u s).1.status = Status.stopped
  · erw [if_pos hst] at h
    simp [pure] at h
  · erw [if_neg hst] at h
    erw [if_neg hst]
    by_cases hr : (!(callHook u "before_spawn" (getW u s).snd).fst) = true
    · erw [if_pos hr] at h
      simp [pure] at h
    · erw [if_neg hr] at h
      erw [if_neg hr]
      have h0 := C19h.spawnTry_started_le _ _ _ _ _ h
      rw [C19h.callHook_kernel] at h0
      exact h0

/-- the pacing theorem when the spawn took no longer than the warmup delay (`now - t ≤
    warmup_delay`, in particular whenever the fork takes no time): the timer after a spawn at `t` is
    due exactly at `t + warmup_delay`.

    (Restated: the hypothesis `hfast` is new; since the model charges `Behav.spawnMs` for the fork,
    a spawn slower than the warmup delay is possible — see `C19_spawn_pacing_slow_spawn`.) -/
theorem C19_spawn_pacing_exact (rec : Rec) (u rem : Nat) (wt : Waiter) (s : State) (t : Nat)
    (hres : (spawnProcess rec u s).1 = .started t)
    (hfast : (spawnProcess rec u s).2.k.now - t ≤ (getW u (spawnProcess rec u s).2).1.warmup) :
    let s1 := (spawnProcess rec u s).2
    (spawnLoop rec u (rem + 1) wt s).2.sleepers = s1.sleepers ++
      [{ sid := s1.nextId + 1, deadline := t + (getW u s1).1.warmup, waiter := .frame s1.nextId 0 }] := by
  intro s1
  have ht := (C19_spawn_started_now rec u s t hres).2
  rw [(C19_spawn_pacing rec u rem wt s t hres).1]
  have : s1.k.now + ((getW u s1).1.warmup - (s1.k.now - t)) = t + (getW u s1).1.warmup := by
    have h1 : t ≤ s1.k.now := ht
    have h2 : s1.k.now - t ≤ (getW u s1).1.warmup := hfast
    omega
  rw [this]

/-- the other case: the spawn took at least as long as the warmup delay (`warmup_delay ≤ now - t`).
    The pause is 0: the timer is due right now, and now is already no earlier than
    `t + warmup_delay`.  Together with `C19_spawn_pacing_exact`: in all cases the next spawn is
    scheduled no earlier than `warmup_delay` after the `started` time of this one. -/
theorem C19_spawn_pacing_slow_spawn (rec : Rec) (u rem : Nat) (wt : Waiter) (s : State) (t : Nat)
    (hres : (spawnProcess rec u s).1 = .started t)
    (hslow : (getW u (spawnProcess rec u s).2).1.warmup ≤ (spawnProcess rec u s).2.k.now - t) :
    let s1 := (spawnProcess rec u s).2
    (spawnLoop rec u (rem + 1) wt s).2.sleepers = s1.sleepers ++
      [{ sid := s1.nextId + 1, deadline := s1.k.now, waiter := .frame s1.nextId 0 }] ∧
    t + (getW u s1).1.warmup ≤ s1.k.now := by
  intro s1
  have ht : t ≤ s1.k.now := (C19_spawn_started_now rec u s t hres).2
  have h2 : (getW u s1).1.warmup ≤ s1.k.now - t := hslow
  rw [(C19_spawn_pacing rec u rem wt s t hres).1]
  have : s1.k.now + ((getW u s1).1.warmup - (s1.k.now - t)) = s1.k.now := by omega
  rw [this]
  exact ⟨rfl, by omega⟩

/-- **consecutive spawns of one watcher are at least `warmup_delay` apart, unconditionally**: the
    single timer on which the loop parks after a spawn reported at `t` is due no earlier than
    `t + warmup_delay`, however long the fork took. -/
theorem C19_spawn_pacing_all_cases (rec : Rec) (u rem : Nat) (wt : Waiter) (s : State) (t : Nat)
    (hres : (spawnProcess rec u s).1 = .started t) :
    let s1 := (spawnProcess rec u s).2
    ∃ d, (spawnLoop rec u (rem + 1) wt s).2.sleepers = s1.sleepers ++
        [{ sid := s1.nextId + 1, deadline := d, waiter := .frame s1.nextId 0 }] ∧
      t + (getW u s1).1.warmup ≤ d ∧ s1.k.now ≤ d := by
  intro s1
  have ht : t ≤ s1.k.now := (C19_spawn_started_now rec u s t hres).2
  refine ⟨_, (C19_spawn_pacing rec u rem wt s t hres).1, ?_, ?_⟩
  · exact (C19h.warmup_arith t s1.k.now (getW u s1).1.warmup ht).1
  · exact Nat.le_add_right _ _

/-- `spawn_process` on a watcher that has meanwhile been stopped returns True without spawning
    (`C02_stopped_no_spawn`); `spawn_processes` then still sleeps the full warmup delay -/
theorem C19_spawn_pacing_stopped (rec : Rec) (u rem : Nat) (wt : Waiter) (s : State)
    (hres : (spawnProcess rec u s).1 = .rTrue) :
    let s1 := (spawnProcess rec u s).2
    (spawnLoop rec u (rem + 1) wt s).2.sleepers = s1.sleepers ++
      [{ sid := s1.nextId + 1, deadline := s1.k.now + (getW u s1).1.warmup, waiter := .frame s1.nextId 0 }] := by
  intro s1
  have h := C19h.spawnLoop_succ rec u rem wt s
  rw [hres] at h
  simp only at h
  rw [h, C19h.awaitSleep_eq]

/-- **each one's workers are all spawned before `spawn_processes` returns**: with `n = numprocesses −
    len(processes) > 0` missing workers it runs the loop with counter `n`; the loop delivers its
    normal result only at counter 0 (`spawnLoop … 0`); at a counter `rem + 1` it either raises (the
    exception goes to the waiter), or stops the watcher (`spawn_process` returned False → `_stop`), or
    parks itself on a timer with the continuation "counter `rem`" — it never delivers `.unit` early. -/
theorem C19_all_spawned_before_return (rec : Rec) (u : Nat) (wt : Waiter) (s : State)
    (hp : (pendingSocketEvent u s).1 = false) :
    (let w := (getW u s).1
     spawnProcesses rec u wt s =
      if w.np - (w.pids.length : Int) ≤ 0 then deliver rec wt .unit s
      else spawnLoop rec u (w.np - (w.pids.length : Int)).toNat wt s) ∧
    spawnLoop rec u 0 wt = deliver rec wt .unit ∧
    (∀ rem,
      spawnLoop rec u (rem + 1) wt s =
        match (spawnProcess rec u s).1 with
        | .raised e => deliver rec wt (excVal e) (spawnProcess rec u s).2
        | .rFalse => await rec (.stop_ u false) .spawnAfterStop wt (spawnProcess rec u s).2
        | .rTrue => awaitSleep (getW u (spawnProcess rec u s).2).1.warmup (.spawnLoop u rem) wt (spawnProcess rec u s).2
        | .started t =>
          awaitSleep ((getW u (spawnProcess rec u s).2).1.warmup - ((spawnProcess rec u s).2.k.now - t))
            (.spawnLoop u rem) wt (spawnProcess rec u s).2) ∧
    (∀ rem, runResume rec (.spawnLoop u rem) .unit wt = spawnLoop rec u rem wt) := by
  refine ⟨?_, rfl, fun rem => C19h.spawnLoop_succ rec u rem wt s, fun _ => rfl⟩
  intro w
  unfold spawnProcesses
  simp only [bind]
  have h0 : ¬ ((pendingSocketEvent u s).1 = true) := by simp [hp]
  erw [if_neg h0]
  have hs0 : (pendingSocketEvent u s).2 = s := rfl
  simp only [hs0]
  by_cases h : w.np - (w.pids.length : Int) ≤ 0
  · rw [if_pos h]; erw [if_pos h]; rfl
  · rw [if_neg h]; erw [if_neg h]; rfl

/-! ### non-vacuity: three watchers with priorities 1, 5, 1 (a tie), the third without autostart -/

def c19cfg : List Watcher :=
  [{ name := "a", priority := 1, np := 2, warmup := 300 }, { name := "b", priority := 5 },
   { name := "c", priority := 1, autostart := false }]
/-- the daemon right after `initialize()`, global warmup delay 500 ms -/
def c19s0 : State := initState c19cfg [] 500
/-- … and with watcher 1 in status `starting` (inside its `_start`) -/
def c19s1 : State := (setStatus 1 .starting c19s0).2
def c19props : JVal := .obj [("name", .str "*")]
/-- the same with a kernel whose fork takes 100 ms (less than watcher 1's warmup delay of 300 ms) … -/
def c19fast : State := (setStatus 1 .starting (initState c19cfg [{ spawnMs := 100 }] 500)).2
/-- … and 400 ms (more than the warmup delay) -/
def c19slow : State := (setStatus 1 .starting (initState c19cfg [{ spawnMs := 400 }] 500)).2

@[instance_reducible] def C19h.decR (a b : Except Exc (List Nat)) : Decidable (a = b) :=
  match a, b with
  | .ok x, .ok y => if h : x = y then isTrue (by rw [h]) else isFalse (by intro h'; injection h' with h'; exact h h')
  | .error x, .error y => if h : x = y then isTrue (by rw [h]) else isFalse (by intro h'; injection h' with h'; exact h h')
  | .ok _, .error _ => isFalse (by intro h; cases h)
  | .error _, .ok _ => isFalse (by intro h; cases h)
attribute [local instance] C19h.decR

-- descending: 5 first, then the two watchers of priority 1 in configuration order (stable, not reversed)
example : (sortWatchers (assignUids c19cfg 1) true).map (·.uid) = [2, 1, 3] := by decide +kernel
example : (sortWatchers (assignUids c19cfg 1) false).map (·.uid) = [1, 3, 2] := by decide +kernel
example : (iterWatchers true c19s0).1 = [2, 1, 3] ∧ (iterWatchers false c19s0).1 = [1, 3, 2] := by decide +kernel
-- hypotheses of C19_sequential / C19_autostart_false_skipped(_exec)
example : (getW 2 c19s0).1.autostart = true ∧ (getW 3 c19s0).1.autostart = false ∧ c19s0.blocked = false := by
  decide +kernel
-- hypotheses of C19_start_cmd_uses_priority_order / C19_restart_cmd_all / C19_start_cmd_several
example : (JVal.obj []).has "name" = false ∧ c19props.has "name" = true := by decide +kernel
example : (matchWatchers c19props c19s0).1 = .ok [2, 1, 3] := by decide +kernel
example := C19_start_cmd_several "restart" c19props c19s0 2 1 [3] (by decide +kernel) (by decide +kernel)
-- hypotheses of C19_start_awaits_spawn
example : (getW 1 c19s0).1.status = .stopped ∧ (callHook 1 "before_start" c19s0).1 = true := by decide +kernel
-- hypotheses of C19_spawn_pacing / C19_spawn_pacing_exact / C19_spawn_started_now: a spawn that succeeds at t = 0
example : (spawnProcess (exec 10) 1 c19s1).1 = .started 0 := by rfl
example := C19_spawn_pacing_exact (exec 10) 1 1 .none c19s1 0 (by rfl) (by decide +kernel)
-- a fork that takes 100 ms (< warmup 300): started 0, clock 100, the timer is due at 0 + 300
example : (spawnProcess (exec 10) 1 c19fast).1 = .started 0 ∧ (spawnProcess (exec 10) 1 c19fast).2.k.now = 100 ∧
    ((spawnLoop (exec 10) 1 2 .none c19fast).2.sleepers.map (·.deadline)) = [300] :=
  ⟨by rfl, by decide +kernel, by decide +kernel⟩
example := C19_spawn_pacing_exact (exec 10) 1 1 .none c19fast 0 (by rfl) (by decide +kernel)
-- hypotheses of C19_spawn_pacing_slow_spawn: a fork that takes 400 ms (> warmup 300): started 0, clock
-- 400, the pause is 0 — the timer is due at 400 ≥ 0 + 300
example : (spawnProcess (exec 10) 1 c19slow).1 = .started 0 ∧ (spawnProcess (exec 10) 1 c19slow).2.k.now = 400 ∧
    ((spawnLoop (exec 10) 1 2 .none c19slow).2.sleepers.map (·.deadline)) = [400] :=
  ⟨by rfl, by decide +kernel, by decide +kernel⟩
example := C19_spawn_pacing_slow_spawn (exec 10) 1 1 .none c19slow 0 (by rfl) (by decide +kernel)
example := C19_spawn_pacing_all_cases (exec 10) 1 1 .none c19slow 0 (by rfl)
-- hypothesis of C19_spawn_pacing_stopped: the watcher has been stopped in the meantime
example : (spawnProcess (exec 10) 1 c19s0).1 = .rTrue := by rfl
-- the arithmetic: spawn at 1000, now 1100, warmup 300 → due at 1300; warmup 50 → due now (1100 ≥ 1050)
example : 1100 + (300 - (1100 - 1000)) = 1000 + 300 ∧ 1100 + (50 - (1100 - 1000)) ≥ 1000 + 50 := by decide
-- C19_restart_several_then_start: a non-exception value
example : isExc (.list []) = false := rfl

end Circus.Core
