import CircusProofs.Core.Pres
/-!
# C03 — graceful termination: stop signal first, SIGKILL only after the grace period

Theorems about `killProcess` / `killLoop` / `killFinish` (transliteration of
`Watcher.kill_process`) and the timer arithmetic.  Virtual time is in ms; one poll = 100 ms.
Every termination cause (stop, restart, decr, reload, kill request, max_age) goes through
`killProcess`, the only place that escalates.
-/
namespace Circus.Core

/-- **the number of polls covers the grace period and exceeds it by less than one poll** -/
theorem C03_polls_bounds (gt : Nat) : gt ≤ pollsOf gt * 100 ∧ pollsOf gt * 100 < gt + 100 := by
  unfold pollsOf; omega

/-- **while the grace period runs and the worker is alive nothing is signalled**: the loop parks a
    100 ms sleeper and suspends. -/
theorem C03_waits_while_alive (rec : Rec) (u p sig i polls : Nat) (wt : Waiter) (s : State)
    (hi : i < polls) (ha : (isAlive p s).1 = true) :
    killLoop rec u p sig i polls wt s = awaitSleep 100 (.killWait u p sig (i + 1) polls) wt (isAlive p s).2 := by
  unfold killLoop
  simp only [bind]
  erw [if_pos hi]
  erw [if_pos ha]

/-- **never to a worker that exited in time**: when a poll finds the worker dead before the grace
    period is over, `kill_process` finishes without escalating. -/
theorem C03_no_sigkill_to_exited (rec : Rec) (u p sig i polls : Nat) (wt : Waiter) (s : State)
    (hi : i < polls) (ha : (isAlive p s).1 = false) :
    killLoop rec u p sig i polls wt s = killFinish rec u p false wt (isAlive p s).2 := by
  unfold killLoop
  simp only [bind]
  erw [if_pos hi]
  erw [if_neg (by simp [ha])]

/-- finishing without escalation sends no SIGKILL: it clears the `stopping` flag, calls
    `Process.stop()` and returns True -/
theorem C03_finish_plain (rec : Rec) (u p : Nat) (wt : Waiter) (s : State) :
    killFinish rec u p false wt s = deliver rec wt (.bool true) (objStop p (setObjStopping p false s).2).2 := by
  unfold killFinish
  simp only [bind]
  erw [if_neg (by simp)]
  simp only [pure]
  erw [if_neg (by simp)]

/-- … and `Process.stop()` on a process whose exit has been seen (`returncode` set) signals nothing -/
theorem C03_stop_dead_is_silent (p : Nat) (s : State) (rc : Int) (h : (getO p s).1.rc = some rc) :
    objStop p s = ((), s) := by
  have ha : isAlive p s = (false, s) := by
    unfold isAlive
    simp only [bind]
    generalize hg : getO p s = g at h
    obtain ⟨o, s'⟩ := g
    have hs' : s' = s := by
      have := congrArg Prod.snd hg; simpa [getO] using this.symm
    subst hs'
    simp only at h
    simp only [h]
    rfl
  unfold objStop
  simp only [bind]
  erw [if_neg (by rw [ha]; simp)]
  rw [ha]; rfl

/-- **SIGKILL exactly when the grace period is over**: after `polls` polls the loop escalates —
    `send_signal_process(process, SIGKILL, recursive=True)` is the next thing that happens. -/
theorem C03_sigkill_at_timeout (rec : Rec) (u p sig i polls : Nat) (wt : Waiter) (s : State) (hi : ¬ i < polls) :
    killLoop rec u p sig i polls wt s = killFinish rec u p true wt s := by
  unfold killLoop
  erw [if_neg hi]

/-- the escalation is `send_signal_process(process, SIGKILL, recursive=True)`; unless that call fails because the
    daemon is not permitted to signal the worker or one of its descendants (`AccessDenied`, the only exception it lets
    through), the `stopping` flag is cleared, `Process.stop()` runs and the kill returns True -/
theorem C03_escalation_is_sigkill (rec : Rec) (u p : Nat) (wt : Waiter) (s : State)
    (hok : (sendSignalProcess u p 9 true s).1 = true) :
    killFinish rec u p true wt s =
      deliver rec wt (.bool true)
        (objStop p (setObjStopping p false (sendSignalProcess u p 9 true s).2).2).2 := by
  unfold killFinish
  simp only [bind]
  erw [if_pos rfl]
  erw [if_neg (by rw [hok]; simp)]

/-- **a SIGKILL that is refused (EPERM) has still been attempted at the timeout, and it fails the kill**: the
    `AccessDenied` of `send_signal_process(process, SIGKILL, recursive=True)` escapes from `kill_process` — the
    coroutine ends with that exception right after the attempt; since fix 60e14d0 `process.stopping` is cleared
    first (`except Exception: process.stopping = False; raise`), so a later kill of that worker does not wait for
    this one; `Process.stop()` is not called. -/
theorem C03_escalation_denied (rec : Rec) (u p : Nat) (wt : Waiter) (s : State)
    (hden : (sendSignalProcess u p 9 true s).1 = false) :
    killFinish rec u p true wt s =
      deliver rec wt accessDenied (setObjStopping p false (sendSignalProcess u p 9 true s).2).2 := by
  unfold killFinish
  simp only [bind]
  erw [if_pos rfl]
  erw [if_pos (by rw [hden]; rfl)]

/-- **always within one polling step**: each suspension of the loop is a sleeper due exactly 100 ms
    later, so the escalation happens `polls · 100 ms` after the stop signal — between the grace period
    and the grace period plus one step (`C03_polls_bounds`). -/
theorem C03_sleep_is_100ms (k : Kont) (wt : Waiter) (s : State) :
    ∃ fid sid, (awaitSleep 100 k wt s).2.sleepers =
      s.sleepers ++ [{ sid := sid, deadline := s.k.now + 100, waiter := .frame fid 0 }] := by
  refine ⟨s.nextId, s.nextId + 1, ?_⟩
  simp [awaitSleep, newFrame, freshId, pushFrame, armFrame, addSleeper, pushSleeper, nowMs, getK, modS, bind, pure]

/-- **the stop signal comes first**: a kill of a worker that is not already being killed starts by
    delivering the requested signal, or the watcher's `stop_signal` when none was requested; if
    the worker is already gone (`NoSuchProcess`) nothing else happens and the kill returns False; if the daemon
    is not permitted to signal it (`AccessDenied`) the kill fails with that exception and nothing else happens
    (the worker is not marked `stopping`, no SIGKILL will follow); otherwise the worker is
    marked `stopping` and the polling loop starts at zero with `polls = ⌈graceful_timeout/100ms⌉`. -/
theorem C03_stop_signal_first (rec : Rec) (u p : Nat) (sig gt : Option Nat) (wt : Waiter) (s : State)
    (hns : (getO p s).1.stopping = false) (hsc : (getW u s).1.stopChildren = false) :
    killProcess rec u p sig gt wt s =
      (match (sendSignal u p (sig.getD (getW u s).1.stopSignal) s).1 with
       | .ok =>
        killLoop rec u p (sig.getD (getW u s).1.stopSignal) 0 (pollsOf (gt.getD (getW u s).1.graceful)) wt
          (setObjStopping p true (notify u "kill" (some p) "-"
            (sendSignal u p (sig.getD (getW u s).1.stopSignal) s).2).2).2
       | .noSuch => deliver rec wt (.bool false) (sendSignal u p (sig.getD (getW u s).1.stopSignal) s).2
       | .denied => deliver rec wt accessDenied (sendSignal u p (sig.getD (getW u s).1.stopSignal) s).2) := by
  unfold killProcess
  simp only [bind]
  have h1 : ¬ ((getO p (getW u s).snd).fst.stopping = true) := by
    have : (getW u s).snd = s := rfl
    rw [this, hns]; simp
  erw [if_neg h1]
  have h2 : ¬ ((getW u s).fst.stopChildren = true) := by simp [hsc]
  erw [if_neg h2]
  simp only [pure]
  have e1 : (getO p (getW u s).snd).snd = s := rfl
  cases hok : (sendSignal u p (sig.getD (getW u s).fst.stopSignal) s).1
  · have hok' : (sendSignal u p (sig.getD (getW u s).fst.stopSignal) (getO p (getW u s).snd).snd).fst = SigRes.ok := hok
    erw [if_pos hok']
    erw [if_neg (by rw [hok']; decide)]
    erw [if_neg (by rw [hok']; decide)]
    rfl
  · have hok' : (sendSignal u p (sig.getD (getW u s).fst.stopSignal) (getO p (getW u s).snd).snd).fst = SigRes.noSuch := hok
    erw [if_neg (by rw [hok']; decide)]
    erw [if_neg (by rw [hok']; decide)]
    erw [if_pos hok']
    rfl
  · have hok' : (sendSignal u p (sig.getD (getW u s).fst.stopSignal) (getO p (getW u s).snd).snd).fst = SigRes.denied := hok
    erw [if_neg (by rw [hok']; decide)]
    erw [if_pos hok']
    rfl

/-! non-vacuity: graceful_timeout 250 ms means 3 polls, SIGKILL 300 ms after the stop signal -/
example : pollsOf 250 = 3 ∧ pollsOf 0 = 0 ∧ pollsOf 300 = 3 := by decide

/-- one watcher whose worker 100 the daemon is not permitted to signal (it runs under another uid) -/
def c03e : State := run (initState [{ name := "a" }] [{ eperm := true }] 0) [.start, .wake]
/-- … and one whose worker ignores the stop signal -/
def c03o : State := run (initState [{ name := "a" }] [{ term := none }] 0) [.start, .wake]
-- C03_escalation_denied / the `.denied` branch of C03_stop_signal_first: the attempt is in the log, refused (`!`)
example : (getW 1 c03e).1.pids = [100] ∧ (sendSignalProcess 1 100 9 true c03e).1 = false ∧
    (sendSignal 1 100 15 c03e).1 = .denied ∧ (getO 100 c03e).1.stopping = false ∧
    (getW 1 c03e).1.stopChildren = false := by decide +kernel
example : ((sendSignalProcess 1 100 9 true c03e).2.log.drop c03e.log.length).map showObs = ["o sig 100 9 r!"] := by
  decide +kernel
-- C03_escalation_is_sigkill / the `.ok` branch
example : (sendSignalProcess 1 100 9 true c03o).1 = true ∧ (sendSignal 1 100 15 c03o).1 = .ok := by decide +kernel

end Circus.Core
