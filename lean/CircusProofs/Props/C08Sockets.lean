import CircusProofs.Lemmas.Sockets
/-
C08 (socket part) — "closes its ... managed sockets, removes the unix-socket files", for every
history before the shutdown, `reloadconfig` with changed socket sections included.

Model: `Circus.Sockets` (CircusModel/Model/Sockets.lean).  `files` is the set of unix-socket paths
that exist, `made` the (ghost) list of all paths the daemon has ever bound a socket to.  A history
is any list of `Op`: initialize, spawns, deaths, restart / reload / incr / decr of watchers, unrelated
files, `reloadSockets new dorder aorder` (the socket part of `Arbiter.reload_from_config`: deleted,
changed = deleted + added, added sockets, for any iteration order of the Python sets), and stop.

Hypothesis `NoSock t0`: the process that becomes the daemon has no socket descriptor of its own
(the descriptors it has are `other`); `f0` (paths existing beforehand) is arbitrary.
-/
namespace Circus.Sockets

/-- At every moment of every history: every socket descriptor open in the daemon is the descriptor
    of a socket object of the current dict (nothing a reload removed or replaced stays open, no
    per-worker socket outlives its spawn), and every unix-socket file the daemon has made and that
    still exists is the path of a socket of the current dict. -/
theorem C08_nothing_outside_the_dict (t0 : FdTable) (f0 : List Nat) (specs : List Spec) (ws : List Watcher)
    (ops : List Op) (h0 : NoSock t0) :
    (∀ fd d, (run (setup t0 specs ws f0) ops).fdt.get fd = some d → d.kind = .sock →
      ∃ k ∈ (run (setup t0 specs ws f0) ops).socks, k.fd = some fd) ∧
    (∀ p ∈ (run (setup t0 specs ws f0) ops).files, p ∈ (run (setup t0 specs ws f0) ops).made →
      ∃ k ∈ (run (setup t0 specs ws f0) ops).socks, k.unix = true ∧ k.addr = p) := by
  have t := tidy_run ops (tidy_setup t0 specs ws f0 h0)
  exact ⟨t.orph, t.files⟩

/-- After any history, `stop` leaves no managed socket open — every object of the dict is closed and
    no socket descriptor at all is open in the daemon — and no unix-socket file of any socket the
    daemon ever bound, reloaded ones included. -/
theorem C08_sockets_closed_and_unlinked (t0 : FdTable) (f0 : List Nat) (specs : List Spec) (ws : List Watcher)
    (ops : List Op) (h0 : NoSock t0) :
    (∀ k ∈ (step (run (setup t0 specs ws f0) ops) .stop).socks, k.fd = none) ∧
    (∀ fd d, (step (run (setup t0 specs ws f0) ops) .stop).fdt.get fd = some d → d.kind ≠ .sock) ∧
    (∀ p ∈ (run (setup t0 specs ws f0) ops).made, p ∉ (step (run (setup t0 specs ws f0) ops) .stop).files) := by
  have t := tidy_run ops (tidy_setup t0 specs ws f0 h0)
  obtain ⟨h1, h2, h3⟩ := stop_clean t
  refine ⟨?_, h1, fun p hp => h2 p (by rw [h3]; exact hp)⟩
  intro k hk
  simp only [step, closeAllSocks] at hk
  obtain ⟨k0, _, rfl⟩ := List.mem_map.1 hk
  rfl

/-- `made` really is "every path ever bound": it only grows along a history. -/
theorem C08_made_grows (s : State) (o : Op) : ∀ p ∈ s.made, p ∈ (step s o).made := by
  intro p hp
  by_cases h1 : o = .initialize
  · subst h1
    have a := bindAll_facts s.socks s
    simp only [step]
    generalize bindAndListenAll s s.socks = x at a
    obtain ⟨s1, e⟩ := x
    cases e <;> exact a.madeMono p hp
  · by_cases h2 : o = .stop
    · subst h2
      simp only [step, closeAllSocks]
      rw [(foldl_closeObj_same s.socks s).2.2.2.2.2.2]
      exact hp
    · by_cases h3 : ∃ new d a, o = .reloadSockets new d a
      · obtain ⟨new, d, a, rfl⟩ := h3
        simp only [step, reloadSockets]
        have hdel : ∀ (l : List Str) (s : State), p ∈ s.made → p ∈ (l.foldl delSock s).made := by
          intro l
          induction l with
          | nil => intro s h; exact h
          | cons n l ih =>
            intro s h
            rw [List.foldl_cons]
            apply ih
            unfold delSock
            split
            · exact h
            · simpa [closeObj] using h
        have hadd : ∀ (l : List Str) (s : State), p ∈ s.made → p ∈ (addLoop new s l).made := by
          intro l
          induction l with
          | nil => intro s h; exact h
          | cons n l ih =>
            intro s h
            unfold addLoop
            split
            · exact ih s h
            · rename_i k _
              have b := bindAndListen_facts (alloc s newSocketDesc).1 k (some (alloc s newSocketDesc).2)
              have hs : p ∈ (addSock s k).1.made := by
                unfold addSock
                simp only []
                generalize bindAndListen (alloc s newSocketDesc).1 k (some (alloc s newSocketDesc).2) = x at b
                obtain ⟨s2, e⟩ := x
                cases e <;> exact b.madeMono p (by simpa [alloc] using h)
              generalize addSock s k = x at hs
              obtain ⟨s1, e⟩ := x
              cases e with
              | some _ => exact hs
              | none => exact ih s1 hs
        exact hadd _ _ (hdel _ _ hp)
      · rw [(step_R (trivProt s) o h1 h2 (fun n d a e => h3 ⟨n, d, a, e⟩)).made]
        exact hp

/-- A socket that a reload deletes (or changes: changed = deleted + added) is closed and unlinked at
    once: right after `s.close(); del self.sockets[s.name]` its descriptor is free, its unix path does
    not exist, and the object is out of the dict. -/
theorem C08_reload_closes_removed (s : State) (n : Str) (k : Sock)
    (hk : s.socks.find? (fun k => k.name = n) = some k) :
    (∀ fd, k.fd = some fd → (delSock s n).fdt.get fd = none) ∧
    (k.unix = true → k.addr ∉ (delSock s n).files) ∧
    (delSock s n).socks = s.socks.erase k := by
  unfold delSock
  simp only [hk]
  refine ⟨?_, ?_, ?_⟩
  · intro fd hfd
    rw [closeObj_get]
    simp [hfd]
  · intro hu hm
    simp [closeObj, hu] at hm
  · first | rfl | trivial

/-- Which sockets a reload deletes and adds: those whose name left the file, those whose name is new,
    and those whose section differs from the `_cfg` of the object in the dict (both lists). -/
theorem C08_reload_is_delete_then_add (s : State) (new : List Spec) (d a : List Str) :
    reloadSockets s new d a =
      addLoop new
        ((reorder d (((s.socks.map (·.name)).filter (fun n => !(new.map (·.name)).contains n)) ++ changedNames s new)).foldl
          delSock s)
        (reorder a (((new.map (·.name)).filter (fun n => !(s.socks.map (·.name)).contains n)) ++ changedNames s new)) := rfl

/-! ## concrete histories -/

private def s (x : String) : Str := x.toList.map Char.toNat
private def stdio : Desc := { id := 0, kind := .other, inheritable := true, listening := false, addr := none, bindSer := 0 }
private def t3 : FdTable := [some stdio, some stdio, some stdio]

example : NoSock t3 := by
  intro fd d h
  match fd with
  | 0 | 1 | 2 => simp [t3, FdTable.get] at h; subst h; rfl
  | n + 3 => simp [t3, FdTable.get] at h

private def web1 : Spec := { name := s "web", reuseport := false, addr := 1, unix := true }
private def web2 : Spec := { name := s "web", reuseport := false, addr := 2, unix := true }
private def adm : Spec := { name := s "adm", reuseport := false, addr := 7 }
private def w0 : Watcher := { useSockets := true, cmd := s "srv $(circus.sockets.web)", args := .none, numprocesses := 1,
                              pipeOut := false, pipeErr := false, maxRetry := 1 }

/-- the path of `web` is changed twice, `adm` is dropped, a socket `x` on the old path of `web` is
    added with `replace`: after every reload exactly the files of the current dict exist, after
    `stop` none -/
example :
    let x : Spec := { name := s "x", reuseport := false, addr := 1, unix := true, replace := true }
    let h := [Op.initialize, .spawn 0, .reloadSockets [web2, adm] [s "web"] [s "web"], .spawn 0,
              .reloadSockets [web1] [s "adm", s "web"] [s "web"], .reloadSockets [web1, x] [] [s "x"]]
    let st := run (setup t3 [web1, adm] [w0]) h
    (run (setup t3 [web1, adm] [w0]) (h.take 3)).files = [2] ∧
    (run (setup t3 [web1, adm] [w0]) (h.take 5)).files = [1] ∧
    st.files = [1] ∧ st.made = [1, 1, 2, 1] ∧ st.socks.map (fun k => (k.name, k.addr, k.fd)) = [(s "web", 1, some 3), (s "x", 1, some 4)] ∧
    (step st .stop).files = [] ∧ (step st .stop).fdt = [some stdio, some stdio, some stdio, none, none] := by
  decide

end Circus.Sockets
