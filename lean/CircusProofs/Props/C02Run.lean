import CircusProofs.Core.StopRun
import CircusProofs.Props.C06
/-!
# C02 — completion of `stop`: the command terminates, the workers are gone, the reply is written

Props/C02.lean has the one-call facts about `_stop`.  Here is the run-level completion claim, by symbolic
execution of whole steps (Core/StopRun.lean; the technique of Core/Conv.lean).
-/
namespace Circus.Core

/-- **`stop` terminates although every worker ignores the stop signal.**

    Setting: nothing in flight (`Idle u s`); one watcher object `w` (identity `u`), active, without hooks,
    `stop_children = false`, stop signal not SIGKILL, any `graceful_timeout > 0`, listing `m ≥ 1` distinct
    pids; each listed worker runs, ignores terminating signals (`term = none`), dies at once on SIGKILL
    (`killLat = 0`), has no children, and its process object is fresh (`Stubborn u w s`); the daemon is permitted
    to signal every process (`Kernel.Base.signalable`: no worker under another uid — with such a worker the stop
    *fails* part-way, see Props/C10Fail.lean and the evaluated histories there and in Props/C06.lean); the request is
    `stop` for that watcher by name (`match: simple`), `waiting` or not.

    Claim: the request followed by exactly `n = m * ⌈graceful_timeout / 100 ms⌉` timer firings ends with
    nothing in flight and the slot free, the watcher `stopped` with an empty process list, every one of the
    `m` workers gone from the process table (killed and reaped — no zombie), exactly `m` SIGKILLs sent,
    exactly one reply written (if the control socket is open); with `waiting` that reply is written in the last
    of the `n + 1` steps and not earlier, without `waiting` it is written in the request step. -/
theorem C02_stop_terminates_stubborn (cid name : String) (waiting : Bool) (u : Nat) (w : Watcher) (s : State)
    (hi : Idle u s) (hd : Stubborn u w s) (hn : s.a.names.lookup (pyLower name) = some u)
    (hne : w.pids ≠ []) (hgt : 0 < w.graceful) :
    let n := w.pids.length * pollsOf w.graceful
    let ops := fun j => Op.req cid (some (stopReq name waiting)) :: List.replicate j Op.wake
    let s' := run s (ops n)
    Idle u s' ∧ s'.blocked = false ∧
    s'.ws = [{ w with pids := [], status := .stopped }] ∧
    (∀ pid ∈ w.pids, ∃ p, s'.k.find pid = some p ∧ p.st = .gone) ∧
    killCount s'.log = killCount s.log + w.pids.length ∧
    (s.a.ctlClosed = false → repCount s' = repCount s + 1) ∧
    (waiting = true → ∀ j < n, repCount (run s (ops j)) = repCount s) ∧
    (waiting = false → s.a.ctlClosed = false → ∀ j ≤ n, repCount (run s (ops j)) = repCount s + 1) ∧
    ((∀ p ∈ s.k.procs, p.st ≠ .zombie) → ∀ p ∈ s'.k.procs, p.st ≠ .zombie) := by
  intro n ops s'
  have hpolls : 0 < pollsOf w.graceful := by unfold pollsOf; omega
  obtain ⟨hD, hbefore⟩ := stop_run_stubborn (∀ p ∈ s.k.procs, p.st ≠ .zombie) cid name waiting u w s hi hd hn hne hpolls id
  have harb : s'.a = s.a := by
    rw [hD.arb]
    have := hi.slot
    cases hsa : s.a
    rw [hsa] at this
    simp only at this
    subst this
    rfl
  refine ⟨⟨hD.frames, hD.sleepers, hD.tops, hD.ready, ?_, ?_, ?_, ?_, ?_⟩, hD.blocked, hD.ws, hD.gone, hD.kills, ?_, ?_, ?_, hD.nz⟩
  · rw [harb]; exact hi.slot
  · rw [harb]; exact hi.loopStop
  · rw [harb]; exact hi.stopping
  · rw [harb]; exact hi.restarting
  · rw [harb]; exact hi.watchers
  · intro ho
    have := hD.reps
    rw [if_pos ho] at this
    exact this
  · intro hw j hj
    have := hbefore j hj
    rw [if_neg (by simp [hw])] at this
    exact this
  · intro hw ho j hj
    rcases Nat.lt_or_ge j n with hlt | hge
    · have := hbefore j hlt
      rw [if_pos ⟨hw, ho⟩] at this
      exact this
    · have : j = n := Nat.le_antisymm hj hge
      subst this
      have := hD.reps
      rw [if_pos ho] at this
      exact this

/-- **`stop` terminates within the request step when every worker obeys the stop signal.**

    Setting as in `C02_stop_terminates_stubborn`, but each listed worker dies at once on a terminating signal
    (`term = some 0`; SIGKILL latency arbitrary), and the stop signal is a real terminating one: not 0, not
    SIGKILL, not one of the signals workers ignore (`TOk`, `Obedient u w s`); `graceful_timeout > 0`.

    Claim: the request step alone (no timer firing: `n = 0`) ends with nothing in flight and the slot free, the
    watcher `stopped` with an empty process list, every one of the `m` workers gone from the process table
    (dead and reaped — no zombie), **no SIGKILL at all**, exactly one reply written (if the control socket is
    open), `waiting` or not. -/
theorem C02_stop_terminates_obedient (cid name : String) (waiting : Bool) (u : Nat) (w : Watcher) (s : State)
    (hi : Idle u s) (hd : Obedient u w s) (hn : s.a.names.lookup (pyLower name) = some u)
    (hne : w.pids ≠ []) (hgt : 0 < w.graceful) :
    let s' := run s [Op.req cid (some (stopReq name waiting))]
    Idle u s' ∧ s'.blocked = false ∧
    s'.ws = [{ w with pids := [], status := .stopped }] ∧
    (∀ pid ∈ w.pids, ∃ p, s'.k.find pid = some p ∧ p.st = .gone) ∧
    killCount s'.log = killCount s.log ∧
    (s.a.ctlClosed = false → repCount s' = repCount s + 1) ∧
    ((∀ p ∈ s.k.procs, p.st ≠ .zombie) → ∀ p ∈ s'.k.procs, p.st ≠ .zombie) := by
  intro s'
  have hpolls : 0 < pollsOf w.graceful := by unfold pollsOf; omega
  have hD : StopDone (∀ p ∈ s.k.procs, p.st ≠ .zombie) w s.a (killCount s.log)
      (repC s.log + (if s.a.ctlClosed = false then 1 else 0)) s' :=
    stop_run_obedient _ cid name waiting u w s hi hd hn hne hpolls id
  have harb : s'.a = s.a := by
    rw [hD.arb]
    have := hi.slot
    cases hsa : s.a
    rw [hsa] at this
    simp only at this
    subst this
    rfl
  refine ⟨⟨hD.frames, hD.sleepers, hD.tops, hD.ready, ?_, ?_, ?_, ?_, ?_⟩, hD.blocked, hD.ws, hD.gone, hD.kills, ?_, hD.nz⟩
  · rw [harb]; exact hi.slot
  · rw [harb]; exact hi.loopStop
  · rw [harb]; exact hi.stopping
  · rw [harb]; exact hi.restarting
  · rw [harb]; exact hi.watchers
  · intro ho
    have := hD.reps
    rw [if_pos ho] at this
    exact this

/-- **a stopped watcher stays stopped along the periodic checks.**  From a state with nothing in flight in
    which the (only) watcher is `stopped`, lists no process and is not on-demand, the kernel has nothing pending
    and no zombie (`StoppedQuiet u s`): any number of periodic checks complete within their steps and leave the watcher
    object, the process table (nothing is spawned) and the log (no event, no signal) exactly as they were. -/
theorem C02_stopped_stays_stopped_along_checks (u n : Nat) (s : State) (hi : Idle u s) (hq : StoppedQuiet u s) :
    let s' := run s (List.replicate n .check)
    Idle u s' ∧ StoppedQuiet u s' ∧ s'.ws = s.ws ∧ s'.k.procs = s.k.procs ∧ s'.log = s.log :=
  checks_stopped u n s hi hq

theorem run_append (s : State) (l r : List Op) : run s (l ++ r) = run (run s l) r := by
  unfold run; exact List.foldl_append

/-- … and this applies after the `stop` of `C02_stop_terminates_stubborn`: the request, the `n` timer firings and
    then any number `c` of periodic checks — the watcher is still `stopped` with an empty list, nothing was
    spawned, nothing more was logged. -/
theorem C02_stop_then_checks_stubborn (cid name : String) (waiting : Bool) (u c : Nat) (w : Watcher) (s : State)
    (hi : Idle u s) (hd : Stubborn u w s) (hn : s.a.names.lookup (pyLower name) = some u)
    (hne : w.pids ≠ []) (hgt : 0 < w.graceful) (hod : w.onDemand = false) (hnz : ∀ p ∈ s.k.procs, p.st ≠ .zombie) :
    let stop := Op.req cid (some (stopReq name waiting)) :: List.replicate (w.pids.length * pollsOf w.graceful) Op.wake
    let s' := run s (stop ++ List.replicate c .check)
    Idle u s' ∧ s'.ws = [{ w with pids := [], status := .stopped }] ∧
    s'.k.procs = (run s stop).k.procs ∧ s'.log = (run s stop).log := by
  intro stop s'
  have hpolls : 0 < pollsOf w.graceful := by unfold pollsOf; omega
  obtain ⟨hD, _⟩ := stop_run_stubborn (∀ p ∈ s.k.procs, p.st ≠ .zombie) cid name waiting u w s hi hd hn hne hpolls id
  have hidle := (C02_stop_terminates_stubborn cid name waiting u w s hi hd hn hne hgt).1
  obtain ⟨h1, _, h3, h4, h5⟩ := checks_stopped u c _ hidle (hD.quiet hnz hd.ok.uid hod)
  have hs' : s' = run (run s stop) (List.replicate c .check) := run_append _ _ _
  rw [hs']
  refine ⟨?_, ?_, ?_, ?_⟩
  · exact h1
  · exact h3.trans hD.ws
  · exact h4
  · exact h5

/-- the same after the `stop` of `C02_stop_terminates_obedient` -/
theorem C02_stop_then_checks_obedient (cid name : String) (waiting : Bool) (u c : Nat) (w : Watcher) (s : State)
    (hi : Idle u s) (hd : Obedient u w s) (hn : s.a.names.lookup (pyLower name) = some u)
    (hne : w.pids ≠ []) (hgt : 0 < w.graceful) (hod : w.onDemand = false) (hnz : ∀ p ∈ s.k.procs, p.st ≠ .zombie) :
    let stop := [Op.req cid (some (stopReq name waiting))]
    let s' := run s (stop ++ List.replicate c .check)
    Idle u s' ∧ s'.ws = [{ w with pids := [], status := .stopped }] ∧
    s'.k.procs = (run s stop).k.procs ∧ s'.log = (run s stop).log := by
  intro stop s'
  have hpolls : 0 < pollsOf w.graceful := by unfold pollsOf; omega
  have hD : StopDone (∀ p ∈ s.k.procs, p.st ≠ .zombie) w s.a (killCount s.log)
      (repC s.log + (if s.a.ctlClosed = false then 1 else 0)) (run s stop) :=
    stop_run_obedient _ cid name waiting u w s hi hd hn hne hpolls id
  have hidle := (C02_stop_terminates_obedient cid name waiting u w s hi hd hn hne hgt).1
  obtain ⟨h1, _, h3, h4, h5⟩ := checks_stopped u c _ hidle (hD.quiet hnz hd.ok.ok.uid hod)
  have hs' : s' = run (run s stop) (List.replicate c .check) := run_append _ _ _
  rw [hs']
  refine ⟨?_, ?_, ?_, ?_⟩
  · exact h1
  · exact h3.trans hD.ws
  · exact h4
  · exact h5

/-! non-vacuity: two workers that ignore SIGTERM, `graceful_timeout` 150 ms (two polls each) -/

def c02Cfg : List Watcher := [{ name := "a", np := 2, status := .active, graceful := 150 }]
def c02s0 : State := run (initState c02Cfg [{ term := none }] 0) [.check, .wake, .wake]
def c02w : Watcher := c02s0.ws.headD default

theorem c02s0_ws : c02s0.ws = [c02w] := by
  have h : c02s0.ws.length = 1 := by decide +kernel
  unfold c02w
  match hh : c02s0.ws, h with
  | [x], _ => rfl

theorem c02s0_idle : Idle 1 c02s0 := by
  refine ⟨?_, ?_, ?_, ?_, ?_, ?_, ?_, ?_, ?_⟩
  · exact List.eq_nil_of_length_eq_zero (by decide +kernel)
  · exact List.eq_nil_of_length_eq_zero (by decide +kernel)
  · exact List.eq_nil_of_length_eq_zero (by decide +kernel)
  · exact List.eq_nil_of_length_eq_zero (by decide +kernel)
  all_goals decide +kernel

theorem stub_of_dec (k : Kernel) (pid : Nat)
    (h : (k.find pid).any (fun p => decide (p.st = .run) && p.behav.term.isNone && decide (p.behav.killLat = 0)) = true) :
    k.Stub pid := by
  cases hf : k.find pid with
  | none => rw [hf] at h; cases h
  | some p =>
    rw [hf] at h
    simp only [Option.any_some, Bool.and_eq_true, decide_eq_true_eq, Option.isNone_iff_eq_none] at h
    exact ⟨p, hf, h.1.1, h.1.2, h.2⟩

theorem obj_of_dec (objs : List PObj) (pid : Nat)
    (h : (objs.find? (fun o => decide (o.pid = pid))).any (fun o => !o.stopping && o.rc.isNone) = true) :
    ∃ o, objs.find? (fun o => decide (o.pid = pid)) = some o ∧ o.stopping = false ∧ o.rc = none := by
  cases hf : objs.find? (fun o => decide (o.pid = pid)) with
  | none => rw [hf] at h; cases h
  | some o =>
    rw [hf] at h
    simp only [Option.any_some, Bool.and_eq_true, Bool.not_eq_true', Option.isNone_iff_eq_none] at h
    exact ⟨o, rfl, h.1, h.2⟩

theorem c02s0_stubborn : Stubborn 1 c02w c02s0 := by
  have hp : c02w.pids = [100, 101] := by decide +kernel
  refine ⟨c02s0_ws, by decide +kernel, ⟨by decide +kernel, List.eq_nil_of_length_eq_zero (by decide +kernel),
    by decide +kernel, by decide +kernel⟩, by decide +kernel, by rw [hp]; decide, ?_, ?_⟩
  · refine ⟨List.eq_nil_of_length_eq_zero (by decide +kernel), List.eq_nil_of_length_eq_zero (by decide +kernel),
      by decide +kernel, by decide +kernel, by decide +kernel, by decide +kernel⟩
  · intro pid hpid
    rw [hp] at hpid
    simp only [List.mem_cons, List.mem_nil_iff, or_false] at hpid
    rcases hpid with rfl | rfl
    · exact ⟨stub_of_dec _ _ (by decide +kernel), obj_of_dec _ _ (by decide +kernel)⟩
    · exact ⟨stub_of_dec _ _ (by decide +kernel), obj_of_dec _ _ (by decide +kernel)⟩

example : let s' := run c02s0 (.req "c" (some (stopReq "a" true)) :: List.replicate 4 .wake)
    s'.ws.map (fun w => (w.pids, w.status)) = [([], .stopped)] ∧ killCount s'.log = killCount c02s0.log + 2 ∧
    repCount s' = repCount c02s0 + 1 := by
  have h := C02_stop_terminates_stubborn "c" "a" true 1 c02w c02s0 c02s0_idle c02s0_stubborn (by decide +kernel)
    (by decide +kernel) (by decide +kernel)
  have hl : c02w.pids.length * pollsOf c02w.graceful = 4 := by decide +kernel
  simp only [hl] at h
  obtain ⟨_, _, h3, _, h5, h6, _⟩ := h
  refine ⟨by rw [h3]; rfl, ?_, h6 (by decide +kernel)⟩
  rw [h5]; congr 1

-- the same run evaluated: four firings are needed, three are not enough; SIGKILLs 100 then 101; the reply comes last
example : (run c02s0 (.req "c" (some (stopReq "a" true)) :: List.replicate 4 .wake)).ws.map (fun w => (w.pids, w.status))
      = [([], .stopped)] ∧
    (run c02s0 (.req "c" (some (stopReq "a" true)) :: List.replicate 3 .wake)).ws.map (fun w => (w.pids, w.status))
      = [([100, 101], .stopping)] ∧
    (run c02s0 (.req "c" (some (stopReq "a" true)) :: List.replicate 3 .wake)).a.slot = some "watcher_stop" ∧
    (run c02s0 (.req "c" (some (stopReq "a" true)) :: List.replicate 4 .wake)).a.slot = none ∧
    killCount (run c02s0 (.req "c" (some (stopReq "a" true)) :: List.replicate 4 .wake)).log = 2 ∧
    repCount (run c02s0 (.req "c" (some (stopReq "a" true)) :: List.replicate 3 .wake)) = 0 ∧
    repCount (run c02s0 (.req "c" (some (stopReq "a" true)) :: List.replicate 4 .wake)) = 1 ∧
    repCount (run c02s0 [.req "c" (some (stopReq "a" false))]) = 1 ∧
    (run c02s0 (.req "c" (some (stopReq "a" true)) :: List.replicate 4 .wake)).k.procs.map (fun p => (p.pid, p.st))
      = [(100, .gone), (101, .gone)] := by decide +kernel

-- stop, then three periodic checks: still stopped, nobody respawned
example : let s' := run c02s0 ((.req "c" (some (stopReq "a" true)) :: List.replicate (c02w.pids.length * pollsOf c02w.graceful) .wake)
      ++ List.replicate 3 .check)
    Idle 1 s' ∧ s'.ws.map (fun w => (w.pids, w.status)) = [([], .stopped)] := by
  have h := C02_stop_then_checks_stubborn "c" "a" true 1 3 c02w c02s0 c02s0_idle c02s0_stubborn (by decide +kernel)
    (by decide +kernel) (by decide +kernel) (by decide +kernel) (by decide +kernel)
  exact ⟨h.1, by rw [h.2.1]; rfl⟩

example : (run c02s0 ((.req "c" (some (stopReq "a" true)) :: List.replicate 4 .wake) ++ List.replicate 3 .check)).ws.map
      (fun w => (w.pids, w.status)) = [([], .stopped)] ∧
    (run c02s0 ((.req "c" (some (stopReq "a" true)) :: List.replicate 4 .wake) ++ List.replicate 3 .check)).k.procs.length = 2 := by
  decide +kernel

/-! non-vacuity of the obedient case: the same configuration, workers with the default behaviour (SIGTERM kills at once) -/

def c02t0 : State := run (initState c02Cfg [{}] 0) [.check, .wake, .wake]
def c02v : Watcher := c02t0.ws.headD default

theorem c02t0_ws : c02t0.ws = [c02v] := by
  have h : c02t0.ws.length = 1 := by decide +kernel
  unfold c02v
  match hh : c02t0.ws, h with
  | [x], _ => rfl

theorem c02t0_idle : Idle 1 c02t0 := by
  refine ⟨?_, ?_, ?_, ?_, ?_, ?_, ?_, ?_, ?_⟩
  · exact List.eq_nil_of_length_eq_zero (by decide +kernel)
  · exact List.eq_nil_of_length_eq_zero (by decide +kernel)
  · exact List.eq_nil_of_length_eq_zero (by decide +kernel)
  · exact List.eq_nil_of_length_eq_zero (by decide +kernel)
  all_goals decide +kernel

theorem obed_of_dec (k : Kernel) (pid : Nat)
    (h : (k.find pid).any (fun p => decide (p.st = .run) && decide (p.behav.term = some 0)) = true) : k.Obed pid := by
  cases hf : k.find pid with
  | none => rw [hf] at h; cases h
  | some p =>
    rw [hf] at h
    simp only [Option.any_some, Bool.and_eq_true, decide_eq_true_eq] at h
    exact ⟨p, hf, h.1, h.2⟩

theorem c02t0_obedient : Obedient 1 c02v c02t0 := by
  have hp : c02v.pids = [100, 101] := by decide +kernel
  refine ⟨c02t0_ws, by decide +kernel, ⟨⟨by decide +kernel, List.eq_nil_of_length_eq_zero (by decide +kernel),
    by decide +kernel, by decide +kernel⟩, by decide +kernel, by decide +kernel⟩, by decide +kernel, by rw [hp]; decide, ?_, ?_⟩
  · refine ⟨List.eq_nil_of_length_eq_zero (by decide +kernel), List.eq_nil_of_length_eq_zero (by decide +kernel),
      by decide +kernel, by decide +kernel, by decide +kernel, by decide +kernel⟩
  · intro pid hpid
    rw [hp] at hpid
    simp only [List.mem_cons, List.mem_nil_iff, or_false] at hpid
    rcases hpid with rfl | rfl
    · exact ⟨obed_of_dec _ _ (by decide +kernel), obj_of_dec _ _ (by decide +kernel)⟩
    · exact ⟨obed_of_dec _ _ (by decide +kernel), obj_of_dec _ _ (by decide +kernel)⟩

example : let s' := run c02t0 [.req "c" (some (stopReq "a" true))]
    s'.ws.map (fun w => (w.pids, w.status)) = [([], .stopped)] ∧ killCount s'.log = killCount c02t0.log ∧
    repCount s' = repCount c02t0 + 1 := by
  have h := C02_stop_terminates_obedient "c" "a" true 1 c02v c02t0 c02t0_idle c02t0_obedient (by decide +kernel)
    (by decide +kernel) (by decide +kernel)
  obtain ⟨_, _, h3, _, h5, h6, _⟩ := h
  exact ⟨by rw [h3]; rfl, h5, h6 (by decide +kernel)⟩

-- the same step evaluated: no timer, no SIGKILL, both workers reaped with status 15, the reply written
example : (run c02t0 [.req "c" (some (stopReq "a" true))]).ws.map (fun w => (w.pids, w.status)) = [([], .stopped)] ∧
    (run c02t0 [.req "c" (some (stopReq "a" true))]).sleepers.length = 0 ∧
    (run c02t0 [.req "c" (some (stopReq "a" true))]).frames.length = 0 ∧
    (run c02t0 [.req "c" (some (stopReq "a" true))]).a.slot = none ∧
    killCount (run c02t0 [.req "c" (some (stopReq "a" true))]).log = 0 ∧
    repCount (run c02t0 [.req "c" (some (stopReq "a" true))]) = 1 ∧
    repCount (run c02t0 [.req "c" (some (stopReq "a" false))]) = 1 ∧
    (run c02t0 [.req "c" (some (stopReq "a" true))]).k.procs.map (fun p => (p.pid, p.st, p.status))
      = [(100, .gone, 15), (101, .gone, 15)] := by decide +kernel

end Circus.Core
