import CircusProofs.Core.WsAll
import CircusProofs.Core.Init
import CircusProofs.Core.Calm
/-!
# C01 — the process count converges to the configured target and then stays put

Proved on the core model:
* `C01_bounds` — in every reachable state, whatever requests (incr/decr with any `nb`, set, add,
  …), deaths and schedules happened, `numprocesses` of every watcher is ≥ 0 and ≤ 1 for a singleton;
* `C01_oldest_first` — when there are too many workers the ones removed are the oldest
  (the kept prefix of the stable descending sort by start time dominates the dropped suffix);
* `C01_fixpoint` — in a converged state (as many live workers as `numprocesses`, calm kernel) the
  periodic management of that watcher spawns nothing, signals nothing and publishes nothing.
Not proved as a theorem (liveness over several timer steps): that a calm check *reaches* the
converged state, and the freshness of workers after restart/reload; both are checked on the
implementation by the oracle of `harness/coreprops.py: c01` on every run.
-/
namespace Circus.Core

def NpOk (w : Watcher) : Prop := 0 ≤ w.np ∧ (w.singleton = true → w.np ≤ 1)

theorem npOk_stable : WStable NpOk where
  status := fun _ _ h => h
  pids := fun _ _ h => h
  hookCalls := fun _ _ h => h
  opt := fun w c h => by cases c <;> exact h
  np := fun _ n _ h0 h1 => ⟨h0, h1⟩
  fresh := fun w _ h0 h1 => ⟨h0, fun hs => by rcases h1 hs with h | h <;> simp only at h ⊢ <;> omega⟩

theorem assignUids_all (P : Watcher → Prop) (hP : ∀ w u, P w → P { w with uid := u }) (cfg : List Watcher) (n : Nat)
    (h : ∀ w ∈ cfg, P w) : ∀ w ∈ assignUids cfg n, P w := by
  induction cfg generalizing n with
  | nil => intro w hw; cases hw
  | cons x xs ih =>
    intro w hw
    simp only [assignUids, List.mem_cons] at hw
    rcases hw with rfl | hw
    · exact hP x n (h x (by simp))
    · exact ih (n + 1) (fun w hw => h w (by simp [hw])) w hw

/-- **bounds**: for a configuration whose watchers have a non-negative `numprocesses` (at most 1
    for singletons) this stays true in every reachable state — `incr`/`decr` with any `nb`,
    `set numprocesses`, `add`, reload etc. cannot make it negative or exceed 1 for a singleton. -/
theorem C01_bounds (cfg : List Watcher) (bs : List Behav) (aw : Nat) (hcfg : ∀ w ∈ cfg, NpOk w) (ops : List Op) :
    ∀ w ∈ (run (initState cfg bs aw) ops).ws, 0 ≤ w.np ∧ (w.singleton = true → w.np ≤ 1) := by
  apply wsAll_run npOk_stable
  intro w hw
  simp only [initState] at hw
  exact assignUids_all NpOk (fun _ _ h => h) cfg 1 hcfg w hw

/-! ### oldest first -/

/-- descending by start time -/
def SortedDesc : List PObj → Prop
  | [] => True
  | x :: xs => (∀ y ∈ xs, y.started ≤ x.started) ∧ SortedDesc xs

theorem insertObj_mem (x : PObj) (l : List PObj) (y : PObj) : y ∈ insertObj x l ↔ y = x ∨ y ∈ l := by
  induction l with
  | nil => simp [insertObj]
  | cons z zs ih =>
    unfold insertObj
    split
    · simp
    · simp only [List.mem_cons, ih]
      constructor
      · rintro (h | h | h) <;> simp [h]
      · rintro (h | h | h) <;> simp [h]

theorem insertObj_sorted (x : PObj) (l : List PObj) (h : SortedDesc l) : SortedDesc (insertObj x l) := by
  induction l with
  | nil => simp [insertObj, SortedDesc]
  | cons z zs ih =>
    unfold insertObj
    split
    · rename_i hge
      refine ⟨?_, h⟩
      intro y hy
      rcases List.mem_cons.mp hy with rfl | hy
      · exact hge
      · exact Nat.le_trans (h.1 y hy) hge
    · rename_i hlt
      refine ⟨?_, ih h.2⟩
      intro y hy
      rcases (insertObj_mem x zs y).mp hy with rfl | hy
      · omega
      · exact h.1 y hy

theorem sortByStartedDesc_sorted (l : List PObj) : SortedDesc (sortByStartedDesc l) := by
  unfold sortByStartedDesc
  induction l with
  | nil => trivial
  | cons x xs ih => exact insertObj_sorted x _ ih

theorem sortedDesc_take_drop (l : List PObj) (h : SortedDesc l) (n : Nat) :
    ∀ a ∈ l.take n, ∀ b ∈ l.drop n, b.started ≤ a.started := by
  induction l generalizing n with
  | nil => intro a ha; simp at ha
  | cons x xs ih =>
    cases n with
    | zero => intro a ha; simp at ha
    | succ n =>
      intro a ha b hb
      simp only [List.take_succ_cons, List.mem_cons] at ha
      simp only [List.drop_succ_cons] at hb
      rcases ha with rfl | ha
      · exact h.1 b (List.mem_of_mem_drop hb)
      · exact ih h.2 n a ha b hb

/-- **oldest first**: `manage_processes` keeps the first `numprocesses` entries of the descending
    sort by start time and terminates the rest — every kept worker started no earlier than any
    terminated one. -/
theorem C01_oldest_first (objs : List PObj) (np : Nat) :
    ∀ kept ∈ (sortByStartedDesc objs).take np, ∀ gone ∈ (sortByStartedDesc objs).drop np,
      gone.started ≤ kept.started :=
  sortedDesc_take_drop _ (sortByStartedDesc_sorted objs) np

/-- the sort only reorders: nobody is lost or invented -/
theorem C01_sort_perm (objs : List PObj) (y : PObj) : y ∈ sortByStartedDesc objs ↔ y ∈ objs := by
  unfold sortByStartedDesc
  induction objs with
  | nil => simp
  | cons x xs ih => simp only [List.foldr_cons, insertObj_mem, ih, List.mem_cons]

/-- **fixpoint**: for a watcher that is not stopped, has no `max_age`, lists exactly `numprocesses`
    workers which are all running, in a calm kernel (no death due, no fault armed), the periodic
    `manage_processes` does nothing but look: the state afterwards is the state before with the
    kernel-call counter advanced by two status reads per worker — no spawn, no signal, no event —
    and the coroutine completes at once (`deliver` to its waiter). -/
theorem C01_fixpoint (rec : Rec) (s : State) (wuid : Nat) (wt : Waiter) (w : Watcher)
    (hw : (getW wuid s).1 = w) (hst : w.status ≠ .stopped) (hage : w.maxAge = 0)
    (hcalm : s.k.Calm)
    (hlive : ∀ pid ∈ w.pids, ∃ p, s.k.find pid = some p ∧ p.st = .run)
    (hlen : (w.pids.length : Int) = w.np) :
    manageProcesses rec wuid wt s = deliver rec wt .unit (s.bump (2 * w.pids.length)) := by
  -- the loop only advances the call counter
  have hloop : ∀ s' : State, s'.k.Calm → (∀ pid ∈ w.pids, ∃ p, s'.k.find pid = some p ∧ p.st = .run) →
      (forIn w.pids PUnit.unit (fun pid (_ : PUnit) => (do
          let st ← procStatus pid
          if isDead st then do
            reapProcess wuid pid none
            pure (ForInStep.yield PUnit.unit)
          else pure (ForInStep.yield PUnit.unit) : M (ForInStep PUnit))) : M PUnit) s'
        = (PUnit.unit, s'.bump (2 * w.pids.length)) := by
    intro s' hc hl
    apply forIn_bump w.pids 2 _ (fun t => t.k.Calm ∧ ∀ pid ∈ w.pids, ∃ p, t.k.find pid = some p ∧ p.st = .run)
    · intro t n ht; exact ⟨Kernel.bump_calm _ n ht.1, ht.2⟩
    · intro pid hpid t ht
      obtain ⟨p, hf, hr⟩ := ht.2 pid hpid
      have hp := procStatus_running t pid p ht.1 hf hr
      simp only [bind, isDead, pure]
      generalize procStatus pid t = ps at hp
      subst hp
      simp
    · exact ⟨hc, hl⟩
  subst hw
  have hg : ∀ n, getW wuid (s.bump n) = ((getW wuid s).1, s.bump n) := fun n => rfl
  have hg0 : getW wuid s = ((getW wuid s).1, s) := rfl
  unfold manageProcesses
  simp only [bind]
  erw [if_neg hst]
  have hl := hloop s hcalm hlive
  simp only [bind] at hl
  have hsnd : (getW wuid s).snd = s := rfl
  rw [hsnd]
  erw [hl]
  have hage' : ¬ ((getW wuid s).1.maxAge > 0) := by omega
  erw [if_neg hage']
  -- manage_after_expire on the bumped state
  unfold manageAfterExpire
  simp only [bind]
  have hnlt : (decide (((getW wuid s).1.pids.length : Int) < (getW wuid s).1.np) && decide ((getW wuid s).1.status ≠ Status.stopping)) = false := by
    have : ¬ (((getW wuid s).1.pids.length : Int) < (getW wuid s).1.np) := by omega
    simp [this]
  have hg1 : (getW wuid (s.bump (2 * (getW wuid s).1.pids.length))).1 = (getW wuid s).1 := rfl
  have hg2 : (getW wuid (s.bump (2 * (getW wuid s).1.pids.length))).2 = s.bump (2 * (getW wuid s).1.pids.length) := rfl
  rw [hg1, hg2]
  simp only [hnlt, Bool.false_eq_true, if_false]
  unfold manageTail
  simp only [bind]
  rw [hg1, hg2]
  have hngt : ¬ (((getW wuid s).1.pids.length : Int) > (getW wuid s).1.np) := by omega
  erw [if_neg hngt]

/-! non-vacuity -/
example : NpOk { name := "w", np := 3 } ∧ NpOk { name := "s", np := 1, singleton := true } := by
  constructor <;> constructor <;> simp
example : (sortByStartedDesc [{ pid := 1, wid := 1, started := 5 }, { pid := 2, wid := 2, started := 9 },
    { pid := 3, wid := 3, started := 7 }]).map (·.pid) = [2, 3, 1] := by decide

end Circus.Core
