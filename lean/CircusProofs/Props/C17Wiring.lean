import CircusProofs.Lemmas.StreamWiring
/-!
# C17 (wiring part) — captured worker output is delivered … correctly labelled: WHICH stream gets a channel

`Props/C17.lean` follows a chunk from the pipe to `redirector.redirect[name]`.  These theorems are about what
that dict entry IS, in every state a watcher can reach from its constructor through any list of
`set <w> stdout_stream.* / stderr_stream.*`, `_create_redirectors`, `_start`, `_stop`, `_restart`,
`spawn_process` (model: `CircusModel/Model/StreamWiring.lean`, invariant: `Lemmas/StreamWiring.lean`).

All run theorems quantify over every pair of initial configurations (None, {}, any dict — duplicate keys
included) for which the constructor does not raise, and every op list.

What the real code does not do, with the explicit hypotheses / counter-examples below:
* the stream is built from the channel's *current* dict — from which `get_stream` popped `class` at the first
  build: the class is forgotten (`C17_wiring_counterexample_class_forgotten`), and a `set` of a plain key on a
  conf without `filename` / `stream` is answered with ValueError after the key was written: then (and only
  then) the conf is ahead of the stream (`Invalid` disjunct of `C17_wiring_delivered_built_for_channel`);
* a replaced stream is closed only when a redirector is present (`C17_wiring_replaced_closed` /
  `C17_wiring_counterexample_replaced_not_closed_without_redirector`);
* a ready-made object (`stream` key) that the conf still names is "replaced" by itself, and one object can serve both
  channels; since the repair of F30 (`in_use` test on the two attributes) `set` closes only a stream that is no
  attribute any more (`C17_wiring_set_closes_only_retired`, `C17_wiring_given_stream_never_closed_by_set`); a
  ready-made object can come back after having been replaced, so all "never again" statements are about streams
  built by `get_stream`, and it then comes back closed
  (`C17_wiring_counterexample_given_stream_reinstalled_closed`);
* `_start` re-opens only streams that have `open` (`C17_wiring_running_streams_open` /
  `C17_wiring_counterexample_no_open_stays_closed`).
-/
namespace Circus.Wiring

/-! ## (a) the redirector's targets are the watcher's attributes — no swap -/

/-- **no swap, every reachable state** — whenever a redirector is present, its stdout target IS the watcher's
    stdout stream attribute and its stderr target IS the stderr attribute: after the constructor and any list of
    `set` / `_create_redirectors` / start / stop / restart / spawn. -/
theorem C17_wiring_targets_are_attributes (co ce : Option Conf) (s0 : State) (h0 : init co ce = some s0)
    (ops : List Op) (r : Redir) (hr : (run s0 ops).red = some r) :
    r.tOut = (run s0 ops).sOut ∧ r.tErr = (run s0 ops).sErr :=
  ⟨(run_inv s0 ops (init_inv co ce s0 h0)).red r hr .out, (run_inv s0 ops (init_inv co ce s0 h0)).red r hr .err⟩

/-- **`_create_redirectors` does not swap** (any state, no invariant needed): the redirector it installs has
    the stdout attribute as its stdout target and the stderr attribute as its stderr target; it installs none
    exactly when both attributes are None. -/
theorem C17_wiring_create_no_swap (s : State) :
    (∀ r, (create s).red = some r → r.tOut = s.sOut ∧ r.tErr = s.sErr) ∧
    ((create s).red = none ↔ s.sOut = none ∧ s.sErr = none) := by
  unfold create
  cases ho : s.sOut <;> cases he : s.sErr <;> simp

/-- a chunk read from channel `ch` is handed to the watcher's attribute of `ch` (every reachable state) -/
theorem C17_wiring_deliver_is_attribute (co ce : Option Conf) (s0 : State) (h0 : init co ce = some s0)
    (ops : List Op) (ch : Chan) (x : Ref) (hd : deliver (run s0 ops) ch = some x) :
    (run s0 ops).attr ch = some x :=
  deliver_eq_attr _ (run_inv s0 ops (init_inv co ce s0 h0)).red ch x hd

/-! ## (b) the stream a channel is delivered to was built FOR that channel FROM that channel's configuration -/

/-- **built for the channel, from the channel's configuration** — in every reachable state, if the output of
    channel `ch` is delivered to a stream built by `get_stream`, that stream was built by a `get_stream` call on
    `ch`'s OWN conf (`b.chan = ch`), and its keyword arguments are `ch`'s current conf, all of it and nothing else
    (so the latest `set` of `ch` is included and no key of the other channel's conf is) — unless the current conf is
    one `get_stream` refuses: the last `set`s of `ch` were answered with ValueError after writing their key.
    Full statement without the `Invalid` disjunct is false for the real code:
    `C17_wiring_counterexample_conf_ahead_of_stream`. -/
theorem C17_wiring_delivered_built_for_channel (co ce : Option Conf) (s0 : State) (h0 : init co ce = some s0)
    (ops : List Op) (ch : Chan) (i : Nat) (hd : deliver (run s0 ops) ch = some (.built i)) :
    ∃ b, (run s0 ops).heap[i]? = some b ∧ b.chan = ch ∧
      ((run s0 ops).conf ch = some b.kwargs ∨ Invalid ((run s0 ops).conf ch)) := by
  have hI := run_inv s0 ops (init_inv co ce s0 h0)
  exact hI.attr ch _ (deliver_eq_attr _ hI.red ch _ hd)

/-- the same for a ready-made object: if channel `ch` is delivered to the object `v`, `ch`'s current conf has no
    `class` and names `v` under `stream` (`get_stream` on it answers `v`). -/
theorem C17_wiring_delivered_given_is_configured (co ce : Option Conf) (s0 : State) (h0 : init co ce = some s0)
    (ops : List Op) (ch : Chan) (v : Nat) (hd : deliver (run s0 ops) ch = some (.given v)) :
    (getStream ((run s0 ops).conf ch)).2 = .given v := by
  have hI := run_inv s0 ops (init_inv co ce s0 h0)
  exact hI.attr ch _ (deliver_eq_attr _ hI.red ch _ hd)

/-- **an accepted `set` takes effect at once** (any state): after `set ch k v` answered 0 or 1, a redirector is
    present and channel `ch` is delivered to the stream this very call obtained: either a stream built now (fresh
    identity, recorded as built for `ch` from `ch`'s conf with `k ↦ v` written and `class` popped, which is also the
    conf left behind), or the ready-made object the conf names. -/
theorem C17_wiring_set_takes_effect (s : State) (ch : Chan) (k v : Nat) (s' : State) (n : Nat)
    (h : setOp s ch k v = (s', .ret n)) :
    ∃ c, s.conf ch = some c ∧
      ((∃ cls, deliver s' ch = some (.built s.heap.length) ∧ s'.attr ch = some (.built s.heap.length) ∧
          s'.heap = s.heap ++ [⟨ch, cls, cpop (cset c k v) kClass⟩] ∧
          s'.conf ch = some (cpop (cset c k v) kClass)) ∨
       (∃ w, deliver s' ch = some (.given w) ∧ s'.attr ch = some (.given w) ∧ s'.heap = s.heap ∧
          cget (cset c k v) kStream = some w ∧ s'.conf ch = some (cset c k v))) := by
  obtain ⟨c, c2, g, hc, hg, hi⟩ := setOp_ret s ch k v s' n h
  obtain ⟨f1, f2, f3, -, f5, -⟩ := setOp_ok_fields s ch k v c c2 g hc hg hi
  rw [h] at f1 f2 f3 f5
  simp only [] at f1 f2 f3 f5
  refine ⟨c, hc, ?_⟩
  rcases getStream_accepts _ c2 g (cset_ne_nil c k v) hg hi with ⟨cls, e1, e2⟩ | ⟨w, e1, e2, -, e3⟩
  · subst e1 e2
    left
    refine ⟨cls, ?_, ?_, ?_, ?_⟩
    · rw [f5, deliver_setCore_self]; rfl
    · rw [f2, setCore_attr_self]; rfl
    · rw [f3, setCore_heap]; rfl
    · rw [f1, setCore_conf_self]
  · subst e1 e3
    right
    refine ⟨w, ?_, ?_, ?_, e2, ?_⟩
    · rw [f5, deliver_setCore_self]; rfl
    · rw [f2, setCore_attr_self]; rfl
    · rw [f3, setCore_heap]; simp [newEntry]
    · rw [f1, setCore_conf_self]

/-- the key just set is among the keyword arguments of the stream built by that `set`, with the value just set
    (for every key but `class`, which selects the class and is popped), and every other key of the channel's conf
    is passed on unchanged. -/
theorem C17_wiring_set_key_in_kwargs (c : Conf) (k v q : Nat) (hq : q ≠ kClass) :
    cget (cpop (cset c k v) kClass) q = if q = k then some v else cget c q := by
  rw [cget_cpop_ne _ _ _ hq, cget_cset]

/-- what `set` answers: TypeError exactly when the channel's conf is None (nothing is written); otherwise
    ValueError exactly when the conf with the key written is one `get_stream` refuses (only the conf is written);
    otherwise 0 when the redirector had a stream for the channel and 1 when it had none / there was no redirector. -/
theorem C17_wiring_set_result (s : State) (ch : Chan) (k v : Nat) :
    (s.conf ch = none → setOp s ch k v = (s, .typeError)) ∧
    (∀ c, s.conf ch = some c → Invalid (some (cset c k v)) →
        setOp s ch k v = (s.setConf ch (some (cset c k v)), .valueError)) ∧
    (∀ c, s.conf ch = some c → ¬ Invalid (some (cset c k v)) →
        (setOp s ch k v).2 = .ret (if (deliver s ch).isSome then 0 else 1)) := by
  refine ⟨setOp_none s ch k v, ?_, ?_⟩
  · intro c hc hi
    cases hg : getStream (some (cset c k v)) with
    | mk c2 g =>
      unfold Invalid at hi; rw [hg] at hi; simp only [] at hi; subst hi
      rw [setOp_invalid s ch k v c c2 hc hg]
  · intro c hc hi
    cases hg : getStream (some (cset c k v)) with
    | mk c2 g =>
      have : g ≠ .invalid := by intro e; apply hi; unfold Invalid; rw [hg]; exact e
      exact (setOp_ok_fields s ch k v c c2 g hc hg this).2.2.2.2.2.2.2.2

/-! ## (c) a `set` on one channel never changes where the other channel goes -/

/-- **the other channel is untouched** (any state): `set ch …` never changes the other channel's stream attribute
    nor its conf, whatever it answers. -/
theorem C17_wiring_set_keeps_other_attr (s : State) (ch : Chan) (k v : Nat) :
    (setOp s ch k v).1.attr ch.other = s.attr ch.other ∧ (setOp s ch k v).1.conf ch.other = s.conf ch.other := by
  cases hc : s.conf ch with
  | none => rw [setOp_none s ch k v hc]; exact ⟨rfl, rfl⟩
  | some c =>
    cases hg : getStream (some (cset c k v)) with
    | mk c2 g =>
      by_cases hi : g = .invalid
      · subst hi; rw [setOp_invalid s ch k v c c2 hc hg]; exact ⟨setConf_attr _ _ _ _, setConf_conf_other _ _ _⟩
      · obtain ⟨f1, f2, -⟩ := setOp_ok_fields s ch k v c c2 g hc hg hi
        exact ⟨(f2 _).trans (setCore_attr_other s ch c2 g), (f1 _).trans (setCore_conf_other s ch c2 g)⟩

/-- **where the other channel is delivered does not change** (any state with a redirector — no invariant needed):
    `set ch …` leaves the delivery target of the other channel exactly as it was, whatever it answers. -/
theorem C17_wiring_set_keeps_other_channel (s : State) (ch : Chan) (k v : Nat) (hr : s.red.isSome = true) :
    deliver (setOp s ch k v).1 ch.other = deliver s ch.other := by
  cases hc : s.conf ch with
  | none => rw [setOp_none s ch k v hc]
  | some c =>
    cases hg : getStream (some (cset c k v)) with
    | mk c2 g =>
      by_cases hi : g = .invalid
      · subst hi; rw [setOp_invalid s ch k v c c2 hc hg]; simp [deliver]
      · obtain ⟨-, -, -, -, f5, -⟩ := setOp_ok_fields s ch k v c c2 g hc hg hi
        rw [f5, deliver_setCore_other]
        cases hs : s.red with
        | none => rw [hs] at hr; cases hr
        | some r0 => simp [deliver, hs]

/-- without a redirector (stopped watcher, or nothing configured so far) an accepted `set` creates one from the two
    attributes: the other channel is then delivered to its own attribute, untouched by this `set`. -/
theorem C17_wiring_set_creates_redirector_from_attributes (s : State) (ch : Chan) (k v : Nat) (s' : State) (n : Nat)
    (h : setOp s ch k v = (s', .ret n)) (hr : s.red = none) :
    deliver s' ch.other = s.attr ch.other ∧ n = 1 ∧ ∃ r, s'.red = some r ∧ r.running = true := by
  obtain ⟨c, c2, g, hc, hg, hi⟩ := setOp_ret s ch k v s' n h
  obtain ⟨-, -, -, -, f5, -, -, -, f8⟩ := setOp_ok_fields s ch k v c c2 g hc hg hi
  have hold : oldOf s ch = none := by simp [oldOf, hr]
  rw [h] at f5 f8
  simp only [hold, Option.isSome_none, Bool.false_eq_true, if_false, Res.ret.injEq] at f8
  refine ⟨?_, f8, ?_⟩
  · rw [f5, deliver_setCore_other, hr]
  · have := setOp_ok s ch k v c c2 g hc hg hi
    rw [hold, h] at this
    simp only [Prod.mk.injEq] at this
    obtain ⟨r, hr1, -⟩ := setCore_red s ch c2 g
    rw [this.1]
    exact ⟨r.start, by simp [hr1], rfl⟩

/-! ## (d) replaced streams -/

/-- **the replaced stream is closed** (any state): when `set ch …` is accepted while the redirector delivers `ch` to
    a stream `o` that can be closed and that is really retired by it (afterwards `o` is the attribute of neither
    channel), `o` is closed afterwards.  The hypothesis "the redirector delivers `ch` to `o`" cannot be dropped:
    without a redirector the replaced attribute is left open
    (`C17_wiring_counterexample_replaced_not_closed_without_redirector`). -/
theorem C17_wiring_replaced_closed (s : State) (ch : Chan) (k v : Nat) (s' : State) (n : Nat)
    (h : setOp s ch k v = (s', .ret n)) (o : Ref) (hd : deliver s ch = some o) (hne : ∀ ch', s'.attr ch' ≠ some o)
    (hcl : s.hasClose o = true) : s'.isClosed o = true ∧ n = 0 := by
  obtain ⟨c, c2, g, hc, hg, hi⟩ := setOp_ret s ch k v s' n h
  obtain ⟨-, f2, -, -, -, -, f7, -, f8⟩ := setOp_ok_fields s ch k v c c2 g hc hg hi
  rw [h] at f2 f7 f8
  have hold : oldOf s ch = some o := hd
  simp only [hold, Option.isSome_some, if_true, Res.ret.injEq] at f8
  refine ⟨?_, f8⟩
  have := f7 o hold (fun ch' => by rw [← f2]; exact hne ch') (hasClose_mono s _ _ (setCore_heap s ch c2 g) o hcl)
  simp [State.isClosed, this]

/-- **a replaced built stream is closed** — in every reachable state, when `set ch …` is accepted while `ch` is
    delivered to a stream built by `get_stream` whose class has `close`, that stream is closed afterwards (it is
    always really retired: the new stream has a fresh identity and the other channel never holds it). -/
theorem C17_wiring_replaced_built_closed (co ce : Option Conf) (s0 : State) (h0 : init co ce = some s0)
    (ops : List Op) (ch : Chan) (i : Nat) (hd : deliver (run s0 ops) ch = some (.built i))
    (hcl : (run s0 ops).hasClose (.built i) = true)
    (k v : Nat) (s' : State) (n : Nat) (h : setOp (run s0 ops) ch k v = (s', .ret n)) :
    s'.isClosed (.built i) = true ∧ n = 0 := by
  have hI := run_inv s0 ops (init_inv co ce s0 h0)
  obtain ⟨c, c2, g, hc, hg, hi⟩ := setOp_ret _ ch k v s' n h
  obtain ⟨-, f2, -⟩ := setOp_ok_fields _ ch k v c c2 g hc hg hi
  rw [h] at f2
  simp only [] at f2
  refine C17_wiring_replaced_closed _ ch k v s' n h _ hd (fun ch' e => ?_) hcl
  rw [f2] at e
  exact old_not_new_attr _ ch c2 g hI _ hd ch' i e rfl

/-- **`set` closes only a retired stream** (any state; the repaired `in_use` test, former finding F30 in both its cases): after an
    accepted `set ch …` a stream that is the attribute of either channel is closed only if it was closed before — in
    particular the stream just installed, a ready-made object the conf still names ("replaced" by itself), and a
    ready-made object the other channel shares. -/
theorem C17_wiring_set_closes_only_retired (s : State) (ch : Chan) (k v : Nat) (s' : State) (n : Nat)
    (h : setOp s ch k v = (s', .ret n)) (ch' : Chan) (x : Ref) (ha : s'.attr ch' = some x)
    (hop : s.isClosed x = false) : s'.isClosed x = false := by
  obtain ⟨c, c2, g, hc, hg, hi⟩ := setOp_ret s ch k v s' n h
  obtain ⟨-, f2, -, -, -, -, -, f8, -⟩ := setOp_ok_fields s ch k v c c2 g hc hg hi
  rw [h] at f2 f8
  simp only [] at f2 f8
  have hx : x ∉ s'.closed := by
    intro hx
    rcases f8 x hx with hx | ⟨-, hne⟩
    · rw [setCore_closed] at hx
      simp [State.isClosed] at hop
      exact hop hx
    · exact hne ch' (by rw [← f2]; exact ha)
  simpa [State.isClosed] using hx

/-- **a ready-made stream that stays a delivery target is never closed by `set`** — in every reachable state, if after
    an accepted `set ch …` the object `w` receives the output of either channel (the set channel, whose conf still
    names it, or the other channel, which shares it) and `w` was open, it is open afterwards. -/
theorem C17_wiring_given_stream_never_closed_by_set (co ce : Option Conf) (s0 : State) (h0 : init co ce = some s0)
    (ops : List Op) (ch : Chan) (k v : Nat) (s' : State) (n : Nat)
    (h : setOp (run s0 ops) ch k v = (s', .ret n)) (ch' : Chan) (w : Nat)
    (hd : deliver s' ch' = some (.given w)) (hop : (run s0 ops).isClosed (.given w) = false) :
    s'.isClosed (.given w) = false := by
  have hI := run_inv s0 ops (init_inv co ce s0 h0)
  have hI' : Inv s' := by have := step_inv _ (.set ch k v) hI; simpa [step, h] using this
  exact C17_wiring_set_closes_only_retired _ ch k v s' n h ch' _ (deliver_eq_attr _ hI'.red ch' _ hd) hop

/-- **a retired stream is never delivered to again** — in a reachable state, a stream built by `get_stream` that is
    no longer one of the watcher's two attributes never receives a chunk of either channel again, whatever follows
    (further `set`s, restarts, re-created redirectors). -/
theorem C17_wiring_retired_never_again (co ce : Option Conf) (s0 : State) (h0 : init co ce = some s0)
    (ops : List Op) (i : Nat) (hi : i < (run s0 ops).heap.length)
    (hn : ∀ ch, (run s0 ops).attr ch ≠ some (.built i)) (more : List Op) (ch : Chan) :
    deliver (run (run s0 ops) more) ch ≠ some (.built i) := by
  have hI := run_inv (run s0 ops) more (run_inv s0 ops (init_inv co ce s0 h0))
  intro hd
  exact (run_retired (run s0 ops) more i ⟨hi, hn⟩).2 ch (deliver_eq_attr _ hI.red ch _ hd)

/-- **the stream a `set` replaces is retired by it** — in a reachable state, if channel `ch` is delivered to the
    built stream `i` and `set ch …` is accepted, then from the next state on no chunk of either channel is ever
    delivered to `i` again (and by `C17_wiring_replaced_closed` it is closed if it can be). -/
theorem C17_wiring_set_retires_old_stream (co ce : Option Conf) (s0 : State) (h0 : init co ce = some s0)
    (ops : List Op) (ch : Chan) (i : Nat) (hd : deliver (run s0 ops) ch = some (.built i))
    (k v : Nat) (s' : State) (n : Nat) (h : setOp (run s0 ops) ch k v = (s', .ret n))
    (more : List Op) (ch' : Chan) : deliver (run s' more) ch' ≠ some (.built i) := by
  have hI := run_inv s0 ops (init_inv co ce s0 h0)
  obtain ⟨c, c2, g, hc, hg, hi⟩ := setOp_ret _ ch k v s' n h
  obtain ⟨-, f2, f3, -⟩ := setOp_ok_fields _ ch k v c c2 g hc hg hi
  rw [h] at f2 f3
  simp only [] at f2 f3
  obtain ⟨b, hb, -, -⟩ := hI.attr ch _ (deliver_eq_attr _ hI.red ch _ hd)
  have hret : Retired s' i := by
    refine ⟨?_, fun c' e => ?_⟩
    · rw [f3, setCore_heap, List.length_append]
      exact Nat.lt_of_lt_of_le (lt_of_getElemOpt_some _ _ _ hb) (Nat.le_add_right _ _)
    · rw [f2] at e
      exact old_not_new_attr _ ch c2 g hI _ hd c' i e rfl
  have hI' : Inv s' := by have := step_inv _ (.set ch k v) hI; simpa [step, h] using this
  intro hd'
  exact (run_retired s' more i hret).2 ch' (deliver_eq_attr _ (run_inv s' more hI').red ch' _ hd')

/-- **a running watcher writes into open streams** — in every reachable state in which the watcher is not stopped, a
    built stream that channel `ch` is delivered to and whose class has `open` (FileStream and its relatives) is not
    closed.  For a class without `open` the statement is false: `C17_wiring_counterexample_no_open_stays_closed`; for
    ready-made objects it is false as well (`_stop(True)` closes them and `_start` re-opens them like any attribute, but
    see `C17_wiring_counterexample_given_stream_reinstalled_closed`: an object retired and closed by one `set` and named
    again by a later one is installed closed). -/
theorem C17_wiring_running_streams_open (co ce : Option Conf) (s0 : State) (h0 : init co ce = some s0)
    (ops : List Op) (hs : (run s0 ops).stopped = false) (ch : Chan) (i : Nat) (b : Built)
    (hd : deliver (run s0 ops) ch = some (.built i)) (hb : (run s0 ops).heap[i]? = some b)
    (ho : b.cls.hasOpen = true) : (run s0 ops).isClosed (.built i) = false := by
  have hI := run_inv s0 ops (init_inv co ce s0 h0)
  have := hI.openOk hs ch i b (deliver_eq_attr _ hI.red ch _ hd) hb ho
  simpa [State.isClosed] using this

/-! ## non-vacuity and the deviations of the real code, by evaluation -/

/-- stdout: `{class: <close+open>, filename: 10}`, stderr: `{class: <close+open>, filename: 11}` -/
def exBoth : Option State := init (some [(kClass, 30), (kFilename, 10)]) (some [(kClass, 30), (kFilename, 11)])

/-- the history of the seeded slip: start, `set stderr_stream.filename 12`, restart -/
def exOps : List Op := [.start, .set .err kFilename 12, .restart]

/-- the hypotheses of the run theorems are satisfiable on a non-trivial history, and the conclusions say something:
    after start / set stderr / restart a redirector is present, stdout goes to the stream built first (for stdout),
    stderr to the third stream (built for stderr from `{filename: 12}`), and the replaced second stream is closed. -/
example : ∃ s0, exBoth = some s0 ∧
    deliver (run s0 exOps) .out = some (.built 0) ∧ deliver (run s0 exOps) .err = some (.built 2) ∧
    (run s0 exOps).heap[2]? = some ⟨.err, .file, [(kFilename, 12)]⟩ ∧
    (run s0 exOps).conf .err = some [(kFilename, 12)] ∧
    (run s0 exOps).isClosed (.built 1) = true ∧ (run s0 exOps).isClosed (.built 2) = false ∧
    (run s0 exOps).stopped = false := by
  refine ⟨_, rfl, ?_⟩
  decide

/-- `C17_wiring_set_takes_effect` / `C17_wiring_replaced_closed`: an accepted `set` with a closable old target -/
example : ∃ s0 s' , exBoth = some s0 ∧ setOp (run s0 [.start]) .err kFilename 12 = (s', .ret 0) ∧
    deliver (run s0 [.start]) .err = some (.built 1) ∧ (run s0 [.start]).hasClose (.built 1) = true := by
  refine ⟨_, _, rfl, rfl, ?_⟩
  decide

/-- the class is forgotten: `class` is popped by the first build, so a later `set` of a plain key builds a
    FileStream when the conf has a `filename` … -/
theorem C17_wiring_counterexample_class_forgotten :
    ∃ s0, init (some [(kClass, 31), (kFilename, 10)]) none = some s0 ∧
      s0.heap[0]? = some ⟨.out, .closeOnly, [(kFilename, 10)]⟩ ∧
      (run s0 [.start, .set .out 3 12]).heap[1]? = some ⟨.out, .file, [(kFilename, 10), (3, 12)]⟩ ∧
      deliver (run s0 [.start, .set .out 3 12]) .out = some (.built 1) := by
  refine ⟨_, rfl, ?_⟩
  decide

/-- … and is refused with ValueError when it has none — after the key was written: the conf is then ahead of the
    stream the channel is delivered to (the `Invalid` disjunct of `C17_wiring_delivered_built_for_channel`). -/
theorem C17_wiring_counterexample_conf_ahead_of_stream :
    ∃ s0, init (some [(kClass, 31), (5, 10)]) none = some s0 ∧
      (step (run s0 [.start]) (.set .out 5 12)).2 = .valueError ∧
      deliver (run s0 [.start, .set .out 5 12]) .out = some (.built 0) ∧
      (run s0 [.start, .set .out 5 12]).heap[0]? = some ⟨.out, .closeOnly, [(5, 10)]⟩ ∧
      (run s0 [.start, .set .out 5 12]).conf .out = some [(5, 12)] ∧
      Invalid ((run s0 [.start, .set .out 5 12]).conf .out) := by
  refine ⟨_, rfl, ?_⟩
  decide

/-- without a redirector (here: a watcher that was never started) `_reload_stream` has no `old_stream`: the replaced
    attribute stream is not closed (and the redirector is created and started on a stopped watcher). -/
theorem C17_wiring_counterexample_replaced_not_closed_without_redirector :
    ∃ s0 s', exBoth = some s0 ∧ setOp s0 .out kFilename 12 = (s', .ret 1) ∧
      s0.attr .out = some (.built 0) ∧ s0.hasClose (.built 0) = true ∧
      s'.attr .out = some (.built 2) ∧ s'.isClosed (.built 0) = false ∧
      s'.stopped = true ∧ s'.red = some ⟨some (.built 2), some (.built 1), true⟩ := by
  refine ⟨_, _, rfl, rfl, ?_⟩
  decide

/-- the former F30 witness now passes: a ready-made object shared by both channels, `set` of a plain key on stdout: both
    channels are still delivered to it and it is open (non-vacuity of `C17_wiring_given_stream_never_closed_by_set`
    / `C17_wiring_set_closes_only_retired`). -/
example : ∃ s0, init (some [(kStream, 30)]) (some [(kStream, 30)]) = some s0 ∧
    (step (run s0 [.start]) (.set .out 3 12)).2 = .ret 0 ∧
    deliver (run s0 [.start]) .out = some (.given 30) ∧
    deliver (run s0 [.start, .set .out 3 12]) .out = some (.given 30) ∧
    deliver (run s0 [.start, .set .out 3 12]) .err = some (.given 30) ∧
    (run s0 [.start, .set .out 3 12]).isClosed (.given 30) = false := by
  refine ⟨_, rfl, ?_⟩
  decide

/-- the second F30 witness (shared object) passes as well: stdout really replaces the object both channels share (`set … .class`): stderr
    is still delivered to it and it stays open. -/
example : ∃ s0, init (some [(kStream, 30)]) (some [(kStream, 30)]) = some s0 ∧
    (step (run s0 [.start]) (.set .out kClass 33)).2 = .ret 0 ∧
    deliver (run s0 [.start, .set .out kClass 33]) .out = some (.built 0) ∧
    deliver (run s0 [.start, .set .out kClass 33]) .err = some (.given 30) ∧
    (run s0 [.start, .set .out kClass 33]).isClosed (.given 30) = false := by
  refine ⟨_, rfl, ?_⟩
  decide

/-- what still fails for ready-made objects: an object that was replaced (and closed) and is named again by a later
    `set … .stream` is installed as it is — closed; nothing re-opens it before the next start. -/
theorem C17_wiring_counterexample_given_stream_reinstalled_closed :
    ∃ s0, init (some [(kStream, 30)]) none = some s0 ∧
      deliver (run s0 [.start, .set .out kStream 33, .set .out kStream 30]) .out = some (.given 30) ∧
      (run s0 [.start, .set .out kStream 33, .set .out kStream 30]).isClosed (.given 30) = true ∧
      (run s0 [.start, .set .out kStream 33, .set .out kStream 30]).stopped = false := by
  refine ⟨_, rfl, ?_⟩
  decide

/-- a stream class with `close` but no `open`: `stop` closes it, the next start cannot re-open it, and the running
    watcher delivers into the closed stream. -/
theorem C17_wiring_counterexample_no_open_stays_closed :
    ∃ s0, init (some [(kClass, 31)]) none = some s0 ∧
      deliver (run s0 [.start, .stop true, .start]) .out = some (.built 0) ∧
      (run s0 [.start, .stop true, .start]).isClosed (.built 0) = true ∧
      (run s0 [.start, .stop true, .start]).stopped = false := by
  refine ⟨_, rfl, ?_⟩
  decide

end Circus.Wiring
