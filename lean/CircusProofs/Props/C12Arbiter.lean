import CircusProofs.Props.C12
/-!
# C12, arbiter part — what `reloadconfig` does when the `[circus]` section changed

C12 holds the `[circus]` section fixed ("changing it is documented to restart everything").  The
model nevertheless carries that branch of `Arbiter.reload_from_config`
(`if self.get_arbiter_config(new_cfg) != self._cfg: yield self._restart(…); return`, with
`inside_circusd=False` as the `reloadconfig` command calls it): `Circus.Reload.reloadA`,
`restartAll`.  These theorems say (1) that with a fixed `[circus]` section the arbiter-aware
functions are exactly the watcher-only ones all the other C12 theorems speak about, so those
theorems apply to `reloadA` / `runA` as they stand, and (2) what precisely "restart everything"
means in the code: every watcher is stopped and the autostart ones are started again with fresh
workers, **nothing of the new file is applied**, and the baseline `Arbiter._cfg` is not brought up to
date, so every later reload of a file whose `[circus]` section still differs from the one the daemon
was started with restarts everything again.
-/
namespace Circus.Reload
open Circus.Config (Str)

/-- **a fixed `[circus]` section makes the arbiter part disappear**: when every version carries the
    arbiter configuration the daemon was started with, `runA` is `run` on the watcher sections (and the
    baseline stays), so every C12 theorem about `run` / `reload` is a theorem about the full
    `reload_from_config`. -/
theorem C12_fixed_circus_section_is_watcher_reload (a : AState) (vs : List (Str × List Cfg))
    (h : ∀ v ∈ vs, v.1 = a.arb) :
    runA a vs = { arb := a.arb, st := run a.st (vs.map (·.2)) } := by
  induction vs generalizing a with
  | nil => rfl
  | cons v r ih =>
    have hv : v.1 = a.arb := h v List.mem_cons_self
    have h1 : reloadA a v = { arb := a.arb, st := reload a.st v.2 } := by
      unfold reloadA; simp [hv]
    show runA (reloadA a v) r = _
    rw [h1]
    exact ih { arb := a.arb, st := reload a.st v.2 } (fun x hx => h x (List.mem_cons_of_mem _ hx))

/-- the baseline `Arbiter._cfg` is never brought up to date by a reload -/
theorem C12_arbiter_baseline_never_updated (a : AState) (vs : List (Str × List Cfg)) :
    (runA a vs).arb = a.arb := by
  induction vs generalizing a with
  | nil => rfl
  | cons v r ih =>
    show (runA (reloadA a v) r).arb = a.arb
    rw [ih]; unfold reloadA; split <;> rfl

theorem startLoop_static (ws : List W) (nx : Nat) :
    (startLoop ws nx).1.map (fun w => (w.name, w.cfg, w.np)) = ws.map (fun w => (w.name, w.cfg, w.np)) := by
  induction ws generalizing nx with
  | nil => rfl
  | cons w r ih =>
    simp only [startLoop, List.map_cons, ih]
    congr 1
    unfold startW; split
    · rfl
    · simp only []
      split <;> rfl

theorem stopAll_static (ws : List W) :
    (stopAll ws).map (fun w => (w.name, w.cfg, w.np)) = ws.map (fun w => (w.name, w.cfg, w.np)) := by
  unfold stopAll; simp [List.map_map, Function.comp_def]

/-- **a changed `[circus]` section applies nothing of the new file**: after such a reload the daemon
    has the same watchers in the same order, each with the stored dict and the `numprocesses` it had
    before — whatever the new file says about them (added, removed or edited sections are ignored). -/
theorem C12_arbiter_change_applies_nothing (a : AState) (v : Str × List Cfg) (h : v.1 ≠ a.arb) :
    (reloadA a v).st.ws.map (fun w => (w.name, w.cfg, w.np)) = a.st.ws.map (fun w => (w.name, w.cfg, w.np))
    ∧ (reloadA a v).arb = a.arb := by
  unfold reloadA; simp only [h, ne_eq, not_false_eq_true, ↓reduceIte, and_true]
  unfold restartAll
  rw [startLoop_static, stopAll_static]

theorem startLoop_fresh (ws : List W) (nx : Nat) (h : ∀ w ∈ ws, w.pids = []) :
    (∀ w ∈ (startLoop ws nx).1, ∀ p ∈ w.pids, nx ≤ p ∧ p < (startLoop ws nx).2) ∧ nx ≤ (startLoop ws nx).2 := by
  induction ws generalizing nx with
  | nil => simp [startLoop]
  | cons w r ih =>
    have hw : w.pids = [] := h w List.mem_cons_self
    have ihr := ih (startW w nx).2 (fun x hx => h x (List.mem_cons_of_mem _ hx))
    have hs : (∀ p ∈ (startW w nx).1.pids, nx ≤ p ∧ p < (startW w nx).2) ∧ nx ≤ (startW w nx).2 := by
      unfold startW; split
      · simp [hw]
      · simp only [hw, List.length_nil, Nat.sub_zero, List.nil_append]
        split
        · simp
        · refine ⟨?_, by simp⟩
          intro p hp
          simp only [List.mem_range'_1] at hp
          exact ⟨hp.1, by omega⟩
    simp only [startLoop]
    refine ⟨?_, Nat.le_trans hs.2 ihr.2⟩
    intro x hx p hp
    rcases List.mem_cons.1 hx with rfl | hx
    · exact ⟨(hs.1 p hp).1, Nat.lt_of_lt_of_le (hs.1 p hp).2 ihr.2⟩
    · exact ⟨Nat.le_trans hs.2 (ihr.1 x hx p hp).1, (ihr.1 x hx p hp).2⟩

/-- **a changed `[circus]` section restarts every worker**: after such a reload no worker the daemon
    had before is listed any more — every listed pid is fresh (at or above the kernel's next free pid
    of the moment the reload began). -/
theorem C12_arbiter_change_restarts_every_worker (a : AState) (v : Str × List Cfg) (h : v.1 ≠ a.arb) :
    ∀ w ∈ (reloadA a v).st.ws, ∀ p ∈ w.pids, a.st.next ≤ p ∧ p < (reloadA a v).st.next := by
  unfold reloadA; simp only [h, ne_eq, not_false_eq_true, ↓reduceIte]
  unfold restartAll
  exact (startLoop_fresh (stopAll a.st.ws) a.st.next (by
    intro w hw; unfold stopAll at hw
    obtain ⟨x, _, rfl⟩ := List.mem_map.1 hw; rfl)).1

/-- … and it keeps doing so: as long as the file's `[circus]` section differs from the one the daemon
    was started with, *every* reload is a restart of everything — also the reload of a file that has
    not been touched since the previous reload. -/
theorem C12_arbiter_change_is_sticky (a : AState) (v : Str × List Cfg) (h : v.1 ≠ a.arb) :
    reloadA (reloadA a v) v = { arb := a.arb, st := restartAll (restartAll a.st) } := by
  have h1 : reloadA a v = { arb := a.arb, st := restartAll a.st } := by unfold reloadA; simp [h]
  rw [h1]; unfold reloadA; simp [h]

/-! non-vacuity: a daemon with two watchers, one of them with autostart off -/

private def cA : Cfg := { name := [97], np := 2, opts := [], env := [] }
private def cB : Cfg := { name := [98], np := 1, opts := [(cp! "autostart", atomFalse)], env := [] }
private def a0 : AState := { arb := [110, 53, 101, 48], st := freshStart [cA, cB] 100 }

example : a0.st.ws.map (·.pids) = [[100, 101], []] := by decide +kernel
example : (reloadA a0 ([110, 54, 101, 48], [cB])).st.ws.map (·.pids) = [[102, 103], []] := by decide +kernel
example : (reloadA a0 ([110, 54, 101, 48], [cB])).st.ws.map (·.name) = [[97], [98]] := by decide +kernel
example : (runA a0 [([110, 53, 101, 48], [cA, cB]), ([110, 53, 101, 48], [cA])]).st.ws.map (·.pids) = [[100, 101]] := by
  decide +kernel

end Circus.Reload
