import CircusProofs.Lemmas.FileStream
/-!
# C20 — log files rotate by size without losing or reordering retained data

Property theorems only (helper lemmas live in `Lemmas/FileStream.lean`).  All statements
quantify over every `maxBytes`, every `backup_count n`, every list of writes and every initial
directory (pre-existing backups at any indices, gaps allowed).
-/
namespace Circus.FileStream

/-- **size** — with rotation configured (`maxBytes > 0`, `n ≥ 1`) and no time prefix, after any
    non-empty sequence of writes each shorter than `maxBytes`, the active file is shorter than
    `maxBytes` (applies to every prefix of the sequence, hence "never reaches max_bytes"). -/
theorem C20_size (mb n : Nat) (d : Dir) (ws : List Bytes) (hmb : 0 < mb) (hn : 1 ≤ n)
    (hw : ∀ w ∈ ws, w.length < mb) (hne : ws ≠ []) :
    (calls mb n none d ws).active.length < mb := by
  have step : ∀ (d : Dir) (w : Bytes), w.length < mb → (call mb n none d w).active.length < mb := by
    intro d w hlt
    unfold call
    by_cases hr : shouldRollover mb d w
    · simp [hr, fileData, doRollover_active n d (by omega), hlt]
    · simp only [hr, fileData]
      simp only [shouldRollover, Bool.and_eq_true, decide_eq_true_eq, not_and, Nat.not_le] at hr
      simpa using hr hmb
  unfold calls
  induction ws generalizing d with
  | nil => exact absurd rfl hne
  | cons w ws ih =>
    rw [List.foldl_cons]
    by_cases hws : ws = []
    · subst hws; exact step d w (hw w (by simp))
    · exact ih _ (fun x hx => hw x (by simp [hx])) hws

/-- **count** — no file with an index beyond `backup_count` is ever created, removed or changed. -/
theorem C20_count (mb n : Nat) (pre) (d : Dir) (ws : List Bytes) (k : Nat) (hk : k > n) :
    (calls mb n pre d ws).backup k = d.backup k := by
  unfold calls
  induction ws generalizing d with
  | nil => rfl
  | cons w ws ih => rw [List.foldl_cons, ih, call_beyond mb n pre d w k hk]

/-- corollary: if no backup beyond `n` existed at the start, at most `n` numbered backups exist. -/
theorem C20_count_at_most (mb n : Nat) (pre) (d : Dir) (ws : List Bytes)
    (h0 : ∀ k, k > n → d.backup k = none) :
    ∀ k, (calls mb n pre d ws).exists k → k ≤ n := by
  intro k hk
  by_cases h : k > n
  · rw [Dir.exists, C20_count mb n pre d ws k h, h0 k h] at hk; simp at hk
  · omega

/-- **tail** — backups oldest→newest followed by the active file are a contiguous, unduplicated,
    order-preserving *suffix* of (what was retained initially) ++ (everything written). -/
theorem C20_tail (mb n : Nat) (pre) (d : Dir) (ws : List Bytes) :
    retained n (calls mb n pre d ws) <:+ retained n d ++ (ws.map (fileData pre)).flatten := by
  unfold calls
  induction ws generalizing d with
  | nil => simp
  | cons w ws ih =>
    rw [List.foldl_cons]
    refine List.IsSuffix.trans (ih _) ?_
    have := suffix_append_right ((ws.map (fileData pre)).flatten) (retained_call mb n pre d w)
    simpa [List.append_assoc] using this

/-- **prefix** — with a time format, the appended text is a non-empty sequence of lines each
    consisting of the prefix, a newline-free piece and `'\n'`, and the pieces joined by `'\n'`
    are exactly the data with trailing newlines stripped. -/
theorem C20_prefix (p data : Bytes) :
    ∃ ls : List Bytes, ls ≠ [] ∧ (∀ l ∈ ls, 10 ∉ l) ∧
      rstripNl data = List.intercalate [10] ls ∧
      fileData (some p) data = (ls.map (fun l => p ++ l ++ [10])).flatten := by
  obtain ⟨ls, h1, h2, h3, h4⟩ := replaceNl_lines p (rstripNl data)
  exact ⟨ls, h1, h2, h3, by simpa [fileData] using h4⟩

/-- **plain append** — without rotation settings (`max_bytes = 0`) the file is an exact
    append-only copy, backups are never touched, also across close/reopen. -/
theorem C20_plain_append (n : Nat) (d : Dir) (ws : List Bytes) :
    (calls 0 n none d ws).active = d.active ++ ws.flatten ∧
    (calls 0 n none d ws).backup = d.backup := by
  unfold calls
  induction ws generalizing d with
  | nil => simp
  | cons w ws ih =>
    rw [List.foldl_cons]
    obtain ⟨h1, h2⟩ := ih (call 0 n none d w)
    rw [h1, h2]
    simp [call, shouldRollover, fileData]

theorem C20_reopen (mb n : Nat) (pre) (d : Dir) (ws ws' : List Bytes) :
    calls mb n pre (closeOpen (calls mb n pre d ws)) ws' = calls mb n pre d (ws ++ ws') := by
  simp [calls, closeOpen, List.foldl_append]

/-! ### non-vacuity: concrete states meeting the hypotheses, with rollover actually happening -/

private def d0 : Dir := { active := [1, 2, 3], backup := fun i => if i = 2 then some [9] else none }

example : (calls 4 2 none d0 [[5], [6, 7]]).active = [5, 6, 7] := by decide
example : (calls 4 2 none d0 [[5], [6, 7]]).backup 1 = some [1, 2, 3] := by decide
example : (0 < 4) ∧ (1 ≤ 2) ∧ (∀ w ∈ [[5], [6, 7]], w.length < 4) := by decide
example : retained 2 (calls 4 2 none d0 [[5], [6, 7], [8, 8, 8]]) = [1, 2, 3, 5, 6, 7, 8, 8, 8] := by decide
example : fileData (some [80]) [97, 10, 98, 10, 10] = [80, 97, 10, 80, 98, 10] := by decide

end Circus.FileStream
