import CircusProofs.Props.C10
import CircusProofs.Core.StopRunE
import CircusProofs.Props.C03
/-!
# C10 — operations that FAIL part-way: a worker the daemon is not permitted to signal (EPERM)

`os.kill` raises `PermissionError` for a worker that runs under another uid; psutil turns it into
`psutil.AccessDenied` — a `psutil.Error`, neither an `OSError` nor a `NoSuchProcess` — which no `except` clause of
`Watcher.send_signal` / `send_signal_process` / `kill_process` / `kill_processes` / `_stop` catches: the stop (restart,
rm, quit, decr, reload, kill …) fails part-way.  C10: "when the operation in flight ends — successfully, with an error
… — the next state-changing request is accepted again".

* `C10_slot_inv`, `C10_taken_means_pending`, `C10_release_whatever_outcome_*` (Props/C10.lean) and the wake-up
  invariant (Props/C10Wake.lean) are stated for **every** list of worker behaviours, the unsignalable ones included:
  they hold along all the failing histories too (`C10_slot_inv_unsignalable` spells the instance out).
* `C10_multi_waits_for_every_child`, `C10_multi_completes_with_last_child`, `C10_multi_failure_is_reported`: a
  `gen.multi` (the body of `Arbiter._stop_watchers`, `kill_processes`, `manage_watchers`) ends only when its **last**
  child has ended, also when an earlier child failed — the failure is then its result.  So a multi-watcher stop in
  which one `_stop` fails at once keeps the exclusive slot until the slowest `_stop` has ended (`c10fStop`: evaluated).
* `C10_failed_stop_frees_slot` (run level, Core/StopRunE.lean: symbolic execution of the whole request step, any
  number of workers): the `stop` of a watcher whose workers the daemon may not signal fails inside the request step —
  slot free, nothing in flight, one reply, the watcher left `stopping` with its workers — and every operation that
  arrives next is accepted.
* Two histories in which the code used to stay wedged (findings F33 / F34, replayed on the real code by the harness,
  corpus/C10) are repaired in the pinned tree and are now positive theorems: since fix 273f512 a failed arbiter
  `restart` resets `_restarting` and `_stopping` before it re-raises (`C10_failed_restart_resets_flags`, any state;
  `C10_failed_restart_accepts_next`, the old witness evaluated: the next `incr` and `quit` are accepted); since fix
  60e14d0 an `AccessDenied` from the SIGKILL escalation clears `process.stopping` before it escapes
  (`C10_refused_sigkill_clears_stopping`, any state; `C10_kill_after_refused_sigkill_does_not_wait`;
  `C10_failed_sigkill_next_stop_ends`, the old witness evaluated: the second stop ends and frees the slot).
-/
namespace Circus.Core

/-- **mutual exclusion along every history with workers the daemon may not signal**: the instance of `C10_slot_inv`
    for behaviour lists that contain such workers (every behaviour of `bs` made unsignalable, its children too) —
    whatever fails, at most one release is pending and the slot is taken iff exactly one is. -/
theorem C10_slot_inv_unsignalable (cfg : List Watcher) (bs : List Behav) (aw : Nat) (ops : List Op) :
    let s := run (initState cfg (bs.map fun b => { b with eperm := true, kidEperm := true }) aw) ops
    relCount s ≤ 1 ∧ (s.a.slot.isSome ↔ relCount s = 1) :=
  C10_slot_inv cfg _ aw ops

/-! ### `gen.multi` ends with its last child, whatever the earlier children did -/

/-- **a child that ends — with a result or with an exception — while other children of the `gen.multi` are still
    running does not end the multi**: its outcome is recorded in the multi's frame and nothing is handed to the
    coroutine that waits for the multi (no `rec` call: that coroutine, and with it the operation holding the slot,
    stays suspended). -/
theorem C10_multi_waits_for_every_child (rec : Rec) (fid slot : Nat) (v : Val) (s : State) (f : Frame) (n : Nat)
    (results : List (Nat × Val)) (hf : s.frames.find? (·.fid = fid) = some f) (hk : f.k = .multi n results)
    (hlt : results.length + 1 < n) :
    multiCollect rec fid slot v s = setFrameK fid (.multi n (results ++ [(slot, v)])) s := by
  unfold multiCollect
  simp only [bind, getS, hf, hk]
  have h : ¬ ((results ++ [(slot, v)]).length ≥ n) := by simp; omega
  erw [if_neg h]

/-- … and the outcome of the **last** child completes it: the frame leaves the heap and the waiting coroutine is
    resumed with `multiResult` -/
theorem C10_multi_completes_with_last_child (rec : Rec) (fid slot : Nat) (v : Val) (s : State) (f : Frame) (n : Nat)
    (results : List (Nat × Val)) (hf : s.frames.find? (·.fid = fid) = some f) (hk : f.k = .multi n results)
    (hge : results.length + 1 ≥ n) :
    multiCollect rec fid slot v s =
      rec (.resume .pass (multiResult n (results ++ [(slot, v)])) f.parent) (removeFrame fid s).2 := by
  unfold multiCollect
  simp only [bind, getS, hf, hk]
  have h : (results ++ [(slot, v)]).length ≥ n := by simp; omega
  erw [if_pos h]

/-- **the failure is not lost**: if any of the `n` children ended with an exception, the multi's result is an
    exception (the first one in the order of the children) — `Arbiter._stop_watchers` raises once every `_stop`
    has ended. -/
theorem C10_multi_failure_is_reported (n : Nat) (results : List (Nat × Val)) (i : Nat) (e : Exc) (hi : i < n)
    (he : results.lookup i = some (.exc e)) : isExc (multiResult n results) = true := by
  have hmem : Val.exc e ∈ (List.range n).map fun i => (results.lookup i).getD .unit := by
    refine List.mem_map.mpr ⟨i, List.mem_range.mpr hi, ?_⟩
    rw [he]; rfl
  obtain ⟨x, hx⟩ : ∃ x, ((List.range n).map fun i => (results.lookup i).getD .unit).find? isExc = some x := by
    cases hfind : ((List.range n).map fun i => (results.lookup i).getD .unit).find? isExc with
    | some x => exact ⟨x, rfl⟩
    | none =>
      have := List.find?_eq_none.mp hfind _ hmem
      simp [isExc] at this
  show isExc (match ((List.range n).map fun i => (results.lookup i).getD .unit).find? isExc with
    | some e => e
    | none => .list ((List.range n).map fun i => (results.lookup i).getD .unit)) = true
  rw [hx]
  exact List.find?_some hx

/-! non-vacuity: a `gen.multi` over three children whose first child has failed (`AccessDenied`) — the second
    child's outcome does not complete it, the third one's does, and the result is the failure -/
def c10fM : State :=
  { frames := [{ fid := 7, k := .multi 3 [(0, .exc (.other "AccessDenied"))], parent := .none }], nextId := 8 }
example := C10_multi_waits_for_every_child (fun _ => pure ()) 7 1 .unit c10fM _ 3 [(0, .exc (.other "AccessDenied"))] rfl rfl
  (by decide)
example := C10_multi_completes_with_last_child (fun _ => pure ()) 7 2 .unit
  { c10fM with frames := [{ fid := 7, k := .multi 3 [(0, .exc (.other "AccessDenied")), (1, .unit)], parent := .none }] }
  _ 3 [(0, .exc (.other "AccessDenied")), (1, .unit)] rfl rfl (by decide)
example := C10_multi_failure_is_reported 3 [(0, .exc (.other "AccessDenied")), (1, .unit), (2, .unit)] 0 _ (by decide) rfl
example : (match multiResult 3 [(1, .unit), (0, .exc (.other "AccessDenied")), (2, .unit)] with
    | .exc (.other "AccessDenied") => true | _ => false) = true := by decide +kernel

/-! ### a `stop` that fails part-way frees the slot within its own step -/

/-- **a failed `stop` gives the slot back, gets its one reply, and the next state-changing request is accepted.**

    Setting: nothing in flight (`Idle u s`); one watcher object `w` (identity `u`), active, without hooks,
    `stop_children = false`, stop signal not SIGKILL, listing `m ≥ 1` pids; every listed worker runs, its
    `Process` object is not marked `stopping`, and **the daemon is not permitted to signal it** (`Unsignalable u w s`:
    it runs under another uid — `os.kill` raises EPERM, psutil reports `AccessDenied`, which no `except` clause on the
    stop path catches); the kernel is calm (nothing armed or due).  The request is `stop` for that watcher by name
    (`match: simple`), `waiting` or not.

    Claim, for the state right after the request step (no timer firing is needed): the exclusive slot is free and the
    arbiter is not restarting; no coroutine frame, no timer, no pending future, no queued callback is left — the
    operation has ended; the watcher is left `stopping` with its `m` workers still listed, the kernel's process table is
    untouched (nobody was signalled successfully, nobody died), no SIGKILL was sent; exactly one reply was written (if
    the control socket is open: the error reply, errno 6, of a `waiting` request, or the `ok` a non-waiting request gets
    at once — C06); and **every** state-changing operation that arrives now is accepted: `util.synchronized` takes the
    slot for it (C10: "when the operation in flight ends … with an error … the next state-changing request is accepted
    again"). -/
theorem C10_failed_stop_frees_slot (cid name : String) (waiting : Bool) (u : Nat) (w : Watcher) (s : State)
    (hi : Idle u s) (hd : Unsignalable u w s) (hn : s.a.names.lookup (pyLower name) = some u) (hne : w.pids ≠ []) :
    let s' := step s (.req cid (some (stopReq name waiting)))
    s'.a.slot = none ∧ s'.a.restarting = false ∧
    s'.frames = [] ∧ s'.sleepers = [] ∧ s'.tops = [] ∧ s'.ready = [] ∧ s'.blocked = false ∧
    s'.ws = [{ w with status := .stopping }] ∧ s'.k.procs = s.k.procs ∧ s'.objs = s.objs ∧
    killCount s'.log = killCount s.log ∧
    repC s'.log = repC s.log + (if s.a.ctlClosed = false then 1 else 0) ∧
    (∀ (opname : String) (c : Call), ∃ tid, (syncCoroutine opname c [] s').1 = .ok tid) := by
  intro s'
  have h := stop_run_unsignalable cid name waiting u w s hi hd hn hne
  have harb : s'.a = { s.a with slot := none } := h.arb
  have hslot : s'.a.slot = none := by rw [harb]
  have hrs : s'.a.restarting = false := by rw [harb]; exact hi.restarting
  exact ⟨hslot, hrs, h.frames, h.sleepers, h.tops, h.ready, h.blocked, h.ws, h.procs, h.objs, h.kills, h.reps,
    fun opname c => C10_accepted_takes_slot opname c s' hrs hslot⟩

/-! non-vacuity: two workers the daemon may not signal -/

def c10fCfg : List Watcher := [{ name := "a", np := 2, status := .active, graceful := 150 }]
def c10fU : State := run (initState c10fCfg [{ eperm := true }] 0) [.check, .wake, .wake]
def c10fW : Watcher := c10fU.ws.headD default

theorem c10fU_ws : c10fU.ws = [c10fW] := by
  have h : c10fU.ws.length = 1 := by decide +kernel
  unfold c10fW
  match hh : c10fU.ws, h with
  | [x], _ => rfl

theorem c10fU_idle : Idle 1 c10fU := by
  refine ⟨?_, ?_, ?_, ?_, ?_, ?_, ?_, ?_, ?_⟩
  · exact List.eq_nil_of_length_eq_zero (by decide +kernel)
  · exact List.eq_nil_of_length_eq_zero (by decide +kernel)
  · exact List.eq_nil_of_length_eq_zero (by decide +kernel)
  · exact List.eq_nil_of_length_eq_zero (by decide +kernel)
  all_goals decide +kernel

theorem unsig_of_dec (k : Kernel) (pid : Nat)
    (h : (k.find pid).any (fun p => decide (p.st = .run) && p.behav.eperm) = true) : k.Unsig pid := by
  cases hf : k.find pid with
  | none => rw [hf] at h; cases h
  | some p =>
    rw [hf] at h
    simp only [Option.any_some, Bool.and_eq_true, decide_eq_true_eq] at h
    exact ⟨p, hf, h.1, h.2⟩

theorem objE_of_dec (objs : List PObj) (pid : Nat)
    (h : (objs.find? (fun o => decide (o.pid = pid))).any (fun o => !o.stopping) = true) :
    ∃ o, objs.find? (fun o => decide (o.pid = pid)) = some o ∧ o.stopping = false := by
  cases hf : objs.find? (fun o => decide (o.pid = pid)) with
  | none => rw [hf] at h; cases h
  | some o =>
    rw [hf] at h
    simp only [Option.any_some, Bool.not_eq_true'] at h
    exact ⟨o, rfl, h⟩

theorem c10fU_unsignalable : Unsignalable 1 c10fW c10fU := by
  have hp : c10fW.pids = [100, 101] := by decide +kernel
  refine ⟨c10fU_ws, by decide +kernel, ⟨by decide +kernel, List.eq_nil_of_length_eq_zero (by decide +kernel),
    by decide +kernel, by decide +kernel⟩, by decide +kernel, ⟨List.eq_nil_of_length_eq_zero (by decide +kernel), ?_⟩,
    List.eq_nil_of_length_eq_zero (by decide +kernel), ?_⟩
  · have hnd : ∀ p ∈ c10fU.k.procs, p.doom = none := by decide +kernel
    intro p hp _ d st hd
    rw [hnd p hp] at hd; cases hd
  · intro pid hpid
    rw [hp] at hpid
    simp only [List.mem_cons, List.mem_nil_iff, or_false] at hpid
    rcases hpid with rfl | rfl
    · exact ⟨unsig_of_dec _ _ (by decide +kernel), objE_of_dec _ _ (by decide +kernel)⟩
    · exact ⟨unsig_of_dec _ _ (by decide +kernel), objE_of_dec _ _ (by decide +kernel)⟩

example := C10_failed_stop_frees_slot "c" "a" true 1 c10fW c10fU c10fU_idle c10fU_unsignalable (by decide +kernel)
  (by decide +kernel)
-- the same step evaluated: two refused signals, the error reply, the slot free, both workers running and listed
example : ((run c10fU [.req "c" (some (stopReq "a" true))]).log.drop c10fU.log.length).map showObs =
      ["o sig 100 15 r!", "o sig 101 15 r!", "o rep c n error 6 -"] ∧
    (run c10fU [.req "c" (some (stopReq "a" true))]).a.slot = none ∧
    (run c10fU [.req "c" (some (stopReq "a" true))]).ws.map (fun w => (w.pids, w.status)) = [([100, 101], .stopping)] ∧
    (run c10fU [.req "c" (some (stopReq "a" true))]).k.procs.map (fun p => (p.pid, p.st)) = [(100, .run), (101, .run)] := by
  decide +kernel

/-! ### evaluated: the history of the seeded change `stop-watchers-loop-instead-of-multi` -/

def c10fReq (cmd : String) (props : List (String × JVal)) : Op :=
  .req "c" (some (.obj [("command", .str cmd), ("id", .str "q"), ("properties", .obj props)]))

/-- `alpha` (priority 0: first in the stop order) has a worker the daemon may not signal, `beta` (priority 1) a
    worker that ignores the stop signal (graceful_timeout 300 ms); both started -/
def c10fS : State :=
  run (initState [{ name := "alpha", priority := 0 }, { name := "beta", priority := 1 }]
        [{ term := none }, { eperm := true }] 0) [.start, .wake, .wake, .wake, .wake]
/-- `stop` of all watchers (waiting): alpha's `_stop` fails in the request step, beta's needs three timer firings -/
def c10fStop (n : Nat) : State := run c10fS (c10fReq "stop" [("waiting", .bool true)] :: List.replicate n .wake)

-- while beta's `_stop` is still waiting the slot stays taken and an `incr` is refused (errno 5) without effect;
-- when beta's `_stop` has ended the operation ends with the error (one reply, errno 6), the slot is free, nothing is in
-- flight, and the next request is accepted: alpha is left `stopping` with its worker, beta is stopped
example : (c10fStop 0).a.slot = some "arbiter_stop_watchers" ∧ (c10fStop 2).a.slot = some "arbiter_stop_watchers" ∧
    ((c10fStop 2).log.drop c10fS.log.length).map showObs =
      ["o sig 101 15 r!", "o sig 100 15 r", "o ev 98.101.116.97 kill 100 -"] ∧          -- 98.101.116.97 = "beta"
    (run (c10fStop 1) [c10fReq "incr" [("name", .str "beta")]]).ws.map (fun w => (w.name, w.np)) = [("alpha", 1), ("beta", 1)] ∧
    (c10fStop 3).a.slot = none ∧ (c10fStop 3).tops.length = 0 ∧ (c10fStop 3).frames.length = 0 ∧ (c10fStop 3).sleepers.length = 0 ∧
    (c10fStop 3).ws.map (fun w => (w.name, w.status, w.pids)) = [("alpha", .stopping, [101]), ("beta", .stopped, [])] ∧
    (((c10fStop 3).log.drop (c10fStop 2).log.length).filter Obs.isRep).map showObs = ["o rep c s113 error 6 -"] ∧
    (run (c10fStop 3) [c10fReq "incr" [("name", .str "beta")]]).ws.map (fun w => (w.name, w.np)) = [("alpha", 1), ("beta", 2)] := by
  decide +kernel

/-! ### the two repaired findings (F33, F34): the histories after which the daemon used to be wedged -/

/-- the same two watchers with obedient workers, alpha's unsignalable -/
def c10fR : State :=
  run (initState [{ name := "alpha", priority := 0 }, { name := "beta", priority := 1 }]
        [{}, { eperm := true }] 0) [.start, .wake, .wake, .wake, .wake]
/-- an arbiter `restart` (no name: `Arbiter.restart(inside_circusd=True)`) — it fails: alpha cannot be stopped -/
def c10fR1 : State := run c10fR [c10fReq "restart" [("waiting", .bool true)]]

/-- `Arbiter.restart(inside_circusd=True)`, spelled out: `_restarting` and `_stopping` are set first, then the
    watchers are stopped (one `gen.multi` over all of them) under the `try` of fix 273f512 — the continuation
    `restartInsideAfterStop was` receives the outcome of that stop, `was` being the `_stopping` found on entry. -/
theorem C10_restart_inside_body (rec : Rec) (wt : Waiter) (s : State) :
    arbRestartInside rec wt s =
      await rec (.arbStopWatchers (iterWatchers false (setRestarting s).2).1 true) (.restartInsideAfterStop s.a.stopping) wt
        (iterWatchers false (setRestarting s).2).2 := rfl

/-- **since fix 273f512 a failed arbiter `restart` gives the daemon back**: when `_stop_watchers` ends with an
    exception (whatever it is, in whatever state) the `except Exception:` of `Arbiter.restart` resets `_restarting`,
    restores the `_stopping` it found on entry (`was`; False for a daemon that was not shutting down) and only then lets
    the exception go on to the waiter of the coroutine (the `synchronized` wrapper, which releases the slot:
    `C10_release_whatever_outcome_*`) — nothing else in the state is touched.  `util.synchronized` therefore no longer
    answers "arbiter is restarting…" after the failure (F33 repaired). -/
theorem C10_failed_restart_resets_flags (rec : Rec) (was : Bool) (e : Exc) (wt : Waiter) (s : State) :
    runResume rec (.restartInsideAfterStop was) (.exc e) wt s = deliver rec wt (.exc e) (clearRestarting was s).2 ∧
    (clearRestarting was s).2.a.restarting = false ∧ (clearRestarting was s).2.a.stopping = was ∧
    (clearRestarting was s).2.a.slot = s.a.slot ∧
    (clearRestarting was s).2 = { s with a := { s.a with restarting := false, stopping := was } } :=
  ⟨rfl, rfl, rfl, rfl, rfl⟩

/-- … and a stop of the watchers that succeeds still ends the restart the way `quit` ends: the loop is stopped -/
theorem C10_restart_inside_success (rec : Rec) (was : Bool) (wt : Waiter) (s : State) :
    runResume rec (.restartInsideAfterStop was) .unit wt s = arbStopTail rec wt s := rfl

-- non-vacuity: the exception that arrives in the witness below is the `AccessDenied` of alpha's stop, in a state with
-- both flags set
example : (runResume (exec 100) (.restartInsideAfterStop false) accessDenied .none
            { c10fR with a := { c10fR.a with restarting := true, stopping := true } }).2.a.restarting = false := by
  decide +kernel

/-- **the old F33 witness, evaluated on the repaired code: after the failed arbiter `restart` the next
    state-changing requests are accepted.**  The failed request is answered with errno 6; afterwards nothing is in
    flight — no future, no frame, no timer, the slot is free — and `_restarting` = `_stopping` = False: an `incr` of
    beta is carried out (numprocesses 1 → 2, answered ok) and a `quit` is accepted (`Arbiter.stop` runs and sets
    `_stopping` again; it fails in its turn on alpha's worker, as any stop of alpha does). -/
theorem C10_failed_restart_accepts_next :
    c10fR1.a.restarting = false ∧ c10fR1.a.stopping = false ∧ c10fR1.a.slot = none ∧ c10fR1.tops.length = 0 ∧
    c10fR1.frames.length = 0 ∧ c10fR1.sleepers.length = 0 ∧ c10fR1.ready.length = 0 ∧
    ((c10fR1.log.drop c10fR.log.length).filter Obs.isRep).map showObs = ["o rep c s113 error 6 -"] ∧
    (run c10fR1 [c10fReq "incr" [("name", .str "beta")]]).ws.map (fun w => (w.name, w.np)) = [("alpha", 1), ("beta", 2)] ∧
    (((run c10fR1 [c10fReq "incr" [("name", .str "beta")]]).log.drop c10fR1.log.length).filter Obs.isRep).map showObs =
      ["o rep c s113 ok - -"] ∧
    (run c10fR1 [c10fReq "quit" []]).a.stopping = true := by
  decide +kernel

/-! the polling loop "another kill_process call is already taking care of this process" has one exit: the flag -/

/-- **a `kill_process` that meets a worker marked `stopping` only waits**: no signal, no hook, a 100 ms timer -/
theorem C10_kill_waits_while_stopping (rec : Rec) (u p : Nat) (sig gt : Option Nat) (wt : Waiter) (s : State)
    (hst : (getO p s).1.stopping = true) :
    killProcess rec u p sig gt wt s = awaitSleep 100 (.killWaitOther p) wt s := by
  unfold killProcess
  simp only [bind]
  have h1 : (getO p (getW u s).snd).fst.stopping = true := hst
  erw [if_pos h1]
  rfl

/-- **… and when that timer fires with the flag still set it waits again**: nothing but the end of the
    `kill_process` that set the flag clears `Process.stopping` — every end of it does, since fix 60e14d0 also the
    one by an exception from the SIGKILL escalation (`C10_refused_sigkill_clears_stopping`) -/
theorem C10_kill_wait_reparks_while_stopping (rec : Rec) (p : Nat) (wt : Waiter) (s : State)
    (hst : (getO p s).1.stopping = true) :
    runResume rec (.killWaitOther p) .unit wt s = awaitSleep 100 (.killWaitOther p) wt s := by
  simp only [runResume, bind]
  erw [if_pos hst]
  rfl

/-- … and with the flag cleared the waiting kill ends (it returns False: the other kill took care of the worker) -/
theorem C10_kill_wait_ends_when_cleared (rec : Rec) (p : Nat) (wt : Waiter) (s : State)
    (hst : (getO p s).1.stopping = false) :
    runResume rec (.killWaitOther p) .unit wt s = deliver rec wt (.bool false) s := by
  simp only [runResume, bind]
  erw [if_neg (by rw [hst]; simp)]
  rfl

theorem getO_setObjStopping (p : Nat) (b : Bool) (s : State) (h : ∃ o ∈ s.objs, o.pid = p) :
    (getO p (setObjStopping p b s).2).1.stopping = b := by
  obtain ⟨o, ho, hp⟩ := h
  simp only [getO, setObjStopping, modO, modS, List.find?_map]
  cases hf : List.find? ((fun x => decide (x.pid = p)) ∘ fun o => if o.pid = p then { o with stopping := b } else o) s.objs with
  | none =>
    have := List.find?_eq_none.mp hf o ho
    simp [hp] at this
  | some o' =>
    have h1 := List.find?_some hf
    simp only [Function.comp, decide_eq_true_eq] at h1
    simp only [Option.map_some, Option.getD_some]
    split
    · rfl
    · rename_i hne
      rw [if_neg hne] at h1
      exact absurd h1 hne

/-- **since fix 60e14d0 a refused SIGKILL escalation leaves the `Process` object with `stopping = False`**: when
    `send_signal_process(process, SIGKILL, recursive=True)` fails at the end of the grace period (`AccessDenied`: the
    daemon may not signal the worker or one of its descendants), `kill_process` hands that exception to its waiter in
    a state in which the worker's `Process` object (any worker the watcher still knows) is no longer marked
    `stopping` (F34 repaired). -/
theorem C10_refused_sigkill_clears_stopping (rec : Rec) (u p : Nat) (wt : Waiter) (s : State)
    (hden : (sendSignalProcess u p 9 true s).1 = false)
    (hobj : ∃ o ∈ (sendSignalProcess u p 9 true s).2.objs, o.pid = p) :
    ∃ s1, killFinish rec u p true wt s = deliver rec wt accessDenied s1 ∧ (getO p s1).1.stopping = false :=
  ⟨_, C03_escalation_denied rec u p wt s hden, getO_setObjStopping p false _ hobj⟩

/-- **… so a later kill of that worker does not wait**: a `kill_process` that finds `stopping = False` does not
    take the "another kill_process call is already taking care of this process" branch — it starts with the stop
    signal (`C03_stop_signal_first`; here for a watcher without `stop_children`): nothing is parked on the flag. -/
theorem C10_kill_after_refused_sigkill_does_not_wait (rec : Rec) (u p : Nat) (sig gt : Option Nat) (wt : Waiter) (s : State)
    (hns : (getO p s).1.stopping = false) (hsc : (getW u s).1.stopChildren = false) :
    killProcess rec u p sig gt wt s =
      (match (sendSignal u p (sig.getD (getW u s).1.stopSignal) s).1 with
       | .ok =>
        killLoop rec u p (sig.getD (getW u s).1.stopSignal) 0 (pollsOf (gt.getD (getW u s).1.graceful)) wt
          (setObjStopping p true (notify u "kill" (some p) "-"
            (sendSignal u p (sig.getD (getW u s).1.stopSignal) s).2).2).2
       | .noSuch => deliver rec wt (.bool false) (sendSignal u p (sig.getD (getW u s).1.stopSignal) s).2
       | .denied => deliver rec wt accessDenied (sendSignal u p (sig.getD (getW u s).1.stopSignal) s).2) :=
  C03_stop_signal_first rec u p sig gt wt s hns hsc

/-- one watcher whose `before_signal` hook vetoes the stop signal, its worker unsignalable; graceful_timeout 100 ms -/
def c10fK : State :=
  run (initState [{ name := "alpha", graceful := 100, hooks := [("before_signal", { outs := ["false"], ignore := false })] }]
        [{ eperm := true }] 0) [.start, .wake, .wake]
/-- a first `stop`: the stop signal is vetoed (nothing is sent, the worker is marked `stopping`), after the grace
    period the SIGKILL — which no hook can veto — is refused: `kill_process` ends with `AccessDenied`, the stop fails -/
def c10fK1 : State := run c10fK [c10fReq "stop" [("name", .str "alpha"), ("waiting", .bool true)], .wake]
/-- a second `stop`, then `n` timer firings -/
def c10fK2 (n : Nat) : State :=
  run c10fK1 (c10fReq "stop" [("name", .str "alpha"), ("waiting", .bool true)] :: List.replicate n .wake)

/-- **the old F34 witness, evaluated on the repaired code: after a stop that failed in the SIGKILL escalation the next
    stop of that worker ends.**  The first stop fails cleanly (one reply, errno 6, slot free, nothing in flight) and
    the worker's `Process` object is not marked `stopping` any more.  The second stop therefore does not poll the flag:
    it goes through the same kill (vetoed stop signal, grace period, refused SIGKILL) and after one timer firing it
    has ended — again errno 6, the slot free, nothing in flight, the flag cleared; the daemon stays responsive. -/
theorem C10_failed_sigkill_next_stop_ends :
    c10fK1.a.slot = none ∧ c10fK1.tops.length = 0 ∧ c10fK1.frames.length = 0 ∧ c10fK1.sleepers.length = 0 ∧
    (c10fK1.log.drop c10fK.log.length).map showObs =
      ["o ev 97.108.112.104.97 hook_success - before_signal", "o ev 97.108.112.104.97 kill 100 -",   -- = "alpha"
       "o ev 97.108.112.104.97 hook_success - before_signal", "o sig 100 9 r!", "o rep c s113 error 6 -"] ∧
    c10fK1.objs.map (fun o => (o.pid, o.stopping)) = [(100, false)] ∧
    (c10fK2 0).a.slot = some "watcher_stop" ∧ (c10fK2 0).sleepers.length = 1 ∧
    (c10fK2 1).a.slot = none ∧ (c10fK2 1).tops.length = 0 ∧ (c10fK2 1).frames.length = 0 ∧ (c10fK2 1).sleepers.length = 0 ∧
    ((c10fK2 1).log.drop c10fK1.log.length).map showObs =
      ["o ev 97.108.112.104.97 hook_success - before_signal", "o ev 97.108.112.104.97 kill 100 -",
       "o ev 97.108.112.104.97 hook_success - before_signal", "o sig 100 9 r!", "o rep c s113 error 6 -"] ∧
    (c10fK2 1).objs.map (fun o => (o.pid, o.stopping)) = [(100, false)] := by
  decide +kernel

-- the hypotheses of C10_refused_sigkill_clears_stopping / C10_kill_after_refused_sigkill_does_not_wait /
-- C10_kill_wait_ends_when_cleared are satisfiable: the state after the failed first stop; and of
-- C10_kill_waits_while_stopping / C10_kill_wait_reparks_while_stopping: the same worker during the second stop's grace period
example : (getO 100 c10fK1).1.stopping = false ∧ (getW 1 c10fK1).1.stopChildren = false ∧
    (getO 100 (c10fK2 0)).1.stopping = true := by decide +kernel

end Circus.Core
