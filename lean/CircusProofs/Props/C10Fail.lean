import CircusProofs.Props.C10
import CircusProofs.Core.StopRunE
/-!
# C10 — operations that FAIL part-way: a worker the daemon is not permitted to signal (EPERM)

`os.kill` raises `PermissionError` for a worker that runs under another uid; psutil turns it into
`psutil.AccessDenied` — a `psutil.Error`, neither an `OSError` nor a `NoSuchProcess` — which no `except` clause of
`Watcher.send_signal` / `send_signal_process` / `kill_process` / `kill_processes` / `_stop` catches: the stop (restart,
rm, quit, decr, reload, kill …) fails part-way.  C10: "when the operation in flight ends — successfully, with an error
… — the next state-changing request is accepted again".

* `C10_slot_inv`, `C10_taken_means_pending`, `C10_release_whatever_outcome_*` (Props/C10.lean) and the wake-up
  invariant (Props/C10Wake.lean) are stated for **every** list of worker behaviours, the unsignalable ones included:
  they hold along all the failing histories too (`C10_slot_inv_unsignalable` spells the instance out).
* `C10_multi_waits_for_every_child`, `C10_multi_completes_with_last_child`, `C10_multi_failure_is_reported`: a
  `gen.multi` (the body of `Arbiter._stop_watchers`, `kill_processes`, `manage_watchers`) ends only when its **last**
  child has ended, also when an earlier child failed — the failure is then its result.  So a multi-watcher stop in
  which one `_stop` fails at once keeps the exclusive slot until the slowest `_stop` has ended (`c10fStop`: evaluated).
* `C10_failed_stop_frees_slot` (run level, Core/StopRunE.lean: symbolic execution of the whole request step, any
  number of workers): the `stop` of a watcher whose workers the daemon may not signal fails inside the request step —
  slot free, nothing in flight, one reply, the watcher left `stopping` with its workers — and every operation that
  arrives next is accepted.
* Two histories in which the unchanged code does stay wedged, by evaluation — findings, replayed on the real code
  by the harness (corpus/C10): `C10_counterexample_failed_restart_wedges` (a failed arbiter `restart` leaves
  `_restarting` set: every later request, the periodic check and `quit` — also by SIGTERM — are refused with "arbiter
  is restarting…" although nothing is in flight) and `C10_counterexample_failed_sigkill_wedges` (an `AccessDenied` from
  the SIGKILL escalation leaves `process.stopping` set: the next stop of that worker polls the flag for ever and
  never gives the slot back).
-/
namespace Circus.Core

/-- **mutual exclusion along every history with workers the daemon may not signal**: the instance of `C10_slot_inv`
    for behaviour lists that contain such workers (every behaviour of `bs` made unsignalable, its children too) —
    whatever fails, at most one release is pending and the slot is taken iff exactly one is. -/
theorem C10_slot_inv_unsignalable (cfg : List Watcher) (bs : List Behav) (aw : Nat) (ops : List Op) :
    let s := run (initState cfg (bs.map fun b => { b with eperm := true, kidEperm := true }) aw) ops
    relCount s ≤ 1 ∧ (s.a.slot.isSome ↔ relCount s = 1) :=
  C10_slot_inv cfg _ aw ops

/-! ### `gen.multi` ends with its last child, whatever the earlier children did -/

/-- **a child that ends — with a result or with an exception — while other children of the `gen.multi` are still
    running does not end the multi**: its outcome is recorded in the multi's frame and nothing is handed to the
    coroutine that waits for the multi (no `rec` call: that coroutine, and with it the operation holding the slot,
    stays suspended). -/
theorem C10_multi_waits_for_every_child (rec : Rec) (fid slot : Nat) (v : Val) (s : State) (f : Frame) (n : Nat)
    (results : List (Nat × Val)) (hf : s.frames.find? (·.fid = fid) = some f) (hk : f.k = .multi n results)
    (hlt : results.length + 1 < n) :
    multiCollect rec fid slot v s = setFrameK fid (.multi n (results ++ [(slot, v)])) s := by
  unfold multiCollect
  simp only [bind, getS, hf, hk]
  have h : ¬ ((results ++ [(slot, v)]).length ≥ n) := by simp; omega
  erw [if_neg h]

/-- … and the outcome of the **last** child completes it: the frame leaves the heap and the waiting coroutine is
    resumed with `multiResult` -/
theorem C10_multi_completes_with_last_child (rec : Rec) (fid slot : Nat) (v : Val) (s : State) (f : Frame) (n : Nat)
    (results : List (Nat × Val)) (hf : s.frames.find? (·.fid = fid) = some f) (hk : f.k = .multi n results)
    (hge : results.length + 1 ≥ n) :
    multiCollect rec fid slot v s =
      rec (.resume .pass (multiResult n (results ++ [(slot, v)])) f.parent) (removeFrame fid s).2 := by
  unfold multiCollect
  simp only [bind, getS, hf, hk]
  have h : (results ++ [(slot, v)]).length ≥ n := by simp; omega
  erw [if_pos h]

/-- **the failure is not lost**: if any of the `n` children ended with an exception, the multi's result is an
    exception (the first one in the order of the children) — `Arbiter._stop_watchers` raises once every `_stop`
    has ended. -/
theorem C10_multi_failure_is_reported (n : Nat) (results : List (Nat × Val)) (i : Nat) (e : Exc) (hi : i < n)
    (he : results.lookup i = some (.exc e)) : isExc (multiResult n results) = true := by
  have hmem : Val.exc e ∈ (List.range n).map fun i => (results.lookup i).getD .unit := by
    refine List.mem_map.mpr ⟨i, List.mem_range.mpr hi, ?_⟩
    rw [he]; rfl
  obtain ⟨x, hx⟩ : ∃ x, ((List.range n).map fun i => (results.lookup i).getD .unit).find? isExc = some x := by
    cases hfind : ((List.range n).map fun i => (results.lookup i).getD .unit).find? isExc with
    | some x => exact ⟨x, rfl⟩
    | none =>
      have := List.find?_eq_none.mp hfind _ hmem
      simp [isExc] at this
  show isExc (match ((List.range n).map fun i => (results.lookup i).getD .unit).find? isExc with
    | some e => e
    | none => .list ((List.range n).map fun i => (results.lookup i).getD .unit)) = true
  rw [hx]
  exact List.find?_some hx

/-! non-vacuity: a `gen.multi` over three children whose first child has failed (`AccessDenied`) — the second
    child's outcome does not complete it, the third one's does, and the result is the failure -/
def c10fM : State :=
  { frames := [{ fid := 7, k := .multi 3 [(0, .exc (.other "AccessDenied"))], parent := .none }], nextId := 8 }
example := C10_multi_waits_for_every_child (fun _ => pure ()) 7 1 .unit c10fM _ 3 [(0, .exc (.other "AccessDenied"))] rfl rfl
  (by decide)
example := C10_multi_completes_with_last_child (fun _ => pure ()) 7 2 .unit
  { c10fM with frames := [{ fid := 7, k := .multi 3 [(0, .exc (.other "AccessDenied")), (1, .unit)], parent := .none }] }
  _ 3 [(0, .exc (.other "AccessDenied")), (1, .unit)] rfl rfl (by decide)
example := C10_multi_failure_is_reported 3 [(0, .exc (.other "AccessDenied")), (1, .unit), (2, .unit)] 0 _ (by decide) rfl
example : (match multiResult 3 [(1, .unit), (0, .exc (.other "AccessDenied")), (2, .unit)] with
    | .exc (.other "AccessDenied") => true | _ => false) = true := by decide +kernel

/-! ### a `stop` that fails part-way frees the slot within its own step -/

/-- **a failed `stop` gives the slot back, gets its one reply, and the next state-changing request is accepted.**

    Setting: nothing in flight (`Idle u s`); one watcher object `w` (identity `u`), active, without hooks,
    `stop_children = false`, stop signal not SIGKILL, listing `m ≥ 1` pids; every listed worker runs, its
    `Process` object is not marked `stopping`, and **the daemon is not permitted to signal it** (`Unsignalable u w s`:
    it runs under another uid — `os.kill` raises EPERM, psutil reports `AccessDenied`, which no `except` clause on the
    stop path catches); the kernel is calm (nothing armed or due).  The request is `stop` for that watcher by name
    (`match: simple`), `waiting` or not.

    Claim, for the state right after the request step (no timer firing is needed): the exclusive slot is free and the
    arbiter is not restarting; no coroutine frame, no timer, no pending future, no queued callback is left — the
    operation has ended; the watcher is left `stopping` with its `m` workers still listed, the kernel's process table is
    untouched (nobody was signalled successfully, nobody died), no SIGKILL was sent; exactly one reply was written (if
    the control socket is open: the error reply, errno 6, of a `waiting` request, or the `ok` a non-waiting request gets
    at once — C06); and **every** state-changing operation that arrives now is accepted: `util.synchronized` takes the
    slot for it (C10: "when the operation in flight ends … with an error … the next state-changing request is accepted
    again"). -/
theorem C10_failed_stop_frees_slot (cid name : String) (waiting : Bool) (u : Nat) (w : Watcher) (s : State)
    (hi : Idle u s) (hd : Unsignalable u w s) (hn : s.a.names.lookup (pyLower name) = some u) (hne : w.pids ≠ []) :
    let s' := step s (.req cid (some (stopReq name waiting)))
    s'.a.slot = none ∧ s'.a.restarting = false ∧
    s'.frames = [] ∧ s'.sleepers = [] ∧ s'.tops = [] ∧ s'.ready = [] ∧ s'.blocked = false ∧
    s'.ws = [{ w with status := .stopping }] ∧ s'.k.procs = s.k.procs ∧ s'.objs = s.objs ∧
    killCount s'.log = killCount s.log ∧
    repC s'.log = repC s.log + (if s.a.ctlClosed = false then 1 else 0) ∧
    (∀ (opname : String) (c : Call), ∃ tid, (syncCoroutine opname c [] s').1 = .ok tid) := by
  intro s'
  have h := stop_run_unsignalable cid name waiting u w s hi hd hn hne
  have harb : s'.a = { s.a with slot := none } := h.arb
  have hslot : s'.a.slot = none := by rw [harb]
  have hrs : s'.a.restarting = false := by rw [harb]; exact hi.restarting
  exact ⟨hslot, hrs, h.frames, h.sleepers, h.tops, h.ready, h.blocked, h.ws, h.procs, h.objs, h.kills, h.reps,
    fun opname c => C10_accepted_takes_slot opname c s' hrs hslot⟩

/-! non-vacuity: two workers the daemon may not signal -/

def c10fCfg : List Watcher := [{ name := "a", np := 2, status := .active, graceful := 150 }]
def c10fU : State := run (initState c10fCfg [{ eperm := true }] 0) [.check, .wake, .wake]
def c10fW : Watcher := c10fU.ws.headD default

theorem c10fU_ws : c10fU.ws = [c10fW] := by
  have h : c10fU.ws.length = 1 := by decide +kernel
  unfold c10fW
  match hh : c10fU.ws, h with
  | [x], _ => rfl

theorem c10fU_idle : Idle 1 c10fU := by
  refine ⟨?_, ?_, ?_, ?_, ?_, ?_, ?_, ?_, ?_⟩
  · exact List.eq_nil_of_length_eq_zero (by decide +kernel)
  · exact List.eq_nil_of_length_eq_zero (by decide +kernel)
  · exact List.eq_nil_of_length_eq_zero (by decide +kernel)
  · exact List.eq_nil_of_length_eq_zero (by decide +kernel)
  all_goals decide +kernel

theorem unsig_of_dec (k : Kernel) (pid : Nat)
    (h : (k.find pid).any (fun p => decide (p.st = .run) && p.behav.eperm) = true) : k.Unsig pid := by
  cases hf : k.find pid with
  | none => rw [hf] at h; cases h
  | some p =>
    rw [hf] at h
    simp only [Option.any_some, Bool.and_eq_true, decide_eq_true_eq] at h
    exact ⟨p, hf, h.1, h.2⟩

theorem objE_of_dec (objs : List PObj) (pid : Nat)
    (h : (objs.find? (fun o => decide (o.pid = pid))).any (fun o => !o.stopping) = true) :
    ∃ o, objs.find? (fun o => decide (o.pid = pid)) = some o ∧ o.stopping = false := by
  cases hf : objs.find? (fun o => decide (o.pid = pid)) with
  | none => rw [hf] at h; cases h
  | some o =>
    rw [hf] at h
    simp only [Option.any_some, Bool.not_eq_true'] at h
    exact ⟨o, rfl, h⟩

theorem c10fU_unsignalable : Unsignalable 1 c10fW c10fU := by
  have hp : c10fW.pids = [100, 101] := by decide +kernel
  refine ⟨c10fU_ws, by decide +kernel, ⟨by decide +kernel, List.eq_nil_of_length_eq_zero (by decide +kernel),
    by decide +kernel, by decide +kernel⟩, by decide +kernel, ⟨List.eq_nil_of_length_eq_zero (by decide +kernel), ?_⟩,
    List.eq_nil_of_length_eq_zero (by decide +kernel), ?_⟩
  · have hnd : ∀ p ∈ c10fU.k.procs, p.doom = none := by decide +kernel
    intro p hp _ d st hd
    rw [hnd p hp] at hd; cases hd
  · intro pid hpid
    rw [hp] at hpid
    simp only [List.mem_cons, List.mem_nil_iff, or_false] at hpid
    rcases hpid with rfl | rfl
    · exact ⟨unsig_of_dec _ _ (by decide +kernel), objE_of_dec _ _ (by decide +kernel)⟩
    · exact ⟨unsig_of_dec _ _ (by decide +kernel), objE_of_dec _ _ (by decide +kernel)⟩

example := C10_failed_stop_frees_slot "c" "a" true 1 c10fW c10fU c10fU_idle c10fU_unsignalable (by decide +kernel)
  (by decide +kernel)
-- the same step evaluated: two refused signals, the error reply, the slot free, both workers running and listed
example : ((run c10fU [.req "c" (some (stopReq "a" true))]).log.drop c10fU.log.length).map showObs =
      ["o sig 100 15 r!", "o sig 101 15 r!", "o rep c n error 6 -"] ∧
    (run c10fU [.req "c" (some (stopReq "a" true))]).a.slot = none ∧
    (run c10fU [.req "c" (some (stopReq "a" true))]).ws.map (fun w => (w.pids, w.status)) = [([100, 101], .stopping)] ∧
    (run c10fU [.req "c" (some (stopReq "a" true))]).k.procs.map (fun p => (p.pid, p.st)) = [(100, .run), (101, .run)] := by
  decide +kernel

/-! ### evaluated: the history of the seeded change `stop-watchers-loop-instead-of-multi` -/

def c10fReq (cmd : String) (props : List (String × JVal)) : Op :=
  .req "c" (some (.obj [("command", .str cmd), ("id", .str "q"), ("properties", .obj props)]))

/-- `alpha` (priority 0: first in the stop order) has a worker the daemon may not signal, `beta` (priority 1) a
    worker that ignores the stop signal (graceful_timeout 300 ms); both started -/
def c10fS : State :=
  run (initState [{ name := "alpha", priority := 0 }, { name := "beta", priority := 1 }]
        [{ term := none }, { eperm := true }] 0) [.start, .wake, .wake, .wake, .wake]
/-- `stop` of all watchers (waiting): alpha's `_stop` fails in the request step, beta's needs three timer firings -/
def c10fStop (n : Nat) : State := run c10fS (c10fReq "stop" [("waiting", .bool true)] :: List.replicate n .wake)

-- while beta's `_stop` is still waiting the slot stays taken and an `incr` is refused (errno 5) without effect;
-- when beta's `_stop` has ended the operation ends with the error (one reply, errno 6), the slot is free, nothing is in
-- flight, and the next request is accepted: alpha is left `stopping` with its worker, beta is stopped
example : (c10fStop 0).a.slot = some "arbiter_stop_watchers" ∧ (c10fStop 2).a.slot = some "arbiter_stop_watchers" ∧
    ((c10fStop 2).log.drop c10fS.log.length).map showObs =
      ["o sig 101 15 r!", "o sig 100 15 r", "o ev 98.101.116.97 kill 100 -"] ∧          -- 98.101.116.97 = "beta"
    (run (c10fStop 1) [c10fReq "incr" [("name", .str "beta")]]).ws.map (fun w => (w.name, w.np)) = [("alpha", 1), ("beta", 1)] ∧
    (c10fStop 3).a.slot = none ∧ (c10fStop 3).tops.length = 0 ∧ (c10fStop 3).frames.length = 0 ∧ (c10fStop 3).sleepers.length = 0 ∧
    (c10fStop 3).ws.map (fun w => (w.name, w.status, w.pids)) = [("alpha", .stopping, [101]), ("beta", .stopped, [])] ∧
    (((c10fStop 3).log.drop (c10fStop 2).log.length).filter Obs.isRep).map showObs = ["o rep c s113 error 6 -"] ∧
    (run (c10fStop 3) [c10fReq "incr" [("name", .str "beta")]]).ws.map (fun w => (w.name, w.np)) = [("alpha", 1), ("beta", 2)] := by
  decide +kernel

/-! ### findings: two histories after which the daemon IS wedged -/

/-- the same two watchers with obedient workers, alpha's unsignalable -/
def c10fR : State :=
  run (initState [{ name := "alpha", priority := 0 }, { name := "beta", priority := 1 }]
        [{}, { eperm := true }] 0) [.start, .wake, .wake, .wake, .wake]
/-- an arbiter `restart` (no name: `Arbiter.restart(inside_circusd=True)`) — it fails: alpha cannot be stopped -/
def c10fR1 : State := run c10fR [c10fReq "restart" [("waiting", .bool true)]]

/-- **counter-example (finding, reproduced on the real code): a failed arbiter `restart` wedges the daemon.**
    `Arbiter.restart(inside_circusd=True)` sets `_restarting` (and `_stopping`) before it stops the watchers and
    nothing resets them when `_stop_watchers` raises.  After the failed request (answered with errno 6) nothing is in
    flight — no future, no frame, no timer, the slot is free — yet `_restarting` is set, `util.synchronized` refuses
    every state-changing request for ever with "arbiter is restarting…": `incr`, `quit` (also when it comes from
    SIGTERM: the signal handler dispatches the same `quit`) and the periodic check are all refused, the state does
    not change any more.  C10 demands that the next request be accepted once the operation has ended. -/
theorem C10_counterexample_failed_restart_wedges :
    c10fR1.a.restarting = true ∧ c10fR1.a.slot = none ∧ c10fR1.tops.length = 0 ∧ c10fR1.frames.length = 0 ∧
    c10fR1.sleepers.length = 0 ∧ c10fR1.ready.length = 0 ∧
    ((run c10fR1 [c10fReq "incr" [("name", .str "beta")], c10fReq "quit" [], .sigreq true, .check, .wake]).log.drop
        c10fR1.log.length).map showObs = ["o rep c s113 error 5 -", "o rep c s113 error 5 -", "o conflict", "o nosleeper"] ∧
    snapshot (run c10fR1 [c10fReq "incr" [("name", .str "beta")], c10fReq "quit" [], .sigreq true, .check, .wake]) =
      snapshot c10fR1 := by
  decide +kernel

/-! the polling loop "another kill_process call is already taking care of this process" has one exit: the flag -/

/-- **a `kill_process` that meets a worker marked `stopping` only waits**: no signal, no hook, a 100 ms timer -/
theorem C10_kill_waits_while_stopping (rec : Rec) (u p : Nat) (sig gt : Option Nat) (wt : Waiter) (s : State)
    (hst : (getO p s).1.stopping = true) :
    killProcess rec u p sig gt wt s = awaitSleep 100 (.killWaitOther p) wt s := by
  unfold killProcess
  simp only [bind]
  have h1 : (getO p (getW u s).snd).fst.stopping = true := hst
  erw [if_pos h1]
  rfl

/-- **… and when that timer fires with the flag still set it waits again** — for ever, if the `kill_process` that set
    the flag is gone (F34): nothing but the end of that coroutine clears `Process.stopping` -/
theorem C10_kill_wait_reparks_while_stopping (rec : Rec) (p : Nat) (wt : Waiter) (s : State)
    (hst : (getO p s).1.stopping = true) :
    runResume rec (.killWaitOther p) .unit wt s = awaitSleep 100 (.killWaitOther p) wt s := by
  simp only [runResume, bind]
  erw [if_pos hst]
  rfl

/-- one watcher whose `before_signal` hook vetoes the stop signal, its worker unsignalable; graceful_timeout 100 ms -/
def c10fK : State :=
  run (initState [{ name := "alpha", graceful := 100, hooks := [("before_signal", { outs := ["false"], ignore := false })] }]
        [{ eperm := true }] 0) [.start, .wake, .wake]
/-- a first `stop`: the stop signal is vetoed (nothing is sent, the worker is marked `stopping`), after the grace
    period the SIGKILL — which no hook can veto — is refused: `kill_process` ends with `AccessDenied`, the stop fails -/
def c10fK1 : State := run c10fK [c10fReq "stop" [("name", .str "alpha"), ("waiting", .bool true)], .wake]
/-- a second `stop`, then `n` timer firings -/
def c10fK2 (n : Nat) : State :=
  run c10fK1 (c10fReq "stop" [("name", .str "alpha"), ("waiting", .bool true)] :: List.replicate n .wake)

/-- **counter-example (finding, reproduced on the real code): an `AccessDenied` from the SIGKILL escalation leaves
    `process.stopping` set, and the next stop of that worker never ends.**  The first stop fails cleanly (one reply,
    errno 6, slot free, nothing in flight) — but `kill_process` was left by the exception between
    `process.stopping = True` and `process.stopping = False`.  The second stop finds the flag set and takes the
    "another kill_process call is already taking care of this process" branch: it polls the flag every 100 ms —
    nobody will ever clear it.  After 40 firings (4 s of virtual time against a graceful_timeout of 100 ms) the slot
    is still held by `watcher_stop`, no reply has been written, the next timer is pending: the daemon answers
    "already running" to every state-changing request from now on.  (Evaluated for 40 firings; the loop
    `kill_process: while process.stopping: yield tornado_sleep(0.1)` has no other exit.) -/
theorem C10_counterexample_failed_sigkill_wedges :
    c10fK1.a.slot = none ∧ c10fK1.tops.length = 0 ∧ c10fK1.frames.length = 0 ∧ c10fK1.sleepers.length = 0 ∧
    (c10fK1.log.drop c10fK.log.length).map showObs =
      ["o ev 97.108.112.104.97 hook_success - before_signal", "o ev 97.108.112.104.97 kill 100 -",   -- = "alpha"
       "o ev 97.108.112.104.97 hook_success - before_signal", "o sig 100 9 r!", "o rep c s113 error 6 -"] ∧
    c10fK1.objs.map (fun o => (o.pid, o.stopping)) = [(100, true)] ∧
    (c10fK2 40).a.slot = some "watcher_stop" ∧ (c10fK2 40).sleepers.length = 1 ∧
    (c10fK2 40).log.length = c10fK1.log.length ∧ (c10fK2 40).k.now = c10fK1.k.now + 4000 := by
  decide +kernel

-- the hypothesis of C10_kill_waits_while_stopping / C10_kill_wait_reparks_while_stopping in the wedged state
example : (getO 100 c10fK1).1.stopping = true ∧ (getO 100 (c10fK2 40)).1.stopping = true := by decide +kernel

end Circus.Core
