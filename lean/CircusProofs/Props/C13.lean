import CircusProofs.Lemmas.Argv
/-!
# C13 — each worker runs exactly the configured command line, environment and directory

Property theorems only (helper lemmas live in `Lemmas/Argv.lean`).  All statements quantify over
every text (any length), every option table, every environment and every set of live wids.
Texts are lists of code points; the substitution language is modelled on ASCII (see
`Model/GnuArgs.lean`).
-/
namespace Circus.FormatArgs
open Circus.GnuArgs Circus.Shlex

/-! ## list arguments are kept as given -/

/-- **list args kept** — for list `args` the vector before the `shell` block is
    `split(subst cmd) ++ map subst args`: every list element is substituted on its own and stays
    one element, whatever spaces, quotes or backslashes it contains; only `cmd` is split. -/
theorem C13_list_args_kept (p : Proc) (xs : List Str) (ha : p.args = .list xs) :
    baseArgs p = (fun c => c ++ xs.map (replaceGnuArgs (formatKwargs p))) <$>
      split (replaceGnuArgs (formatKwargs p) p.cmd) := by
  unfold baseArgs
  simp only [ha]
  cases split (replaceGnuArgs (formatKwargs p) p.cmd) <;> rfl

/-- without `shell` that vector is what `format_args` returns (and `Popen` receives) -/
theorem C13_list_args_kept_noshell (p : Proc) (xs : List Str) (ha : p.args = .list xs)
    (hs : p.shell = false) :
    formatArgs p = (fun c => c ++ xs.map (replaceGnuArgs (formatKwargs p))) <$>
      split (replaceGnuArgs (formatKwargs p) p.cmd) := by
  rw [← C13_list_args_kept p xs ha]
  unfold formatArgs
  cases baseArgs p <;> simp [hs, bind, Except.bind, pure, Except.pure]

/-- length and element boundaries: the last `xs.length` elements of the vector are the
    substituted list elements in order, the elements before them come from `cmd` alone. -/
theorem C13_list_args_boundaries (p : Proc) (xs argv : List Str) (ha : p.args = .list xs)
    (h : baseArgs p = .ok argv) :
    ∃ c, split (replaceGnuArgs (formatKwargs p) p.cmd) = .ok c ∧
      argv.length = c.length + xs.length ∧ argv.take c.length = c ∧
      argv.drop c.length = xs.map (replaceGnuArgs (formatKwargs p)) ∧
      ∀ i (hi : i < xs.length), argv[c.length + i]? = some (replaceGnuArgs (formatKwargs p) xs[i]) := by
  rw [C13_list_args_kept p xs ha] at h
  cases hc : split (replaceGnuArgs (formatKwargs p) p.cmd) with
  | error e => rw [hc] at h; cases h
  | ok c =>
    rw [hc] at h
    have : argv = c ++ xs.map (replaceGnuArgs (formatKwargs p)) := by
      cases h; rfl
    subst this
    refine ⟨c, rfl, by simp, by simp, by simp, ?_⟩
    intro i hi
    rw [List.getElem?_append_right (by omega)]
    simp [hi]

/-- a list element without `$(` and `((` is handed over byte for byte -/
theorem C13_list_arg_literal (opts : List (Str × Val)) (x : Str) (h : hasOpen x = false) :
    replaceGnuArgs opts x = x :=
  scan_noOpen _ x h

/-! ## `shell=True`: the `sh -c` line denotes the same vector -/

/-- **quote round trip**, full strength — for every list of arguments (any characters, also
    NUL, quotes, backslashes, newlines; empty arguments; the empty list)
    `shlex.split(' '.join(quote(x) for x in xs)) == xs`. -/
theorem C13_quote_roundtrip (xs : List Str) :
    split (List.intercalate [32] (xs.map quote)) = .ok xs := by
  rw [← joinSp_eq_intercalate]
  unfold split
  induction xs with
  | nil => simp [joinSp, go, fresh]
  | cons x xs ih =>
    cases xs with
    | nil =>
      obtain ⟨q, h1, h2⟩ := go_quote x []
      simp only [List.map_cons, List.map_nil, joinSp]
      rw [List.append_nil] at h1
      rw [h1, go_word_end _ _ _ h2]
    | cons y r =>
      simp only [List.map_cons, joinSp] at ih ⊢
      obtain ⟨q, h1, h2⟩ := go_quote x (32 :: joinSp (quote y :: r.map quote))
      rw [h1, go_word_space _ _ _ _ h2, ih]
      rfl

/-- the statement of DESIGN.md (arguments without NUL) is an instance -/
theorem C13_quote_roundtrip_noNul (xs : List Str) (_h : ∀ x ∈ xs, 0 ∉ x) :
    split (List.intercalate [32] (xs.map quote)) = .ok xs :=
  C13_quote_roundtrip xs

/-- with `shell=True` `format_args` returns one line followed by the substituted `shell_args`,
    and the line splits back (by the shell quoting rules) into exactly the vector that would
    have been used without a shell. -/
theorem C13_shell_line (p : Proc) (argv sa : List Str) (hs : p.shell = true)
    (hb : baseArgs p = .ok argv) (hx : shellExtra p = .ok sa) :
    ∃ line, formatArgs p = .ok (line :: sa) ∧ split line = .ok argv := by
  refine ⟨joinSp (argv.map quote), ?_, ?_⟩
  · unfold formatArgs
    simp [hb, hx, hs, bind, Except.bind, pure, Except.pure]
  · rw [joinSp_eq_intercalate]; exact C13_quote_roundtrip argv

/-! ## substitution -/

/-- **unknown reference, `$(...)` syntax** — a reference in any letter case whose looked-up key
    is not in the option table is copied byte for byte and the scan goes on behind it. -/
theorem C13_unknown_verbatim (tbl : List (Str × Str)) (o k post : Str)
    (ho : lowerStr o = open1) (hne : k ≠ []) (hk : k.all isSect = true)
    (hun : tbl.lookup (optionKey k) = none) :
    scan tbl 0 (o ++ k ++ 41 :: post) = o ++ k ++ [41] ++ scan tbl 0 post := by
  rw [scan_ref1 tbl o k post ho hne hk]
  simp [repl, hun]

/-- **unknown reference, `((...))` syntax** -/
theorem C13_unknown_verbatim2 (tbl : List (Str × Str)) (o k post : Str)
    (ho : lowerStr o = open2) (hne : k ≠ []) (hk : k.all isSect = true)
    (hun : tbl.lookup (optionKey k) = none) :
    scan tbl 0 (o ++ k ++ 41 :: 41 :: post) = o ++ k ++ [41, 41] ++ scan tbl 0 post := by
  rw [scan_ref2 tbl o k post ho hne hk]
  simp [repl, hun]

/-- "not in the table" spelled out: no key of `fmt_options` equals the looked-up key -/
theorem C13_unknown_iff (tbl : List (Str × Str)) (key : Str) :
    tbl.lookup key = none ↔ ∀ e ∈ tbl, e.1 ≠ key := by
  induction tbl with
  | nil => simp [List.lookup]
  | cons e tbl ih =>
    obtain ⟨k0, v0⟩ := e
    by_cases h : key = k0
    · subst h; simp
    · rw [lookup_cons_ne _ _ h, ih]
      constructor
      · intro h1 e he
        rcases List.mem_cons.mp he with rfl | he
        · exact fun h2 => h h2.symm
        · exact h1 e he
      · intro h1 e he; exact h1 e (List.mem_cons_of_mem _ he)

/-- **no reference, no change** — a text without `$(` and without `((` (literal dollar signs,
    single parentheses, `$WORD`, `${X}` ...) is returned unchanged, whatever the options are. -/
theorem C13_literal_unchanged (opts : List (Str × Val)) (s : Str) (h : hasOpen s = false) :
    replaceGnuArgs opts s = s :=
  scan_noOpen _ s h

/-- text free of `$` and `(` in front of anything is copied and does not influence what follows -/
theorem C13_literal_prefix (opts : List (Str × Val)) (pre s : Str) (h : ∀ c ∈ pre, c ≠ 36 ∧ c ≠ 40) :
    replaceGnuArgs opts (pre ++ s) = pre ++ replaceGnuArgs opts s :=
  scan_plain_prefix _ pre s h

/-- an opening that is never closed (`$(circus.` + class characters up to the end or up to a
    character that is neither in the class nor `)`) is left alone: no match starts there. -/
theorem C13_unclosed_verbatim (o k post : Str) (ho : lowerStr o = open1) (hk : k.all isSect = true)
    (hp : ∀ c, post.head? = some c → isSect c = false ∧ c ≠ 41) :
    matchAt (o ++ k ++ post) = none := by
  rw [List.append_assoc]
  have h2 : matchAlt2 (o ++ (k ++ post)) = none := by
    unfold matchAlt2
    cases o with
    | nil => simp [lowerStr, open1] at ho
    | cons a o =>
      have ha : lower a = 36 := by
        have := congrArg List.head? ho
        simpa [lowerStr, open1] using this
      have : matchLit open2 (a :: (o ++ (k ++ post))) = none := by
        simp only [open2, List.cons_append, matchLit]
        have : ¬ lower 40 = lower a := by rw [ha]; decide
        simp [this]
      simp only [List.cons_append]
      rw [this]
  have h1 : matchAlt1 (o ++ (k ++ post)) = none := by
    unfold matchAlt1
    rw [matchLit_append open1 o _ (by rw [ho]; decide)]
    have htw : (k ++ post).takeWhile isSect = k :=
      takeWhile_sect_append k post hk (fun c hc => (hp c hc).1)
    simp only [htw, List.drop_left]
    by_cases hke : k.isEmpty = true
    · simp [hke]
    · simp only [hke, Bool.false_eq_true, if_false]
      cases post with
      | nil => rfl
      | cons c cs =>
        have := (hp c rfl).2
        split
        · rename_i heq; simp only [List.cons.injEq] at heq; omega
        · rfl
  unfold matchAt
  rw [h1, h2]

/-- **wid** — `$(circus.wid)` and `((circus.wid))` in any letter case are replaced by the text
    the table holds for `circus.wid`. -/
theorem C13_wid (tbl : List (Str × Str)) (v r post : Str) (hv : tbl.lookup circusWid = some v)
    (hr : lowerStr r = open1 ++ widKey ++ [41] ∨ lowerStr r = open2 ++ widKey ++ [41, 41]) :
    scan tbl 0 (r ++ post) = v ++ scan tbl 0 post := by
  have key : ∀ k, lowerStr k = widKey → k ≠ [] ∧ k.all isSect = true ∧ optionKey k = circusWid := by
    intro k hk
    refine ⟨?_, all_isSect_of_lower (by rw [hk]; decide), ?_⟩
    · intro h; subst h; simp [lowerStr, widKey] at hk
    · unfold optionKey; rw [hk]; decide
  rcases hr with hr | hr
  · obtain ⟨o, k, z, rfl, ho, hk, hz⟩ := lowerStr_split3 hr
    obtain ⟨h1, h2, h3⟩ := key k hk
    rw [lowerStr_close1 hz]
    have := scan_ref1 tbl o k post ho h1 h2
    simp only [List.append_assoc, List.cons_append, List.nil_append] at this ⊢
    rw [this]
    simp [repl, h3, hv]
  · obtain ⟨o, k, z, rfl, ho, hk, hz⟩ := lowerStr_split3 hr
    obtain ⟨h1, h2, h3⟩ := key k hk
    rw [lowerStr_close2 hz]
    have := scan_ref2 tbl o k post ho h1 h2
    simp only [List.append_assoc, List.cons_append, List.nil_append] at this ⊢
    rw [this]
    simp [repl, h3, hv]

/-- **wid in `format_args`** — with the table `format_args` builds, a wid reference in `cmd`,
    in a string `args` or in a list element becomes the decimal worker id, after any
    `$`/`(`-free prefix and before any continuation.  (Hypothesis: no further option is
    called `wid` in some letter case; the watcher's option names never are.) -/
theorem C13_wid_format_args (p : Proc) (pre r post : Str)
    (hx : ∀ kv ∈ p.extra, lowerStr kv.1 ≠ widKey)
    (hpre : ∀ c ∈ pre, c ≠ 36 ∧ c ≠ 40)
    (hr : lowerStr r = open1 ++ widKey ++ [41] ∨ lowerStr r = open2 ++ widKey ++ [41, 41]) :
    replaceGnuArgs (formatKwargs p) (pre ++ (r ++ post)) =
      pre ++ decimal p.wid ++ replaceGnuArgs (formatKwargs p) post := by
  unfold replaceGnuArgs
  rw [scan_plain_prefix _ pre _ hpre, C13_wid _ (decimal p.wid) r post (lookup_wid_formatKwargs p hx) hr]
  simp

/-! ## environment, directory -/

/-- **env exact, no `copy_env`** — `Watcher.__init__` keeps the configured `env` as it is -/
theorem C13_env_exact_nocopy (environ : Env) (sp : Str) (env : Option Env) :
    watcherEnv false false environ sp env = .ok env := rfl

/-- **env exact, `copy_env`** — the result is a dict (`some`), it maps every key to the value
    of the configured `env` when that has the key, else to `PYTHONPATH`'s computed value when
    `copy_path` is set and the key is `PYTHONPATH`, else to the value in `os.environ`; it has no
    other keys (lookup is `none`), and it stays a well-formed dict. -/
theorem C13_env_exact_copy (cp : Bool) (environ : Env) (sp : Str) (env : Option Env) :
    ∃ e, watcherEnv true cp environ sp env = .ok (some e) ∧
      (∀ k, e.lookup k = (((env.getD []).reverse).lookup k).or
              (if cp = true ∧ k = pythonpath then some sp else environ.lookup k)) ∧
      (KeysNodup environ → KeysNodup e) := by
  unfold watcherEnv
  simp only [if_true]
  refine ⟨_, rfl, ?_, ?_⟩
  · intro k
    cases env with
    | none =>
      cases cp <;> simp [lookup_dictSet]
    | some x =>
      simp only [Option.getD_some, lookup_dictUpdate]
      cases cp <;> simp [lookup_dictSet]
  · intro hn
    have h1 : KeysNodup (if cp = true then dictSet environ pythonpath sp else environ) := by
      cases cp
      · simpa using hn
      · simpa using keysNodup_dictSet environ pythonpath sp hn
    cases env with
    | none => exact h1
    | some x => exact keysNodup_foldl_dictSet x _ h1

/-- for a configured `env` with distinct keys "the last assignment" is just "the value" -/
theorem C13_env_lookup_reverse (e : Env) (k : Str) (h : KeysNodup e) :
    e.reverse.lookup k = e.lookup k := by
  induction e with
  | nil => rfl
  | cons kv e ih =>
    obtain ⟨k0, v0⟩ := kv
    simp only [KeysNodup, List.map_cons, List.nodup_cons] at h
    rw [List.reverse_cons, List.lookup_append, ih h.2]
    by_cases hk : k = k0
    · subst hk
      have : e.lookup k = none := by
        rw [C13_unknown_iff]; intro x hx heq
        exact h.1 (List.mem_map.mpr ⟨x, hx, heq⟩)
      rw [this, lookup_cons_eq, lookup_cons_eq]; rfl
    · rw [lookup_cons_ne _ _ hk, lookup_cons_ne _ _ hk]; simp [List.lookup]

/-- **what `Popen` is given** — whenever `spawn_process` reaches `Popen`, `env` is the watcher's
    environment (`{}` when there is none), `cwd` is the configured working directory, `shell` is
    the configured flag, `close_fds = not use_sockets`, the pipes follow the stream settings, the
    wid is the one `_nextwid` chose and `argv` is `format_args` of that worker.
    (`executable` is always `None`: `Watcher.__init__` drops the configured value.) -/
theorem C13_env_exact (w : Watcher) (used : List Nat) (wid : Nat) (obs : PopenObs)
    (h : spawnProcess w used = .ok wid obs) :
    obs.env = w.env.getD [] ∧ obs.cwd = w.workingDir ∧ obs.shell = w.shell ∧
    obs.closeFds = !w.useSockets ∧ obs.pipeStdout = w.pipeStdout ∧ obs.pipeStderr = w.pipeStderr ∧
    obs.executable = none ∧ nextWid w.numprocesses used = some wid ∧
    formatArgs (mkProc w wid) = .ok obs.argv := by
  unfold spawnProcess at h
  cases hn : nextWid w.numprocesses used with
  | none => simp [hn] at h
  | some wid' =>
    simp only [hn] at h
    unfold spawn at h
    cases hf : formatArgs (mkProc w wid') with
    | error e => simp [hf, bind, Except.bind] at h
    | ok argv =>
      simp only [hf, bind, Except.bind, pure, Except.pure] at h
      cases h
      exact ⟨rfl, rfl, rfl, rfl, rfl, rfl, rfl, rfl, hf⟩

/-! ## worker ids -/

/-- **`_nextwid`** — the result is the least positive integer that no live worker uses, it is
    at most `2 * numprocesses`; in particular it is `≥ 1` and not in use. -/
theorem C13_nextwid (np : Nat) (used : List Nat) (w : Nat) (h : nextWid np used = some w) :
    1 ≤ w ∧ w ≤ 2 * np ∧ w ∉ used ∧ ∀ v, 1 ≤ v → v < w → v ∈ used := by
  unfold nextWid at h
  rw [allWids_eq] at h
  obtain ⟨h1, h2, h3, h4⟩ := head_filter_rangeFrom _ _ _ _ h
  refine ⟨h1, by omega, by simpa using h3, fun v hv1 hv2 => ?_⟩
  simpa using h4 v hv1 hv2

/-- **`_nextwid` raises** exactly when every id `1 … 2 * numprocesses` is in use -/
theorem C13_nextwid_raise (np : Nat) (used : List Nat) :
    nextWid np used = none ↔ ∀ v, 1 ≤ v → v ≤ 2 * np → v ∈ used := by
  unfold nextWid
  rw [allWids_eq, head_filter_rangeFrom_none]
  constructor
  · intro h v h1 h2; simpa using h v h1 (by omega)
  · intro h v h1 h2; simpa using h v h1 (by omega)

/-- worker ids start at 1 -/
theorem C13_nextwid_first (np : Nat) (h : 1 ≤ np) : nextWid np [] = some 1 := by
  cases hn : nextWid np [] with
  | none =>
    have := (C13_nextwid_raise np []).mp hn 1 (by omega) (by omega)
    simp at this
  | some w =>
    obtain ⟨h1, _, _, h4⟩ := C13_nextwid np [] w hn
    by_cases hw : w = 1
    · rw [hw]
    · have := h4 1 (by omega) (by omega); simp at this

/-- **uniqueness through histories** — from any state whose live wids are pairwise distinct and
    positive (in particular the empty watcher), every sequence of spawns, deaths (any worker,
    any order) and changes of `numprocesses` leads to such a state again. -/
theorem C13_wid_unique (ops : List Op) (s : WState) (h : WInv s) : WInv (runOps s ops) := by
  induction ops generalizing s with
  | nil => exact h
  | cons o ops ih =>
    apply ih
    cases o with
    | spawn =>
      unfold stepOp
      cases hn : nextWid s.np s.wids with
      | none => exact h
      | some w =>
        obtain ⟨h1, _, h3, _⟩ := C13_nextwid _ _ _ hn
        refine ⟨?_, ?_⟩
        · simp only
          rw [List.nodup_append]
          refine ⟨h.1, by simp, ?_⟩
          intro a ha b hb
          simp only [List.mem_singleton] at hb
          subst hb
          exact fun hab => h3 (hab ▸ ha)
        · intro x hx
          simp only [List.mem_append, List.mem_singleton] at hx
          rcases hx with hx | hx
          · exact h.2 x hx
          · omega
    | die i =>
      refine ⟨h.1.sublist (List.eraseIdx_sublist _ _), fun x hx => h.2 x ?_⟩
      exact (List.eraseIdx_sublist _ _).subset hx
    | setNp n => exact h

theorem C13_wid_unique_from_empty (np : Nat) (ops : List Op) :
    WInv (runOps { np := np, wids := [] } ops) :=
  C13_wid_unique ops _ ⟨List.nodup_nil, by simp⟩

/-! ## non-vacuity: the hypotheses are met by concrete, non-trivial inputs -/

private def s (x : String) : Str := x.toList.map Char.toNat

private def p0 : Proc :=
  { wid := 12, cmd := s "prog  $(CIRCUS.wid) 'a b'", args := .list [s "x y", s "((circus.ENV.home))", s "$(circus.nope)"],
    argsStr := [], shell := false, env := [(s "HOME", s "/r t")], cwd := s "/tmp", extra := [],
    shellArgs := .none, useFds := false, executable := none, pipeStdout := false, pipeStderr := false }

example : formatArgs p0 = .ok [s "prog", s "12", s "a b", s "x y", s "/r t", s "$(circus.nope)"] := by decide
example : formatArgs { p0 with shell := true } =
    .ok [s "prog 12 'a b' 'x y' '/r t' '$(circus.nope)'"] := by decide
example : split (s "prog 12 'a b' 'x y' '/r t' '$(circus.nope)'") =
    .ok [s "prog", s "12", s "a b", s "x y", s "/r t", s "$(circus.nope)"] := by decide
example : formatArgs { p0 with args := .str (s "x y 'p q") } = .error .noClosingQuotation := by decide
example : formatArgs { p0 with cmd := s "prog\\" } = .error .noEscapedCharacter := by decide
example : quote (s "it's") = s "'it'\"'\"'s'" ∧ split (s "'it'\"'\"'s' ''") = .ok [s "it's", []] := by decide
example : lowerStr (s "$(CiRcUs.WID)") = open1 ++ widKey ++ [41] := by decide
example : lowerStr (s "((circus.Wid))") = open2 ++ widKey ++ [41, 41] := by decide
example : ∀ kv ∈ p0.extra, lowerStr kv.1 ≠ widKey := by decide
example : (fmtOptions (formatKwargs p0)).lookup (optionKey (s "nope")) = none := by decide
example : hasOpen (s "cost $5 (net) ${X} $WID") = false := by decide
example : replaceGnuArgs (formatKwargs p0) (s "$((circus.wid))) $(circus.$(circus.wid)) ((circus.wid)") =
    s "$12) $(circus.12) ((circus.wid)" := by decide
example : nextWid 2 [1, 3] = some 2 ∧ nextWid 1 [2, 1] = none ∧ nextWid 0 [] = none := by decide
example : traceOps ⟨1, []⟩ [.spawn, .spawn, .spawn, .die 0, .spawn, .setNp 3, .spawn] =
    [some 1, some 2, none, some 1, some 3] := by decide
example : watcherEnv true true [(s "A", s "0"), (s "B", s "2")] (s "/p") (some [(s "A", s "1")]) =
    .ok (some [(s "A", s "1"), (s "B", s "2"), (pythonpath, s "/p")]) := by decide
example : watcherEnv false true [] [] none = .error .copyPathWithoutCopyEnv := by decide

end Circus.FormatArgs
