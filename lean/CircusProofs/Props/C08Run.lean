import CircusProofs.Core.StopRunG
import CircusProofs.Props.C02Run
/-!
# C08 — completion of `quit`: the workers are stopped, the reply is written, then the sockets are closed

Run-level completion of `Arbiter.stop()` (`quit`) for a daemon with one registered watcher whose workers ignore
the stop signal, by the generic polling phase of Core/StopRunG.lean.
-/
namespace Circus.Core

/-- controller / PUB socket closes in the log -/
def closeCount (log : List Obs) : Nat := log.countP fun o => match o with | .close _ => true | _ => false

theorem closeCount_closeLog (a : Arbiter) (L : List Obs) (hc : a.ctlClosed = false) (hp : a.pubClosed = false) :
    closeLog a L = L ++ [Obs.close "ctrl", Obs.close "evpub"] := by
  simp [closeLog, hc, hp]

/-- **`quit` terminates although every worker ignores the stop signal.**

    Setting as in `C02_stop_terminates_stubborn` (one registered watcher `w`, active, `m ≥ 1` stubborn workers,
    `graceful_timeout > 0`, nothing in flight); the request is `quit`, `waiting` or not.

    Claim: the request followed by exactly `n = m * ⌈graceful_timeout / 100 ms⌉` timer firings ends with nothing
    in flight and the slot free, the arbiter `stopping`, the event loop stopped and **both sockets closed**
    (`ctlClosed`, `pubClosed`); the watcher is `stopped` with an empty list, every worker gone from the process table
    (killed and reaped), exactly `m` SIGKILLs, exactly one reply (if the control socket was open).  The two `close`
    observations are the last entries of the log: the reply is written before the controller is closed.  Before the
    last firing the sockets are as they were, the slot is held and the arbiter is `stopping`. -/
theorem C08_quit_terminates_stubborn (cid : String) (waiting : Bool) (u : Nat) (w : Watcher) (s : State)
    (hi : Idle u s) (hd : Stubborn u w s) (hne : w.pids ≠ []) (hgt : 0 < w.graceful) :
    let n := w.pids.length * pollsOf w.graceful
    let ops := fun j => Op.req cid (some (quitReq waiting)) :: List.replicate j Op.wake
    let s' := run s (ops n)
    s'.frames = [] ∧ s'.sleepers = [] ∧ s'.tops = [] ∧ s'.ready = [] ∧ s'.a.slot = none ∧ s'.blocked = false ∧
    s'.a.stopping = true ∧ s'.a.loopStop = false ∧ s'.a.ctlClosed = true ∧ s'.a.pubClosed = true ∧
    s'.ws = [{ w with pids := [], status := .stopped }] ∧
    (∀ pid ∈ w.pids, ∃ p, s'.k.find pid = some p ∧ p.st = .gone) ∧
    killCount s'.log = killCount s.log + w.pids.length ∧
    (s.a.ctlClosed = false → repCount s' = repCount s + 1) ∧
    (∃ L, s'.log = closeLog s.a L ∧ repC L = repC s.log + (if s.a.ctlClosed = false then 1 else 0)) ∧
    (waiting = true → ∀ j < n, repCount (run s (ops j)) = repCount s) ∧
    (∀ j < n, (run s (ops j)).a.ctlClosed = s.a.ctlClosed ∧ (run s (ops j)).a.pubClosed = s.a.pubClosed ∧
      (run s (ops j)).a.stopping = true ∧ (run s (ops j)).a.slot = some "arbiter_stop") ∧
    ((∀ p ∈ s.k.procs, p.st ≠ .zombie) → ∀ p ∈ s'.k.procs, p.st ≠ .zombie) := by
  intro n ops s'
  have hpolls : 0 < pollsOf w.graceful := by unfold pollsOf; omega
  obtain ⟨hD, hbefore, harb⟩ := quit_run_stubborn (∀ p ∈ s.k.procs, p.st ≠ .zombie) cid waiting u w s hi hd hne hpolls id
  obtain ⟨L, hL, hLk, hLr⟩ := hD.log
  refine ⟨hD.frames, hD.sleepers, hD.tops, hD.ready, ?_, hD.blocked, ?_, ?_, ?_, ?_, hD.ws, hD.gone, ?_, ?_, ⟨L, hL, hLr⟩, ?_, ?_, hD.nz⟩
  · rw [hD.arb]
  · rw [hD.arb]
  · rw [hD.arb]
  · rw [hD.arb]
  · rw [hD.arb]
  · rw [hL, killCount_closeLog, hLk]
  · intro ho
    show repC s'.log = _
    rw [hL, repC_closeLog, hLr, if_pos ho]; rfl
  · intro hw j hj
    have := hbefore j hj
    rw [if_neg (by simp [hw])] at this
    exact this
  · intro j hj
    rw [harb j hj]
    exact ⟨rfl, rfl, rfl, rfl⟩

-- the concrete daemon of Props/C02Run.lean: four firings; the reply comes before the two closes
example : let s' := run c02s0 (.req "c" (some (quitReq true)) :: List.replicate 4 .wake)
    s'.ws.map (fun w => (w.pids, w.status)) = [([], .stopped)] ∧ s'.a.ctlClosed = true ∧ s'.a.pubClosed = true ∧
    repCount s' = repCount c02s0 + 1 := by
  have h := C08_quit_terminates_stubborn "c" true 1 c02w c02s0 c02s0_idle c02s0_stubborn (by decide +kernel) (by decide +kernel)
  have hl : c02w.pids.length * pollsOf c02w.graceful = 4 := by decide +kernel
  simp only [hl] at h
  obtain ⟨_, _, _, _, _, _, _, _, h9, h10, h11, _, _, h14, _⟩ := h
  exact ⟨by rw [h11]; rfl, h9, h10, h14 (by decide +kernel)⟩

example : (run c02s0 (.req "c" (some (quitReq true)) :: List.replicate 4 .wake)).ws.map (fun w => (w.pids, w.status))
      = [([], .stopped)] ∧
    (run c02s0 (.req "c" (some (quitReq true)) :: List.replicate 3 .wake)).a.ctlClosed = false ∧
    (run c02s0 (.req "c" (some (quitReq true)) :: List.replicate 4 .wake)).a.ctlClosed = true ∧
    (run c02s0 (.req "c" (some (quitReq true)) :: List.replicate 4 .wake)).a.pubClosed = true ∧
    (run c02s0 (.req "c" (some (quitReq true)) :: List.replicate 4 .wake)).a.loopStop = false ∧
    repCount (run c02s0 (.req "c" (some (quitReq true)) :: List.replicate 3 .wake)) = 0 ∧
    repCount (run c02s0 (.req "c" (some (quitReq true)) :: List.replicate 4 .wake)) = 1 ∧
    closeCount (run c02s0 (.req "c" (some (quitReq true)) :: List.replicate 3 .wake)).log = 0 ∧
    closeCount (run c02s0 (.req "c" (some (quitReq true)) :: List.replicate 4 .wake)).log = 2 ∧
    (run c02s0 (.req "c" (some (quitReq true)) :: List.replicate 4 .wake)).k.procs.map (fun p => (p.pid, p.st))
      = [(100, .gone), (101, .gone)] := by decide +kernel

/-- **`quit` terminates within the request step when every worker obeys the stop signal** (setting of
    `C02_stop_terminates_obedient`, one registered watcher): the workers dead and reaped without any SIGKILL, the
    watcher `stopped`, exactly one reply (if the control socket was open), then — the two `close` observations are
    the last entries of the log — both sockets closed; nothing in flight, the slot free, the loop stopped. -/
theorem C08_quit_terminates_obedient (cid : String) (waiting : Bool) (u : Nat) (w : Watcher) (s : State)
    (hi : Idle u s) (hd : Obedient u w s) (hne : w.pids ≠ []) (hgt : 0 < w.graceful) :
    let s' := run s [Op.req cid (some (quitReq waiting))]
    s'.frames = [] ∧ s'.sleepers = [] ∧ s'.tops = [] ∧ s'.ready = [] ∧ s'.a.slot = none ∧ s'.blocked = false ∧
    s'.a.stopping = true ∧ s'.a.loopStop = false ∧ s'.a.ctlClosed = true ∧ s'.a.pubClosed = true ∧
    s'.ws = [{ w with pids := [], status := .stopped }] ∧
    (∀ pid ∈ w.pids, ∃ p, s'.k.find pid = some p ∧ p.st = .gone) ∧
    killCount s'.log = killCount s.log ∧
    (s.a.ctlClosed = false → repCount s' = repCount s + 1) ∧
    (∃ L, s'.log = closeLog s.a L ∧ repC L = repC s.log + (if s.a.ctlClosed = false then 1 else 0)) ∧
    ((∀ p ∈ s.k.procs, p.st ≠ .zombie) → ∀ p ∈ s'.k.procs, p.st ≠ .zombie) := by
  intro s'
  have hpolls : 0 < pollsOf w.graceful := by unfold pollsOf; omega
  have hD : QuitDone (∀ p ∈ s.k.procs, p.st ≠ .zombie) w s.a (killCount s.log)
      (repC s.log + (if s.a.ctlClosed = false then 1 else 0)) s' :=
    quit_run_obedient _ cid waiting u w s hi hd hne hpolls id
  obtain ⟨L, hL, hLk, hLr⟩ := hD.log
  refine ⟨hD.frames, hD.sleepers, hD.tops, hD.ready, ?_, hD.blocked, ?_, ?_, ?_, ?_, hD.ws, hD.gone, ?_, ?_, ⟨L, hL, hLr⟩, hD.nz⟩
  · rw [hD.arb]
  · rw [hD.arb]
  · rw [hD.arb]
  · rw [hD.arb]
  · rw [hD.arb]
  · rw [hL, killCount_closeLog, hLk]
  · intro ho
    show repC s'.log = _
    rw [hL, repC_closeLog, hLr, if_pos ho]; rfl

example : let s' := run c02t0 [.req "c" (some (quitReq true))]
    s'.ws.map (fun w => (w.pids, w.status)) = [([], .stopped)] ∧ s'.a.ctlClosed = true ∧ s'.a.pubClosed = true ∧
    killCount s'.log = killCount c02t0.log ∧ repCount s' = repCount c02t0 + 1 := by
  have h := C08_quit_terminates_obedient "c" true 1 c02v c02t0 c02t0_idle c02t0_obedient (by decide +kernel) (by decide +kernel)
  obtain ⟨_, _, _, _, _, _, _, _, h9, h10, h11, _, h13, h14, _⟩ := h
  exact ⟨by rw [h11]; rfl, h9, h10, h13, h14 (by decide +kernel)⟩

example : (run c02t0 [.req "c" (some (quitReq true))]).ws.map (fun w => (w.pids, w.status)) = [([], .stopped)] ∧
    (run c02t0 [.req "c" (some (quitReq true))]).a.ctlClosed = true ∧
    (run c02t0 [.req "c" (some (quitReq true))]).a.loopStop = false ∧
    (run c02t0 [.req "c" (some (quitReq true))]).a.slot = none ∧
    repCount (run c02t0 [.req "c" (some (quitReq true))]) = 1 ∧
    closeCount (run c02t0 [.req "c" (some (quitReq true))]).log = 2 ∧
    killCount (run c02t0 [.req "c" (some (quitReq true))]).log = 0 ∧
    (run c02t0 [.req "c" (some (quitReq true))]).k.procs.map (fun p => (p.pid, p.st)) = [(100, .gone), (101, .gone)] := by
  decide +kernel

end Circus.Core
