import CircusProofs.Lemmas.Signum
/-!
# C18 (designation clause) — "Signal designations (numbers, numeric strings, names with or without
the SIG prefix in any letter case) denote the same signal everywhere they are accepted — requests,
the stop_signal option, configuration files — and anything else is refused without a signal being
sent."

Property theorems only.  The documented language is `Designates` below; it does not mention
`toSignum`.  Helper notions from `Lemmas/Signum.lean`:
* `InRange n`      — `1 ≤ n ∧ n < NSIG` (Linux: 1..64);
* `Spells w b`     — `w`, upper-cased, is a name of the platform table for signal `b`, or becomes
                     one when `SIG` is put in front (any letter case, prefix optional);
* `IsOffset off k` — `off` is empty (`k = 0`) or `+` followed by 1..4300 decimal digits of value `k`;
* `IsIntLit s v`   — `s` is a decimal integer literal of value `v` (grammar in `Lemmas/PyInt.lean`,
                     proved equivalent to the scanner model by `parse_iff_lit`).
-/
namespace Circus.Signum
open Circus.PyInt

/-- **the documented language of signal designations** -/
inductive Designates : SigArg → Nat → Prop
  /-- a number in the platform's range -/
  | int (n : Nat) : InRange n → Designates (.int (Int.ofNat n)) n
  /-- a numeric string: a decimal integer literal (`IsIntLit`, `Lemmas/PyInt.lean`: decimal digits
      in groups separated by single underscores, optional sign, blanks around it) of such a number -/
  | numStr (s : Str) (n : Nat) : InRange n → IsIntLit s (Int.ofNat n) → Designates (.str s) n
  /-- a name of the signal table, with or without `SIG`, in any letter case, optionally followed by
      `+k`, optionally surrounded by white space; the sum must stay in range -/
  | name (l w off r : Str) (b k : Nat) :
      (∀ c ∈ l, isStrSpace c = true) → (∀ c ∈ r, isStrSpace c = true) →
      Spells w b → IsOffset off k → InRange (b + k) →
      Designates (.str (l ++ w ++ off ++ r)) (b + k)

/-- **designation** — `to_signum` accepts exactly the documented language, with exactly the
    documented number (both directions, every argument type, every string). -/
theorem C18_designation (x : SigArg) (n : Nat) : toSignum x = .ok n ↔ Designates x n := by
  constructor
  · intro h
    cases x with
    | int i =>
      simp only [toSignum] at h
      obtain ⟨hv, hr⟩ := (rangeCheck_ok_iff _ _).mp h
      injection hv with hv
      subst hv
      exact .int n hr
    | str s =>
      simp only [toSignum] at h
      cases hp : parse s with
      | some v =>
        rw [hp] at h
        obtain ⟨hv, hr⟩ := (rangeCheck_ok_iff _ _).mp h
        injection hv with hv
        subst hv
        exact .numStr s n hr ((parse_iff_lit s _).mp hp)
      | none =>
        rw [hp] at h
        obtain ⟨hv, hr⟩ := (rangeCheck_ok_iff _ _).mp h
        obtain ⟨l, w, off, r, b, k, rfl, hl, hrr, hw, hoff, hval⟩ := nameVal_some hv
        have : n = b + k := by
          simp only [Int.ofNat_eq_natCast] at hval; omega
        subst this
        exact .name l w off r b k hl hrr hw hoff hr
    | bool b => simp [toSignum] at h
    | float => simp [toSignum] at h
    | other => simp [toSignum, rangeCheck] at h
  · intro h
    cases h with
    | int n hr => exact (rangeCheck_ok_iff _ _).mpr ⟨rfl, hr⟩
    | numStr s n hr hlit =>
      have hp := (parse_iff_lit s _).mpr hlit
      simp only [toSignum, hp]
      exact (rangeCheck_ok_iff _ _).mpr ⟨rfl, hr⟩
    | name l w off r b k hl hrr hw hoff hr =>
      rw [toSignum_name l w off r b k hl hrr hw hoff]
      exact (rangeCheck_ok_iff _ _).mpr ⟨rfl, hr⟩

/-- a designation denotes one signal only -/
theorem C18_designation_unique (x : SigArg) (n m : Nat) (h1 : Designates x n) (h2 : Designates x m) :
    n = m := by
  have a := (C18_designation x n).mpr h1
  have b := (C18_designation x m).mpr h2
  rw [a] at b
  injection b

/-- **any letter case** — two strings that differ only in letter case get the same answer
    (the same number, or both are refused). -/
theorem C18_case_insensitive (s s' : Str) (h : upperS s = upperS s') :
    toSignum (.str s) = toSignum (.str s') := by
  rw [← toSignum_upper s, ← toSignum_upper s', h]

/-- **the SIG prefix is optional** — for a table name written without the prefix (`w`), putting
    any spelling `p` of `SIG` in front changes nothing, with or without offset and padding; both
    give `base + k` if that is in range and are refused otherwise. -/
theorem C18_prefix_optional (l p w off r : Str) (b k : Nat)
    (hl : ∀ c ∈ l, isStrSpace c = true) (hr : ∀ c ∈ r, isStrSpace c = true)
    (hp : upperS p = SIG) (hw : (SIG ++ upperS w, b) ∈ sigTable) (hoff : IsOffset off k) :
    toSignum (.str (l ++ (p ++ w) ++ off ++ r)) = toSignum (.str (l ++ w ++ off ++ r)) ∧
    toSignum (.str (l ++ w ++ off ++ r)) = rangeCheck (some (Int.ofNat (b + k))) := by
  have h1 : Spells w b := ⟨_, hw, Or.inr rfl⟩
  have h2 : Spells (p ++ w) b := ⟨_, hw, Or.inl (by rw [upperS_append, hp])⟩
  rw [toSignum_name l (p ++ w) off r b k hl hr h2 hoff, toSignum_name l w off r b k hl hr h1 hoff]
  exact ⟨rfl, rfl⟩

/-- every name of the platform table, with or without `SIG`, in any letter case, is accepted
    with the table's number -/
theorem C18_table_complete (nm w : Str) (b : Nat) (hmem : (nm, b) ∈ sigTable)
    (hw : upperS w = nm ∨ SIG ++ upperS w = nm) : toSignum (.str w) = .ok b := by
  have hr := table_range (nm, b) hmem
  have := toSignum_name [] w [] [] b 0 (by simp) (by simp) ⟨nm, hmem, hw⟩ (Or.inl ⟨rfl, rfl⟩)
  simp only [List.nil_append, List.append_nil, Nat.add_zero] at this
  rw [this]
  exact (rangeCheck_ok_iff _ _).mpr ⟨rfl, hr⟩

/-- **the same signal everywhere** — every entry point maps through `to_signum`: whenever a
    `signal` request, a `kill` request, a `set stop_signal` request, `convert_option` or a config
    file accepts a designation, the number is the documented one; and a designation that an entry
    point can take at all (the `set` request takes JSON integers only) is accepted by it with that
    number. -/
theorem C18_same_everywhere (x : SigArg) (n cur : Nat) :
    (signalValidate x = .accepted (some n) ↔ Designates x n) ∧
    (killValidate (some x) = .accepted (some n) ↔ Designates x n) ∧
    (convertOption x = .ok n ↔ Designates x n) ∧
    (∀ s, configStopSignal s = .ok n ↔ Designates (.str s) n) ∧
    (setStopSignal cur x = (.done, n) → Designates x n) ∧
    (isPyInt x = true → Designates x n → setStopSignal cur x = (.done, n)) := by
  refine ⟨?_, ?_, ?_, ?_, ?_, ?_⟩
  · rw [← C18_designation]
    unfold signalValidate
    cases toSignum x <;> simp
  · rw [← C18_designation]
    simp only [killValidate]
    cases toSignum x <;> simp
  · exact C18_designation x n
  · intro s; exact C18_designation (.str s) n
  · rw [← C18_designation]
    unfold setStopSignal
    cases isPyInt x <;> cases toSignum x <;> simp
  · intro hi hd
    rw [← C18_designation] at hd
    simp [setStopSignal, hi, hd]

/-- **anything else is refused, and nothing changes** — an argument that designates no signal gets
    `ValueError` from `to_signum`, an error reply (`MessageError`) from `signal` and `kill`, is not
    applied by `set` (the watcher's `stop_signal` keeps its value) and fails config loading; no
    entry point yields a number. -/
theorem C18_refused_no_number (x : SigArg) (cur : Nat) (h : ∀ n, ¬ Designates x n) :
    toSignum x = .valueError ∧ signalValidate x = .messageError ∧
    killValidate (some x) = .messageError ∧ convertOption x = .valueError ∧
    (setStopSignal cur x).1 ≠ .done ∧ (setStopSignal cur x).2 = cur ∧
    (∀ s, x = .str s → configStopSignal s = .valueError) := by
  have hv : toSignum x = .valueError := by
    cases ht : toSignum x with
    | valueError => rfl
    | ok n => exact absurd ((C18_designation x n).mp ht) (h n)
  refine ⟨hv, ?_, ?_, hv, ?_, ?_, ?_⟩
  · simp [signalValidate, hv]
  · simp [killValidate, hv]
  · unfold setStopSignal; cases isPyInt x <;> simp [hv]
  · unfold setStopSignal; cases isPyInt x <;> simp [hv]
  · rintro s rfl; exact hv

/-- booleans, floats, `null`, arrays and objects designate nothing -/
theorem C18_non_designations (n : Nat) :
    (∀ b, ¬ Designates (.bool b) n) ∧ ¬ Designates .float n ∧ ¬ Designates .other n := by
  refine ⟨fun b h => ?_, fun h => ?_, fun h => ?_⟩ <;> cases h

/-- numbers out of range designate nothing -/
theorem C18_int_range (i : Int) (n : Nat) : Designates (.int i) n ↔ i = Int.ofNat n ∧ InRange n := by
  constructor
  · intro h; cases h with | int n hr => exact ⟨rfl, hr⟩
  · rintro ⟨rfl, hr⟩; exact .int n hr

/-! ### non-vacuity (and the former F10 witnesses, now refused) -/

example : toSignum (.str (S "sigrtmin+3")) = .ok 37 := by decide +kernel
example : toSignum (.str (S " Term\n")) = .ok 15 := by decide +kernel
example : toSignum (.str (S "SIGKILL")) = .ok 9 ∧ toSignum (.str (S "kill")) = .ok 9 ∧
    toSignum (.str (S "9")) = .ok 9 ∧ toSignum (.int 9) = .ok 9 := by decide +kernel
example : toSignum (.str (S " +0_9 ")) = .ok 9 := by decide +kernel
example : toSignum (.str (S "RTMAX+1")) = .valueError ∧ toSignum (.str (S "HUP+63")) = .ok 64 := by decide +kernel
example : toSignum (.str (S "KILL-9")) = .valueError ∧ toSignum (.str (S "SIG_IGN")) = .valueError ∧
    toSignum (.int 1000) = .valueError ∧ toSignum (.int 0) = .valueError ∧ toSignum (.int (-1)) = .valueError ∧
    toSignum (.bool true) = .valueError ∧ toSignum .float = .valueError ∧
    toSignum (.str (S "nosuchsignal")) = .valueError ∧ toSignum (.str (S "")) = .valueError := by decide +kernel
-- the hypotheses of the name constructor / of C18_prefix_optional are satisfiable
example : Designates (.str (S " sigRtMin+3\n")) 37 :=
  Designates.name (S " ") (S "sigRtMin") (S "+3") (S "\n") 34 3 (by decide) (by decide)
    ⟨S "SIGRTMIN", by decide +kernel, Or.inl (by decide +kernel)⟩
    (Or.inr ⟨S "3", rfl, by decide, by decide, by decide, by decide +kernel⟩) ⟨by decide, by decide⟩
example : Designates (.str [32, 43, 48, 95, 57, 10]) 9 :=          -- " +0_9\n"
  Designates.numStr _ 9 ⟨by decide, by decide⟩
    ⟨[32], [43], [48, 95, 57], [10], rfl, by decide, by decide,
      Grouped.consUs 48 [57] (by decide) (Grouped.one 57 (by decide)),
      by decide +kernel, Or.inr (Or.inl ⟨rfl, by decide +kernel⟩)⟩
example : upperS (S "sIg") = SIG ∧ (SIG ++ upperS (S "usr1"), 10) ∈ sigTable := by decide +kernel
example : upperS (S "SigTerm") = upperS (S "sIGtERM") := by decide +kernel
example : setStopSignal 15 (.int 9) = (.done, 9) ∧ setStopSignal 15 (.bool true) = (.valueError, 15) ∧
    setStopSignal 15 (.str (S "9")) = (.notInteger, 15) := by decide +kernel
example : ∀ n, ¬ Designates (.int 65) n := by
  intro n h; rw [C18_int_range] at h; obtain ⟨h1, h2, h3⟩ := h
  simp only [Int.ofNat_eq_natCast, NSIG] at h1 h3; omega

end Circus.Signum
