import CircusProofs.Lemmas.RedirectorLeak
/-!
# C17 — captured worker output is delivered complete, in order, once, correctly labelled

Property theorems only (lemmas: `Lemmas/Redirector.lean`, `Lemmas/RedirectorInv.lean`,
`Lemmas/RedirectorLeak.lean`).  All statements quantify over every read-buffer size `b`, first pid
`p0` and every list of operations `ops` of any length (any number of concurrent workers, any
interleaving of writers, chunk sizes, EOFs, kills, self-exits and respawns; descriptor numbers are
handed out lowest-free, hence reused across generations).  `trace` is the list of all outputs of the
run, `final` the state reached.
-/
namespace Circus.Redirector

/-- **stream refinement** — for every worker `pid` and channel `chan`, the concatenation of the
    `data` of all records delivered with tag `(pid, chan)` is a prefix of the bytes that worker wrote
    on that channel: nothing is delivered twice, out of order, under a wrong pid or channel name,
    whatever the sibling workers do.  And once the handler has made the EOF read on that stream
    (`eof` output; `b > 0`), it is the whole stream. -/
theorem C17_stream_refinement (b p0 : Nat) (ops : List Op) (pid : Nat) (chan : Chan) :
    deliveredOf pid chan (trace (init b p0) ops) <+: writtenOf pid chan (trace (init b p0) ops) ∧
    (0 < b → ∀ fd, Out.eof chan pid fd ∈ trace (init b p0) ops →
      deliveredOf pid chan (trace (init b p0) ops) = writtenOf pid chan (trace (init b p0) ops)) := by
  obtain ⟨_, a⟩ := reachable_ok b p0 ops
  refine ⟨⟨lostOf pid chan (trace (init b p0) ops) ++ pending (final (init b p0) ops) pid chan, ?_⟩, ?_⟩
  · rw [a.bal pid chan, List.append_assoc]
  · intro hb fd hx
    have hbuf : 0 < (final (init b p0) ops).red.buffer := by
      have := run_buffer (init b p0) ops
      simp only [final]; rw [this]; exact hb
    obtain ⟨g1, g2, _⟩ := a.eofDone hbuf chan pid fd hx
    rw [a.bal pid chan, g1, g2]; simp

/-- **accounting** — every byte written is, in this order: delivered under the writer's own label,
    or dropped because the daemon closed its read end while the byte was still queued (`lost`), or
    still queued in the pipe of the final state. -/
theorem C17_accounting (b p0 : Nat) (ops : List Op) (pid : Nat) (chan : Chan) :
    writtenOf pid chan (trace (init b p0) ops) =
      deliveredOf pid chan (trace (init b p0) ops) ++ lostOf pid chan (trace (init b p0) ops) ++
        pending (final (init b p0) ops) pid chan :=
  (reachable_ok b p0 ops).2.bal pid chan

/-- **handlers are never mislabelled** — in every reachable state, a registered handler whose
    descriptor number is open is labelled with the worker and channel the pipe at that number was
    created for, although numbers are reused and stale entries may exist. -/
theorem C17_handlers_labelled (b p0 : Nat) (ops : List Op) :
    ∀ e ∈ (final (init b p0) ops).red.active, ∀ p, lookup (final (init b p0) ops).fdt e.fd = some p →
      p.pid = e.pid ∧ p.chan = e.name :=
  fun e he p hp => ((reachable_ok b p0 ops).1.activeLab e he).2 p hp

/- Full statement of completeness, FALSE on the unchanged tree (finding F17): "once a worker is gone
   (killed or reaped), everything it wrote has been delivered":
     findProc (final (init b p0) ops) pid = none →
       deliveredOf pid chan (trace …) = writtenOf pid chan (trace …)
   `Process.stop()` closes the read ends without draining them; `reap_process` does so without even
   calling `remove_redirections`.  See `C17_counterexample_loss`. -/

/-- **completeness (partial)** — under the extra hypothesis `NoLossAtClose`: no `lost` output for
    `(pid, chan)`, i.e. whenever `kill_process` / `reap_process` closed a read end of that worker its
    pipe had been drained.  Then a worker that is gone had its whole stream delivered. -/
theorem C17_complete_partial (b p0 : Nat) (ops : List Op) (pid : Nat) (chan : Chan)
    (hgone : findProc (final (init b p0) ops) pid = none)
    (NoLossAtClose : lostOf pid chan (trace (init b p0) ops) = []) :
    deliveredOf pid chan (trace (init b p0) ops) = writtenOf pid chan (trace (init b p0) ops) := by
  rw [C17_accounting b p0 ops pid chan, NoLossAtClose, pending_none hgone]; simp

/-- **counter-example (F17)** — buffer 4: start, spawn a worker with both pipes, it writes `hi` to
    stdout and exits by itself, `reap_process` runs before the handler: the two bytes are written,
    never delivered, the worker is gone and its descriptors are closed. -/
theorem C17_counterexample_loss :
    let ops := [Op.start, .spawn true true, .write 1 .stdout [104, 105], .reapSelfExited 1]
    writtenOf 1 .stdout (trace (init 4 1) ops) = [104, 105] ∧
    deliveredOf 1 .stdout (trace (init 4 1) ops) = [] ∧
    lostOf 1 .stdout (trace (init 4 1) ops) = [104, 105] ∧
    findProc (final (init 4 1) ops) 1 = none ∧ (final (init 4 1) ops).fdt = [none, none] := by
  decide

/-- **no spin** — a handler call that reads 0 bytes (`eof` output: EOF, the writer has closed)
    leaves the descriptor in neither `pipes` nor `_active`; the loop has no handler for it any more,
    so a further `ready fd` calls nothing.  Holds in every state, reachable or not. -/
theorem C17_no_spin (s : State) (fd : Nat) (c : Chan) (p : Nat)
    (h : Out.eof c p fd ∈ (step s (.ready fd)).2) :
    fd ∉ (step s (.ready fd)).1.red.pipes.keys ∧ fd ∉ (step s (.ready fd)).1.red.active.keys ∧
    (step (step s (.ready fd)).1 (.ready fd)).2 = [.noHandler] := by
  have key : fd ∉ (step s (.ready fd)).1.red.pipes.keys ∧ fd ∉ (step s (.ready fd)).1.red.active.keys := by
    simp only [step, handlerCall] at h ⊢
    cases hg : s.red.active.get fd with
    | none => rw [hg] at h; simp at h
    | some hd =>
      rw [hg] at h
      simp only at h ⊢
      cases hl : lookup s.fdt fd with
      | none => rw [hl] at h; simp at h
      | some q =>
        rw [hl] at h
        simp only at h ⊢
        by_cases hea : s.red.buffer ≠ 0 ∧ q.q = [] ∧ q.wOpen = true
        · rw [if_pos hea] at h; simp at h
        · rw [if_neg hea] at h ⊢
          by_cases hz : (List.take s.red.buffer q.q).length = 0
          · rw [if_pos hz]
            show fd ∉ (removeFd s.red fd).1.pipes.keys ∧ fd ∉ (removeFd s.red fd).1.active.keys
            rw [removeFd_fst]
            exact ⟨Dict.not_mem_keys_del _ _, Dict.not_mem_keys_del _ _⟩
          · rw [if_neg hz] at h; simp at h
  refine ⟨key.1, key.2, ?_⟩
  simp only [step, handlerCall]
  have : (step s (.ready fd)).1.red.active.get fd = none := by
    cases hg : (step s (.ready fd)).1.red.active.get fd with
    | none => rfl
    | some e => exact absurd ((Dict.mem_keys _ _).mpr ⟨e, (Dict.get_some hg).1, (Dict.get_some hg).2⟩) key.2
  simp only [step, handlerCall] at this
  rw [this]

/-- **no leak** — in every reachable state `|pipes|` is at most 2·(live workers with captured
    channels) plus the number of *stale* entries (entries whose descriptor number is closed: left
    behind by `reap_process`, which closes the pipes without `remove_redirections`), and
    `|_active| ≤ |pipes|`.  The stale term is bounded by `C17_no_leak_bounded`. -/
theorem C17_no_leak (b p0 : Nat) (ops : List Op) :
    (final (init b p0) ops).red.pipes.length ≤
      2 * liveWithPipes (final (init b p0) ops) + staleCount (final (init b p0) ops) ∧
    (final (init b p0) ops).red.active.length ≤ (final (init b p0) ops).red.pipes.length := by
  obtain ⟨h1, h2, _⟩ := sizes_of_inv (reachable_ok b p0 ops).1
  exact ⟨h1, h2⟩

/-- **entries do not accumulate per generation** — `|pipes|` and `|_active|` never exceed twice the
    peak number of simultaneously live workers of the run, however many generations of workers have
    come and gone (stale entries included: a stale number is the first to be reused, and
    `add_redirections` overwrites the entry). -/
theorem C17_no_leak_bounded (b p0 : Nat) (ops : List Op) :
    (final (init b p0) ops).red.pipes.length ≤ 2 * peakLive (init b p0) ops ∧
    (final (init b p0) ops).red.active.length ≤ 2 * peakLive (init b p0) ops := by
  obtain ⟨hi, _⟩ := reachable_ok b p0 ops
  obtain ⟨_, h2, h3⟩ := sizes_of_inv hi
  have := run_fdt_length (init_inv b p0) (init_acc b p0) ops (peakLive (init b p0) ops)
    (by simp [init]) (Nat.le_refl _)
  simp only [final] at h2 h3 ⊢
  omega

/- Full statement of DESIGN.md, FALSE on the unchanged tree: "|pipes| ≤ 2·|live workers with pipes|
   in every reachable state" — see `C17_counterexample_stale`. -/

/-- **no leak (partial)** — under the extra hypothesis `NoStaleLeft`: no read end was ever closed
    while `pipes` still had an entry for it (`staleLeft` never emitted — i.e. every self-exited
    worker was reaped only after the EOF reads of its pipes).  Then there is no stale entry and
    `|_active| ≤ |pipes| ≤ 2·(live workers with captured channels)`. -/
theorem C17_no_leak_partial (b p0 : Nat) (ops : List Op)
    (NoStaleLeft : ∀ fd, Out.staleLeft fd ∉ trace (init b p0) ops) :
    staleCount (final (init b p0) ops) = 0 ∧
    (final (init b p0) ops).red.pipes.length ≤ 2 * liveWithPipes (final (init b p0) ops) ∧
    (final (init b p0) ops).red.active.length ≤ (final (init b p0) ops).red.pipes.length := by
  have hns : NoStale (final (init b p0) ops) :=
    run_noStale (init_inv b p0) (init_acc b p0) (by intro e he; simp [init] at he) ops NoStaleLeft
  have h0 := staleCount_zero hns
  obtain ⟨h1, h2⟩ := C17_no_leak b p0 ops
  exact ⟨h0, by omega, h2⟩

/-- **counter-example (stale entries)** — start, spawn, the worker exits and is reaped before any
    handler ran: no worker is live but `pipes` and `_active` still hold both entries, for closed
    descriptor numbers; a handler called on one of them gets EBADF. -/
theorem C17_counterexample_stale :
    let ops := [Op.start, .spawn true true, .reapSelfExited 1]
    (final (init 4 1) ops).red.pipes.length = 2 ∧ (final (init 4 1) ops).red.active.length = 2 ∧
    liveWithPipes (final (init 4 1) ops) = 0 ∧ staleCount (final (init 4 1) ops) = 2 ∧
    (step (final (init 4 1) ops) (.ready 0)).2 = [.ebadf 0] := by
  decide

/-! ### non-vacuity: concrete runs on which the hypotheses hold and the conclusions are not trivial -/

/-- two workers, interleaved writes on both channels, a chunk larger than the buffer (3), worker 1 is
    read to EOF and reaped, worker 3 is spawned on the reused numbers 0 and 1 while worker 2 keeps
    talking -/
private def demo : List Op :=
  [.start, .spawn true true, .spawn true true,
   .write 1 .stdout [1, 2, 3, 4, 5, 6, 7], .write 2 .stderr [20, 21], .write 1 .stderr [9],
   .ready 0, .ready 3, .ready 0, .ready 1, .ready 0,
   .closeWriter 1 .stdout, .closeWriter 1 .stderr, .ready 0, .ready 1, .reapSelfExited 1,
   .spawn true true, .write 3 .stdout [30, 31, 32, 33], .write 2 .stdout [22],
   .ready 0, .ready 2, .ready 0, .killProcess 2, .closeWriter 3 .stdout, .ready 0]

example : deliveredOf 1 .stdout (trace (init 3 1) demo) = [1, 2, 3, 4, 5, 6, 7] ∧
    deliveredOf 1 .stderr (trace (init 3 1) demo) = [9] ∧
    deliveredOf 2 .stderr (trace (init 3 1) demo) = [20, 21] ∧
    deliveredOf 2 .stdout (trace (init 3 1) demo) = [22] ∧
    deliveredOf 3 .stdout (trace (init 3 1) demo) = [30, 31, 32, 33] := by decide
-- the EOF hypothesis of `C17_stream_refinement` is met for three streams, on reused number 0 too
example : Out.eof .stdout 1 0 ∈ trace (init 3 1) demo ∧ Out.eof .stderr 1 1 ∈ trace (init 3 1) demo ∧
    Out.eof .stdout 3 0 ∈ trace (init 3 1) demo := by decide
-- hypotheses of the partial theorems hold on this run (nothing lost, nothing stale) …
example : (∀ pid ∈ [1, 2, 3], ∀ c ∈ [Chan.stdout, .stderr], lostOf pid c (trace (init 3 1) demo) = []) ∧
    findProc (final (init 3 1) demo) 1 = none ∧ findProc (final (init 3 1) demo) 2 = none := by decide
example : ∀ fd ∈ [0, 1, 2, 3, 4], Out.staleLeft fd ∉ trace (init 3 1) demo := by decide
-- … and the final state is non-trivial: one live worker, its stderr still registered on number 1
example : (final (init 3 1) demo).red.pipes = [⟨1, .stderr, 3⟩] ∧
    (final (init 3 1) demo).red.active = [⟨1, .stderr, 3⟩] ∧ peakLive (init 3 1) demo = 2 := by decide
-- `C17_no_spin`: its hypothesis is met by the last step of the run
example : Out.eof .stdout 3 0 ∈ (step (final (init 3 1) (demo.dropLast)) (.ready 0)).2 := by decide

/-- **one readiness event, one read that returns at once** (the redirector's share of "the daemon never blocks"): when the
    handler is called for a pipe that has bytes queued, it delivers exactly the first `buffer` of them (one record), leaves the
    rest queued for the next event and touches nothing else — in particular it does not read again, which on the blocking pipe of
    a real worker would stall the loop once the queue is empty (the `read-would-block` clause of the C05 / C17 oracle watches the
    implementation for exactly that). -/
theorem C17_ready_is_one_read (s : State) (fd : Nat) (h : Entry) (p : Pipe)
    (ha : s.red.active.get fd = some h) (hp : lookup s.fdt fd = some p) (hq : p.q ≠ []) (hb : s.red.buffer ≠ 0) :
    step s (.ready fd) =
      ({ s with fdt := s.fdt.set fd (some { p with q := p.q.drop s.red.buffer }) },
       [.delivered h.name h.pid (p.q.take s.red.buffer)]) := by
  have hlen : (p.q.take s.red.buffer).length ≠ 0 := by
    cases hq' : p.q with
    | nil => exact absurd hq' hq
    | cons x xs =>
      cases hb' : s.red.buffer with
      | zero => exact absurd hb' hb
      | succ n => simp
  simp only [step, handlerCall, ha, hp]
  rw [if_neg (by simp [hq]), if_neg hlen]

-- five bytes queued, buffer 3: one event delivers three of them and leaves two queued
example : (step (final (init 3 1) [.start, .spawn true true, .write 1 .stdout [1, 2, 3, 4, 5]]) (.ready 0)).2 =
    [.delivered .stdout 1 [1, 2, 3]] := by decide

/-- **a sibling's late clean-up leaves a successor alone** ("unaffected by sibling workers being restarted meanwhile"): when a
    `kill_process` wakes from its nap only after the periodic check has reaped its worker, its `remove_redirections` runs on a
    stopped `Process` whose pipes are closed file objects; it touches neither the registrations nor the handlers — in
    particular not those a successor has meanwhile taken on the same descriptor numbers — and produces no observable effect. -/
theorem C17_late_remove_touches_nothing (s : State) (pid : Nat) :
    step s (.lateRemove pid) = (s, []) := rfl

/-- every op but the late clean-up -/
def notLate : Op → Bool
  | .lateRemove _ => false
  | _ => true

/-- … so the deliveries of a run do not depend on where such late clean-ups fall: dropping them from the op list leaves every
    output and the final state as they are. -/
theorem C17_late_removes_are_invisible (s : State) (ops : List Op) :
    final s (ops.filter notLate) = final s ops ∧ trace s (ops.filter notLate) = trace s ops := by
  induction ops generalizing s with
  | nil => exact ⟨rfl, rfl⟩
  | cons o r ih =>
    cases hk : notLate o with
    | false =>
      have ho : ∃ p, o = .lateRemove p := by
        cases o <;> simp [notLate] at hk
        exact ⟨_, rfl⟩
      obtain ⟨p, rfl⟩ := ho
      have h := ih s
      simp only [List.filter_cons, hk]
      exact ⟨by simpa [final, run, step] using h.1, by simpa [trace, run, step] using h.2⟩
    | true =>
      have h := ih (step s o).1
      simp only [List.filter_cons, hk, if_true]
      refine ⟨?_, ?_⟩
      · simpa [final, run] using h.1
      · simp only [trace, run, List.flatten_cons] at h ⊢
        rw [h.2]

-- worker 1 is reaped, worker 2 takes its numbers, then the late clean-up for worker 1 arrives: worker 2 still delivers
example : deliveredOf 2 .stdout (trace (init 3 1)
    [.start, .spawn true true, .reapSelfExited 1, .spawn true true, .lateRemove 1, .write 2 .stdout [5, 6], .ready 0]) = [5, 6] := by
  decide

end Circus.Redirector
