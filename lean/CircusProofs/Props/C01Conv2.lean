import CircusProofs.Core.ConvReap
import CircusProofs.Core.ConvSurplus
import CircusProofs.Props.C01Conv
/-!
# C01 — convergence, generalised

Props/C01Conv.lean proves convergence for one watcher from an idle state with `m ≤ N` *running* workers in a
still kernel.  Here the same is proved from more general start states (Core/ConvReap.lean, Core/Conv.lean):

## A. deaths before the check ("whatever worker exits / external kills occurred")

Setting (`Idle u s`, `DatZ u N L s`): as in C01Conv, but the watcher's `processes` dict (`L`) lists, besides
running workers, workers that are **dead in the kernel** — zombies: exited by themselves or killed from outside,
not yet waited for, with any wait status.  The kernel is *still but for zombies* (`Kernel.StillZ`: nothing armed
or pending, nobody doomed, pids pairwise different and below the counter, every zombie a child of the daemon);
zombie children that no watcher lists are allowed too.

Who reaps: `Arbiter.manage_watchers` first runs `Arbiter.reap_processes` — the `waitpid(-1, WNOHANG)` loop —
which collects every zombie child (the simulated kernel hands them out least pid first) and calls
`Watcher.reap_process(pid, status)` for the listed ones: entry popped, `reap` event with the decoded status,
`Process.stop()` finds the process gone and signals nothing.  Only then `manage_processes` runs, finds every
listed worker running and spawns what is missing (C01Conv).

* `C01_arbiter_reaps_listed_dead` — the effect of `Arbiter.reap_processes`, exactly;
* `C01_check_reaps_dead_then_spawns` — the whole `check` step: the log grows by exactly the reap observations /
  events of the zombies followed by one spawn; the watcher lists the old running workers, in order, then the new pid;
  the check is parked on one timer;
* `C01_check_reaps_dead_none_missing` — the same when enough workers are left: the check completes at once;
* **`C01_converges_after_deaths`** — `check` + exactly `N - m` timer firings (`m` = listed workers that run) end idle
  with exactly `N` running workers: the `m` old ones, in their order, then `N - m` fresh pids;
* `C01_converged_after_deaths_stays` — further checks change neither the list nor the log;
* `C01_converges_keeps_workers` — the pid-tracked form of C01Conv's theorem (no deaths).

## B. surplus ("accepted decr / set numprocesses")

Setting (`Idle u s`, `SurplusOk u N w s`): the watcher lists `m > N` pairwise different pids, all running, each with
its `Process` object (no kill in flight, exit code not cached); `stop_children` off, no hooks, the stop signal a real
terminating signal other than SIGKILL, `graceful_timeout > 0`; the kernel is still and workers have no children of their
own (`Kernel.Base`); the workers to be removed exit at once on the stop signal (`Kernel.Obed`; the others may behave
as they like).  `manage_processes` sorts the `Process` objects by start time, newest first (stable), and calls
`kill_process` for all but the first `N` under one `gen.multi` (`surplus`).

* `C01_surplus_is_the_oldest` — which workers go: `m - N` of the listed ones, pairwise different, each started no later
  than any worker that stays;
* `C01_check_stops_surplus` — the whole `check` step: exactly these get the stop signal (one `kill` event each), die and
  are collected within the step (`obedLogs`); they leave the dict without a `reap` event (`manage_processes` pops them
  itself); the `N` newest stay listed in their order, running; nothing is in flight afterwards;
* `C01_surplus_converged_stays` — … and any number of further checks changes neither the list nor the log.
Workers that *ignore* the stop signal make the check park on 100 ms timers (one `kill_process` coroutine each, then
SIGKILL after `⌈graceful/100 ms⌉` polls): the machinery for that polling phase is Core/StopRunG.lean (`stop`, `rm`,
`quit`), stated for the `kill_processes` of a whole watcher; it is not instantiated for the surplus branch here.
-/
namespace Circus.Core

/-- **`Arbiter.reap_processes` with dead workers listed**: in a kernel that is still but for zombies, with one
    registered watcher (active, no hooks) whose dict `L` lists running workers and zombies, the `waitpid(-1)`
    loop collects every zombie child of the daemon in ascending pid order; the log grows by exactly
    `arbReapObs`: per zombie the `waitpid` observation with its wait status and — for a listed one — the `reap`
    event with the decoded exit code; the dict afterwards is `L` without the dead, order kept; the kernel is
    still (no zombie left), pid counter and clock unchanged, every process that was not a zombie untouched, every
    zombie gone; nothing of the control state (frames, timers, futures, ready queue, slot) is touched. -/
theorem C01_arbiter_reaps_listed_dead (u N : Nat) (L : List Nat) (s : State) (hd : DatZ u N L s)
    (hwat : s.a.watchers = [u]) :
    ∃ K O w, s.ws = [w] ∧
      arbReapProcesses s = ((), { s with k := K, objs := O, ws := [{ w with pids := L.filter s.k.runs }],
                                         log := s.log ++ arbReapObs s.a w.name L s.k.statusOf s.k.zombies }) ∧
      K.Still ∧ K.nextPid = s.k.nextPid ∧ K.now = s.k.now ∧ (∀ q, q ∉ s.k.zombies → K.find q = s.k.find q) ∧
      (∀ z ∈ s.k.zombies, ∃ p, K.find z = some p ∧ p.st = .gone) :=
  arbReapProcesses_zombies u N L s hd hwat

/-- **the check reaps exactly the dead, then spawns the first missing worker**: from an idle state whose (only,
    active, respawning) watcher lists `L` — running workers and zombies — with fewer than `N` of them running,
    the `check` step ends parked in `spawn_processes` (`Parked`: four frames, one timer, the slot taken, the
    future of the check pending); the watcher then lists the workers that ran before, in their order, followed
    by the kernel's next pid, all running in a still kernel; and the log of the step is exactly: for every zombie
    child (ascending pid) its `waitpid` observation and, if listed, its `reap` event — then one `spawn`
    observation and its event.  No signal, no other event. -/
theorem C01_check_reaps_dead_then_spawns (u N : Nat) (L : List Nat) (s : State) (hi : Idle u s) (hd : DatZ u N L s)
    (hm : (L.filter s.k.runs).length < N) :
    Parked u s.nextId (s.nextId + 4) (N - (L.filter s.k.runs).length - 1) (step s .check) ∧
    DatL u N (L.filter s.k.runs ++ [s.k.nextPid]) (step s .check) ∧ s.k.nextPid < (step s .check).k.nextPid ∧
    ∃ w wid, s.ws = [w] ∧ (step s .check).log = s.log ++ arbReapObs s.a w.name L s.k.statusOf s.k.zombies ++
      (Obs.spawn s.k.nextPid w.name wid :: evs s.a w.name "spawn" (some s.k.nextPid) "-") :=
  check_reaps_parks u N L s hi hd hm

/-- **… and when exactly `N` listed workers run** the check reaps the dead and completes within the step:
    nothing in flight, the slot free, the `N` running workers listed, no spawn. -/
theorem C01_check_reaps_dead_none_missing (u N : Nat) (L : List Nat) (s : State) (hi : Idle u s) (hd : DatZ u N L s)
    (hm : (L.filter s.k.runs).length = N) :
    Idle u (step s .check) ∧ DatL u N (L.filter s.k.runs) (step s .check) ∧ (step s .check).k.nextPid = s.k.nextPid ∧
    ∃ w, s.ws = [w] ∧ (step s .check).log = s.log ++ arbReapObs s.a w.name L s.k.statusOf s.k.zombies :=
  check_reaps_idle u N L s hi hd hm

/-- **convergence after deaths**: from an idle state in which the (only) watcher is active with `numprocesses = N`
    and lists `L`, of which `m = |L.filter runs| ≤ N` run and the others are dead (zombies, any status), the
    periodic check followed by exactly `N - m` timer firings ends in an idle state — no frame, timer, future or
    ready callback, the slot free, the daemon not hung, the kernel still (no zombie) — in which the watcher is
    still active and lists exactly `N` pids, all running: the `m` workers that ran before, in their order,
    followed by `N - m` fresh pids (not below the pid counter of the start state).  No dead worker stays listed,
    no live one is lost. -/
theorem C01_converges_after_deaths (u N : Nat) (L : List Nat) (s : State) (hi : Idle u s) (hd : DatZ u N L s)
    (hm : (L.filter s.k.runs).length ≤ N) :
    let s' := run s (.check :: List.replicate (N - (L.filter s.k.runs).length) .wake)
    (∃ w news, s'.ws = [w] ∧ w.uid = u ∧ w.status = .active ∧ w.np = (N : Int) ∧
        w.pids = L.filter s.k.runs ++ news ∧ w.pids.length = N ∧ (∀ p ∈ news, s.k.nextPid ≤ p) ∧
        ∀ pid ∈ w.pids, ∃ p, s'.k.find pid = some p ∧ p.st = .run) ∧
    s'.frames = [] ∧ s'.sleepers = [] ∧ s'.tops = [] ∧ s'.ready = [] ∧ s'.a.slot = none ∧ s'.blocked = false ∧
    s'.k.Still := by
  intro s'
  obtain ⟨hi', news, ⟨w, h1, h2, h3, h4, h5, h6⟩, hn, hfresh⟩ := check_converges_deaths u N L s hi hd hm
  refine ⟨⟨w, news, h1, h2.uid, h2.status, h2.np, h3, ?_, hfresh, by rw [h3]; exact h6⟩,
    hi'.frames, hi'.sleepers, hi'.tops, hi'.ready, hi'.slot, h4, h5⟩
  rw [h3, List.length_append, hn]
  omega

/-- the same as an invariant pair, for chaining -/
theorem C01_converges_after_deaths_idle (u N : Nat) (L : List Nat) (s : State) (hi : Idle u s) (hd : DatZ u N L s)
    (hm : (L.filter s.k.runs).length ≤ N) :
    Idle u (run s (.check :: List.replicate (N - (L.filter s.k.runs).length) .wake)) ∧
    ∃ news, DatL u N (L.filter s.k.runs ++ news) (run s (.check :: List.replicate (N - (L.filter s.k.runs).length) .wake)) ∧
      news.length = N - (L.filter s.k.runs).length ∧ ∀ p ∈ news, s.k.nextPid ≤ p :=
  check_converges_deaths u N L s hi hd hm

/-- **converged stays converged, pid by pid**: in an idle state whose watcher lists exactly `N` running workers
    `l`, any number of further periodic checks leaves exactly the same list, nothing in flight, and writes
    nothing into the log — no spawn, no signal, no event. -/
theorem C01_converged_after_deaths_stays (u N n : Nat) (l : List Nat) (hN : l.length = N) (s : State) (hi : Idle u s)
    (hd : DatL u N l s) :
    Idle u (run s (List.replicate n .check)) ∧ DatL u N l (run s (List.replicate n .check)) ∧
    (run s (List.replicate n .check)).log = s.log :=
  checks_stayL u N l hN n s hi hd

/-- **convergence keeps the workers that run** (no deaths; the pid-tracked form of `C01_converges_after_check`):
    `check` + `N - |l|` timer firings end idle with the list `l ++ news`, `news` fresh. -/
theorem C01_converges_keeps_workers (u N : Nat) (l : List Nat) (s : State) (hi : Idle u s) (hd : DatL u N l s)
    (hm : l.length ≤ N) :
    Idle u (run s (.check :: List.replicate (N - l.length) .wake)) ∧
    ∃ news, DatL u N (l ++ news) (run s (.check :: List.replicate (N - l.length) .wake)) ∧
      news.length = N - l.length ∧ ∀ p ∈ news, s.k.nextPid ≤ p :=
  check_convergesL u N l s hi hd hm

/-! ### non-vacuity: three workers (each with a forked child), then worker 100 exits with code 1 and worker 104
    is killed from outside with SIGKILL -/

deriving instance DecidableEq for HookSpec
deriving instance DecidableEq for Watcher

def c01sD : State := run c01s0 [.check, .wake, .wake, .wake, .die 100 256, .xkill 104 9]

theorem c01sD_idle : Idle 1 c01sD :=
  ⟨by decide +kernel, by decide +kernel, by decide +kernel, by decide +kernel, by decide +kernel, by decide +kernel,
   by decide +kernel, by decide +kernel, by decide +kernel⟩

theorem c01sD_stillZ : c01sD.k.StillZ :=
  ⟨by decide +kernel, by decide +kernel, by decide +kernel, by decide +kernel, by decide +kernel, by decide +kernel,
   by decide +kernel⟩

theorem c01sD_datZ : DatZ 1 3 [100, 102, 104] c01sD := by
  refine ⟨{ name := "a", np := 3, status := .active, warmup := 700, uid := 1, pids := [100, 102, 104] }, by decide +kernel,
    ⟨rfl, rfl, rfl, rfl, rfl, rfl, rfl, by decide⟩, rfl, by decide +kernel, c01sD_stillZ, ?_⟩
  intro pid hp
  simp only [List.mem_cons, List.mem_nil_iff, or_false] at hp
  rcases hp with rfl | rfl | rfl
  · obtain ⟨p, hf, hs⟩ := Kernel.find_of_stOf (by decide +kernel : c01sD.k.stOf 100 = some .zombie)
    exact ⟨p, hf, Or.inr hs⟩
  · obtain ⟨p, hf, hs⟩ := Kernel.find_of_stOf (by decide +kernel : c01sD.k.stOf 102 = some .run)
    exact ⟨p, hf, Or.inl hs⟩
  · obtain ⟨p, hf, hs⟩ := Kernel.find_of_stOf (by decide +kernel : c01sD.k.stOf 104 = some .zombie)
    exact ⟨p, hf, Or.inr hs⟩

-- the hypotheses hold: one of the three listed workers runs, two are zombies (statuses 256 = exit 1, 9 = SIGKILL)
example : [100, 102, 104].filter c01sD.k.runs = [102] ∧ c01sD.k.zombies = [100, 104] ∧
    c01sD.k.statusOf 100 = 256 ∧ c01sD.k.statusOf 104 = 9 := by decide +kernel

example : ∃ w news, (run c01sD (.check :: List.replicate 2 .wake)).ws = [w] ∧ w.pids = [102] ++ news ∧ w.pids.length = 3 := by
  have h := C01_converges_after_deaths 1 3 [100, 102, 104] c01sD c01sD_idle c01sD_datZ (by decide +kernel)
  have e : [100, 102, 104].filter c01sD.k.runs = [102] := by decide +kernel
  rw [e] at h
  obtain ⟨⟨w, news, h1, _, _, _, h5, h6, _⟩, _⟩ := h
  exact ⟨w, news, h1, h5, h6⟩

-- the same run evaluated: both dead workers reaped and announced (exit code 1, signal -9), 102 kept, 106 and 108 new
example : (run c01sD [.check]).ws.map (·.pids) = [[102, 106]] ∧
    ((run c01sD [.check]).log.drop c01sD.log.length).map showObs =
      ["o reap 100 256", "o ev 97 reap 100 1", "o reap 104 9", "o ev 97 reap 104 -9", "o spawn 106 97 1",
       "o ev 97 spawn 106 -"] ∧
    (run c01sD [.check, .wake, .wake]).ws.map (fun w => (w.pids, w.status)) = [([102, 106, 108], .active)] ∧
    (run c01sD [.check, .wake, .wake]).frames.length = 0 ∧ (run c01sD [.check, .wake, .wake]).sleepers.length = 0 ∧
    (run c01sD [.check, .wake, .wake]).a.slot = none ∧
    (run c01sD [.check, .wake, .wake, .check, .check]).log.length = (run c01sD [.check, .wake, .wake]).log.length := by
  decide +kernel

/-! ## B. surplus -/

/-- **which workers a surplus check removes**: with `m` listed workers (each with its `Process` object, pids pairwise
    different) and `N ≤ m` wanted, `surplus` consists of listed workers, pairwise different, exactly `m - N` of them;
    exactly `N` stay; and every worker that stays was started no earlier than any worker that goes (**oldest first**) -/
theorem C01_surplus_is_the_oldest (objs : List PObj) (pids : List Nat) (N : Nat)
    (h : ∀ pid ∈ pids, ∃ o, objs.find? (fun x => decide (x.pid = pid)) = some o) (hnd : pids.Nodup) (hN : N ≤ pids.length) :
    (∀ p ∈ surplus objs pids N, p ∈ pids) ∧ (surplus objs pids N).Nodup ∧ (surplus objs pids N).length = pids.length - N ∧
    (pids.filter (fun p => decide (p ∉ surplus objs pids N))).length = N ∧
    ∀ kept ∈ pids, kept ∉ surplus objs pids N → ∀ gone ∈ surplus objs pids N,
      ∀ ok og, objs.find? (fun x => decide (x.pid = kept)) = some ok → objs.find? (fun x => decide (x.pid = gone)) = some og →
        og.started ≤ ok.started :=
  ⟨surplus_sub objs pids N h, surplus_nodup objs pids N h hnd, surplus_length objs pids N h,
   kept_length objs pids N h hnd hN, surplus_oldest objs pids N⟩

/-- **the check stops exactly the surplus, oldest first, and is done within the step**: from an idle state whose
    (only, active) watcher lists `m > N = numprocesses` running workers, the surplus ones obeying the stop signal,
    the `check` step ends idle — no frame, timer, future, ready callback, the slot free; the watcher lists exactly the
    workers outside `surplus`, in their old order, all running in a still kernel; the log of the step is exactly
    `obedLogs`: per surplus worker, in sort order, the stop signal, its `kill` event and the `waitpid` that collects
    it — no spawn, no SIGKILL, no `reap` event; every surplus worker is gone from the kernel; no pid was allocated. -/
theorem C01_check_stops_surplus (u N : Nat) (w : Watcher) (s : State) (hi : Idle u s) (hd : SurplusOk u N w s)
    (hgt : N < w.pids.length) :
    Idle u (step s .check) ∧
    DatL u N (w.pids.filter (fun p => decide (p ∉ surplus s.objs w.pids N))) (step s .check) ∧
    (w.pids.filter (fun p => decide (p ∉ surplus s.objs w.pids N))).length = N ∧
    (step s .check).log = obedLogs s.a w (surplus s.objs w.pids N) s.log ∧
    (∀ q ∈ surplus s.objs w.pids N, (step s .check).k.GoneP q) ∧
    (step s .check).k.nextPid = s.k.nextPid := by
  obtain ⟨h1, h2, h3, h4, h5, _⟩ := check_surplus_obed u N w s hi hd hgt
  have hobj : ∀ pid ∈ w.pids, ∃ o, s.objs.find? (fun x => decide (x.pid = pid)) = some o := fun pid hp => by
    obtain ⟨_, o, ho, _⟩ := hd.procs pid hp; exact ⟨o, ho⟩
  exact ⟨h1, h2, kept_length s.objs w.pids N hobj hd.nodup (by omega), h3, h4, h5⟩

/-- **… and stays there**: after the check any number of further checks leaves the same `N` workers listed and
    running, nothing in flight, and adds nothing to the log -/
theorem C01_surplus_converged_stays (u N n : Nat) (w : Watcher) (s : State) (hi : Idle u s) (hd : SurplusOk u N w s)
    (hgt : N < w.pids.length) :
    Idle u (run s (.check :: List.replicate n .check)) ∧
    DatL u N (w.pids.filter (fun p => decide (p ∉ surplus s.objs w.pids N))) (run s (.check :: List.replicate n .check)) ∧
    (run s (.check :: List.replicate n .check)).log = obedLogs s.a w (surplus s.objs w.pids N) s.log :=
  check_surplus_stays u N n w s hi hd hgt

/-! ### non-vacuity: three workers started 700 ms apart, then numprocesses is 1 -/

def c01S0 : State := initState c01Cfg [{ spawnMs := 20 }] 0
def c01S1 : State := run c01S0 [.check, .wake, .wake, .wake]
def c01wS : Watcher := { name := "a", np := 1, status := .active, warmup := 700, uid := 1, pids := [100, 101, 102] }
/-- the converged state with the target lowered to 1 (as `set numprocesses` writes it) -/
def c01sS : State := { c01S1 with ws := [c01wS] }

theorem c01sS_idle : Idle 1 c01sS :=
  ⟨by decide +kernel, by decide +kernel, by decide +kernel, by decide +kernel, by decide +kernel, by decide +kernel,
   by decide +kernel, by decide +kernel, by decide +kernel⟩

theorem c01sS_ok : SurplusOk 1 1 c01wS c01sS where
  ws := rfl
  wok := ⟨rfl, rfl, rfl, rfl, rfl, rfl, rfl, by decide⟩
  tok := ⟨⟨rfl, rfl, rfl, by decide⟩, by decide, by decide⟩
  polls := by decide
  nodup := by decide
  blocked := by decide +kernel
  still := ⟨by decide +kernel, by decide +kernel, by decide +kernel, by decide +kernel, by decide +kernel, by decide +kernel⟩
  base := ⟨by decide +kernel, by decide +kernel, by decide +kernel, by decide +kernel, by decide +kernel⟩
  procs := by
    intro pid hp
    have : workerOkB c01sS pid = true := by
      simp only [c01wS, List.mem_cons, List.mem_nil_iff, or_false] at hp
      rcases hp with rfl | rfl | rfl <;> decide +kernel
    exact workerOkB_spec this
  obed := by
    intro pid hp
    have hs : surplus c01sS.objs c01wS.pids 1 = [101, 100] := by decide +kernel
    rw [hs] at hp
    have : c01sS.k.obedB pid = true := by
      simp only [List.mem_cons, List.mem_nil_iff, or_false] at hp
      rcases hp with rfl | rfl <;> decide +kernel
    exact Kernel.obedB_spec this

-- the lowered target is what the converged watcher differs in
example : c01S1.ws.map (fun w => (w.pids, w.np)) = [([100, 101, 102], 3)] ∧ c01sS.objs.map (fun o => (o.pid, o.started)) =
    [(100, 0), (101, 700), (102, 1400)] ∧ surplus c01sS.objs c01wS.pids 1 = [101, 100] := by decide +kernel

example : ∃ w', (step c01sS .check).ws = [w'] ∧ w'.pids = [102] := by
  obtain ⟨_, ⟨w', h1, _, h3, _⟩, _⟩ := C01_check_stops_surplus 1 1 c01wS c01sS c01sS_idle c01sS_ok (by decide)
  have hs : surplus c01sS.objs c01wS.pids 1 = [101, 100] := by decide +kernel
  rw [hs] at h3
  exact ⟨w', h1, h3⟩

-- the same step evaluated: 101 and 100 (the two oldest) signalled and collected, 102 stays; nothing in flight; the next check is silent
example : (run c01sS [.check]).ws.map (·.pids) = [[102]] ∧
    ((run c01sS [.check]).log.drop c01sS.log.length).map showObs =
      ["o sig 101 15 r", "o ev 97 kill 101 -", "o reap 101 15", "o sig 100 15 r", "o ev 97 kill 100 -", "o reap 100 15"] ∧
    (run c01sS [.check]).frames.length = 0 ∧ (run c01sS [.check]).sleepers.length = 0 ∧ (run c01sS [.check]).a.slot = none ∧
    (run c01sS [.check, .check]).log.length = (run c01sS [.check]).log.length := by
  decide +kernel

end Circus.Core
